#!/usr/bin/env python3
"""Assemble /verif/MANIFEST.json from checks/manifest.d/Cxx.json fragments."""
import glob, json, os, subprocess
V = os.path.dirname(os.path.dirname(os.path.abspath(__file__)))
props = [json.loads(l)["id"] for l in open(os.path.join(V, "properties.jsonl"))]
frags = {}
for f in sorted(glob.glob(os.path.join(V, "checks", "manifest.d", "C*.json"))):
    d = json.load(open(f)); frags[d["property_id"]] = d
na_reasons = json.load(open(os.path.join(V, "checks", "manifest.d", "not_applicable.json")))
checks = []
for p in props:
    if p in frags:
        d = dict(frags[p])
        d.setdefault("quick_cmd", "./check %s quick" % p)
        d.setdefault("thorough_cmd", "./check %s thorough" % p)
        d.setdefault("evidence_file", "/verif/evidence/%s.json" % p)
        d.setdefault("replay_cmd_template", "./check %s --replay {path}" % p)
        d.setdefault("engine", "lean4-model+correspondence")
        checks.append(d)
hooks = subprocess.run(["git", "-C", "/repo", "log", "--format=%H %s", "--grep=^verif hook"], capture_output=True, text=True).stdout.split("\n")
man = {
    "version": 1,
    "setup_cmd": "./setup.sh",
    "hooks": {
        "guard": "--cfg bindgen_verif",
        "enable": "RUSTFLAGS='--cfg bindgen_verif' (set by checks/common.py for every cargo build of /repo; hooks are inert unless BINDGEN_VERIF_LOG / BINDGEN_VERIF_HASH_SEED is set or verif:: functions are called)",
        "baseline_off_cmd": "cd /repo && cargo nextest run --workspace --no-fail-fast --tool-config-file pb:/w/lib/nextest.toml --profile pb --test-threads 8 --offline",
        "source_commits": [h.split()[0] for h in hooks if h.strip()],
        "add_only": True,
    },
    "engines": [
        {"name": "lean4-model+correspondence", "path": "/verif/lean, /verif/translator, /verif/harness, /verif/checks",
         "serves_properties": [c["property_id"] for c in checks],
         "kind_free_text": "Lean 4 theorems about executable models (lake project BindgenModel), model tables regenerated from /repo by translator/translate.py on every run, correspondence harness running model driver `bgmodel` and the implementation on the same inputs"},
    ],
    "checks": checks,
    "not_applicable": [{"property_id": p, "reason": na_reasons.get(p, "check not built yet in this session (work in progress; see DESIGN.md section 5)")} for p in props if p not in frags],
    "notes": "All checks: ./check <Cxx> quick|thorough; replays under /verif/replays; known findings in /verif/known_findings.json; design in DESIGN.md.",
}
json.dump(man, open(os.path.join(V, "MANIFEST.json"), "w"), indent=1)
print("checks:", [c["property_id"] for c in checks])
