#!/usr/bin/env python3
"""Resolve the routine conflicts of merging a builder branch (run in /verif during a conflicted merge):
   harness/src/lib.rs   -> union of `pub mod` lines
   known_findings.json  -> union of findings (property,id) and fixed strings
   lean/props_index.json-> union of keys (theirs wins for their own keys)
   lean/BindgenModel.lean -> union of import lines
   lean/Main.lean       -> ours + the import lines and match arms given on the command line:
                           resolve_merge.py 'import X' '  | "op" :: rest => (st, some (Driver.Cxx.handle rest))' ...
"""
import json, subprocess, sys, re

def show(stage, path):
    r = subprocess.run(["git", "show", ":%d:%s" % (stage, path)], capture_output=True, text=True)
    return r.stdout if r.returncode == 0 else None

def conflicted():
    return subprocess.run(["git", "diff", "--name-only", "--diff-filter=U"], capture_output=True, text=True).stdout.split()

files = conflicted()
for f in files:
    ours, theirs = show(2, f), show(3, f)
    if f == "harness/src/lib.rs":
        lines = ours.splitlines()
        for l in theirs.splitlines():
            if l.startswith("pub mod") and l not in lines:
                lines.append(l)
        open(f, "w").write("\n".join(lines) + "\n")
    elif f == "known_findings.json":
        a, b = json.loads(ours), json.loads(theirs)
        seen = {(x["property"], x["id"]) for x in a["findings"]}
        for x in b["findings"]:
            if (x["property"], x["id"]) not in seen:
                a["findings"].append(x)
        for x in b.get("fixed", []):
            if x not in a["fixed"]:
                a["fixed"].append(x)
        json.dump(a, open(f, "w"), indent=1)
    elif f == "lean/props_index.json":
        a, b = json.loads(ours), json.loads(theirs)
        base = json.loads(show(1, f) or "{}")
        for k, v in b.items():
            if k not in a or (k in base and base[k] == a[k]) or k not in base:
                if k not in a or base.get(k) == a.get(k):
                    a[k] = v
        json.dump(a, open(f, "w"), indent=1)
    elif f == "lean/BindgenModel.lean":
        lines = ours.splitlines()
        for l in theirs.splitlines():
            if l.startswith("import") and l not in lines:
                lines.append(l)
        open(f, "w").write("\n".join(lines) + "\n")
    elif f == "lean/Main.lean":
        text = ours
        imports = [a for a in sys.argv[1:] if a.startswith("import ")]
        arms = [a for a in sys.argv[1:] if not a.startswith("import ")]
        for i in imports:
            if i not in text:
                text = text.replace("/-! `bgmodel`", i + "\n/-! `bgmodel`", 1)
        for arm in arms:
            if arm.strip() not in text:
                text = text.replace('  | _ => (st, some "bad-op")', arm + '\n  | _ => (st, some "bad-op")', 1)
        open(f, "w").write(text)
    elif f in (".gitignore",):
        lines = ours.splitlines()
        for l in theirs.splitlines():
            if l not in lines:
                lines.append(l)
        open(f, "w").write("\n".join(lines) + "\n")
    elif f.startswith("evidence/") or f == "MANIFEST.json" or f == "harness/Cargo.toml" or f == "checks/common.py" or f == "tools/BUILDER.md":
        open(f, "w").write(ours)
    else:
        print("UNRESOLVED", f)
        continue
    subprocess.run(["git", "add", f])
print("remaining:", conflicted())
