#!/usr/bin/env python3
"""Record confirmed seeded changes under /verif/seeded/<Cxx>-<i>/ from /tmp/mut-<cxx>/out/<i> and
the pipeline log /tmp/seedpipe_<cxx>.txt (tools/seed_pipeline.sh).  usage: seed_record.py <cxx> [override.json]"""
import json, os, re, shutil, sys
p = sys.argv[1]; P = p.upper()
LOG = os.environ.get('SEEDLOG', '/tmp/seedpipe_%s.txt' % p)
MUT = os.environ.get('MUTDIR', '/tmp/mut-%s' % p)
OFF = int(os.environ.get('OFFSET', '0'))
log = open(LOG).read() if os.path.exists(LOG) else ''
over = json.load(open(sys.argv[2])) if len(sys.argv) > 2 else {}
blocks = re.split(r'(?m)^(?=%s-\d confirm)' % P, log)
for blk in blocks:
    m = re.match(r'%s-(\d) confirm \| demo unpatched: (.*?) \| demo patched: (.*?) \| (.*?) \| (.*)' % P, blk)
    if not m: continue
    i, d0, d1, suite, lib = m.groups()
    src = '%s/out/%s' % (MUT, i)
    dst = '/verif/seeded/%s-%s' % (P, int(i) + OFF)
    os.makedirs(dst + '/demo', exist_ok=True)
    shutil.copy(src + '/patch.diff', dst + '/patch.diff')
    if os.path.exists(src + '/notes.md'): shutil.copy(src + '/notes.md', dst + '/notes.md')
    for root, dirs, files in os.walk(src):
        dirs[:] = [d for d in dirs if d not in ('target', 'sample-output', '.git')]
        for f in files:
            fp = os.path.join(root, f)
            rel = os.path.relpath(fp, src)
            if rel in ('patch.diff', 'notes.md') or os.path.islink(fp) or not os.path.exists(fp) or os.path.getsize(fp) > 150000 or f.endswith(('.o', '.rlib', '.bin', '.rmeta', '.so', '.a', '.log')): continue
            out = os.path.join(dst, 'demo', rel); os.makedirs(os.path.dirname(out), exist_ok=True); shutil.copy(fp, out)
    viol = re.findall(r'^VIOLATION .*$', blk, re.M)
    first = re.search(r'first: (.*)', blk); inp = re.search(r'input: (.*)', blk)
    caught = bool(viol)
    with_input = any('no-failing-input-found' not in v for v in viol)
    confirmed = d0.startswith('PASS') and d1.startswith('FAIL') and '617 passed, 3 failed' in suite and '31 passed' in lib
    notes = open(dst + '/notes.md').read() if os.path.exists(dst + '/notes.md') else ''
    meta = {
        "property": P, "seed": "%s-%s" % (P, int(i) + OFF),
        "breaks": "see notes.md (written by the independent sub-agent that produced the change)",
        "needs_to_manifest": (re.search(r'(?is)(needs?|manifest)[^\n]*\n(.*?)(\n#|\Z)', notes).group(0)[:900] if re.search(r'(?i)(need|manifest)', notes) else notes[:600]),
        "confirmed_by_lead": {
            "patched_tree_compiles_and_suite_unchanged": suite.strip() + ' ; ' + lib.strip(),
            "demo_unpatched": d0.strip(), "demo_patched": d1.strip(), "confirmed": confirmed,
            "commands": ["git apply patch.diff (scratch worktree /tmp/mut-%s)" % p,
                         "cargo nextest run -p bindgen-tests --no-fail-fast --offline --test-threads 4",
                         "cargo test -p bindgen --offline --lib", "bash demo.sh (unpatched, then patched)",
                         "tools/seedtest.sh %s /tmp/mut-%s patch.diff  (= VERIF_REPO=<patched worktree> ./check %s quick in a scratch copy of /verif)" % (P, p, P)],
        },
        "check_result": {"caught": caught, "with_failing_input": with_input, "violation_lines": viol[:3],
                         "first_violation": first.group(1)[:300] if first else None,
                         "replay_input_excerpt": inp.group(1)[:400] if inp else None},
    }
    meta.update(over.get(i, {}))
    json.dump(meta, open(dst + '/meta.json', 'w'), indent=1)
    print(P, int(i) + OFF, 'confirmed' if confirmed else 'NOT-CONFIRMED', 'caught' if caught else 'MISSED', 'input' if with_input else 'no-input')
