#!/usr/bin/env python3
"""Regenerate the seeded-change table of DESIGN.md (between the seeded-table markers) from seeded/*/meta.json."""
import json, glob, re, os
rows = []
for d in sorted(glob.glob('/verif/seeded/C*-*'), key=lambda p: (os.path.basename(p).split('-')[0], int(os.path.basename(p).split('-')[1]))):
    sid = os.path.basename(d)
    if not os.path.exists(d + '/meta.json'): continue
    m = json.load(open(d + '/meta.json'))
    notes = open(d + '/notes.md').read() if os.path.exists(d + '/notes.md') else ''
    t = ''
    for l in notes.splitlines():
        if l.strip().startswith('#'):
            t = l.strip('# ').strip(); break
    if not t: t = notes.strip().splitlines()[0][:120] if notes.strip() else ''
    t = re.sub(r'^(C\d\d )?(demo |mutant|Change|change|Mutant|seed)\s*\d*\s*[—:-]*\s*', '', t)
    files = sorted(set(re.findall(r'^\+\+\+ b/(\S+)', open(d + '/patch.diff').read(), re.M)))
    cr = m.get('check_result', {})
    fv = (cr.get('first_violation') or '')
    kind = fv.split('|')[0].strip()
    what = fv.split('|', 1)[1].strip()[:110] if '|' in fv else ''
    if not cr.get('caught'): kind = 'MISSED'
    rows.append((sid, t[:110].replace('|', '/'), ', '.join(f.replace('bindgen/', '') for f in files),
                 kind + (' (failing input)' if cr.get('with_failing_input') else (' (no-failing-input-found)' if cr.get('caught') else '')), what.replace('|', '/')))
out = ['| seed | change (title of the sub-agent\'s notes.md) | files | first VIOLATION of `./check <Cxx> quick` | what broke |', '|---|---|---|---|---|']
for r in rows: out.append('| %s | %s | %s | %s | %s |' % r)
table = '\n'.join(out) + '\n'
p = '/verif/DESIGN.md'
s = open(p).read()
B, E = '<!-- seeded-table-begin -->\n', '<!-- seeded-table-end -->\n'
if B in s:
    s = s[:s.index(B) + len(B)] + table + s[s.index(E):]
else:
    i = s.index("| seed | change (title of the sub-agent's notes.md)")
    j = s.index('\n\n', i)
    s = s[:i] + B + table + E + s[j + 1:]
open(p, 'w').write(s)
n = len(rows); caught = sum(1 for r in rows if 'MISSED' not in r[3]); inp = sum(1 for r in rows if '(failing input)' in r[3])
print('%d seeds, %d caught, %d with failing input' % (n, caught, inp))
