#!/usr/bin/env python3
"""Re-run detection of one seeded change after a check was strengthened and rewrite its block in
/tmp/seedpipe_<cxx>.txt.   usage: seed_redetect.py <cxx> <i>"""
import json, os, re, subprocess, sys, glob
p, i = sys.argv[1], sys.argv[2]; P = p.upper()
W, V, OUT = '/tmp/mut-%s' % p, '/tmp/vt-%s' % p, '/tmp/seedpipe_%s.txt' % p
for f in glob.glob('%s/replays/%s_quick_1_*.json' % (V, P)): os.remove(f)
head = subprocess.run(['git', '-C', '/verif', 'rev-parse', 'HEAD'], capture_output=True, text=True).stdout.strip()
r = subprocess.run(['tools/seedtest.sh', P, W, '%s/out/%s/patch.diff' % (W, i), V], capture_output=True, text=True, cwd='/verif', env=dict(os.environ, SEED_COMMIT=head))
det = r.stdout
f = '%s/replays/%s_quick_1_0.json' % (V, P)
if os.path.exists(f):
    d = json.load(open(f))
    det += '   first: %s | %s\n' % (d['kind'], d['broken'][:200].replace('\n', ' '))
    det += '   input: %s\n' % str(d['input'])[:400].replace('\n', ' ')
log = open(OUT).read()
blocks = re.split(r'(?m)^(?=%s-\d confirm)' % P, log)
out = []
for b in blocks:
    if b.startswith('%s-%s confirm' % (P, i)):
        first = b.split('\n', 1)[0]
        tail = '\nALLDONE\n' if 'ALLDONE' in b else '\n'
        b = first + '\n' + det.rstrip('\n') + '\n   (re-detected at /verif %s)' % head[:8] + tail
    out.append(b)
open(OUT, 'w').write(''.join(out))
print('\n'.join(l for l in det.splitlines() if not l.startswith('KNOWN'))[:1500])
