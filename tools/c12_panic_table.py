#!/usr/bin/env python3
"""Maintenance aid for lean/BindgenModel/Model/PanicSites.lean (C12).

  tools/c12_panic_table.py            print rows for the panic sites that have NO row yet
  tools/c12_panic_table.py --all      print the whole table from scratch (used once, then hand-edited)

The committed table is hand-maintained: this tool only proposes a default class per file and the
guard justifications below for the modelled decision core; review every proposed row.
"""
import os, re, sys
V = os.path.dirname(os.path.dirname(os.path.abspath(__file__)))
sys.path.insert(0, os.path.join(V, "translator"))
sys.path.insert(0, os.path.join(V, "translator", "extract"))
import sites

# (file, ctx, substring of snippet) -> (class, justification)
GUARDS = [
    ("features.rs", "default", "wrapped_rustc.next().unwrap()", "guard", "rustc_wrapper.iter().chain(iter::once(&rustc)) yields at least `rustc`; compiled only without feature __cli"),
    ("features.rs", "latest_edition", "expect(", "guard", "every RustTarget is nightly or >= EARLIEST_STABLE_RUST (RustTarget::stable is the only constructor) and the first edition's minor <= earliestMinor: C12_latest_edition_exists"),
    ("features.rs", "new", "invalid edition", "constData", "parses the literal edition lists of define_rust_targets!; a bad literal fails on the first call for every input (caught by any test)"),
    ("features.rs", "<top>", "", "constEval", "const initialiser of LATEST/EARLIEST_STABLE_RUST: evaluated by rustc at compile time"),
    ("lib.rs", "dump_preprocessed_input", "", "optionPath", "Builder::dump_preprocessed_input (explicit API call): child.stdout was requested with Stdio::piped()"),
    ("lib.rs", "ensure_libclang_is_loaded", "", "environment", "libclang cannot be loaded: environment failure by design ('Unable to find libclang')"),
    ("lib.rs", "rust_to_clang_target", "", "environment", "argument is $TARGET or the compile-time HOST_TARGET; panics only for an empty $TARGET (split_terminator yields nothing); indices 0..3 guarded by triple.resize(4)"),
    ("lib.rs", "find_effective_target", "", "guard", "inside `if opt.starts_with(\"--target=\")`: split('=') yields at least two pieces"),
    ("lib.rs", "generate", "get_library().unwrap()", "guard", "ensure_libclang_is_loaded() ran first and installed the library for this thread"),
    ("lib.rs", "generate", "to_str().unwrap()", "guard", "UnsavedFile names are CStrings built from Rust &str (valid UTF-8)"),
    ("lib.rs", "format_tokens", "", "guard", "stdin/stdout were requested with Stdio::piped(); the writer thread only writes"),
    ("lib.rs", "fmt", "", "guard", "Vec<u8> writes cannot fail; format_tokens falls back to the token text when rustfmt output is not UTF-8"),
    ("lib.rs", "parse", "assert_eq!", "guard", "with_module restores current_module on exit, so after the root visit it is the root again"),
    ("lib.rs", "", "", "builderApi", "builder / version helpers"),
    ("ir/context.rs", "resolve", "collected_typerefs", "guard", "resolve is only called after BindgenContext::gen ran resolve_typerefs (collected_typerefs = true)"),
    ("codegen/struct_layout.rs", "", "", "unmodelledCodegen", ""),
]
DEFAULTS = [
    (r"^verif\.rs$", "hookOnly"), (r"^extra_assertions\.rs$", "extraAssertMacro"),
    (r"^ir/analysis/", "unmodelledAnalysis"), (r"^ir/|^clang\.rs$|^parse\.rs$", "unmodelledParser"),
    (r"^codegen/", "unmodelledCodegen"), (r"^options/|^time\.rs$|^diagnostics\.rs$|^regex_set\.rs$|^deps\.rs$", "builderApi"),
    (r"^features\.rs$|^lib\.rs$", "builderApi"),
]


def classify(r):
    for f, ctx, sub, cls, why in GUARDS:
        if r["file"] == f and (not ctx or r["ctx"] == ctx) and sub in r["snippet"]:
            return cls, why
    for pat, cls in DEFAULTS:
        if re.search(pat, r["file"]):
            return cls, ""
    return "unmodelledParser", ""


def lean_str(s):
    return '"' + s.replace("\\", "\\\\").replace('"', '\\"') + '"'


def row(r):
    cls, why = classify(r)
    note = "%s %s: %s" % (r["file"], r["ctx"], why or r["snippet"][:70])
    return "  (%d, .%s, %s)," % (r["hash"], cls, lean_str(note))


def main():
    inv = sites.inventory("/repo")
    path = os.path.join(V, "lean", "BindgenModel", "Model", "PanicSites.lean")
    have = set()
    if os.path.exists(path) and "--all" not in sys.argv:
        have = set(int(x) for x in re.findall(r"^\s*\((\d{6,}),", open(path).read(), re.M))
    rows = [row(r) for r in inv["panic"] if r["hash"] not in have]
    print("\n".join(rows))
    print("-- %d rows" % len(rows), file=sys.stderr)


if __name__ == "__main__":
    main()
