#!/bin/bash
# usage: seed_rerun.sh <seed id, e.g. C14-1> [...]   — re-run the quick check of each recorded seeded change
# (/verif/seeded/<id>/patch.diff) against a scratch worktree of /repo; prints one verdict line per seed and
# updates meta.json["check_result"].  Scratch: /tmp/seedrepo$SEED_SLOT (repo worktree), /tmp/seedvt$SEED_SLOT (verif worktree); both removed at the end.
# Several instances can run side by side with different SEED_SLOT values.
R=/tmp/seedrepo${SEED_SLOT:-}; V=/tmp/seedvt${SEED_SLOT:-}
git -C /repo worktree remove --force $R 2>/dev/null; git -C /repo worktree add -q --detach $R HEAD || exit 2
git -C /verif worktree remove --force $V 2>/dev/null; git -C /verif worktree add -q --detach $V HEAD || exit 2
mkdir -p $V/lean && cp -a /verif/lean/.lake $V/lean/ 2>/dev/null
for id in "$@"; do
  P=${id%%-*}
  rm -f $V/replays/${P}_quick_1_*.json
  out=$(SEED_COMMIT=$(git -C /verif rev-parse HEAD) /verif/tools/seedtest.sh $P $R /verif/seeded/$id/patch.diff $V 2>&1 | grep -v "^KNOWN")
  python3 - "$id" "$V" "$out" <<'PY'
import json, sys, os, glob
sid, V, out = sys.argv[1:4]
P = sid.split('-')[0]
viol = [l for l in out.splitlines() if l.startswith('VIOLATION')]
first = inp = None
f = '%s/replays/%s_quick_1_0.json' % (V, P)
if os.path.exists(f):
    d = json.load(open(f)); first = '%s | %s' % (d['kind'], d['broken'][:300].replace('\n', ' ')); inp = str(d['input'])[:400]
mp = '/verif/seeded/%s/meta.json' % sid
m = json.load(open(mp))
head = os.popen('git -C /verif rev-parse --short HEAD').read().strip()
m['check_result'] = {'caught': bool(viol), 'with_failing_input': any('no-failing-input-found' not in v for v in viol), 'violation_lines': viol[:3],
                     'first_violation': first, 'replay_input_excerpt': inp, 'verif_commit': head}
json.dump(m, open(mp, 'w'), indent=1)
print(sid, 'caught' if viol else 'MISSED', 'input' if m['check_result']['with_failing_input'] else 'no-input', '|', (first or '')[:160])
PY
done
git -C /repo worktree remove --force $R; git -C /verif worktree remove --force $V
