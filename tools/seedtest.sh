#!/bin/sh
# usage: seedtest.sh <Cxx> <scratch repo worktree> <patch.diff> [verif worktree]
# Applies the patch in the scratch repo worktree, runs the quick check of a scratch copy of /verif
# against it (VERIF_REPO), prints the verdict, and undoes the patch.
P=$1; R=$2; D=$3; V=${4:-/tmp/vt}
[ -d "$V" ] || git -C /verif worktree add -q --detach "$V" HEAD
git -C "$V" checkout -q -- . 2>/dev/null; git -C "$V" checkout -q --detach "${SEED_COMMIT:-$(git -C /verif rev-parse HEAD)}" || { echo "VERIF-WORKTREE-STALE"; exit 2; }
git -C "$R" checkout -q -- . && git -C "$R" apply "$D" || { echo "APPLY-FAILED $D"; exit 2; }
(cd "$V" && VERIF_REPO="$R" ./check "$P" quick > "$V/seed_$P.log" 2>&1; echo "rc=$?" >> "$V/seed_$P.log")
grep -E "^VIOLATION|^OK|^KNOWN|^rc=" "$V/seed_$P.log" | cut -c1-220
git -C "$R" checkout -q -- .
