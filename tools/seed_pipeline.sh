#!/bin/bash
# usage: [MUTDIR=/tmp/m2-cxx SEEDLOG=/tmp/seedpipe2_cxx.txt] seed_pipeline.sh <cxx lower-case>   — confirm and test the three seeded changes in /tmp/mut-<cxx>/out/{1,2,3}
p=$1; P=$(echo $p | tr a-z A-Z); W=${MUTDIR:-/tmp/mut-$p}; V=/tmp/vt-$p; OUT=${SEEDLOG:-/tmp/seedpipe_$p.txt}
: > $OUT
export CARGO_TARGET_DIR=$W/target
if [ ! -d $V ]; then
  git -C /verif worktree add -q --detach $V HEAD
  mkdir -p $V/lean && cp -a /verif/lean/.lake $V/lean/ 2>/dev/null
fi
for i in 1 2 3; do
  [ -f $W/out/$i/patch.diff ] || continue
  cd $W && git checkout -q -- .
  a=$(bash out/$i/demo.sh 2>&1 | tail -1)
  git apply out/$i/patch.diff || { echo "$P-$i APPLY-FAILED" >> $OUT; continue; }
  r1=$(cargo nextest run -p bindgen-tests --no-fail-fast --offline --test-threads 4 2>&1 | grep -E "Summary" | tr -s ' ')
  r2=$(cargo test -p bindgen --offline --lib 2>&1 | grep "test result" | tr '\n' ';')
  b=$(bash out/$i/demo.sh 2>&1 | tail -1)
  git checkout -q -- .
  echo "$P-$i confirm | demo unpatched: $a | demo patched: $b | $r1 | $r2" >> $OUT
  cd /verif && SEED_COMMIT=$(git -C /verif rev-parse HEAD) tools/seedtest.sh $P $W $W/out/$i/patch.diff $V >> $OUT 2>&1
  for f in $V/replays/${P}_quick_1_0.json; do [ -f $f ] && python3 -c "
import json
d=json.load(open('$f')); print('   first:', d['kind'], '|', d['broken'][:200].replace('\n',' ')); print('   input:', str(d['input'])[:400].replace('\n',' '))" >> $OUT; rm -f $V/replays/${P}_quick_1_*.json; done
done
rm -rf $W/target
echo ALLDONE >> $OUT
