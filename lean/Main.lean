import BindgenModel.Driver.C03
import BindgenModel.Driver.C09
import BindgenModel.Driver.C10
/-! `bgmodel`: one request per input line, one answer per output line. -/
open BindgenModel

def dispatch (line : String) : String :=
  match (line.trimAscii.toString.splitOn " ").filter (· ≠ "") with
  | "bf" :: rest => Driver.C03.handle rest
  | "reach" :: rest => Driver.C09.handle rest
  | "blk" :: rest => Driver.C10.handle rest
  | _ => "bad-op"

partial def loop (h : IO.FS.Stream) (out : IO.FS.Stream) : IO Unit := do
  let line ← h.getLine
  if line.isEmpty then return ()
  out.putStrLn (dispatch line)
  loop h out

def main : IO Unit := do
  let out ← IO.getStdout
  loop (← IO.getStdin) out
  out.flush
