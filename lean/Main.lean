import BindgenModel.Driver.C03
import BindgenModel.Driver.C07
import BindgenModel.Driver.C08
import BindgenModel.Driver.C05
import BindgenModel.Driver.C11
import BindgenModel.Driver.C12
import BindgenModel.Driver.C16
import BindgenModel.Driver.C17
import BindgenModel.Driver.C14
import BindgenModel.Driver.C13
import BindgenModel.Driver.C15
import BindgenModel.Driver.C18
import BindgenModel.Driver.C04
import BindgenModel.Driver.C01
import BindgenModel.Driver.C02
import BindgenModel.Driver.C06
import BindgenModel.Driver.C09
import BindgenModel.Driver.C10
/-! `bgmodel`: one request per input line, one answer per output line (lines between `ir-begin`
and `ir-end` load an IR dump and produce no output). -/
open BindgenModel

structure St where
  ir : IR.IR := {}
  inIr : Bool := false

def dispatch (st : St) (line : String) : St × Option String :=
  let line := line.trimAscii.toString
  if line == "ir-begin" then ({ ir := {}, inIr := true }, none)
  else if line == "ir-end" then ({ st with inIr := false }, some s!"loaded items={st.ir.size}")
  else if st.inIr then ({ st with ir := IR.addLine st.ir line }, none)
  else
  match (line.splitOn " ").filter (· ≠ "") with
  | "bfalloc" :: rest => (st, some (Driver.C03.handleAlloc rest))
  | "bf" :: rest => (st, some (Driver.C03.handle rest))
  | ["irderives"] => (st, some (Driver.C08.derives st.ir))
  | ["irchk", seed] => (st, some (Driver.C07.check st.ir (seed.toNat?.getD 0)))
  | "c05" :: rest => (st, some (Driver.C05.handle rest))
  | "det" :: rest => (st, some (Driver.C11.handle rest))
  | "entry" :: rest => (st, some (Driver.C12.handle rest))
  | "cdecl" :: rest => (st, some (Driver.C16.handle rest))
  | "c17" :: rest => (st, some (Driver.C17.handle rest))
  | "feat" :: rest => (st, some (Driver.C14.handle rest))
  | "opts" :: rest => (st, some (Driver.C13.handle rest))
  | "fmt" :: rest => (st, some (Driver.C15.handle rest))
  | "pp" :: rest => (st, some (Driver.C18.handle rest))
  | "c04" :: rest => (st, some (Driver.C04.handle rest))
  | "c01" :: rest => (st, some (Driver.C01.handle rest))
  | "lay" :: rest => (st, some (Driver.C02.handle rest))
  | "lt" :: rest => (st, some (Driver.C06.handle rest))
  | "reach" :: rest => (st, some (Driver.C09.handle rest))
  | "blk" :: rest => (st, some (Driver.C10.handle rest))
  | _ => (st, some "bad-op")

partial def loop (h : IO.FS.Stream) (out : IO.FS.Stream) (st : St) : IO Unit := do
  let line ← h.getLine
  if line.isEmpty then return ()
  let (st', ans) := dispatch st line
  match ans with
  | some a => out.putStrLn a
  | none => pure ()
  loop h out st'

def main : IO Unit := do
  let out ← IO.getStdout
  loop (← IO.getStdin) out {}
  out.flush
