-- Root of the `BindgenModel` library: models, generated tables, lemmas, property theorems.
import BindgenModel.Model.BitfieldUnit
import BindgenModel.Model.Depfile
import BindgenModel.Model.Includes
import BindgenModel.Model.CDecl
import BindgenModel.Model.Post
import BindgenModel.Model.Format
import BindgenModel.Model.Pipe
