import BindgenModel.Model.Format
import BindgenModel.Model.Pipe
/-! # C15 — formatter choice changes only whitespace; formatter failure is not fatal

Part 1 (`Format`): `write` is total and its body is the child's output only when that output is
UTF-8 and the exit code is accepted by the (generated) triage table, otherwise exactly the
unformatted source; the prefix (header comment, raw lines, blank line) does not depend on the
formatter or on the child.  Obligations on the generated table: the accepted codes are exactly 0
and 3.

Part 2 (`Pipe`): for every finite child program, every pipe capacity and every scheduler that runs
some enabled party whenever one exists (the only fairness assumption), the parent reaches `done`
within `measure` steps: no deadlock, termination.  A child that neither exits nor reads is not a
finite program and is outside the claim. -/
set_option linter.unusedSimpArgs false
namespace BindgenModel.Format
open BindgenModel.Generated

/-! ## obligations about the generated triage table -/

/-- success (0) and the documented partial success (3) are accepted -/
theorem C15_triage_accepts_0_and_3 : triage (.code 0) = .formatted ∧ triage (.code 3) = .formatted := by decide

theorem triageWith_formatted_mem (arms : List (Int × FmtVerdict)) (c : Int)
    (h : triageWith arms .error (.code c) = .formatted) : (c, FmtVerdict.formatted) ∈ arms := by
  simp only [triageWith] at h
  cases hfind : arms.find? (fun a => a.1 == c) with
  | none => rw [hfind] at h; cases h
  | some a =>
    rw [hfind] at h
    have hm := List.mem_of_find?_eq_some hfind
    have hp := List.find?_some hfind
    simp only [beq_iff_eq] at hp
    have : a = (c, FmtVerdict.formatted) := by
      cases a; simp_all
    rw [← this]; exact hm

/-- every other exit code, and every signal, is an error: accepted ⇒ code ∈ {0, 3} -/
theorem C15_triage_accepts_only_0_and_3 (st : Status) (h : triage st = .formatted) :
    st = .code 0 ∨ st = .code 3 := by
  cases st with
  | signal s => exact absurd h (by simp [triage, triageWith]; decide)
  | code c =>
    have hd : exitDefault = .error := by decide
    unfold triage at h
    rw [hd] at h
    have := triageWith_formatted_mem exitArms c h
    have harms : ∀ p ∈ exitArms, p.2 = FmtVerdict.formatted → p.1 = 0 ∨ p.1 = 3 := by decide
    rcases harms _ this rfl with h0 | h3
    · left; simp at h0; rw [h0]
    · right; simp at h3; rw [h3]

/-- the fault codes named by the property are errors; so is death by a signal -/
theorem C15_triage_rejects_faults :
    triage (.code 1) = .error ∧ triage (.code 2) = .error ∧ triage (.code 101) = .error ∧
    triage (.code 255) = .error ∧ (∀ s, triage (.signal s) = .error) := by
  refine ⟨by decide, by decide, by decide, by decide, fun s => ?_⟩
  simp only [triage, triageWith]; decide

theorem C15_non_utf8_returns_source : nonUtf8ReturnsSource = true := by decide

/-! ## `write` -/

/-- **Totality and body.**  Every outcome gives `Ok`; what follows the prefix is the child's stdout
only if that is UTF-8 and the exit code is 0 or 3 (rustfmt), `pp source` (prettyplease), and in
every other case exactly the unformatted source. -/
theorem C15_write_total (pp : String → String) (o : Opts) (out : Outcome) (source : String) :
    ∃ body, write pp o out source = .ok (prefixText o ++ body) ∧
      (body = source ∨
       (o.formatter = .prettyplease ∧ body = pp source) ∨
       (o.formatter = .rustfmt ∧ ∃ st, out = .exited (some body) st ∧ (st = .code 0 ∨ st = .code 3))) := by
  unfold write formatTokens
  cases hf : o.formatter with
  | none => exact ⟨source, by simp, Or.inl rfl⟩
  | prettyplease => exact ⟨pp source, by simp, Or.inr (Or.inl ⟨rfl, rfl⟩)⟩
  | rustfmt =>
    cases out with
    | spawnFailed => exact ⟨source, by simp, Or.inl rfl⟩
    | readFailed => exact ⟨source, by simp, Or.inl rfl⟩
    | waitFailed => exact ⟨source, by simp, Or.inl rfl⟩
    | exited so st =>
      cases so with
      | none => exact ⟨source, by simp [C15_non_utf8_returns_source], Or.inl rfl⟩
      | some s =>
        cases ht : triage st with
        | formatted =>
          exact ⟨s, by simp [ht], Or.inr (Or.inr ⟨rfl, st, rfl, C15_triage_accepts_only_0_and_3 st ht⟩)⟩
        | error => exact ⟨source, by simp [ht], Or.inl rfl⟩

/-- **Formatter failure is not fatal.**  Spawn failure, read/wait error, invalid UTF-8, any exit code
other than 0/3 and any signal: `write` succeeds and the body is the unformatted source itself
(same string, hence token-identical). -/
theorem C15_fallback_token_identical (pp : String → String) (o : Opts) (out : Outcome) (source : String)
    (hf : o.formatter = .rustfmt)
    (hfault : out = .spawnFailed ∨ out = .readFailed ∨ out = .waitFailed ∨ (∃ st, out = .exited none st) ∨
      (∃ s st, out = .exited (some s) st ∧ st ≠ .code 0 ∧ st ≠ .code 3)) :
    write pp o out source = .ok (prefixText o ++ source) := by
  unfold write formatTokens
  rw [hf]
  rcases hfault with h | h | h | ⟨st, h⟩ | ⟨s, st, h, h0, h3⟩ <;> subst h
  · simp
  · simp
  · simp
  · simp [C15_non_utf8_returns_source]
  · cases ht : triage st with
    | formatted =>
      rcases C15_triage_accepts_only_0_and_3 st ht with e | e
      · exact absurd e h0
      · exact absurd e h3
    | error => simp [ht]

/-- exit 0, and exit 3 with complete output, are accepted: the body is the child's stdout -/
theorem C15_success_and_partial_success_accepted (pp : String → String) (o : Opts) (s source : String)
    (hf : o.formatter = .rustfmt) (c : Int) (hc : c = 0 ∨ c = 3) :
    write pp o (.exited (some s) (.code c)) source = .ok (prefixText o ++ s) := by
  unfold write formatTokens
  rw [hf]
  rcases hc with rfl | rfl
  · simp [C15_triage_accepts_0_and_3.1]
  · simp [C15_triage_accepts_0_and_3.2]

/-- with `Formatter::None` the body is the unformatted source -/
theorem C15_none_is_source (pp : String → String) (o : Opts) (out : Outcome) (source : String)
    (hf : o.formatter = .none) : write pp o out source = .ok (prefixText o ++ source) := by
  unfold write formatTokens; rw [hf]

/-- **Prefix once and in order.**  The output is `header ++ raw lines ++ blank ++ body` where the
prefix depends only on the options — not on the formatter nor on the child — and consists of the
header comment (iff enabled) followed by each raw line with a newline, in order, followed by one
empty line iff there are raw lines. -/
theorem C15_prefix_once_in_order (pp : String → String) (o : Opts) (out : Outcome) (source : String) :
    ∃ body, write pp o out source =
      .ok ((if o.headerComment then "/* automatically generated by rust-bindgen " ++ o.version ++ " */" ++ "\n" ++ "\n" else "")
        ++ (String.join (o.rawLines.map (· ++ "\n")) ++ (if o.rawLines.isEmpty then "" else "\n")) ++ body) := by
  obtain ⟨body, h, -⟩ := C15_write_total pp o out source
  exact ⟨body, h⟩

/-- the prefix is the same for the three formatters and every outcome -/
theorem C15_prefix_independent (pp : String → String) (o : Opts) (f₁ f₂ : Formatter) (o₁ o₂ : Outcome)
    (source : String) :
    ∃ b₁ b₂, write pp { o with formatter := f₁ } o₁ source = .ok (prefixText o ++ b₁) ∧
             write pp { o with formatter := f₂ } o₂ source = .ok (prefixText o ++ b₂) := by
  obtain ⟨b₁, h₁, -⟩ := C15_write_total pp { o with formatter := f₁ } o₁ source
  obtain ⟨b₂, h₂, -⟩ := C15_write_total pp { o with formatter := f₂ } o₂ source
  exact ⟨b₁, b₂, h₁, h₂⟩

/-- the class the harness observes is the one the model computes -/
theorem C15_classify_sound (pp : String → String) (o : Opts) (out : Outcome) (source : String)
    (h : classify o.formatter out = .fallback) (hp : o.formatter ≠ .prettyplease) :
    write pp o out source = .ok (prefixText o ++ source) := by
  unfold write formatTokens
  cases hf : o.formatter with
  | none => rfl
  | prettyplease => exact absurd hf hp
  | rustfmt =>
    rw [hf] at h
    cases out with
    | spawnFailed => simp
    | readFailed => simp
    | waitFailed => simp
    | exited so st =>
      cases so with
      | none => simp [C15_non_utf8_returns_source]
      | some s =>
        simp only [classify] at h
        cases ht : triage st with
        | formatted => simp [ht] at h
        | error => simp [ht]

/-! ## formatter choice and tokens

The formatters are external (`pp` is uninterpreted; rustfmt is a child process): that their output
has the tokens of the source is observed, not proved.  It is observed to be **false** as stated:
when rustfmt / prettyplease break a parameter list over several lines they add a trailing comma —
a token the unformatted text does not have.  Region `regionTrailingComma`: the sequences differ
but agree after deleting commas that directly precede a closing delimiter. -/

/-- `fn f(a: A, b: B);` unformatted vs `fn f(\n a: A,\n b: B,\n);` formatted (1 = fn, 2 = f, …) -/
def witnessSrc : List Tok := [.other 1, .other 2, .opn, .other 3, .comma, .other 4, .cls, .other 5]
def witnessFmt : List Tok := [.other 1, .other 2, .opn, .other 3, .comma, .other 4, .comma, .cls, .other 5]

/-- **Negation of "same token sequence".**  The witness pair differs … -/
theorem C15_fails_on_trailing_comma : witnessSrc ≠ witnessFmt ∧ regionTrailingComma witnessSrc witnessFmt = true := by
  decide

/-- … and the region predicate is symmetric-reflexive sane: equal sequences are not in the region,
sequences in the region have equal comma-stripped forms -/
theorem C15_region_trailing_comma_spec (a b : List Tok) :
    regionTrailingComma a b = true ↔ (a ≠ b ∧ stripTC a = stripTC b) := by
  simp [regionTrailingComma]

/-- `stripTC` deletes commas only: every other token survives, in order -/
theorem stripTC_filter_nonComma (l : List Tok) :
    (stripTC l).filter (· != .comma) = l.filter (· != .comma) := by
  fun_induction stripTC l with
  | case1 => rfl
  | case2 r ih => simpa [List.filter_cons] using ih
  | case3 t r hne ih =>
    cases t <;> simp [List.filter_cons, ih]

/-- **The region masks nothing but commas.**  Two sequences that the known finding
`formatter_trailing_comma` excuses have the same non-comma tokens in the same order: a formatter
that drops, adds, reorders or rewrites any identifier, literal, punctuation other than `,`, or
delimiter is outside the region and is reported. -/
theorem C15_region_only_commas (a b : List Tok) (h : regionTrailingComma a b = true) :
    a.filter (· != .comma) = b.filter (· != .comma) := by
  have h' := ((C15_region_trailing_comma_spec a b).1 h).2
  rw [← stripTC_filter_nonComma a, ← stripTC_filter_nonComma b, h']

/-- the region is symmetric (it does not matter which output is called "the formatted one") -/
theorem C15_region_symm (a b : List Tok) : regionTrailingComma a b = regionTrailingComma b a := by
  rw [Bool.eq_iff_iff, C15_region_trailing_comma_spec, C15_region_trailing_comma_spec]
  exact ⟨fun ⟨h₁, h₂⟩ => ⟨fun e => h₁ e.symm, h₂.symm⟩, fun ⟨h₁, h₂⟩ => ⟨fun e => h₁ e.symm, h₂.symm⟩⟩

/-- `stripTC` never lengthens a sequence -/
theorem stripTC_length_le (l : List Tok) : (stripTC l).length ≤ l.length := by
  fun_induction stripTC l with
  | case1 => simp
  | case2 r ih => simp; omega
  | case3 t r hne ih => simp; omega

/-- converse of `C15_classify_sound`: class `formatted` under rustfmt means the body is exactly the
child's stdout, which was valid UTF-8 and came with exit code 0 or 3 -/
theorem C15_classify_formatted (pp : String → String) (o : Opts) (out : Outcome) (source : String)
    (hf : o.formatter = .rustfmt) (h : classify o.formatter out = .formatted) :
    ∃ s st, out = .exited (some s) st ∧ (st = .code 0 ∨ st = .code 3) ∧
      write pp o out source = .ok (prefixText o ++ s) := by
  rw [hf] at h
  cases out with
  | spawnFailed => simp [classify] at h
  | readFailed => simp [classify] at h
  | waitFailed => simp [classify] at h
  | exited so st =>
    cases so with
    | none => simp [classify] at h
    | some s =>
      simp only [classify] at h
      cases ht : triage st with
      | error => simp [ht] at h
      | formatted =>
        refine ⟨s, st, rfl, C15_triage_accepts_only_0_and_3 st ht, ?_⟩
        unfold write formatTokens
        rw [hf]; simp [ht]

/-- `Formatter::None` and `Formatter::Prettyplease` never consult a child process: the bytes
written are the same whatever an (absent) child would have done -/
theorem C15_no_child_consulted (pp : String → String) (o : Opts) (o₁ o₂ : Outcome) (source : String)
    (hf : o.formatter ≠ .rustfmt) : write pp o o₁ source = write pp o o₂ source := by
  unfold write formatTokens
  cases hf' : o.formatter with
  | none => rfl
  | prettyplease => rfl
  | rustfmt => exact absurd hf' hf

/-- `write` is a function of (options, child outcome, source) and nothing else, and never fails on
a writer that does not fail -/
theorem C15_write_never_errs (pp : String → String) (o : Opts) (out : Outcome) (source : String) :
    write pp o out source ≠ .error () := by
  obtain ⟨b, h, -⟩ := C15_write_total pp o out source
  rw [h]; exact fun e => by cases e

/-! non-vacuity -/
example : regionTrailingComma witnessSrc witnessFmt = true ∧
    witnessSrc.filter (· != .comma) = witnessFmt.filter (· != .comma) := by decide

example : write id ⟨true, "0.72.0", ["use a;", "use b;"], .rustfmt⟩ (.exited (some "fn f() {}\n") (.code 1)) "fn f () { }"
    = .ok (prefixText ⟨true, "0.72.0", ["use a;", "use b;"], .rustfmt⟩ ++ "fn f () { }") :=
  C15_fallback_token_identical _ _ _ _ rfl (Or.inr (Or.inr (Or.inr (Or.inr ⟨_, _, rfl, by decide, by decide⟩))))
example : write id ⟨false, "v", [], .rustfmt⟩ (.exited (some "fn f() {}\n") (.code 3)) "fn f () { }"
    = .ok (prefixText ⟨false, "v", [], .rustfmt⟩ ++ "fn f() {}\n") :=
  C15_success_and_partial_success_accepted _ _ _ _ rfl 3 (Or.inr rfl)

end BindgenModel.Format

namespace BindgenModel.Pipe

/-! ## the pipe protocol -/

/-- facts that hold in every reachable state -/
structure Inv (c : Caps) (s : St) : Prop where
  dead : s.alive = false → s.cinOpen = false ∧ s.coutOpen = false
  afterCopy : s.phase ≠ .copy → s.coutOpen = false ∧ s.outbuf = 0
  afterWait : (s.phase = .join ∨ s.phase = .done) → s.alive = false
  inCap : s.inbuf ≤ c.capIn
  outCap : s.outbuf ≤ c.capOut

theorem C15_init_inv (c : Caps) (n : Nat) (prog : List CAct) : Inv c (init n prog) := by
  constructor <;> simp [init]

theorem C15_inv_step (c : Caps) (s s' : St) (hi : Inv c s) (h : Step c s s') : Inv c s' := by
  obtain ⟨h1, h2, h3, h4, h5⟩ := hi
  cases h <;> constructor <;> simp_all <;> omega

/-- **Every step consumes the measure.** -/
theorem C15_measure_decreases (c : Caps) (s s' : St) (h : Step c s s') : measure s' < measure s := by
  cases h <;> simp_all [measure, progWeight, CAct.weight, Phase.rank] <;> omega

/-- **No deadlock.**  In every reachable state in which the parent has not returned, some party can
take a step. -/
theorem C15_no_deadlock (c : Caps) (s : St) (hi : Inv c s) (hnd : s.phase ≠ .done) : ∃ s', Step c s s' := by
  obtain ⟨h1, h2, h3, h4, h5⟩ := hi
  have hIn := c.hIn
  have hOut := c.hOut
  -- the writer can always move unless it is done or blocked on a full pipe with the child's end open
  have writer : s.wdone = false → (s.cinOpen = true → s.inbuf < c.capIn) → ∃ s', Step c s s' := by
    intro hw hroom
    by_cases h0 : s.wrem = 0
    · exact ⟨_, Step.wFinish s hw h0⟩
    · by_cases hc : s.cinOpen = true
      · exact ⟨_, Step.wWrite s 1 hw hc (by omega) (by omega) (by have := hroom hc; omega)⟩
      · exact ⟨_, Step.wEpipe s hw (by omega) (by simpa using hc)⟩
  -- a live child can move unless it waits for input or for room on stdout
  have child : s.alive = true → (s.coutOpen = true → s.outbuf < c.capOut) → ∃ s', Step c s s' := by
    intro ha hroom
    cases hp : s.prog with
    | nil => exact ⟨_, Step.cExit s ha hp⟩
    | cons a rest =>
      cases a with
      | closeIn => exact ⟨_, Step.cCloseIn s rest ha hp⟩
      | closeOut => exact ⟨_, Step.cCloseOut s rest ha hp⟩
      | write n =>
        by_cases hn : n = 0 ∨ s.coutOpen = false
        · exact ⟨_, Step.cWriteNone s n rest ha hp hn⟩
        · have hn0 : 0 < n := by omega
          have hco : s.coutOpen = true := by
            cases hco : s.coutOpen <;> simp_all
          have := hroom hco
          by_cases h1n : n = 1
          · exact ⟨_, Step.cWriteAll s n rest ha hp hco hn0 (by omega)⟩
          · exact ⟨_, Step.cWritePart s n 1 rest ha hp hco (by omega) (by omega) (by omega)⟩
      | read =>
        by_cases hc : s.cinOpen = true
        · by_cases hb : s.inbuf = 0
          · by_cases hw : s.wdone = true
            · exact ⟨_, Step.cReadEof s rest ha hp hc hb hw⟩
            · exact writer (by simpa using hw) (fun _ => by omega)
          · exact ⟨_, Step.cRead s rest 1 ha hp hc (by omega) (by omega)⟩
        · exact ⟨_, Step.cReadErr s rest ha hp (by simpa using hc)⟩
  cases hph : s.phase with
  | done => exact absurd hph hnd
  | copy =>
    by_cases hb : s.outbuf = 0
    · by_cases hco : s.coutOpen = false
      · exact ⟨_, Step.rEof s hph hb hco⟩
      · have hco' : s.coutOpen = true := by simpa using hco
        have ha : s.alive = true := by
          cases ha : s.alive
          · have := (h1 ha).2; simp_all
          · rfl
        exact child ha (fun _ => by omega)
    · exact ⟨_, Step.rRead s 1 hph (by omega) (by omega)⟩
  | wait =>
    by_cases ha : s.alive = false
    · exact ⟨_, Step.rWait s hph ha⟩
    · have hco := (h2 (by rw [hph]; decide)).1
      exact child (by simpa using ha) (fun h => by rw [hco] at h; cases h)
  | join =>
    by_cases hw : s.wdone = true
    · exact ⟨_, Step.rJoin s hph hw⟩
    · have ha := h3 (Or.inl hph)
      have hci := (h1 ha).1
      exact writer (by simpa using hw) (fun h => by rw [hci] at h; cases h)

/-- run a scheduler for `n` steps -/
def runN (sched : St → Option St) : Nat → St → St
  | 0, s => s
  | n + 1, s => match sched s with
    | some s' => runN sched n s'
    | none => s

/-- **Termination.**  Fairness assumption, stated explicitly: the scheduler `sched` picks a step
that the system can take (`hs`) and does not idle while some party is enabled (`hp`).  Then, from
every reachable state, after at most `measure s` steps the parent has returned — whatever the
(finite) child does and whatever the pipe capacities are. -/
theorem C15_parent_terminates (c : Caps) (sched : St → Option St)
    (hs : ∀ s s', sched s = some s' → Step c s s')
    (hp : ∀ s, sched s = none → ¬ ∃ s', Step c s s')
    (n : Nat) (s : St) (hi : Inv c s) (hn : measure s ≤ n) : (runN sched n s).phase = .done := by
  induction n generalizing s with
  | zero =>
    simp only [runN]
    have : s.phase.rank = 0 := by unfold measure at hn; omega
    cases hph : s.phase <;> simp_all [Phase.rank]
  | succ n ih =>
    simp only [runN]
    cases hsch : sched s with
    | none =>
      simp only
      have hno := hp s hsch
      cases hph : s.phase with
      | done => rfl
      | _ => exact absurd (C15_no_deadlock c s hi (by rw [hph]; decide)) hno
    | some s' =>
      simp only
      have hstep := hs s s' hsch
      exact ih s' (C15_inv_step c s s' hi hstep) (by have := C15_measure_decreases c s s' hstep; omega)

/-- from the initial state, for every child program -/
theorem C15_format_tokens_terminates (c : Caps) (sched : St → Option St)
    (hs : ∀ s s', sched s = some s' → Step c s s')
    (hp : ∀ s, sched s = none → ¬ ∃ s', Step c s s')
    (sourceLen : Nat) (prog : List CAct) :
    (runN sched (measure (init sourceLen prog)) (init sourceLen prog)).phase = .done :=
  C15_parent_terminates c sched hs hp _ _ (C15_init_inv c sourceLen prog) (Nat.le_refl _)

/-! non-vacuity: a child that never reads a 5 MB input, writes 10 bytes and exits -/
example : measure (init 5000000 [.write 10]) = 10000026 := by decide

end BindgenModel.Pipe
