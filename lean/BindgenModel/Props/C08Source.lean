import BindgenModel.Model.Analyses
import BindgenModel.Generated.CodegenOrder
import BindgenModel.Generated.AnnotationSource
/-!
# C08 / C10 — the early answers of `CannotDerive::constrain_type` come in the modelled order

`ruleDeriveType` (Model/Analyses.lean) answers, in this order: not allow-listed ⇒ what the blocklist callback
vouches for; excluded by name ⇒ No; opaque ⇒ Yes from the layout (No for Rust unions); otherwise by kind.
The order matters for items that satisfy two guards at once (a type that is blocklisted *and* opaque: seeded
changes C10-1 and C10-7 moved the opaque answer in front of the blocklist answer).
`C08_derive_guard_order_in_source` pins the order on the regenerated table; the two lemmas show, on the rule
model, that an item that is not allow-listed is answered by the blocklist callback whatever its opacity and
its by-name exclusion.
-/
namespace BindgenModel.Analyses
open BindgenModel.Generated BindgenModel.IR

theorem C08_derive_guard_order_in_source :
    deriveGuardOrder = ["notAllowlisted", "byName", "opaque", "kindMatch"] := by decide

/-- a type item that is not allow-listed gets the constant `blocklisted_type_implements_trait` answer: its
opacity, its by-name exclusion and its kind are never consulted -/
theorem C08_not_allowlisted_first (g : IR) (cx : DeriveCtx) (t : DeriveTrait) (inNodes : Nat → Bool) (n : Nat)
    (h : (g.get n).allowlisted = false) :
    ruleDeriveType g cx t inNodes n = { const := blocklistedImpl g n } := by
  unfold ruleDeriveType
  simp [h]

/-- in particular a blocklisted type without a stdint name is answered `No` (2) even when it is opaque -/
theorem C08_blocklisted_opaque_is_no (g : IR) (cx : DeriveCtx) (t : DeriveTrait) (inNodes : Nat → Bool) (n : Nat)
    (h : (g.get n).allowlisted = false) (hs : ((g.get n).hasName && (g.get n).stdint) = false) :
    (ruleDeriveType g cx t inNodes n).const = 2 := by
  rw [C08_not_allowlisted_first g cx t inNodes n h]
  simp [blocklistedImpl, hs]

end BindgenModel.Analyses

namespace BindgenModel.C10
open BindgenModel.IR BindgenModel.Analyses

/-- Known finding `opaque_empty_base_counted`.  `struct E {}; struct D : E { int x; };` — `CompInfo::codegen`
leaves a base out of the emitted record when the sizedness analysis calls it zero-sized ("we won't include
zero-sized types in our base chain").  For the empty record as it is the answer is `ZeroSized` (0): no `_base`
member, as the C++ compiler's empty-base optimisation wants.  Made opaque, the rule looks at the layout libclang
reports for an empty class (1 byte) instead of at the members and answers `NonZeroSized` (2): the derived record
gets a one-byte `_base` and no longer has the C++ layout. -/
def emptyBase (isOp : Bool) : IR :=
  { items := #[{}, { id := 1, kind := .type, tk := .comp, allowlisted := true, isOpaque := isOp, layout := some (1, 1) },
               { id := 2, kind := .type, tk := .comp, allowlisted := true, layout := some (4, 4), bases := [(1, false)],
                 fields := [.inl 3], edges := [(1, .baseMember), (3, .field)] },
               { id := 3, kind := .type, tk := .int, allowlisted := true, layout := some (4, 4) }] }

theorem C10_opaque_empty_base_is_sized :
    ((sizednessInstance (emptyBase false) fun _ => false).solve 4).getD 1 0 = 0 ∧
    ((sizednessInstance (emptyBase true) fun _ => false).solve 4).getD 1 0 = 2 := by decide

/-- what `Annotations::new` answers for a declaration: `own` = the annotation written on the declaration itself,
`fromBase` = the one libclang's parsed comment would hand over from a base class / overridden method when the
declaration has no comment; `ownOnly` = the test found in the source -/
def annotationOf {α : Type} (ownOnly : Bool) (own fromBase : Option α) : Option α :=
  match own with
  | some a => some a
  | none => if ownOnly then none else fromBase

/-- **an annotation speaks about the declaration it is written on**: with the test in place the answer does not
depend on what the base class carries -/
theorem C10_annotation_not_inherited {α : Type} (own b₁ b₂ : Option α) :
    annotationOf true own b₁ = annotationOf true own b₂ := by
  cases own <;> rfl

/-- without it a `hide` on the base hides the derived class (defect repaired in /repo b0624bff) -/
theorem C10_annotation_leaked_without_test :
    annotationOf false (none : Option String) (some "hide") = some "hide" ∧
    annotationOf true (none : Option String) (some "hide") = none := by decide

/-- **source obligation** -/
theorem C10_annotations_read_from_own_comment : BindgenModel.Generated.annotationsOwnCommentOnly = true := by decide

end BindgenModel.C10
