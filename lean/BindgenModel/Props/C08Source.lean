import BindgenModel.Model.Analyses
import BindgenModel.Generated.CodegenOrder
/-!
# C08 / C10 — the early answers of `CannotDerive::constrain_type` come in the modelled order

`ruleDeriveType` (Model/Analyses.lean) answers, in this order: not allow-listed ⇒ what the blocklist callback
vouches for; excluded by name ⇒ No; opaque ⇒ Yes from the layout (No for Rust unions); otherwise by kind.
The order matters for items that satisfy two guards at once (a type that is blocklisted *and* opaque: seeded
changes C10-1 and C10-7 moved the opaque answer in front of the blocklist answer).
`C08_derive_guard_order_in_source` pins the order on the regenerated table; the two lemmas show, on the rule
model, that an item that is not allow-listed is answered by the blocklist callback whatever its opacity and
its by-name exclusion.
-/
namespace BindgenModel.Analyses
open BindgenModel.Generated BindgenModel.IR

theorem C08_derive_guard_order_in_source :
    deriveGuardOrder = ["notAllowlisted", "byName", "opaque", "kindMatch"] := by decide

/-- a type item that is not allow-listed gets the constant `blocklisted_type_implements_trait` answer: its
opacity, its by-name exclusion and its kind are never consulted -/
theorem C08_not_allowlisted_first (g : IR) (cx : DeriveCtx) (t : DeriveTrait) (inNodes : Nat → Bool) (n : Nat)
    (h : (g.get n).allowlisted = false) :
    ruleDeriveType g cx t inNodes n = { const := blocklistedImpl g n } := by
  unfold ruleDeriveType
  simp [h]

/-- in particular a blocklisted type without a stdint name is answered `No` (2) even when it is opaque -/
theorem C08_blocklisted_opaque_is_no (g : IR) (cx : DeriveCtx) (t : DeriveTrait) (inNodes : Nat → Bool) (n : Nat)
    (h : (g.get n).allowlisted = false) (hs : ((g.get n).hasName && (g.get n).stdint) = false) :
    (ruleDeriveType g cx t inNodes n).const = 2 := by
  rw [C08_not_allowlisted_first g cx t inNodes n h]
  simp [blocklistedImpl, hs]

end BindgenModel.Analyses
