import BindgenModel.Lemmas.Layout
import BindgenModel.Lemmas.StructLayout
import BindgenModel.Lemmas.StructLayout2
import BindgenModel.Lemmas.StructLayout3
import BindgenModel.Generated.LayoutConsts
/-!
# C02 — generated types match the C compiler's size, alignment and offsets

Property theorems about `Model/{Layout,StructLayout,CompCodegen}.lean`.

Target statement (never weakened): for every option set `o` and every record `c` whose numbers
are what a C compiler can produce (`ClangConsistent c`),
`reprC (emit o c) = (c.size, c.align, c.memberOffsets)`.

It is delivered in layers (DESIGN.md §5 C02); this file says which layers are proved:

* layer 1 — `alignTo` lemmas, `blob_exact`                                   (proved, unbounded)
* layer 2 — `C02_plain_struct` (+ `C02_explicit_padding_irrelevant`)          (proved, unbounded
  in the number and sizes of members; region `padInexact` excluded, negation witnessed)
* layer 3 — `C02_packed_struct` (`repr(C, packed)` and `#pragma pack(N)` → `packed(N)`)   (proved, unbounded)
* layer 6 — `C02_unions` (Rust `union` form and `__BindgenUnionField` + blob form)          (proved, unbounded;
  region `explicit_padding_union_wrapper` excluded, negation witnessed)
* layer 7 — `C02_opaque` (one exact blob, `repr(align)` / `_bindgen_align`)                 (proved)
* layer 4 — `C02_plain_struct_any_align` (member alignments 1, 2, 4 or any multiple of 8; emits
  `repr(align(N))`)                                                                         (proved, unbounded)
* layer 5 — `C02_with_units` (bit-field allocation units mixed with plain members, `pad_struct`
  after a trailing unit, `_bindgen_align`)  (proved, unbounded; regions `bitfield_unit_misplaced`,
  `explicit_padding_double_tail`, `pad_blob_inexact` excluded, negations witnessed)
* not covered by an unbounded theorem: arrays of over-aligned elements (the `saw_field` hack),
  C++ bases / vtables, records mixing the packed / aligned regions listed below.
-/
namespace BindgenModel.C02
open BindgenModel.Layout BindgenModel.StructLayout BindgenModel.CompCodegen

/-- FULL statement of the property on the model. -/
def C02_statement (consistent : CAgg → Prop) : Prop :=
  ∀ (o : Opts) (c : CAgg), consistent c →
    ∃ r l, emit o c = some r ∧ reprC r = some l ∧
      (∀ cl, c.layout = some cl → l.size = cl.size ∧ l.align = cl.align) ∧
      l.userOffsets = cOffsets 0 c.fields

/-! ## the constants the models use are the constants of /repo's source (regenerated on every run) -/

theorem C02_consts_maxGuaranteedAlign :
    StructLayout.maxGuaranteedAlign = Generated.LayoutConsts.maxGuaranteedAlign := by decide
theorem C02_consts_arrayLimit : Layout.arrayLimit = Generated.LayoutConsts.arrayLimit := by decide
theorem C02_consts_knownSizes :
    ∀ n, n ≤ 64 → (knownTypeForSize n).isSome = Generated.LayoutConsts.knownSizes.contains n := by decide
theorem C02_consts_blobThreshold : Generated.LayoutConsts.blobSmallAlignThreshold = 4 := by decide

/-! ## layer 1 (restated from `Lemmas/Layout.lean` so that the obligations are listed here) -/

theorem C02_alignTo_ge (s a : Nat) : s ≤ alignTo s a := alignTo_ge s a
theorem C02_alignTo_mod (s a : Nat) (ha : 0 < a) : alignTo s a % a = 0 := alignTo_mod s a ha
theorem C02_alignTo_least (s a m : Nat) (ha : 0 < a) (hm : m % a = 0) (hs : s ≤ m) : alignTo s a ≤ m :=
  alignTo_least s a m ha hm hs
/-- `align_to` fixes every multiple of the alignment … -/
theorem C02_alignTo_of_mod (s a : Nat) (h : s % a = 0) : alignTo s a = s := by
  unfold alignTo; split <;> simp_all

/-- … hence is idempotent (aligning twice pads once) -/
theorem C02_alignTo_idem (s a : Nat) : alignTo (alignTo s a) a = alignTo s a := by
  by_cases ha : a = 0
  · subst ha; simp [alignTo]
  · exact C02_alignTo_of_mod _ _ (alignTo_mod s a (Nat.pos_of_ne_zero ha))

/-- `align_to` is monotone in the offset: a later member never lands before an earlier one -/
theorem C02_alignTo_mono (s s' a : Nat) (h : s ≤ s') : alignTo s a ≤ alignTo s' a := by
  by_cases ha : a = 0
  · subst ha; simpa [alignTo] using h
  · have hpos := Nat.pos_of_ne_zero ha
    exact alignTo_least s a _ hpos (alignTo_mod s' a hpos) (Nat.le_trans h (alignTo_ge s' a))

/-- closed form: `align_to(s, a) = ⌈s / a⌉ · a` — the number C's layout rule uses -/
theorem C02_alignTo_closed_form (s a : Nat) (ha : 0 < a) : alignTo s a = (s + a - 1) / a * a := by
  have hmod := alignTo_mod s a ha
  have hge := alignTo_ge s a
  have hlt := alignTo_lt s a ha
  obtain ⟨k, hk⟩ := Nat.dvd_of_mod_eq_zero hmod
  have hq : (s + a - 1) / a = k := by
    apply Nat.div_eq_of_lt_le
    · rw [Nat.mul_comm]; rw [hk] at hge; omega
    · rw [Nat.mul_comm, Nat.mul_succ]; rw [hk] at hlt; omega
  rw [hq, hk, Nat.mul_comm]

theorem C02_blob_exact (l : Layout) (ffi : Bool) (h3 : l.align ≠ 3) (hdvd : l.size % (max l.align 1) = 0) :
    (blob l ffi).size = l.size ∧ (blob l ffi).align = max l.align 1 := blob_exact l ffi h3 hdvd
theorem C02_forSize_dvd (ptr size : Nat) : size % (forSize ptr size).align = 0 ∧ (forSize ptr size).size = size :=
  forSize_dvd ptr size

/-! ## layer 2: plain structs -/

/-- the plain-struct theorem and its companions live in `Lemmas/StructLayout.lean`; they are
re-exported here under the property's names -/
theorem C02_plain_struct (o : Opts) (c : CAgg) (h : ClangPlain c = true) (hp : padInexact o c = false) :
    ∃ r l, emit o c = some r ∧ reprC r = some l ∧
      (∀ cl, c.layout = some cl → l.size = cl.size ∧ l.align = cl.align) ∧
      l.userOffsets = cOffsets 0 c.fields := plain_struct o c h hp

/-- `--explicit-padding` changes only padding fields, never a number -/
theorem C02_explicit_padding_irrelevant (o : Opts) (c : CAgg) (h : ClangPlain c = true)
    (hp : padInexact { o with forcePadding := false } c = false) :
    ∃ r₁ l₁ r₂ l₂, emit { o with forcePadding := true } c = some r₁ ∧ reprC r₁ = some l₁ ∧
      emit { o with forcePadding := false } c = some r₂ ∧ reprC r₂ = some l₂ ∧
      l₁.size = l₂.size ∧ l₁.align = l₂.align ∧ l₁.userOffsets = l₂.userOffsets :=
  explicit_padding_irrelevant o c h hp

/-- with `--explicit-padding` the excluded region is empty -/
theorem C02_pad_inexact_force (o : Opts) (c : CAgg) (hf : o.forcePadding = true) : padInexact o c = false :=
  padInexact_force o c hf

/-- **negation on the excluded region** (`struct { char c; long x __attribute__((aligned(16))); }`,
clang: size 32, align 16, `x` at 16): the emitted struct puts `x` at 24. -/
theorem C02_fails_on_pad_inexact :
    ClangPlain witnessAligned8 = true ∧ padInexact {} witnessAligned8 = true ∧
    ((emit {} witnessAligned8).bind reprC).map (fun l => (l.size, l.align, l.userOffsets)) = some (32, 16, [(0, 0), (1, 24)]) := by
  decide

/-- the same defect with a member whose own alignment exceeds 8
(`struct { int a; __int128 b; }`, clang: size 32, align 16, `b` at 16): emitted size 48, `b` at 32 -/
theorem C02_fails_on_pad_inexact_int128 :
    padInexact {} witnessInt128 = true ∧
    ((emit {} witnessInt128).bind reprC).map (fun l => (l.size, l.align, l.userOffsets)) = some (48, 16, [(0, 0), (1, 32)]) := by
  decide

/-! ## layers 3, 6, 7 (proofs in `Lemmas/StructLayout2.lean`) -/

/-- **packed structs**: `__attribute__((packed))` (alignment 1) and `#pragma pack(N)` recognised
through a member that is more aligned than the record: the emitted `repr(C, packed(N))` struct
has the C size, alignment and member offsets (with or without `--explicit-padding`). -/
theorem C02_packed_struct (o : Opts) (c : CAgg) (h : ClangPacked c = true) :
    ∃ r l, emit o c = some r ∧ reprC r = some l ∧
      (∀ cl, c.layout = some cl → l.size = cl.size ∧ l.align = cl.align ∧ r.packed = some cl.align) ∧
      l.userOffsets = cOffsets 0 c.fields := packed_struct o c h

/-- **unions**, as a Rust `union` or as a struct of zero-sized `__BindgenUnionField`s plus a blob:
C size and alignment, every member at offset 0.  `--explicit-padding` on the wrapper form is the
excluded region (`C02_fails_on_explicit_padding_union_wrapper`). -/
theorem C02_unions (o : Opts) (c : CAgg) (h : ClangUnion c = true)
    (hf : o.forcePadding = false ∨ (c.isRustUnion o).1 = true) :
    ∃ r l, emit o c = some r ∧ reprC r = some l ∧
      (∀ cl, c.layout = some cl → l.size = cl.size ∧ l.align = cl.align) ∧
      l.userOffsets.all (fun p => p.2 == 0) = true ∧
      l.userOffsets.map (·.1) = List.range c.fields.length ∧
      r.isUnion = (c.isRustUnion o).1 := union_layout o c h hf

/-- **opaque records** are exactly one blob of the C size and alignment (serves C10 `opaque_exact`);
no member of the record is emitted.  (`u64Align ≤ 8`: the `_bindgen_align: [u64; 0]` helper.) -/
theorem C02_opaque (o : Opts) (c : CAgg) (h : ClangOpaque c = true) (hu : o.u64Align ≤ 8) :
    ∃ r l, emit o c = some r ∧ reprC r = some l ∧
      (∀ cl, c.layout = some cl → l.size = cl.size ∧ l.align = cl.align) ∧
      l.userOffsets = [] ∧ r.isUnion = (c.isRustUnion o).1 ∧
      (r.fields.filter (fun f => f.name == .opaqueBlob)).length = 1 := opaque_exact_gen o c h hu

/-- an opaque *union* is emitted as `union { _bindgen_opaque_blob }` (the struct/union keyword is
not forced to `struct` on the opaque path): layout still exact -/
theorem C02_opaque_union_keyword :
    (emit {} { isUnion := true, layout := some { size := 4, align := 4 }, fields := [], isOpaque := true }).map (·.isUnion) = some true := by
  decide

/-- the domains of layers 3, 6, 7 are inhabited by non-trivial records -/
example : ClangPacked witnessPackedOk = true ∧ ClangUnion witnessUnionOk = true ∧ ClangOpaque witnessOpaqueOk = true := by decide

/-! ## layers 4, 5 (proofs in `Lemmas/StructLayout3.lean`) -/

/-- **plain structs, members of any alignment** (1, 2, 4 or a positive multiple of 8): as
`C02_plain_struct`; over-aligned members make the code emit `repr(align(N))`. -/
theorem C02_plain_struct_any_align (o : Opts) (c : CAgg) (h : ClangPlainA c = true) (hp : padInexact o c = false) :
    ∃ r l, emit o c = some r ∧ reprC r = some l ∧
      (∀ cl, c.layout = some cl → l.size = cl.size ∧ l.align = cl.align) ∧
      l.userOffsets = cOffsets 0 c.fields := plain_struct_any_align o c h hp

/-- **structs with bit-field allocation units**: units are byte arrays of alignment 1 that start
where the previous field ended (`ClangUnits`; otherwise region `bitfield_unit_misplaced`); plain
members keep their C offsets, every unit sits at the byte libclang's bit offsets say, size and
alignment are C's (`pad_struct` after a trailing unit, `_bindgen_align` / `repr(align)`).
Without `--explicit-padding` (region `explicit_padding_double_tail`); `padInexactU` is
`padInexact` with units advancing the running offset; unit numbers pairwise distinct. -/
theorem C02_with_units (o : Opts) (c : CAgg) (h : ClangUnits c = true)
    (hf : o.forcePadding = false) (hu : o.u64Align = 8)
    (hpu : padInexactU o c = false) (hnd : ((cUnitOffsets c.fields).map Prod.fst).Nodup) :
    ∃ r l, emit o c = some r ∧ reprC r = some l ∧
      (∀ cl, c.layout = some cl → l.size = cl.size ∧ l.align = cl.align) ∧
      l.userOffsets = cOffsets 0 c.fields ∧
      (∀ n off, (n, off) ∈ cUnitOffsets c.fields → l.unitOffset n = some off) :=
  with_units o c h hf hu hpu hnd

/-- the two extra hypotheses of `C02_with_units` are needed (witnesses by `decide`) -/
theorem C02_with_units_needs_padInexactU :
    ClangUnits withUnitsCexPad = true ∧ padInexact {} withUnitsCexPad = false ∧ padInexactU {} withUnitsCexPad = true ∧
    ((emit {} withUnitsCexPad).bind reprC).map (fun l => (l.size, l.userOffsets)) = some (48, [(1, 32)]) ∧
    cOffsets 0 withUnitsCexPad.fields = [(1, 16)] := with_units_cex_pad

/-- layers 4 and 5 are inhabited: `struct { long a; __int128 b; }`, `struct { int a:3; long b; char c:2; }` -/
example : ClangPlainA witnessAlign16 = true ∧ padInexact {} witnessAlign16 = false ∧
    ClangUnits witnessDoubleTail = true ∧ padInexactU {} witnessDoubleTail = false := by decide

/-! ## further excluded regions (packed / aligned mixes, bit-field units, `--explicit-padding`)

Each region is a decidable predicate of `Model/LayoutRegions.lean` (the driver evaluates it, the
harness mirrors it on the real aggregate); each lemma shows, on a concrete record that a C compiler
produces, that the emitted aggregate's layout (`reprC ∘ emit`) differs from the C layout, or that
rustc refuses the emitted type (`reprC = none`), or that `emit` panics (`emit = none`).  Every
witness is replayed on the real toolchain by the check (`corpus/C02/*.h`). -/

def summary (o : Opts) (c : CAgg) : Option (Option (Nat × Nat × List (Nat × Nat))) :=
  (emit o c).map fun r => (reprC r).map fun l => (l.size, l.align, l.userOffsets)

/-- `packed(8)` together with `align(8)`: rustc E0587 -/
theorem C02_fails_on_packed_align_conflict :
    (emit {} witnessPackedAlign).map packedAlignConflict = some true ∧ summary {} witnessPackedAlign = some none := by decide

/-- a packed struct containing a `repr(align)` struct: rustc E0588 -/
theorem C02_fails_on_packed_contains_aligned :
    (emit {} witnessPackedContains).map packedContainsAligned = some true ∧ summary {} witnessPackedContains = some none := by decide

/-- `packed` dropped in favour of `align(2)`: Rust alignment 16, C alignment 2 -/
theorem C02_fails_on_packed_dropped :
    (emit {} witnessPackedDropped).map (packedDropped witnessPackedDropped) = some true ∧
    summary {} witnessPackedDropped = some (some (16, 16, [(0, 0)])) := by decide

/-- `packed(4)` puts `b` at 4, C (packed + aligned(4)) has it at 1 -/
theorem C02_fails_on_packedN_misplaces :
    (emit {} witnessPackedN).map (packedNMisplaces witnessPackedN) = some true ∧
    summary {} witnessPackedN = some (some (12, 4, [(0, 0), (1, 4)])) := by decide

/-- a union's bit-field unit is as long as its last bit-field only: Rust size 1, C size 6 -/
theorem C02_fails_on_union_unit_short :
    unionUnitShort witnessUnionUnitShort = true ∧ summary {} witnessUnionUnitShort = some (some (1, 1, [])) := by decide

/-- `--explicit-padding`: tail padded twice: Rust size 32, C size 24 -/
theorem C02_fails_on_explicit_padding_double_tail :
    (emit { forcePadding := true } witnessDoubleTail).map doubleTailPad = some true ∧
    summary { forcePadding := true } witnessDoubleTail = some (some (32, 8, [(1, 8)])) ∧
    summary {} witnessDoubleTail = some (some (24, 8, [(1, 8)])) :=
  ⟨by decide, by decide, by decide⟩

/-- `--explicit-padding` on a wrapper-form union: Rust size 12, C size 8 -/
theorem C02_fails_on_explicit_padding_union_wrapper :
    (emit { forcePadding := true } witnessUnionWrapper).map padBeforeUnionBlob = some true ∧
    summary { forcePadding := true } witnessUnionWrapper = some (some (12, 4, [(0, 0), (1, 0), (2, 0)])) ∧
    summary {} witnessUnionWrapper = some (some (8, 4, [(0, 0), (1, 0), (2, 0)])) :=
  ⟨by decide, by decide, by decide⟩

/-- `--explicit-padding`: `comp_layout.size - self.latest_offset` used to underflow here (union in
wrapper form with a bit-field unit); fixed in /repo by commit 8d11e5e5 (`>=` guard), which the
model follows: no panic, and the layout is C's -/
theorem C02_tail_padding_no_underflow :
    summary { forcePadding := true } witnessTailUnderflow = some (some (8, 8, [(0, 0), (1, 0)])) ∧
    (emit {} witnessTailUnderflow).isSome = true ∧ Generated.LayoutConsts.tailPaddingGuardIsGe = true := by decide

/-- `#pragma pack(2)` undetected: `b` at 8 in Rust, at 2 in C -/
theorem C02_fails_on_unpacked_misaligned_member :
    (emit {} witnessMisaligned).map (unpackedMisalignedMember witnessMisaligned) = some true ∧
    summary {} witnessMisaligned = some (some (16, 8, [(0, 0), (1, 8)])) := by decide

/-- `#pragma pack(4)` with a member-level `aligned(16)`: C leaves a gap (b at 4, c at 8, size 16),
the emitted `repr(C, packed(4))` struct has none (b at 1, c at 4, size 12) -/
theorem C02_fails_on_packed_member_gap :
    (emit {} witnessPackedGap).map (packedGap witnessPackedGap) = some true ∧
    summary {} witnessPackedGap = some (some (12, 4, [(0, 0), (1, 1), (2, 4)])) := by decide

/-- a union of unnamed bit-fields ending in `:0` has no field in the IR, is considered zero-sized and
gets `_address: u8`: Rust size 1, C size 3 -/
theorem C02_fails_on_union_bitfields_dropped :
    (emit {} witnessUnionDropped).map (unionBitfieldsDropped witnessUnionDropped) = some true ∧
    summary {} witnessUnionDropped = some (some (1, 1, [])) := by decide

/-- a bit-field unit lands at byte 1, libclang has its bit-field at bit 32 (byte 4): size, alignment
and the offsets of plain members agree with C, the bit-field accessors touch the wrong bytes -/
theorem C02_fails_on_bitfield_unit_misplaced :
    (emit {} witnessUnitMisplaced).map (unitMisplaced witnessUnitMisplaced) = some true ∧
    ((emit {} witnessUnitMisplaced).bind reprC).map (fun l => (l.size, l.align, l.unitOffset 1)) = some (8, 4, some 1) := by decide

/-- the hypotheses of `C02_plain_struct` are satisfiable on a non-trivial record
(`struct { char a; int b; short c; long d; }` with and without explicit padding) -/
example : ClangPlain witnessPlain = true ∧ padInexact {} witnessPlain = false ∧
    padInexact { forcePadding := true } witnessPlain = false := by decide

end BindgenModel.C02
