import BindgenModel.Lemmas.Link
import BindgenModel.Lemmas.Lower
/-! # C04 — functions and globals bind the right symbol with a call-compatible signature (partial)

What is proved (about the models of `names_will_be_identical_after_mangling`, the link-name decision
of `Function::codegen` / `Var::codegen`, `fnsig_argument_type` / `fnsig_return_ty`, `FunctionSig::abi`
and the seen-set bookkeeping) and what is not (rustc's/LLVM's ABI lowering, libclang's mangler, the
parser that produces the IR) is spelled out in `checks/manifest.d/C04.json`. -/
namespace BindgenModel.Link
open BindgenModel.Generated (Abi)

/-- FULL statement on the model (symbol half): whatever the renaming, on every target family, the
symbol referenced by the emitted item is libclang's mangled name.  FALSE — see the `_fails_` lemmas. -/
def C04_symbol_statement : Prop :=
  ∀ (tf : TargetFamily) (f : FnIn) (n : Nat), f.linkOverride = none → f.internal = false →
    f.mangled = some (platformMangle tf f.cc f.name n) →
    symbolReferenced tf f.cc f.canonical (fnLinkAttr f) n = platformMangle tf f.cc f.name n

/-! ## characterisation of the decision -/

/-- The attribute is omitted exactly when the names are equal or the mangled name has the decorated
form `prefix ++ canonical ++ suffix` the calling convention prescribes *on some target*. -/
theorem C04_namesIdentical_iff (c m : Name) (cc : CallConv) :
    namesIdentical c m cc = true ↔ c = m ∨ PlatformForm c m cc :=
  namesIdentical_iff c m cc

theorem C04_fn_attr_omitted_iff (f : FnIn) :
    fnLinkAttr f = .none ↔
      f.linkOverride = none ∧ namesIdentical f.canonical (f.mangled.getD f.name) f.cc = true ∧
        (f.internal && f.wrapStatic) = false := by
  unfold fnLinkAttr fnLinkNameAttr
  cases ho : f.linkOverride with
  | some l => simp
  | none =>
    simp only
    cases hn : namesIdentical f.canonical (f.mangled.getD f.name) f.cc <;>
      cases hw : (f.internal && f.wrapStatic) <;> simp

/-! ## the symbol is right when the binding keeps the C name -/

/-- If the Rust name is the C name, then on every target family and for every calling convention the
symbol the emitted item refers to is the one libclang reported (or, when libclang reported none, the
one the backend derives from the C name) — whichever branch `namesIdentical` takes. -/
theorem C04_link_symbol_correct_partial (tf : TargetFamily) (f : FnIn) (n : Nat)
    (hkeep : f.canonical = f.name) (hov : f.linkOverride = none) (hint : f.internal = false)
    (hm : f.mangled = some (platformMangle tf f.cc f.name n) ∨ f.mangled = none) :
    symbolReferenced tf f.cc f.canonical (fnLinkAttr f) n = platformMangle tf f.cc f.name n := by
  unfold fnLinkAttr fnLinkNameAttr
  rw [hov]
  simp only [hint, Bool.false_and]
  cases hid : namesIdentical f.canonical (f.mangled.getD f.name) f.cc with
  | true => simp [symbolReferenced, hkeep]
  | false =>
    rcases hm with hm | hm
    · simp [symbolReferenced, hm]
    · rw [hm, Option.getD_none, hkeep, namesIdentical_refl] at hid
      exact absurd hid (by decide)

theorem C04_var_symbol_correct_partial (tf : TargetFamily) (v : VarIn) (n : Nat)
    (hkeep : v.canonical = v.name) (hov : v.linkOverride = none)
    (hm : v.mangled = some (platformMangle tf .var v.name n) ∨ v.mangled = none) :
    symbolReferenced tf .var v.canonical (varLinkAttr v) n = platformMangle tf .var v.name n := by
  unfold varLinkAttr
  rw [hov]
  simp only
  cases hid : namesIdentical v.canonical (v.mangled.getD v.name) .var with
  | true => simp [symbolReferenced, hkeep]
  | false =>
    rcases hm with hm | hm
    · simp [symbolReferenced, hm]
    · rw [hm, Option.getD_none, hkeep, namesIdentical_refl] at hid
      exact absurd hid (by decide)

/-- General form: with the mangled name known, the symbol is right iff the input is outside the
region `renameClash` (attribute omitted although the backend would not produce the C symbol from
the Rust name). -/
def renameClashN (tf : TargetFamily) (c m : Name) (cc : CallConv) (n : Nat) : Bool :=
  namesIdentical c m cc && platformMangle tf cc c n != m

theorem C04_link_symbol_correct_iff (tf : TargetFamily) (f : FnIn) (m : Name) (n : Nat)
    (hov : f.linkOverride = none) (hint : f.internal = false) (hm : f.mangled = some m) :
    symbolReferenced tf f.cc f.canonical (fnLinkAttr f) n = m ↔ renameClashN tf f.canonical m f.cc n = false := by
  unfold fnLinkAttr fnLinkNameAttr renameClashN
  rw [hov, hm]
  simp only [hint, Bool.false_and, Option.getD_some]
  cases hid : namesIdentical f.canonical m f.cc <;> simp [symbolReferenced]

/-- on targets that do not decorate, the region is "renamed, but still of a decorated form" -/
theorem C04_renameClash_elf_iff (c m : Name) (cc : CallConv) (n : Nat) :
    renameClashN .elf c m cc n = true ↔ c ≠ m ∧ PlatformForm c m cc := by
  unfold renameClashN
  simp only [platformMangle, Bool.and_eq_true, bne_iff_ne, ne_eq]
  rw [namesIdentical_iff]
  constructor
  · rintro ⟨h1 | h1, h2⟩
    · exact absurd h1 h2
    · exact ⟨h2, h1⟩
  · rintro ⟨h1, h2⟩
    exact ⟨Or.inr h2, h1⟩

/-- the data-only region predicate used by the harness agrees with the general one on ELF and Mach-O
for C-like conventions -/
theorem C04_renameClash_elf (c m : Name) (cc : CallConv) (n : Nat) :
    renameClash .elf c m cc = renameClashN .elf c m cc n := by
  simp [renameClash, renameClashN, prefixes, platformMangle]

/-! ## the decision is not target-aware: negation lemmas with witnesses -/

/-- ELF, a renaming that strips a leading underscore (any name, any C-like convention): the
attribute is omitted and the item refers to the stripped name, not to the C symbol. -/
theorem C04_fails_on_elf_prefix_strip (c : Name) (cc : CallConv) (hs : manglingShape cc = some (us, false))
    (f : FnIn) (n : Nat) (hname : f.name = us :: c) (hcanon : f.canonical = c) (hcc : f.cc = cc)
    (hov : f.linkOverride = none) (hint : f.internal = false)
    (hm : f.mangled = some (platformMangle .elf cc f.name n)) :
    fnLinkAttr f = .none ∧ symbolReferenced .elf cc f.canonical (fnLinkAttr f) n = c ∧
      c ≠ platformMangle .elf cc f.name n := by
  have hid : namesIdentical c (us :: c) cc = true := by
    rw [namesIdentical_iff]
    exact Or.inr ⟨us, false, hs, [], by simp, by simp⟩
  have hattr : fnLinkAttr f = .none := by
    rw [C04_fn_attr_omitted_iff]
    refine ⟨hov, ?_, by simp [hint]⟩
    rw [hm, hcanon, hcc, hname]
    simpa [platformMangle] using hid
  refine ⟨hattr, ?_, ?_⟩
  · rw [hattr]; simp [symbolReferenced, platformMangle, hcanon]
  · simp only [platformMangle, hname]
    intro h
    have := congrArg List.length h
    simp at this

/-- the witness of DESIGN.md §7 row 8: C function `_foo`, callback renames it to `foo`, ELF. -/
def witnessElf : FnIn :=
  { name := [95, 102, 111, 111], canonical := [102, 111, 111], mangled := some [95, 102, 111, 111],
    linkOverride := none, cc := .known .C }

theorem C04_fails_on_elf_foo :
    fnLinkAttr witnessElf = .none ∧
      symbolReferenced .elf witnessElf.cc witnessElf.canonical (fnLinkAttr witnessElf) 0 = [102, 111, 111] ∧
      platformMangle .elf witnessElf.cc witnessElf.name 0 = [95, 102, 111, 111] := by
  decide

theorem C04_symbol_statement_false : ¬ C04_symbol_statement := by
  intro h
  have := h .elf witnessElf 0 rfl rfl rfl
  revert this
  decide

/-- Mach-O (or 32-bit Windows cdecl), a renaming that *adds* an underscore: names are equal, the
attribute is omitted, the backend prepends another underscore. -/
theorem C04_fails_on_machO_prefix_add (c : Name) (f : FnIn) (n : Nat)
    (hname : f.name = c) (hcanon : f.canonical = us :: c)
    (hov : f.linkOverride = none) (hint : f.internal = false)
    (hm : f.mangled = some (platformMangle .machO f.cc f.name n)) :
    fnLinkAttr f = .none ∧ symbolReferenced .machO f.cc f.canonical (fnLinkAttr f) n = us :: us :: c ∧
      platformMangle .machO f.cc f.name n = us :: c := by
  have hattr : fnLinkAttr f = .none := by
    rw [C04_fn_attr_omitted_iff]
    refine ⟨hov, ?_, by simp [hint]⟩
    rw [hm, hcanon, hname]
    simp [platformMangle, namesIdentical_refl]
  refine ⟨hattr, ?_, ?_⟩
  · rw [hattr]; simp [symbolReferenced, platformMangle, hcanon]
  · simp [platformMangle, hname]

/-- …which needs no callback: the C identifier `_` is a Rust keyword, `rust_mangle` makes it `__`,
and on Mach-O / Win32 that *is* the mangled name.  (Reproduced at symbol-text level with
`int _(int);` and `--target=x86_64-apple-darwin`.) -/
def witnessUnderscore : FnIn :=
  { name := [95], canonical := [95, 95], mangled := some [95, 95], linkOverride := none, cc := .known .C }

theorem C04_fails_on_machO_underscore :
    fnLinkAttr witnessUnderscore = .none ∧
      symbolReferenced .machO witnessUnderscore.cc witnessUnderscore.canonical (fnLinkAttr witnessUnderscore) 0
        = [95, 95, 95] ∧
      platformMangle .machO witnessUnderscore.cc witnessUnderscore.name 0 = [95, 95] ∧
      renameClash .machO witnessUnderscore.canonical [95, 95] witnessUnderscore.cc = true := by
  decide

/-- `Var::codegen` ignores an explicit link-name override when it emits an `extern static` -/
theorem C04_var_link_override_ignored (v : VarIn) (l : Name) (h : v.linkOverride = some l) :
    varLinkAttr v = .none := by
  simp [varLinkAttr, h]

/-! ## the attribute is not emitted needlessly -/

/-- For the conventions whose decoration the function knows, on every target family, the attribute
is omitted when the mangled name is what the backend derives from the Rust name (C-like conventions
and variables on all targets; stdcall / fastcall where they are decorated, i.e. 32-bit Windows). -/
theorem C04_link_attr_minimal_clike (tf : TargetFamily) (c : Name) (cc : CallConv) (n : Nat)
    (hs : manglingShape cc = some (us, false)) (hcc : cc = .var ∨ cc = .known .C ∨ cc = .known .CUnwind) :
    namesIdentical c (platformMangle tf cc c n) cc = true := by
  rw [namesIdentical_iff]
  cases tf with
  | elf => left; rfl
  | win64 => left; rfl
  | machO => right; exact ⟨us, false, hs, [], by simp [platformMangle], by simp⟩
  | win32x86 =>
    by_cases hq : c.head? = some qmark
    · left; simp [platformMangle, hq]
    · right
      refine ⟨us, false, hs, [], ?_, by simp⟩
      rcases hcc with h | h | h <;> subst h <;> simp [platformMangle, hq]

theorem C04_link_attr_minimal_stdcall (c : Name) (n : Nat) :
    namesIdentical c (platformMangle .win32x86 (.known .Stdcall) c n) (.known .Stdcall) = true := by
  rw [namesIdentical_iff]
  by_cases hq : c.head? = some qmark
  · left; simp [platformMangle, hq]
  · right
    refine ⟨us, true, by decide, atSign :: decimal n, ?_, ?_⟩
    · simp [platformMangle, hq]
    · simpa using suffixOk_at_decimal n

theorem C04_link_attr_minimal_fastcall (c : Name) (n : Nat) :
    namesIdentical c (platformMangle .win32x86 (.known .Fastcall) c n) (.known .Fastcall) = true := by
  rw [namesIdentical_iff]
  by_cases hq : c.head? = some qmark
  · left; simp [platformMangle, hq]
  · right
    refine ⟨atSign, true, by decide, atSign :: decimal n, ?_, ?_⟩
    · simp [platformMangle, hq]
    · simpa using suffixOk_at_decimal n

/-! ## one binding per symbol (`functions_seen`, `vars_seen`) -/

theorem emitFnsAux_keys (skip : FnDecl → Bool) (ds : List FnDecl) (seen counted : List Name) :
    (∀ e ∈ emitFnsAux skip ds seen counted, e.1.key ∉ seen ∧ e.1 ∈ ds) ∧
      ((emitFnsAux skip ds seen counted).map (·.1.key)).Nodup := by
  induction ds generalizing seen counted with
  | nil => simp [emitFnsAux]
  | cons d rest ih =>
    unfold emitFnsAux
    by_cases h1 : seen.contains d.key = true
    · rw [if_pos h1]
      obtain ⟨a, b⟩ := ih seen counted
      exact ⟨fun e he => ⟨(a e he).1, List.mem_cons_of_mem _ (a e he).2⟩, b⟩
    · rw [if_neg h1]
      by_cases h2 : skip d = true
      · rw [if_pos h2]
        obtain ⟨a, b⟩ := ih (d.key :: seen) counted
        refine ⟨fun e he => ⟨?_, List.mem_cons_of_mem _ (a e he).2⟩, b⟩
        have := (a e he).1
        simp only [List.mem_cons, not_or] at this
        exact this.2
      · rw [if_neg h2]
        obtain ⟨a, b⟩ := ih (d.key :: seen) (d.canonical :: counted)
        refine ⟨?_, ?_⟩
        · intro e he
          simp only [List.mem_cons] at he
          rcases he with he | he
          · subst he
            refine ⟨?_, by simp⟩
            simpa using h1
          · have := (a e he).1
            simp only [List.mem_cons, not_or] at this
            exact ⟨this.2, List.mem_cons_of_mem _ (a e he).2⟩
        · simp only [List.map_cons, List.nodup_cons]
          refine ⟨?_, b⟩
          intro hmem
          simp only [List.mem_map] at hmem
          obtain ⟨e, he, hk⟩ := hmem
          have := (a e he).1
          simp only [List.mem_cons, not_or] at this
          exact this.1 hk

/-- `seen_dedup`: no two emitted functions share a symbol key (mangled name, else canonical name) -/
theorem C04_seen_dedup (skip : FnDecl → Bool) (ds : List FnDecl) :
    ((emitFns skip ds).map (·.1.key)).Nodup :=
  (emitFnsAux_keys skip ds [] []).2

theorem emitVarsAux_nodup (cs seen : List Name) :
    (∀ c ∈ emitVarsAux cs seen, c ∉ seen) ∧ (emitVarsAux cs seen).Nodup := by
  induction cs generalizing seen with
  | nil => simp [emitVarsAux]
  | cons c rest ih =>
    unfold emitVarsAux
    by_cases h : seen.contains c = true
    · rw [if_pos h]; exact ih seen
    · rw [if_neg h]
      obtain ⟨a, b⟩ := ih (c :: seen)
      refine ⟨?_, ?_⟩
      · intro x hx
        simp only [List.mem_cons] at hx
        rcases hx with hx | hx
        · subst hx; simpa using h
        · have := a x hx
          simp only [List.mem_cons, not_or] at this
          exact this.2
      · simp only [List.nodup_cons]
        refine ⟨fun hm => ?_, b⟩
        have := a c hm
        simp at this

theorem C04_seen_dedup_vars (cs : List Name) : (emitVars cs).Nodup := (emitVarsAux_nodup cs []).2

/-- every declared function that is not skipped has a binding for its symbol -/
theorem emitFnsAux_complete (ds : List FnDecl) (seen counted : List Name) :
    ∀ d ∈ ds, d.key ∈ seen ∨ d.key ∈ (emitFnsAux (fun _ => false) ds seen counted).map (·.1.key) := by
  induction ds generalizing seen counted with
  | nil => simp
  | cons d0 rest ih =>
    intro d hd
    unfold emitFnsAux
    by_cases h1 : seen.contains d0.key = true
    · rw [if_pos h1]
      simp only [List.mem_cons] at hd
      rcases hd with hd | hd
      · subst hd; left; simpa using h1
      · exact ih seen counted d hd
    · rw [if_neg h1]
      simp only [Bool.false_eq_true, if_false, List.map_cons, List.mem_cons]
      simp only [List.mem_cons] at hd
      rcases hd with hd | hd
      · subst hd; right; left; trivial
      · rcases ih (d0.key :: seen) (d0.canonical :: counted) d hd with h | h
        · simp only [List.mem_cons] at h
          rcases h with h | h
          · right; left; exact h
          · left; exact h
        · right; right; exact h

theorem C04_seen_complete (ds : List FnDecl) :
    ∀ d ∈ ds, d.key ∈ (emitFns (fun _ => false) ds).map (·.1.key) := by
  intro d hd
  rcases emitFnsAux_complete ds [] [] d hd with h | h
  · simp at h
  · exact h

/-! ## non-vacuity -/

example : ∃ f : FnIn, f.canonical = f.name ∧ f.linkOverride = none ∧ f.internal = false ∧
    f.mangled = some (platformMangle .win32x86 f.cc f.name 8) ∧ fnLinkAttr f = .none :=
  ⟨{ name := [102], canonical := [102], mangled := some (platformMangle .win32x86 (.known .Stdcall) [102] 8),
     linkOverride := none, cc := .known .Stdcall }, by decide⟩

example : namesIdentical [102] [95, 102, 64, 56] (.known .Stdcall) = true := by decide
example : namesIdentical [102] [95, 102, 64] (.known .Stdcall) = false := by decide
example : namesIdentical [102] [64, 102, 64, 49, 50] (.known .Fastcall) = true := by decide
example : namesIdentical [102] [95, 102] (.known .Vectorcall) = false := by decide

end BindgenModel.Link

namespace BindgenModel.Lower
open BindgenModel.Generated

/-! ## signature lowering -/

/-- `lower_adjusts` (parameters): the C type the emitted Rust parameter type denotes is the
adjusted C parameter type. -/
theorem C04_lower_adjusts_param (c : Bool) (t : CTy) : cOf (lowerParam c t) = cParamAdjust c t := by
  unfold lowerParam cParamAdjust
  have h := cOf_paramArr c t
  cases hp : paramArr c t with
  | none => rw [hp] at h; simp at h; simp [← h, cOf_lowerTy t]
  | some r => rw [hp] at h; simp at h; simp [← h]

/-- `lower_adjusts` (return): `void` (also behind typedefs) ⇒ no return type, noreturn ⇒ `!`,
otherwise the type itself. -/
theorem C04_lower_adjusts_ret (d : Bool) (t : CTy) : cOf (lowerRet d t) = normRet d t :=
  cOf_lowerRet d t

/-- On normal forms the adjusted type is literally the C11 one: a non-array parameter is passed as
itself, … -/
theorem C04_lower_param_nf_partial (c : Bool) (t : CTy) (hnf : NF t = true) (hna : adjArr c t = none) :
    cOf (lowerParam c t) = t := by
  rw [C04_lower_adjusts_param]
  simp [cParamAdjust, hna, norm_of_NF t hnf]

/-- … an array parameter (also through typedefs, cf. `adjArr`) decays to a pointer whose pointee
is const iff the element or the (typedef'd) array type is, … -/
theorem C04_lower_param_array_partial (c ec : Bool) (e : CTy) (n : Nat) (hnf : NF e = true) :
    cOf (lowerParam c (.array ec e n)) = .ptr (ec || c) e := by
  rw [C04_lower_adjusts_param]
  simp [cParamAdjust, adjArr, norm_of_NF e hnf]

/-- … a function-typed parameter becomes a pointer to that function type, … -/
theorem C04_lower_param_func_partial (c : Bool) (r : CTy) (as : CTys) (v : Bool)
    (hr : NFRet r = true) (has : NFs as = true) :
    cOf (lowerParam c (.func r as v false)) = .ptr false (.func r as v false) := by
  rw [C04_lower_adjusts_param]
  simp [cParamAdjust, adjArr, norm, normRet_of_NFRet r hr, normParams_of_NFs as has]

/-- … and the return type is unchanged. -/
theorem C04_lower_ret_nf_partial (t : CTy) (h : NFRet t = true) : cOf (lowerRet false t) = t := by
  rw [C04_lower_adjusts_ret, normRet_of_NFRet t h]

/-- outside the normal forms the round trip fails: element qualifiers of by-value arrays are lost -/
theorem C04_lower_loses_array_elem_const :
    cOf (lowerParam false (.ptr false (.array true (.scalar 0) 3))) ≠ .ptr false (.array true (.scalar 0) 3) := by
  simp [lowerParam, paramArr, lowerTy, canon, isFunc, cOf]

/-- `void` return behind a typedef is `()`; `noreturn` is `!` whatever the declared type -/
theorem C04_lower_ret_void_never (id : Nat) (t : CTy) :
    lowerRet false (.alias id .void) = .unit ∧ lowerRet false .void = .unit ∧ lowerRet true t = .never := by
  refine ⟨by simp [lowerRet, canon, isVoid], by simp [lowerRet], ?_⟩
  cases t <;> simp [lowerRet]

/-- function pointers are `Option`-wrapped exactly once per pointer-to-function level -/
theorem C04_lower_fnptr (pc : Bool) (r : CTy) (as : CTys) (v d : Bool) :
    lowerTy (.ptr pc (.func r as v d)) = .optFn (lowerRet d r) (lowerParams as) v ∧
      lowerTy (.ptr false (.ptr pc (.func r as v d))) = .rptr false (.optFn (lowerRet d r) (lowerParams as) v) := by
  simp [lowerTy, canon, isFunc]

/-! ## argument classes -/

/-- `class_preserved_partial`: every scalar other than `long double` is passed in the class the C
callee expects (and extended the way the C type demands: same width, same signedness). -/
theorem C04_class_preserved_partial (k : SKind) (h : k ≠ .longDouble) : rClass (lowerScalar k) = cClass k := by
  cases k <;> simp_all [lowerScalar, rClass, cClass]

/-- region `long_double_by_value`: a by-value `long double` is rendered `u128`, which rustc passes
in two INTEGER registers while the C callee expects X87 class (memory): every later integer argument
is shifted. -/
theorem C04_class_fails_on_long_double :
    rClass (lowerScalar .longDouble) = [.integer, .integer] ∧ cClass .longDouble = [.x87, .x87up] := by
  decide

/-! ## ABI table -/

/-- `abi_table` (total, faithful strings): every variant has a distinct keyword, all of them are ABI
strings rustc knows, and `FromStr` inverts `Display`. -/
def rustcAbiStrings : List (List Char) :=
  [['C'], ['s','t','d','c','a','l','l'], ['e','f','i','a','p','i'], ['f','a','s','t','c','a','l','l'],
   ['t','h','i','s','c','a','l','l'], ['v','e','c','t','o','r','c','a','l','l'], ['a','a','p','c','s'],
   ['w','i','n','6','4'], ['s','y','s','v','6','4'], ['C','-','u','n','w','i','n','d'], ['s','y','s','t','e','m'],
   ['c','d','e','c','l'], ['s','y','s','t','e','m','-','u','n','w','i','n','d']]

theorem C04_abi_table_display_injective :
    ∀ a ∈ Abi.all, ∀ b ∈ Abi.all, Abi.display a = Abi.display b → a = b := by decide

theorem C04_abi_table_all : ∀ a : Abi, a ∈ Abi.all := by intro a; cases a <;> decide

theorem C04_abi_table_display_known : ∀ a ∈ Abi.all, Abi.display a ∈ rustcAbiStrings := by decide

theorem C04_abi_table_fromStr_inverse :
    ∀ a ∈ Abi.all, (Abi.fromStrArms.find? (·.1 == Abi.display a)).map (·.2) = some a := by decide

/-- the gates and the variadic restriction never apply to the same ABI (so `gateAbi` is the `match`) -/
theorem C04_abi_table_gates_disjoint : ∀ a ∈ Abi.all, (abiGate a).isSome → abiNoVariadic a = false := by decide

/-- `get_abi` is total on the named conventions, and the default convention is `C` -/
theorem C04_abi_table_default : getAbi .Default = .known .C ∧ getAbi .C = .known .C ∧ getAbi .Other = .unknown := by
  decide

/-- the decoration table used by the link-name decision mentions only conventions `get_abi` can
produce or an override can name, with the decorations of the 32-bit Windows mangler -/
theorem C04_abi_table_mangling_shapes :
    manglingShapeKnown .C = some ('_', false) ∧ manglingShapeKnown .CUnwind = some ('_', false) ∧
    manglingShapeKnown .Stdcall = some ('_', true) ∧ manglingShapeKnown .Fastcall = some ('@', true) ∧
    manglingShapeVar = ('_', false) ∧
    (∀ a ∈ Abi.all, a ≠ .C → a ≠ .CUnwind → a ≠ .Stdcall → a ≠ .Fastcall → manglingShapeKnown a = none) := by
  decide

/-- `abi_table` (override-respecting): a matching override decides, otherwise clang's convention -/
theorem C04_abi_override_respected (ovs : List (Abi × Bool)) (clang : ClangAbi) :
    (∀ a, (a, true) ∈ ovs → ∃ b, chooseAbi ovs clang = .known b ∧ (b, true) ∈ ovs) ∧
    ((∀ p ∈ ovs, p.2 = false) → chooseAbi ovs clang = clang) := by
  constructor
  · intro a ha
    unfold chooseAbi
    cases hf : ovs.find? (·.2) with
    | none =>
      have := List.find?_eq_none.mp hf (a, true) ha
      simp at this
    | some p =>
      obtain ⟨b, fl⟩ := p
      have hmem := List.mem_of_find?_eq_some hf
      have hp := List.find?_some hf
      simp only at hp
      subst hp
      exact ⟨b, rfl, hmem⟩
  · intro h
    unfold chooseAbi
    cases hf : ovs.find? (·.2) with
    | none => rfl
    | some p =>
      have hmem := List.mem_of_find?_eq_some hf
      have hp := List.find?_some hf
      rw [h p hmem] at hp
      exact absurd hp (by decide)

/-- a single override (the only order-independent configuration) wins over clang -/
theorem C04_abi_override_single (a : Abi) (clang : ClangAbi) : chooseAbi [(a, true)] clang = .known a := by
  simp [chooseAbi]

/-- gating never changes the convention, it only withholds the binding -/
theorem C04_abi_gate_sound (feat : AbiFeature → Bool) (v : Bool) (x y : ClangAbi)
    (h : gateAbi feat v x = some y) : y = x := by
  cases x with
  | unknown =>
    simp only [gateAbi] at h
    split at h
    · simp at h
    · simp at h; exact h.symm
  | known a =>
    simp only [gateAbi] at h
    split at h
    · split at h
      · simp at h
      · simp at h; exact h.symm
    · split at h
      · simp at h
      · simp at h; exact h.symm

/-- source obligation (regenerated `Generated/Abi.lean`): a calling convention Rust has no name for is
answered with `Err(UnsupportedAbi)`.  With it, `Function::codegen`'s `Ok(ClangAbi::Unknown(_)) => panic!`
arm and `ToTokens for ClangAbi`'s panic are unreachable (C12). -/
theorem C04_abi_unknown_rejected : abiUnknownRejected = true := by decide

/-- whatever the overrides, features and variadicity: the ABI handed to code generation is a known one -/
theorem C04_abi_never_unknown (ovs : List (Abi × Bool)) (feat : AbiFeature → Bool) (v : Bool) (clang : ClangAbi) :
    sigAbi ovs feat v clang ≠ some .unknown := by
  intro h
  have hx := C04_abi_gate_sound feat v _ _ h
  unfold sigAbi at h
  rw [← hx] at h
  simp [gateAbi, C04_abi_unknown_rejected] at h

example : sigAbi [] (fun _ => true) false .unknown = none := by decide
example : sigAbi [(.CUnwind, true)] (fun _ => true) false (.known .C) = some (.known .CUnwind) := by decide
example : sigAbi [] (fun _ => false) false (.known .Vectorcall) = none := by decide
example : sigAbi [] (fun _ => true) true (.known .Win64) = none := by decide
example : NF (.ptr true (.alias 3 (.comp 1))) = true ∧ NFs (.cons false (.ptr false .void) .nil) = true := by decide

end BindgenModel.Lower
