import BindgenModel.Model.LayoutTests
/-!
# C06 — embedded layout assertions are complete and state the C compiler's numbers

Theorems about `Model/LayoutTests.lean`.  "The numbers are what the C compiler computes for the
selected target" is the modelled-input assumption (`CompDesc.layout`, `FieldDesc.data … off` are
libclang's numbers); it is validated on every run against `clang --target=T -S -emit-llvm`.
-/
namespace BindgenModel.C06
open BindgenModel.LayoutTests

/-- the premises under which the property demands assertions for a record -/
def Demanded (o : Opts) (c : CompDesc) : Prop :=
  o.layoutTests = true ∧ c.nonTypeTParams = false ∧ c.noTemplateParams = true ∧ c.forwardDecl = false

/-- FULL statement of the property on the model. -/
def C06_statement : Prop :=
  (∀ o c size align, Demanded o c → c.layout = some (size, align) →
      ∃ it, compAsserts o c = some it ∧ Assert.size size ∈ it.asserts ∧ Assert.align align ∈ it.asserts ∧
        (c.isOpaque = false → ∀ idx off, c.fields[idx]? = some (.data true (some off)) →
          Assert.offset idx (off / 8) ∈ it.asserts)) ∧
  (∀ o c, o.layoutTests = false → compAsserts o c = none) ∧
  (∀ o c, emitAll { o with layoutTests := false } c = (emitAll o c).filter (fun i => !i.isAssertion))

theorem mem_offsetAsserts (fs : List FieldDesc) (base idx off : Nat)
    (h : fs[idx]? = some (.data true (some off))) :
    Assert.offset (base + idx) (off / 8) ∈ offsetAsserts base fs := by
  induction fs generalizing base idx with
  | nil => simp at h
  | cons f fs ih =>
    cases idx with
    | zero =>
      simp only [List.getElem?_cons_zero, Option.some.injEq] at h
      subst h
      simp [offsetAsserts]
    | succ i =>
      simp only [List.getElem?_cons_succ] at h
      have := ih (base + 1) i h
      have e : base + 1 + i = base + (i + 1) := by omega
      rw [e] at this
      cases f with
      | unit => simpa [offsetAsserts] using this
      | data named o =>
        cases named <;> cases o <;> simp [offsetAsserts, this]

/-- every offset assertion comes from a named data member with a known offset, with that number -/
theorem offsetAsserts_sound (fs : List FieldDesc) (base : Nat) (a : Assert) (h : a ∈ offsetAsserts base fs) :
    ∃ idx off, a = .offset (base + idx) (off / 8) ∧ fs[idx]? = some (.data true (some off)) := by
  induction fs generalizing base with
  | nil => simp [offsetAsserts] at h
  | cons f fs ih =>
    have step : a ∈ offsetAsserts (base + 1) fs →
        ∃ idx off, a = .offset (base + idx) (off / 8) ∧ (f :: fs)[idx]? = some (.data true (some off)) := by
      intro h'
      obtain ⟨i, off, e, hi⟩ := ih (base + 1) h'
      exact ⟨i + 1, off, by rw [e]; congr 1; omega, by simpa using hi⟩
    cases f with
    | unit => exact step (by simpa [offsetAsserts] using h)
    | data named o =>
      cases named with
      | false => exact step (by simpa [offsetAsserts] using h)
      | true =>
        cases o with
        | none => exact step (by simpa [offsetAsserts] using h)
        | some off =>
          simp only [offsetAsserts, List.mem_cons] at h
          rcases h with h | h
          · exact ⟨0, off, by simpa using h, by simp⟩
          · exact step h

/-- **complete**: size, alignment and the offset of every named non-bit-field member with a
known offset are asserted, with libclang's numbers -/
theorem C06_complete (o : Opts) (c : CompDesc) (size align : Nat) (hd : Demanded o c)
    (hl : c.layout = some (size, align)) :
    ∃ it, compAsserts o c = some it ∧ it.form = formOf o ∧
      Assert.size size ∈ it.asserts ∧ Assert.align align ∈ it.asserts ∧
      (c.isOpaque = false → ∀ idx off, c.fields[idx]? = some (.data true (some off)) →
        Assert.offset idx (off / 8) ∈ it.asserts) := by
  obtain ⟨h1, h2, h3, h4⟩ := hd
  have he : compAsserts o c = some (AssertItem.mk (formOf o)
      (Assert.size size :: Assert.align align :: (if c.isOpaque then [] else offsetAsserts 0 c.fields))) := by
    simp [compAsserts, h1, h2, h3, h4, hl]
  refine ⟨_, he, rfl, by simp, by simp, ?_⟩
  intro hop idx off hf
  have := mem_offsetAsserts c.fields 0 idx off hf
  simp only [Nat.zero_add] at this
  simp [hop, this]

/-- **sound**: nothing else is asserted: exactly one size, one alignment, and offsets of named
data members only, each with the number of the record description -/
theorem C06_sound (o : Opts) (c : CompDesc) (it : AssertItem) (h : compAsserts o c = some it) (a : Assert)
    (ha : a ∈ it.asserts) :
    ∃ size align, c.layout = some (size, align) ∧
      (a = .size size ∨ a = .align align ∨
        (c.isOpaque = false ∧ ∃ idx off, a = .offset idx (off / 8) ∧ c.fields[idx]? = some (.data true (some off)))) := by
  unfold compAsserts at h
  split at h; · simp at h
  split at h; · simp at h
  split at h; · simp at h
  split at h
  · simp at h
  · rename_i size align hl
    simp only [Option.some.injEq] at h
    subst h
    refine ⟨size, align, hl, ?_⟩
    simp only [List.mem_cons] at ha
    rcases ha with ha | ha | ha
    · exact Or.inl ha
    · exact Or.inr (Or.inl ha)
    · right; right
      cases hop : c.isOpaque with
      | true => simp [hop] at ha
      | false =>
        simp only [hop, Bool.false_eq_true, if_false] at ha
        obtain ⟨idx, off, e, hf⟩ := offsetAsserts_sound c.fields 0 a ha
        exact ⟨rfl, idx, off, by simpa using e, hf⟩

/-- **nothing_when_disabled** -/
theorem C06_nothing_when_disabled (o : Opts) (c : CompDesc) (h : o.layoutTests = false) :
    compAsserts o c = none := by
  unfold compAsserts
  simp [h]

theorem C06_inst_nothing_when_disabled (o : Opts) (i : InstDesc) (h : o.layoutTests = false) :
    instAsserts o i = none := by
  simp [instAsserts, h]

/-- forward declarations, template definitions and records without a known layout get no assertion -/
theorem C06_none_outside_premises (o : Opts) (c : CompDesc)
    (h : c.forwardDecl = true ∨ c.noTemplateParams = false ∨ c.nonTypeTParams = true ∨ c.layout = none) :
    compAsserts o c = none := by
  unfold compAsserts
  rcases h with h | h | h | h <;> simp [h]

/-- **only_asserts_change**: switching the option off removes the assertion item and nothing else -/
theorem C06_only_asserts_change (o : Opts) (c : CompDesc) :
    emitAll { o with layoutTests := false } c = (emitAll o c).filter (fun i => !i.isAssertion) := by
  unfold emitAll
  split
  · rfl
  · rw [C06_nothing_when_disabled { o with layoutTests := false } c rfl]
    cases compAsserts o c <;> simp [Item.isAssertion]

/-- **inst_asserts**: a concrete, non-opaque instantiation with a known layout gets a size and an
alignment assertion with that layout's numbers, and nothing else -/
theorem C06_inst_asserts (o : Opts) (i : InstDesc) (size align : Nat) (ht : o.layoutTests = true)
    (hop : i.isOpaque = false) (hu : i.usesTemplateParams = false) (hl : i.layout = some (size, align)) :
    instAsserts o i = some { form := formOf o, asserts := [.size size, .align align] } := by
  simp [instAsserts, ht, hop, hu, hl]

/-- const-block form exactly when the target has `offset_of!` -/
theorem C06_form (o : Opts) : formOf o = .constBlock ↔ o.offsetOf = true := by
  unfold formOf
  cases o.offsetOf <;> simp

/-- the full statement follows -/
theorem C06_statement_holds : C06_statement := by
  refine ⟨?_, ?_, ?_⟩
  · intro o c size align hd hl
    obtain ⟨it, h1, _, h3, h4, h5⟩ := C06_complete o c size align hd hl
    exact ⟨it, h1, h3, h4, h5⟩
  · exact C06_nothing_when_disabled
  · exact C06_only_asserts_change

/-- the de-duplicated `#[test]` function names: first occurrence unchanged, later ones suffixed -/
theorem C06_dedup_first (seen : List String) (b : String) (bs : List String) (h : timesSeen seen b = 0) :
    dedupNames seen (b :: bs) = b :: dedupNames (b :: seen) bs := by
  simp [dedupNames, h]

/-- the de-duplication can itself collide: `X`, `X`, `X_1` → `X`, `X_1`, `X_1` -/
theorem C06_dedup_can_collide : dedupNames [] ["X", "X", "X_1"] = ["X", "X_1", "X_1"] := by decide

/-- the members that get an offset assertion: named data members with a known offset -/
def asserted : FieldDesc → Bool
  | .data true (some _) => true
  | _ => false

/-- **Exactly one offset assertion per named member**: the number of offset assertions is the
number of named non-bit-field members with a known offset — none is asserted twice, none for a
bit-field unit or an anonymous member (with `offsetAsserts_sound`/`mem_offsetAsserts`: a bijection) -/
theorem C06_offset_count (fs : List FieldDesc) (base : Nat) :
    (offsetAsserts base fs).length = (fs.filter asserted).length := by
  induction fs generalizing base with
  | nil => rfl
  | cons f fs ih =>
    cases f with
    | unit => simpa [offsetAsserts, asserted] using ih (base + 1)
    | data named o =>
      cases named <;> cases o <;> simp [offsetAsserts, asserted, List.filter_cons, ih (base + 1)]

/-- every offset assertion carries an index at or after `base`: indices are those of `fields()` -/
theorem offsetAsserts_idx_ge (fs : List FieldDesc) (base idx n : Nat)
    (h : Assert.offset idx n ∈ offsetAsserts base fs) : base ≤ idx := by
  obtain ⟨i, off, e, -⟩ := offsetAsserts_sound fs base _ h
  injection e with e1 _; omega

/-- offset assertions never contain a size or an alignment assertion -/
theorem offsetAsserts_only_offsets (fs : List FieldDesc) (base : Nat) (a : Assert)
    (h : a ∈ offsetAsserts base fs) : ∃ idx n, a = .offset idx n := by
  obtain ⟨i, off, e, -⟩ := offsetAsserts_sound fs base a h
  exact ⟨_, _, e⟩

/-- **Shape of the block**: exactly one size assertion, exactly one alignment assertion, both first,
and `2 + #named members` assertions in all (an opaque record: exactly the two) -/
theorem C06_block_shape (o : Opts) (c : CompDesc) (it : AssertItem) (h : compAsserts o c = some it) :
    ∃ size align, c.layout = some (size, align) ∧
      it.asserts = .size size :: .align align :: (if c.isOpaque then [] else offsetAsserts 0 c.fields) ∧
      it.asserts.length = 2 + (if c.isOpaque then 0 else (c.fields.filter asserted).length) := by
  unfold compAsserts at h
  split at h; · cases h
  split at h; · cases h
  split at h; · cases h
  cases hl : c.layout with
  | none => simp [hl] at h
  | some sa =>
    obtain ⟨size, align⟩ := sa
    simp only [hl, Option.some.injEq] at h
    subst h
    refine ⟨size, align, rfl, rfl, ?_⟩
    cases c.isOpaque <;> simp [C06_offset_count]; omega

/-- a record whose members are all bit-field units, anonymous, or without known offset gets the
size and alignment assertions only -/
theorem C06_no_named_members (o : Opts) (c : CompDesc) (it : AssertItem) (h : compAsserts o c = some it)
    (hn : ∀ f ∈ c.fields, asserted f = false) : it.asserts.length = 2 := by
  obtain ⟨_, _, _, _, hlen⟩ := C06_block_shape o c it h
  have : c.fields.filter asserted = [] := List.filter_eq_nil_iff.2 (fun f hf => by simp [hn f hf])
  rw [hlen, this]; cases c.isOpaque <;> rfl

/-- the name list keeps its length: every instantiation assertion keeps a (possibly suffixed) name -/
theorem C06_dedup_length (seen bs : List String) : (dedupNames seen bs).length = bs.length := by
  induction bs generalizing seen with
  | nil => rfl
  | cons b bs ih => simp [dedupNames, ih]

/-- non-vacuity: a record with a bit-field unit, an anonymous member without offset and two named members -/
example : compAsserts { layoutTests := true, offsetOf := true }
    { layout := some (24, 8), fields := [.unit, .data true (some 64), .data true none, .data true (some 128)] } =
    some { form := .constBlock, asserts := [.size 24, .align 8, .offset 1 8, .offset 3 16] } := by decide

end BindgenModel.C06
