import BindgenModel.Model.Depfile
import BindgenModel.Model.Includes
import BindgenModel.Lemmas.Depfile
import BindgenModel.Generated.DepfileEscape
import BindgenModel.Generated.EnvSites
/-! # C17 — reported dependencies are exactly the files that were read

Full statement on the model (never weakened):

* the depfile text `DepfileSpec::to_string` writes is read back by make as the same target and the
  same prerequisite list (`C17_statement_depfile`);
* the recorded dependency set (`inputs ∪` resolved file of every reported inclusion directive)
  equals the set of files the preprocessor read (`deps_eq_filesRead`);
* `CargoCallbacks` prints exactly one `rerun-if-changed` line per notification and one
  `rerun-if-env-changed` line per announced environment read (`cargo_lines_exact`), and every
  environment read site of the source either goes through the announcing helper or is
  classified below (`env_reads_announced`).

The depfile part is FALSE for arbitrary names, so it is proved under the hypothesis the proof
forces (`okNameC` today, `okNameF` once `#`/`$` are escaped), with negation lemmas for the
excluded region. -/
namespace BindgenModel.Depfile
open BindgenModel.Generated

/-- FULL statement (false today, see the `…_fails_on_…` lemmas) -/
def C17_statement_depfile (tbl : List (Char × Str)) : Prop :=
  ∀ (tgt : Str) (deps : List Str), makeParse (toStringWith tbl tgt deps) = some ([tgt], deps)

/-- names for which the round trip is proved when `#`/`$` are escaped: non-empty, over
    plain characters, spaces, `#`, `$`; not ending in a space; not beginning with `./` -/
def okNameF (n : Str) : Prop := n ≠ [] ∧ (∀ c ∈ n, okF c) ∧ lastNotSpace n ∧ noDotSlash n

/-- the same for deps.rs as it is: additionally no `#`, no `$` -/
def okNameC (n : Str) : Prop := n ≠ [] ∧ (∀ c ∈ n, okC c) ∧ lastNotSpace n ∧ noDotSlash n

theorem okC_okF {c : Char} (h : okC c) : okF c := by
  rcases h with h | h
  · exact Or.inl h
  · exact Or.inr (Or.inl h)

theorem okNameC_okNameF {n : Str} (h : okNameC n) : okNameF n :=
  ⟨h.1, fun c hc => okC_okF (h.2.1 c hc), h.2.2.1, h.2.2.2⟩

theorem e2_unmodelled {c : Char} (h : okF c) : ∀ x ∈ e2 c, unmodelled x = false := by
  rcases h with h | h | h | h
  · rw [e2_plain h]; intro x hx; simp at hx; subst hx; exact h.1
  all_goals (subst h; decide)

theorem e2_head {c : Char} (h : okF c) (Y : Str) : (e2 c ++ Y).head? ≠ some '\t' := by
  rcases h with h | h | h | h
  · rw [e2_plain h]; simp; intro e; subst e; exact absurd h.2.1 (by decide)
  all_goals (subst h; simp [e2])

/-- a name as make spells it: a leading `./` (and the slashes after it) removed -/
def sd (n : Str) : Str := stripDot n.length n

/-- names of `okNameF` without the `./` condition -/
def okNameF' (n : Str) : Prop := n ≠ [] ∧ (∀ c ∈ n, okF c) ∧ lastNotSpace n

/-- make reads back what `to_string` wrote, up to its own spelling of `./x` as `x` — escape table
    with `#`→`\\#`, `$`→`$$` -/
theorem roundtrip_fixed_dot (tgt : Str) (deps : List Str)
    (ht : okNameF' tgt) (hd : ∀ d ∈ deps, okNameF' d) :
    makeParse (toStringWith tblFixed tgt deps) = some ([sd tgt], deps.map sd) := by
  obtain ⟨htne, htc, _⟩ := ht
  have hdc : ∀ d ∈ deps, ∀ c ∈ d, okF c := fun d h => (hd d h).2.1
  rw [toStringWith_eq]
  simp only [escape_fixed_eq]
  unfold makeParse
  -- no unmodelled character
  have hun : (tgt.flatMap e2 ++ ':' :: deps.flatMap (fun d => ' ' :: d.flatMap e2)).any unmodelled = false := by
    rw [Bool.eq_false_iff]; intro h
    rw [List.any_eq_true] at h
    obtain ⟨x, hx, hu⟩ := h
    simp only [List.mem_append, List.mem_flatMap, List.mem_cons] at hx
    rcases hx with ⟨c, hc, hx⟩ | hx | ⟨d, hdm, hx | ⟨c, hc, hx⟩⟩
    · rw [e2_unmodelled (htc c hc) x hx] at hu; exact absurd hu (by decide)
    · subst hx; exact absurd hu (by decide)
    · subst hx; exact absurd hu (by decide)
    · rw [e2_unmodelled (hdc d hdm c hc) x hx] at hu; exact absurd hu (by decide)
  have hhead : (tgt.flatMap e2 ++ ':' :: deps.flatMap (fun d => ' ' :: d.flatMap e2)).head? ≠ some '\t' := by
    cases tgt with
    | nil => exact absurd rfl htne
    | cons c t =>
      simp only [List.flatMap_cons, List.append_assoc]
      exact e2_head (htc c (by simp)) _
  rw [if_neg (by simp [hun]), if_neg hhead]
  -- phase 1
  rw [sc_name tgt htc, sc_char (by decide) (by decide) (by decide), sc_deps deps hdc]
  simp only [Option.map_some]
  -- phase 2
  rw [fc_line tgt htc]
  simp only
  -- phases 3, 4
  rw [norm_name tgt htc false false]
  have hex1 : expand false false (tgt.flatMap e1) = some (tgt.flatMap e0) := by
    have := ex_name tgt htc [] [] (by intro pb; simp [expand]) false
    simpa using this
  simp only [Bool.false_and, Bool.false_eq_true, if_false, List.nil_append]
  rw [hex1, ex_deps deps hdc false]
  simp only
  -- phases 5, 6
  rw [deps_no_colon deps hdc]
  simp only [Bool.false_eq_true, if_false]
  rw [dtb_of_last _ (deps_last deps (fun d h => ⟨(hd d h).2.1, (hd d h).1, (hd d h).2.2⟩))]
  -- phases 7, 8
  rw [sn_target tgt htc htne, sn_all deps (fun d h => ⟨(hd d h).2.1, (hd d h).1⟩)]
  simp [sd]

/-- make reads back exactly what `to_string` wrote — escape table with `#`→`\\#`, `$`→`$$` -/
theorem roundtrip_fixed (tgt : Str) (deps : List Str)
    (ht : okNameF tgt) (hd : ∀ d ∈ deps, okNameF d) :
    makeParse (toStringWith tblFixed tgt deps) = some ([tgt], deps) := by
  rw [roundtrip_fixed_dot tgt deps ⟨ht.1, ht.2.1, ht.2.2.1⟩ (fun d h => ⟨(hd d h).1, (hd d h).2.1, (hd d h).2.2.1⟩)]
  have hmap : deps.map sd = deps := by
    rw [List.map_congr_left (g := id)]
    · simp
    · intro d h; exact stripDot_id d (hd d h).2.2.2 _
  rw [hmap, show sd tgt = tgt from stripDot_id tgt ht.2.2.2 _]

theorem escape_current_eq_fixed (n : Str) (hn : ∀ c ∈ n, okC c) :
    escapeWith tblCurrent n = escapeWith tblFixed n := by
  rw [escape_current_eq, escape_fixed_eq]
  induction n with
  | nil => rfl
  | cons c n ih =>
    have hc : eC c = e2 c := by
      rcases hn c (by simp) with h | h
      · rw [e2_plain h]; simp [eC, h.2.2.1, plain_ne_space h]
      · subst h; decide
    simp only [List.flatMap_cons, hc]
    rw [ih (fun c h => hn c (by simp [h]))]

/-- **C17 depfile round trip (partial)** for deps.rs as it is: make reads back the target and
    the prerequisites for names without `#`, `$`, backslash, tab, `:` and the other make
    metacharacters, not ending in a space and not beginning with `./`. -/
theorem depfile_roundtrip_partial (tgt : Str) (deps : List Str)
    (ht : okNameC tgt) (hd : ∀ d ∈ deps, okNameC d) :
    makeParse (toStringWith tblCurrent tgt deps) = some ([tgt], deps) := by
  have h1 : toStringWith tblCurrent tgt deps = toStringWith tblFixed tgt deps := by
    rw [toStringWith_eq, toStringWith_eq, escape_current_eq_fixed tgt ht.2.1]
    congr 2
    clear ht
    induction deps with
    | nil => rfl
    | cons d ds ih =>
      simp only [List.flatMap_cons]
      rw [escape_current_eq_fixed d (hd d (by simp)).2.1, ih (fun d h => hd d (by simp [h]))]
  rw [h1]
  exact roundtrip_fixed tgt deps (okNameC_okNameF ht) (fun d h => okNameC_okNameF (hd d h))

/-- names of `okNameC` without the `./` condition (bindgen's own spelling of a quoted include
    found next to `main.h` is `./inc/a.h`) -/
def okNameC' (n : Str) : Prop := n ≠ [] ∧ (∀ c ∈ n, okC c) ∧ lastNotSpace n

/-- the round trip up to make's spelling of `./x` as `x` (same file) -/
theorem depfile_roundtrip_partial_dot (tgt : Str) (deps : List Str)
    (ht : okNameC' tgt) (hd : ∀ d ∈ deps, okNameC' d) :
    makeParse (toStringWith tblCurrent tgt deps) = some ([sd tgt], deps.map sd) := by
  have h1 : toStringWith tblCurrent tgt deps = toStringWith tblFixed tgt deps := by
    rw [toStringWith_eq, toStringWith_eq, escape_current_eq_fixed tgt ht.2.1]
    congr 2
    clear ht
    induction deps with
    | nil => rfl
    | cons d ds ih =>
      simp only [List.flatMap_cons]
      rw [escape_current_eq_fixed d (hd d (by simp)).2.1, ih (fun d h => hd d (by simp [h]))]
  rw [h1]
  exact roundtrip_fixed_dot tgt deps ⟨ht.1, fun c hc => okC_okF (ht.2.1 c hc), ht.2.2⟩
    (fun d h => ⟨(hd d h).1, fun c hc => okC_okF ((hd d h).2.1 c hc), (hd d h).2.2⟩)

/-- `sd` removes nothing but a leading `./` -/
theorem sd_id_of_noDotSlash (n : Str) (h : noDotSlash n) : sd n = n := stripDot_id n h _

/-- the same statement for whatever table the translator extracted from deps.rs, provided it is
    one of the two known forms (obligation `escape_table_known` below) -/
theorem depfile_roundtrip_generated (tgt : Str) (deps : List Str)
    (ht : okNameC tgt) (hd : ∀ d ∈ deps, okNameC d) :
    makeParse (toStringWith DepfileEscape.escapeTable tgt deps) = some ([tgt], deps) := by
  have h : DepfileEscape.escapeTable = tblCurrent ∨ DepfileEscape.escapeTable = tblFixed := by decide
  rcases h with h | h
  · rw [h]; exact depfile_roundtrip_partial tgt deps ht hd
  · rw [h]; exact roundtrip_fixed tgt deps (okNameC_okNameF ht) (fun d h => okNameC_okNameF (hd d h))

/-- generated-table obligation: the `escape` closure of deps.rs is one of the two analysed chains -/
theorem escape_table_known :
    DepfileEscape.escapeTable = tblCurrent ∨ DepfileEscape.escapeTable = tblFixed := by decide

/-- with the fix applied the hypothesis weakens to `okNameF` (names may contain `#` and `$`) -/
theorem depfile_roundtrip_hash_dollar_if_fixed (h : DepfileEscape.escapeTable = tblFixed)
    (tgt : Str) (deps : List Str) (ht : okNameF tgt) (hd : ∀ d ∈ deps, okNameF d) :
    makeParse (toStringWith DepfileEscape.escapeTable tgt deps) = some ([tgt], deps) := by
  rw [h]; exact roundtrip_fixed tgt deps ht hd

/-! ### the excluded region: concrete witnesses (each replayed against real make by the check) -/

/-- `a#b`: make takes `#b …` as a comment — the prerequisite list is truncated -/
theorem depfile_fails_on_hash :
    makeParse (toStringWith tblCurrent "out".toList ["a#b".toList, "c".toList]) =
      some (["out".toList], ["a".toList]) := by decide
/-- `a$b`: make expands `$b` (empty) — the name read back is `a` -/
theorem depfile_fails_on_dollar :
    makeParse (toStringWith tblCurrent "out".toList ["a$b".toList]) =
      some (["out".toList], ["a".toList]) := by decide
/-- `a\b`: bindgen doubles the backslash, make halves backslashes only directly before a blank -/
theorem depfile_fails_on_backslash :
    makeParse (toStringWith tblCurrent "out".toList ["a\\b".toList]) =
      some (["out".toList], ["a\\\\b".toList]) := by decide
/-- …and this is not repaired by escaping `#`/`$` -/
theorem depfile_fails_on_backslash_fixed :
    makeParse (toStringWith tblFixed "out".toList ["a\\b".toList]) =
      some (["out".toList], ["a\\\\b".toList]) := by decide
/-- a backslash directly before a space does round-trip (the case the unit test of deps.rs has in mind) -/
theorem depfile_backslash_space_ok :
    roundTrips tblCurrent "out".toList ["a\\ b".toList, "c".toList] = true := by decide
/-- with the fix, `#` and `$` round-trip, also after a backslash-space -/
theorem depfile_fixed_hash_dollar_ok :
    roundTrips tblFixed "o#ut".toList ["a#b".toList, "c$d e".toList, "$".toList] = true := by decide
/-- a tab is a separator for make and is not escaped -/
theorem depfile_fails_on_tab :
    makeParse (toStringWith tblCurrent "out".toList ["a\tb".toList]) =
      some (["out".toList], ["a".toList, "b".toList]) := by decide
/-- a colon in a prerequisite makes the line a (malformed) static pattern rule -/
theorem depfile_fails_on_colon :
    makeParse (toStringWith tblCurrent "out".toList ["C:x".toList]) = none := by decide
/-- the last name ends in a space: make strips trailing blanks before unquoting -/
theorem depfile_fails_on_trailing_space :
    makeParse (toStringWith tblCurrent "out".toList ["a ".toList]) =
      some (["out".toList], ["a\\".toList]) := by decide
/-- make drops a leading `./` (same file, different spelling) -/
theorem depfile_dot_slash_normalised :
    makeParse (toStringWith tblCurrent "out".toList ["./a b".toList]) =
      some (["out".toList], ["a b".toList]) := by decide
/-- the region predicates flag the witnesses -/
theorem regions_on_witnesses :
    regionHash tblCurrent "a#b".toList = true ∧ regionDollar tblCurrent "a$b".toList = true ∧
    regionBackslash "a\\b".toList = true ∧ regionBackslash "a\\ b".toList = false ∧
    regionHash tblFixed "a#b".toList = false ∧ regionDollar tblFixed "a$b".toList = false := by decide

/-! ### decidable form of the hypothesis (used by the harness as the "safe name" predicate) -/

def plainB (c : Char) : Bool :=
  !unmodelled c && !isBlank c && c != '\\' && c != '#' && c != '$' && c != ':'

def okNameCB (n : Str) : Bool :=
  !n.isEmpty && n.all (fun c => plainB c || c == ' ') && n.getLast? != some ' ' &&
    !(['.', '/'].isPrefixOf n)

def okNameFB (n : Str) : Bool :=
  !n.isEmpty && n.all (fun c => plainB c || c == ' ' || c == '#' || c == '$') && n.getLast? != some ' ' &&
    !(['.', '/'].isPrefixOf n)

theorem plainB_sound {c : Char} (h : plainB c = true) : plain c := by
  simp [plainB] at h
  exact ⟨h.1.1.1.1.1, h.1.1.1.1.2, h.1.1.1.2, h.1.1.2, h.1.2, h.2⟩

theorem last_sound {n : Str} (h : (n.getLast? != some ' ') = true) : lastNotSpace n := by
  intro x hx e; subst e; rw [hx] at h; simp at h

theorem dot_sound {n : Str} (h : (!(['.', '/'].isPrefixOf n)) = true) : noDotSlash n := by
  intro t e; subst e; simp [List.isPrefixOf] at h

theorem okNameCB_sound {n : Str} (h : okNameCB n = true) : okNameC n := by
  simp only [okNameCB, Bool.and_eq_true] at h
  obtain ⟨⟨⟨h1, h2⟩, h3⟩, h4⟩ := h
  refine ⟨by intro e; subst e; simp at h1, ?_, last_sound h3, dot_sound h4⟩
  intro c hc
  have := List.all_eq_true.mp h2 c hc
  simp only [Bool.or_eq_true, beq_iff_eq] at this
  rcases this with h | h
  · exact Or.inl (plainB_sound h)
  · exact Or.inr h

theorem okNameFB_sound {n : Str} (h : okNameFB n = true) : okNameF n := by
  simp only [okNameFB, Bool.and_eq_true] at h
  obtain ⟨⟨⟨h1, h2⟩, h3⟩, h4⟩ := h
  refine ⟨by intro e; subst e; simp at h1, ?_, last_sound h3, dot_sound h4⟩
  intro c hc
  have := List.all_eq_true.mp h2 c hc
  simp only [Bool.or_eq_true, beq_iff_eq] at this
  rcases this with ((h | h) | h) | h
  · exact Or.inl (plainB_sound h)
  · exact Or.inr (Or.inl h)
  · exact Or.inr (Or.inr (Or.inl h))
  · exact Or.inr (Or.inr (Or.inr h))

/-- hypotheses are satisfiable on a non-trivial input -/
example : okNameC "Mod Name".toList ∧ okNameC "../dir with space/é.h".toList ∧
    okNameF "a#b $c.h".toList :=
  ⟨okNameCB_sound (by decide), okNameCB_sound (by decide), okNameFB_sound (by decide)⟩

end BindgenModel.Depfile

/-! # include DAG: recorded dependencies = files read -/
namespace BindgenModel.Includes

/-- invariant of the preprocessor machine -/
structure Inv (inputs : List Nat) (stack : List Item) (st : St) : Prop where
  once_entered : ∀ f, f ∈ st.once → f ∈ st.entered
  guards_entered : ∀ f, f ∈ st.guards → f ∈ st.entered
  reported_entered : ∀ f, f ∈ st.reported → f ∈ st.entered
  entered_why : ∀ f, f ∈ st.entered → f ∈ inputs ∨ f ∈ st.reported
  inputs_pending : ∀ f, f ∈ inputs → f ∈ st.entered ∨ ∃ m, Item.input m f ∈ stack
  stack_inputs : ∀ m f, Item.input m f ∈ stack → f ∈ inputs

theorem skipped_entered {inputs stack st} (h : Inv inputs stack st) {f : Nat}
    (hs : skipped st f = true) : f ∈ st.entered := by
  simp only [skipped, Bool.or_eq_true, List.contains_iff_mem] at hs
  rcases hs with hs | hs
  · exact h.once_entered f hs
  · exact h.guards_entered f hs

theorem skippedInput_entered {inputs stack st} (h : Inv inputs stack st) {m : Bool} {f : Nat}
    (hs : skippedInput st m f = true) : f ∈ st.entered := by
  cases m with
  | false => exact skipped_entered h (by simpa [skippedInput] using hs)
  | true =>
    simp only [skippedInput, if_true, List.contains_iff_mem] at hs
    exact h.guards_entered f hs

theorem input_not_in_body (m : Bool) (f d : Nat) (b : List Dir) : Item.input m f ∉ b.map (Item.dir d) := by
  intro h; simp at h

theorem inv_enter {inputs : List Nat} {cfg : Cfg} {st : St} {f : Nat} {rest : List Item} {hd : Item}
    (main : Bool) (rep : List Nat) (hrep : ∀ g ∈ rep, g = f)
    (h : Inv inputs (hd :: rest) st) (hf : f ∈ inputs ∨ f ∈ st.reported ++ rep)
    (hhd : ∀ m g, hd = Item.input m g → g = f) :
    Inv inputs ((bodyOf cfg f).map (Item.dir (dirOf cfg f)) ++ rest)
      (enterSt cfg { st with reported := st.reported ++ rep } f main) := by
  refine ⟨?_, ?_, ?_, ?_, ?_, ?_⟩
  · intro g hg
    simp only [enterSt] at hg ⊢
    split at hg
    · simp at hg; rcases hg with hg | hg
      · simp [hg]
      · simp [h.once_entered g hg]
    · simp [h.once_entered g hg]
  · intro g hg
    simp only [enterSt] at hg ⊢
    split at hg
    · simp at hg; rcases hg with hg | hg
      · simp [hg]
      · simp [h.guards_entered g hg]
    · simp [h.guards_entered g hg]
  · intro g hg
    simp only [enterSt, List.mem_append] at hg ⊢
    rcases hg with hg | hg
    · exact Or.inl (h.reported_entered g hg)
    · exact Or.inr (by simp [hrep g hg])
  · intro g hg
    simp only [enterSt, List.mem_append, List.mem_singleton] at hg ⊢
    rcases hg with hg | hg
    · rcases h.entered_why g hg with h1 | h1
      · exact Or.inl h1
      · exact Or.inr (Or.inl h1)
    · subst hg; simpa [List.mem_append] using hf
  · intro g hg
    simp only [enterSt, List.mem_append, List.mem_singleton]
    rcases h.inputs_pending g hg with h1 | ⟨m, h1⟩
    · exact Or.inl (Or.inl h1)
    · simp only [List.mem_cons] at h1
      rcases h1 with h1 | h1
      · exact Or.inl (Or.inr (hhd m g h1.symm))
      · exact Or.inr ⟨m, Or.inr h1⟩
  · intro m g hg
    simp only [List.mem_append] at hg
    rcases hg with hg | hg
    · exact absurd hg (input_not_in_body _ _ _ _)
    · exact h.stack_inputs m g (by simp [hg])

theorem inv_pop {inputs : List Nat} {st : St} {rest : List Item} {hd : Item} {extra : List Item}
    (h : Inv inputs (hd :: rest) st)
    (hextra : ∀ m g, Item.input m g ∉ extra)
    (hhd : ∀ m g, hd = Item.input m g → g ∈ st.entered) :
    Inv inputs (extra ++ rest) st := by
  refine ⟨h.once_entered, h.guards_entered, h.reported_entered, h.entered_why, ?_, ?_⟩
  · intro g hg
    rcases h.inputs_pending g hg with h1 | ⟨m, h1⟩
    · exact Or.inl h1
    · simp only [List.mem_cons] at h1
      rcases h1 with h1 | h1
      · exact Or.inl (hhd m g h1.symm)
      · exact Or.inr ⟨m, by simp [h1]⟩
  · intro m g hg
    simp only [List.mem_append] at hg
    rcases hg with hg | hg
    · exact absurd hg (hextra m g)
    · exact h.stack_inputs m g (by simp [hg])

theorem inv_report {inputs : List Nat} {stack : List Item} {st : St} {f : Nat}
    (h : Inv inputs stack st) (hf : f ∈ st.entered) :
    Inv inputs stack { st with reported := st.reported ++ [f] } := by
  refine ⟨h.once_entered, h.guards_entered, ?_, ?_, h.inputs_pending, h.stack_inputs⟩
  · intro g hg
    simp only [List.mem_append, List.mem_singleton] at hg
    rcases hg with hg | hg
    · exact h.reported_entered g hg
    · subst hg; exact hf
  · intro g hg
    rcases h.entered_why g hg with h1 | h1
    · exact Or.inl h1
    · exact Or.inr (by simp [h1])

/-- the invariant is preserved by every run that ends -/
theorem run_inv (cfg : Cfg) (inputs : List Nat) :
    ∀ (fuel : Nat) (stack : List Item) (st st' : St),
      Inv inputs stack st → run cfg fuel stack st = some st' → Inv inputs [] st' := by
  intro fuel
  induction fuel with
  | zero =>
    intro stack st st' hinv hrun
    cases stack with
    | nil => simp [run] at hrun; subst hrun; exact hinv
    | cons hd rest => simp [run] at hrun
  | succ n ih =>
    intro stack st st' hinv hrun
    match stack, hinv, hrun with
    | [], hinv, hrun => simp [run] at hrun; subst hrun; exact hinv
    | .input m f :: rest, hinv, hrun =>
      simp only [run] at hrun
      split at hrun
      · rename_i hs
        refine ih rest st st' ?_ hrun
        have := inv_pop (extra := []) hinv (by simp)
          (by intro m' g hg; cases hg; exact skippedInput_entered hinv hs)
        simpa using this
      · refine ih _ _ st' ?_ hrun
        have := inv_enter (cfg := cfg) m [] (by simp) hinv (Or.inl (hinv.stack_inputs m f (by simp)))
          (by intro m' g hg; cases hg; rfl)
        simpa using this
    | .dir d (.cond a body) :: rest, hinv, hrun =>
      simp only [run] at hrun
      refine ih _ st st' ?_ hrun
      apply inv_pop hinv
      · intro m g hg; cases a <;> simp at hg
      · intro m g hg; cases hg
    | .dir d (.incl angle name) :: rest, hinv, hrun =>
      simp only [run] at hrun
      split at hrun
      · simp at hrun
      · rename_i f hres
        split at hrun
        · rename_i hs
          refine ih rest _ st' ?_ hrun
          have hent : f ∈ st.entered := by
            apply skipped_entered hinv
            simpa [skipped] using hs
          have := inv_pop (extra := []) hinv (by simp) (by intro m g hg; cases hg)
          exact inv_report (by simpa using this) hent
        · refine ih _ _ st' ?_ hrun
          exact inv_enter (cfg := cfg) false [f] (by simp) hinv (Or.inr (by simp)) (by intro m g hg; cases hg)

theorem mem_topItems (cwd : Nat) (tops : List Top) (f : Nat) :
    (∃ m, Item.input m f ∈ (tops.map (topItems cwd)).flatten) ↔ ∃ m, Top.file m f ∈ tops := by
  induction tops with
  | nil => simp
  | cons t ts ih =>
    simp only [List.map_cons, List.flatten_cons, List.mem_append, List.mem_cons, exists_or, ih]
    cases t with
    | file m' g =>
      simp only [topItems, List.mem_singleton, Item.input.injEq, Top.file.injEq]
    | virt b => simp [topItems]

theorem mem_commandLineOrder (inputs : List Nat) (virt : List (List Dir)) (f : Nat) :
    (∃ m, Top.file m f ∈ commandLineOrder inputs virt) ↔ f ∈ inputs := by
  unfold commandLineOrder
  rcases List.eq_nil_or_concat inputs with rfl | ⟨l, m, rfl⟩
  · cases virt <;> simp
  · simp [List.getLast?_append]

theorem mem_initial (cwd : Nat) (inputs : List Nat) (virt : List (List Dir)) (f : Nat) :
    (∃ m, Item.input m f ∈ initial cwd inputs virt) ↔ f ∈ inputs := by
  unfold initial; rw [mem_topItems, mem_commandLineOrder]

theorem inv_initial (cwd : Nat) (inputs : List Nat) (virt : List (List Dir)) :
    Inv inputs (initial cwd inputs virt) {} := by
  refine ⟨by simp, by simp, by simp, by simp, ?_, ?_⟩
  · intro f hf; right; exact (mem_initial cwd inputs virt f).mpr hf
  · intro m f hf; exact (mem_initial cwd inputs virt f).mp ⟨m, hf⟩

/-- **deps = files read.**  Under the modelled libclang contract (`run`: one inclusion directive
    reported, with its resolved file, for every `#include` processed in an active region — also
    when the file is then skipped by `#pragma once` / its guard — and none in inactive regions),
    the set bindgen records (`BindgenContext::new`: the input headers; `Item::parse`: every reported
    directive) is exactly the set of files whose contents were read: no file is missing, no
    unread file is listed.  Unbounded: any DAG, any search path, any nesting. -/
theorem deps_eq_filesRead (cfg : Cfg) (fuel cwd : Nat) (inputs : List Nat) (virt : List (List Dir))
    (st : St) (h : run cfg fuel (initial cwd inputs virt) {} = some st) :
    ∀ f, f ∈ depsRecorded inputs st ↔ f ∈ filesRead st := by
  have inv := run_inv cfg inputs fuel _ _ st (inv_initial cwd inputs virt) h
  intro f
  simp only [depsRecorded, filesRead, List.mem_append]
  constructor
  · rintro (hf | hf)
    · rcases inv.inputs_pending f hf with h1 | ⟨m, h1⟩
      · exact h1
      · simp at h1
    · exact inv.reported_entered f hf
  · exact inv.entered_why f

/-- an `#include` inside `#if 0` is neither read nor recorded; a guarded file included twice is
    read once and reported twice, an unguarded one is read twice (concrete run, also exercises `resolve`:
    quoted form finds the includer's directory first, angle form only `-I`) -/
theorem includes_example :
    let cfg : Cfg := {
      files := [⟨0, .none, [.incl false 1, .cond false [.incl false 3], .cond true [.incl true 1], .incl false 2, .incl false 2]⟩,
                ⟨0, .once, []⟩, ⟨0, .ifndef, [.incl true 1]⟩, ⟨0, .none, []⟩, ⟨1, .none, []⟩],
      fs := [(0, 1, 1), (0, 2, 2), (0, 3, 3), (1, 1, 4)], quoteDirs := [], iDirs := [1], sysDirs := [] }
    (run cfg 100 (initial 0 [0] []) {}).map (fun st => (st.entered, st.reported)) =
      some ([0, 1, 4, 2, 4], [1, 4, 2, 4, 2]) := by decide

/-- a missing include in an active region fails the run (bindgen: `Err`), in an inactive one it does not -/
theorem includes_missing :
    let cfg : Cfg := { files := [⟨0, .none, [.cond false [.incl false 7]]⟩, ⟨0, .none, [.incl false 7]⟩],
                       fs := [], quoteDirs := [], iDirs := [], sysDirs := [] }
    (run cfg 100 (initial 0 [0] []) {}).isSome = true ∧ (run cfg 100 (initial 0 [1] []) {}).isSome = false := by
  decide

/-- the main file is read even when it was `-include`d before and says `#pragma once` (clang ignores
    the pragma in the main file), so its directives are reported again -/
theorem includes_main_pragma_once :
    let cfg : Cfg := { files := [⟨0, .once, [.incl false 1]⟩, ⟨0, .none, []⟩], fs := [(0, 1, 1)],
                       quoteDirs := [], iDirs := [], sysDirs := [] }
    (run cfg 100 (initial 0 [0, 0] []) {}).map (fun st => (st.entered, st.reported)) =
      some ([0, 1, 0, 1], [1, 1]) := by decide

/-- in-memory contents are processed after the `-include`d headers and before the main file; with
    no header on disk the first content is the main file and the others precede it -/
theorem includes_order_example :
    let cfg : Cfg := { files := [⟨0, .none, [.incl false 2]⟩, ⟨0, .none, [.incl false 3]⟩, ⟨0, .none, []⟩, ⟨0, .none, []⟩, ⟨0, .none, []⟩],
                       fs := [(0, 2, 2), (0, 3, 3), (0, 4, 4)], quoteDirs := [], iDirs := [], sysDirs := [] }
    (run cfg 100 (initial 0 [0, 1] [[.incl false 4]]) {}).map (fun st => st.reported) = some [2, 4, 3] ∧
    (run cfg 100 (initial 0 [] [[.incl false 2], [.incl false 3]]) {}).map (fun st => st.reported) = some [3, 2] := by
  decide

/-! # callbacks -/

theorem flatten_map_singleton {α β : Type} (f : α → β) (l : List α) :
    (l.map (fun x => [f x])).flatten = l.map f := by
  induction l with
  | nil => rfl
  | cons a l ih => simp [ih]

/-- **cargo lines are exact**: `CargoCallbacks::new()` prints, in order, one
    `cargo:rerun-if-env-changed=K` per key passed to `env_var`, one `cargo:rerun-if-changed=F` per
    input header and one per reported inclusion directive — nothing else. -/
theorem cargo_lines_exact (target : Option Str) (isSet : Str → Bool) (inputs reported : List Str) :
    cargoLines true (generateEvents target isSet inputs reported) =
      (targetDependentReads extraArgsVar target isSet).map envLine ++
        inputs.map changedLine ++ reported.map changedLine := by
  simp only [cargoLines, generateEvents, List.map_append, List.map_map, List.flatten_append]
  have e1 : (cargoLine true ∘ Event.readEnv) = fun k => [envLine k] := rfl
  have e2 : (cargoLine true ∘ Event.headerFile) = fun k => [changedLine k] := rfl
  have e3 : (cargoLine true ∘ Event.includeFile) = fun k => [changedLine k] := rfl
  rw [e1, e2, e3, flatten_map_singleton, flatten_map_singleton, flatten_map_singleton]

/-- with `rerun_on_header_files(false)` (and the deprecated constant) the input headers are not printed -/
theorem cargo_lines_no_header_files (target : Option Str) (isSet : Str → Bool) (inputs reported : List Str) :
    cargoLines false (generateEvents target isSet inputs reported) =
      (targetDependentReads extraArgsVar target isSet).map envLine ++ reported.map changedLine := by
  simp only [cargoLines, generateEvents, List.map_append, List.map_map, List.flatten_append]
  have e1 : (cargoLine false ∘ Event.readEnv) = fun k => [envLine k] := rfl
  have e2 : (cargoLine false ∘ Event.headerFile) = fun _ => [] := rfl
  have e3 : (cargoLine false ∘ Event.includeFile) = fun k => [changedLine k] := rfl
  rw [e1, e2, e3, flatten_map_singleton, flatten_map_singleton]
  have : (inputs.map (fun _ => ([] : List Str))).flatten = [] := by
    induction inputs with
    | nil => rfl
    | cons a l ih => simp [ih]
  rw [this]; simp

/-- one line per notification, whatever the notifications are -/
theorem cargo_lines_count (evs : List Event) : (cargoLines true evs).length = evs.length := by
  induction evs with
  | nil => rfl
  | cons e evs ih =>
    have : cargoLines true (e :: evs) = cargoLine true e ++ cargoLines true evs := by
      simp [cargoLines]
    rw [this, List.length_append, ih]
    cases e <;> simp [cargoLine] <;> omega

/-- `TARGET` is announced by every generation (so the unannounced read of `TARGET` in
    `find_effective_target` never escapes cargo's notice) -/
theorem target_always_announced (target : Option Str) (isSet : Str → Bool) (var : Str) :
    "TARGET".toList ∈ targetDependentReads var target isSet := by
  unfold targetDependentReads
  cases target <;> simp
  all_goals decide

/-! # environment read sites (generated inventory) -/
open BindgenModel.Generated.EnvSites

inductive EnvClass where
  /-- bindgen's own build script, executed when bindgen is compiled, not by `generate` -/
  | buildScript
  /-- set by cargo for build scripts (`TARGET`, `RUSTC`, `RUSTC_WRAPPER`, `CARGO_CFG_*`): cargo's
      documentation excludes them from `rerun-if-env-changed`; cargo itself re-runs the build
      script when they change (the compiler's identity and the target are part of the fingerprint).
      `features.rs default` is compiled only without the `__cli` feature. -/
  | cargoSet
  /-- read directly here, but the same key is announced through `env_var` on every generation
      (`target_always_announced`) -/
  | announcedElsewhere
  /-- selects the `rustfmt` executable when the bindings are *written*; formatting changes only
      white space (C15), the generated items do not depend on it -/
  | formatOnly
  /-- default directory of the static-wrapper C file; not part of the bindings -/
  | pathOnly
  /-- decides whether diagnostics go to `cargo:warning=` or stderr -/
  | diagnosticsOnly
  deriving DecidableEq, Repr

/-- every read site that does NOT go through `env_var`, with the reason it needs no announcement.
    A new unannounced read site in the source is not in this list and breaks `env_reads_announced`. -/
def classified : List (Str × Str × Str × EnvClass) := [
  ("bindgen/build.rs".toList, "main".toList, "OUT_DIR".toList, .buildScript),
  ("bindgen/build.rs".toList, "main".toList, "TARGET".toList, .buildScript),
  ("bindgen/codegen/mod.rs".toList, "serialize_items".toList, "TMPDIR".toList, .pathOnly),
  ("bindgen/diagnostics.rs".toList, "display".toList, "CARGO_CFG_TARGET_ARCH".toList, .diagnosticsOnly),
  ("bindgen/features.rs".toList, "default".toList, "CARGO_CFG_TARGET_ARCH".toList, .cargoSet),
  ("bindgen/features.rs".toList, "default".toList, "RUSTC".toList, .cargoSet),
  ("bindgen/features.rs".toList, "default".toList, "RUSTC_WRAPPER".toList, .cargoSet),
  ("bindgen/lib.rs".toList, "find_effective_target".toList, "TARGET".toList, .announcedElsewhere),
  ("bindgen/lib.rs".toList, "rustfmt_path".toList, "RUSTFMT".toList, .formatOnly)]

def classOf (s : Site) : Option EnvClass :=
  (classified.find? (fun e => e.1 = s.file ∧ e.2.1 = s.fn ∧ e.2.2.1 = s.key)).map (fun e => e.2.2.2)

def siteOk (s : Site) : Bool :=
  s.via = .helper || s.via = .helperBody || (classOf s).isSome

/-- **every environment read is announced or classified** (obligation over the inventory the
    translator regenerates from bindgen/**/*.rs on every run) -/
theorem env_reads_announced : sites.all siteOk = true := by decide

/-- the sites classified `announcedElsewhere` really have an announcing site with the same key -/
theorem env_announced_elsewhere_ok :
    (sites.filter (fun s => classOf s = some .announcedElsewhere)).all
      (fun s => sites.any (fun t => t.via = .helper ∧ t.key = s.key)) = true := by decide

/-- the helper reads the key it announced, exactly once, and is the only helper body -/
theorem env_helper_unique :
    (sites.filter (fun s => s.via = .helperBody)).length = 1 := by decide

/-- non-vacuity: the inventory has announced sites and classified direct sites -/
example : (sites.filter (fun s => s.via = .helper)).length ≥ 4 ∧
    (sites.filter (fun s => s.via = .direct)).length ≥ 5 := by decide

end BindgenModel.Includes
