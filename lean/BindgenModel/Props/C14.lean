import BindgenModel.Generated.FeaturesObl
import BindgenModel.Generated.FeatureSites
/-!
# C14 — bindings use only features of the selected Rust target, monotonically

Theorems about `Model/Features.lean` (model of `bindgen/features.rs` and of the feature
synchronisation / edition check of `Builder::generate`), for **every** minor version in ℕ, every
patch number and every edition.  The generic theorems hold for any feature table; the ground
truth (`stabilised`, `editionStabilised`, `Construct.requires` in `Model/FeaturesSpec.lean`) is tied
to the table found in the source by the generated, per-feature `decide` obligations of
`Generated/FeaturesObl.lean`, and the code-generation sites to the flags by the per-site
obligations of `Generated/FeatureSites.lean`.
-/
set_option linter.unusedSimpArgs false

namespace BindgenModel.Features
open BindgenModel.Generated

/-! ## characterisation of `RustFeatures::new` -/

/-- some table entry for `f`, in a row compatible with `t`, admits edition `e` -/
def Enabled (tbl : Table) (t : Target) (e : Edition) (f : Feature) : Prop :=
  (isCompatible t .nightly = true ∧ ∃ en ∈ tbl.nightly, en.feature = f ∧ edOk en.editions e = true) ∨
  (∃ row ∈ tbl.rows, isCompatible t (.stable row.1 0) = true ∧
    ∃ en ∈ row.2, en.feature = f ∧ edOk en.editions e = true)

theorem applyEntries_true (es : List FeatEntry) (e : Edition) (acc : Feature → Bool) (f : Feature) :
    applyEntries es e acc f = true ↔
      acc f = true ∨ ∃ en ∈ es, en.feature = f ∧ edOk en.editions e = true := by
  induction es generalizing acc with
  | nil => simp [applyEntries]
  | cons en es ih =>
    have hstep : applyEntries (en :: es) e acc =
        applyEntries es e (if edOk en.editions e then setTrue acc en.feature else acc) := by
      simp [applyEntries]
    rw [hstep, ih]
    by_cases hed : edOk en.editions e = true
    · simp only [hed, if_true, setTrue]
      by_cases hf : f = en.feature
      · subst hf; simp [hed]
      · have hf' : ¬ en.feature = f := fun h => hf h.symm
        simp [hf, hf']
    · have hed' : edOk en.editions e = false := by simpa using hed
      simp [hed']

theorem rowsFold_true (rows : List (Nat × List FeatEntry)) (t : Target) (e : Edition)
    (acc : Feature → Bool) (f : Feature) :
    rows.foldl (fun acc row => if isCompatible t (.stable row.1 0) then applyEntries row.2 e acc else acc) acc f = true ↔
      acc f = true ∨ ∃ row ∈ rows, isCompatible t (.stable row.1 0) = true ∧
        ∃ en ∈ row.2, en.feature = f ∧ edOk en.editions e = true := by
  induction rows generalizing acc with
  | nil => simp
  | cons row rows ih =>
    rw [List.foldl_cons, ih]
    by_cases hc : isCompatible t (.stable row.1 0) = true
    · simp only [hc, if_true, applyEntries_true, List.mem_cons, exists_eq_or_imp, true_and]
      constructor
      · rintro ((h | h) | h)
        · exact Or.inl h
        · exact Or.inr (Or.inl h)
        · exact Or.inr (Or.inr h)
      · rintro (h | h | h)
        · exact Or.inl (Or.inl h)
        · exact Or.inl (Or.inr h)
        · exact Or.inr h
    · have hc' : isCompatible t (.stable row.1 0) = false := by simpa using hc
      simp [hc']

/-- `RustFeatures::new` enables exactly the flags with an applicable table entry -/
theorem featuresNew_true (tbl : Table) (t : Target) (e : Edition) (f : Feature) :
    featuresNew tbl t e f = true ↔ Enabled tbl t e f := by
  unfold featuresNew Enabled
  simp only [rowsFold_true]
  by_cases hn : isCompatible t .nightly = true
  · simp [hn, applyEntries_true]
  · have hn' : isCompatible t .nightly = false := by simpa using hn
    simp [hn']

/-! ## monotonicity -/

theorem isCompatible_mono {t t' : Target} (o : Target) (h : Target.le t t' = true) :
    isCompatible t o = true → isCompatible t' o = true := by
  cases t <;> cases t' <;> cases o <;> simp_all [Target.le, isCompatible] <;> omega

/-- **Monotone.** Every flag enabled for a target is enabled for every later target
(minors compared, patch numbers ignored, nightly on top), for any feature table. -/
theorem C14_monotone (tbl : Table) (t t' : Target) (e : Edition) (f : Feature)
    (h : Target.le t t' = true) :
    featuresNew tbl t e f = true → featuresNew tbl t' e f = true := by
  simp only [featuresNew_true]
  rintro (⟨hc, hex⟩ | ⟨row, hr, hc, hex⟩)
  · exact Or.inl ⟨isCompatible_mono _ h hc, hex⟩
  · exact Or.inr ⟨row, hr, isCompatible_mono _ h hc, hex⟩

/-- patch numbers never matter -/
theorem C14_patch_irrelevant (tbl : Table) (m p p' : Nat) (e : Edition) :
    featuresNew tbl (.stable m p) e = featuresNew tbl (.stable m p') e := by
  funext f
  have h1 := C14_monotone tbl (.stable m p) (.stable m p') e f (by simp [Target.le])
  have h2 := C14_monotone tbl (.stable m p') (.stable m p) e f (by simp [Target.le])
  cases h : featuresNew tbl (.stable m p) e f <;> cases h' : featuresNew tbl (.stable m p') e f <;> simp_all

/-! ## soundness against the stabilisation table -/

theorem edSub_ok {entry truth : List Edition} {e : Edition}
    (hs : edSub entry truth = true) (h : edOk entry e = true) : edOk truth e = true := by
  unfold edSub at hs; unfold edOk at h ⊢
  cases truth with
  | nil => simp
  | cons a as =>
    simp only [List.isEmpty_cons, Bool.false_or, Bool.and_eq_true, Bool.not_eq_true',
      List.all_eq_true] at hs
    obtain ⟨hne, hall⟩ := hs
    simp only [hne, Bool.false_or] at h
    simp only [List.isEmpty_cons, Bool.false_or]
    exact hall e (by simpa using h)

theorem since_le_nightly (s : Since) : s.le .nightly = true := by cases s <;> rfl

/-- **Sound (generic).** If every table entry is no earlier than the ground truth, an enabled
flag is usable for the target and edition: `stabilised f ≤ t` and `e` is one of its editions. -/
theorem sound_of_table (tbl : Table) (hs : ∀ f, featureSound tbl f = true)
    (t : Target) (e : Edition) (f : Feature) :
    featuresNew tbl t e f = true → (stabilised f).allows t e = true := by
  rw [featuresNew_true]
  have hf := hs f
  unfold featureSound at hf
  simp only [Bool.and_eq_true, List.all_eq_true, Bool.or_eq_true, Bool.not_eq_true',
    decide_eq_false_iff_not, decide_eq_true_eq] at hf
  obtain ⟨hN, hR⟩ := hf
  rintro (⟨hc, en, hen, hfe, hed⟩ | ⟨row, hr, hc, en, hen, hfe, hed⟩)
  · have ht : t = .nightly := by cases t <;> simp_all [isCompatible]
    subst ht
    have := (hN en hen).resolve_left (fun h => h hfe)
    simp [Stab.allows, since_le_nightly, edSub_ok this hed]
  · have := (hR row hr en hen).resolve_left (fun h => h hfe)
    obtain ⟨h1, h2⟩ := this
    have hle : (stabilised f).since.le t = true := by
      cases hsn : (stabilised f).since with
      | nightlyOnly => simp [hsn, sinceLeMinor] at h1
      | minor k =>
        rw [hsn] at h1
        cases t with
        | nightly => rfl
        | stable m p =>
          simp only [sinceLeMinor, decide_eq_true_eq] at h1
          simp only [isCompatible, decide_eq_true_eq] at hc
          simp only [Since.le, decide_eq_true_eq]; omega
    simp [Stab.allows, hle, edSub_ok h2 hed]

/-- **Sound.** For the table in /repo's features.rs, every target (all minors in ℕ, all patches,
nightly) and every edition: an enabled flag was stabilised no later than the target and is
available in the edition. -/
theorem C14_sound (t : Target) (e : Edition) (f : Feature) :
    featuresNew theTable t e f = true →
      (stabilised f).since.le t = true ∧ edOk (stabilised f).editions e = true := by
  intro h
  have := sound_of_table theTable features_sound_all t e f h
  simpa [Stab.allows] using this

/-- nothing nightly-only is ever enabled for a stable target -/
theorem C14_stable_has_no_nightly_feature (m p : Nat) (e : Edition) (f : Feature)
    (hf : (stabilised f).since = .nightlyOnly) : featuresNew theTable (.stable m p) e f = false := by
  cases h : featuresNew theTable (.stable m p) e f with
  | false => rfl
  | true => have := (C14_sound _ _ _ h).1; rw [hf] at this; simp [Since.le] at this

/-! ## editions -/

theorem isAvailable_stable (e : Edition) (m p : Nat) :
    isAvailable e (.stable m p) = true ↔ e.firstMinor ≤ m := by
  simp [isAvailable, Target.minor]
theorem isAvailable_stable_false (e : Edition) (m p : Nat) :
    isAvailable e (.stable m p) = false ↔ m < e.firstMinor := by
  simp [isAvailable, Target.minor]
theorem isAvailable_nightly (e : Edition) : isAvailable e .nightly = true := rfl

/-- **Edition rejected iff.** `Builder::generate` returns `UnsupportedEdition` exactly when the
requested edition is newer than the target: never for nightly; for `1.m.p` iff `m` is below the
release that introduced the edition (ground truth: 2018 ← 1.31, 2021 ← 1.56, 2024 ← 1.85). -/
theorem C14_edition_rejected_iff (tbl : Table) (t : Target) (e : Edition) :
    (resolve tbl t (some e) = .unsupportedEdition e t ↔ isAvailable e t = false) ∧
    (isAvailable e t = true → resolve tbl t (some e) = .ok e (featuresNew tbl t e)) := by
  unfold resolve
  cases h : isAvailable e t <;> simp [h]

theorem C14_edition_rejected_ground_truth (m p : Nat) (e : Edition) :
    resolve theTable (.stable m p) (some e) = .unsupportedEdition e (.stable m p) ↔ m < editionStabilised e := by
  rw [(C14_edition_rejected_iff theTable (.stable m p) e).1, isAvailable_stable_false]
  have := editions_sound_all e
  simp only [editionSound, beq_iff_eq] at this
  rw [this]

theorem C14_nightly_accepts_every_edition (tbl : Table) (e : Edition) :
    resolve tbl .nightly (some e) = .ok e (featuresNew tbl .nightly e) := by
  simp [resolve, isAvailable_nightly]

/-- Edition 2024 requires `unsafe extern`; whenever it is accepted the flag is on. -/
theorem C14_edition2024_has_unsafe_extern (t : Target) (h : isAvailable .e2024 t = true) :
    featuresNew theTable t .e2024 .unsafe_extern_blocks = true := by
  rw [featuresNew_true]
  refine Or.inr ⟨(82, [⟨.unsafe_extern_blocks, []⟩]), by simp [theTable, releaseRows], ?_, ⟨.unsafe_extern_blocks, []⟩, by simp, rfl, rfl⟩
  cases t with
  | nightly => rfl
  | stable m p =>
    rw [isAvailable_stable] at h
    simp only [Edition.firstMinor] at h
    simp only [isCompatible, decide_eq_true_eq]; omega

/-! ## defaults -/

theorem latestFold_spec (rows : List (Nat × List FeatEntry)) (st : Nat × Option Nat) :
    let r := rows.foldl (fun (st : Nat × Option Nat) row =>
      if st.1 < row.1 then (row.1, some row.1) else st) st
    st.1 ≤ r.1 ∧ (∀ row ∈ rows, row.1 ≤ r.1) ∧
      ((r = st) ∨ (r.2 = some r.1 ∧ ∃ row ∈ rows, row.1 = r.1)) := by
  induction rows generalizing st with
  | nil => simp
  | cons row rows ih =>
    simp only [List.foldl_cons]
    by_cases h : st.1 < row.1
    · simp only [h, if_true]
      have := ih (row.1, some row.1)
      simp only at this
      obtain ⟨h1, h2, h3⟩ := this
      refine ⟨by omega, ?_, ?_⟩
      · intro r hr
        rcases List.mem_cons.mp hr with rfl | hr
        · exact h1
        · exact h2 r hr
      · right
        rcases h3 with h3 | ⟨h3, r, hr, hre⟩
        · rw [h3]; exact ⟨rfl, row, by simp, rfl⟩
        · exact ⟨h3, r, by simp [hr], hre⟩
    · simp only [h, if_false]
      have := ih st
      simp only at this
      obtain ⟨h1, h2, h3⟩ := this
      refine ⟨h1, ?_, ?_⟩
      · intro r hr
        rcases List.mem_cons.mp hr with rfl | hr
        · omega
        · exact h2 r hr
      · rcases h3 with h3 | ⟨h3, r, hr, hre⟩
        · exact Or.inl h3
        · exact Or.inr ⟨h3, r, by simp [hr], hre⟩

/-- `LATEST_STABLE_RUST` is the release row with the greatest minor (any table) -/
theorem latestStable_is_max (tbl : Table) (m : Nat) (h : latestStableMinor tbl.rows = some m) :
    (∃ row ∈ tbl.rows, row.1 = m) ∧ ∀ row ∈ tbl.rows, row.1 ≤ m := by
  unfold latestStableMinor at h
  have := latestFold_spec tbl.rows (0, none)
  simp only at this
  obtain ⟨_, h2, h3⟩ := this
  rcases h3 with h3 | ⟨h3, r, hr, hre⟩
  · rw [h3] at h; simp at h
  · rw [h3] at h
    have hm : _ = m := Option.some.inj h
    rw [hm] at h2 hre
    exact ⟨⟨r, hr, hre⟩, h2⟩

/-- `latest_edition`: the result is available, and no available edition is newer (needs
`RustEdition::ALL` complete and sorted by year: `editions_complete`, `editions_sorted`) -/
theorem latestEdition_spec (t : Target) (e : Edition) (h : latestEdition t = some e) :
    isAvailable e t = true ∧ ∀ e', isAvailable e' t = true → e'.year ≤ e.year := by
  unfold latestEdition latestEditionIn at h
  rw [List.find?_eq_some_iff_append] at h
  obtain ⟨hav, as, bs, hsplit, hnot⟩ := h
  refine ⟨by simpa using hav, ?_⟩
  intro e' he'
  have hall : Edition.all = bs.reverse ++ e :: as.reverse := by
    have := congrArg List.reverse hsplit
    simpa using this
  have hmem := editions_complete e'
  rw [hall] at hmem
  have hsorted := editions_sorted
  rw [hall] at hsorted
  rcases List.mem_append.mp hmem with hb | hb
  · have := (List.pairwise_append.mp hsorted).2.2 e' hb e (by simp)
    omega
  · rcases List.mem_cons.mp hb with rfl | ha
    · omega
    · have := hnot e' (by simpa using ha)
      simp [he'] at this

/-- **Default = latest.** With no `--rust-target` the CLI build uses `LATEST_STABLE_RUST`, the
row with the greatest minor; with no `--rust-edition` `Builder::generate` uses the newest edition
available for the target, and the flags are those of that pair. -/
theorem C14_default_is_latest (tbl : Table) (t : Target) :
    (defaultTarget tbl = some t →
      ∃ m, t = .stable m 0 ∧ (∃ row ∈ tbl.rows, row.1 = m) ∧ ∀ row ∈ tbl.rows, row.1 ≤ m) ∧
    (∀ e fs, resolve tbl t none = .ok e fs →
      fs = featuresNew tbl t e ∧ isAvailable e t = true ∧ ∀ e', isAvailable e' t = true → e'.year ≤ e.year) := by
  constructor
  · intro h
    unfold defaultTarget latestStable at h
    cases hm : latestStableMinor tbl.rows with
    | none => simp [hm] at h
    | some m =>
      simp only [hm, Option.map_some, Option.some.injEq] at h
      exact ⟨m, h.symm, latestStable_is_max tbl m hm⟩
  · intro e fs h
    unfold resolve at h
    cases hl : latestEdition t with
    | none => simp [hl] at h
    | some e0 =>
      simp only [hl, Resolved.ok.injEq] at h
      obtain ⟨rfl, rfl⟩ := h
      exact ⟨rfl, latestEdition_spec t _ hl⟩

/-- the default of the table found in the source (concrete values, re-checked on every run) -/
theorem C14_default_concrete :
    defaultTarget theTable = some (.stable 82 0) ∧ latestEdition (.stable 82 0) = some .e2021 ∧
    earliestStable theTable = some (.stable 51 0) := by decide

/-- every target accepted by `RustTarget::stable` (≥ the earliest release) has an edition, so the
`.expect(..)` in `latest_edition` cannot fire -/
theorem C14_latestEdition_defined (t : Target) (h : t.lt (.stable 51 0) = false) :
    (latestEdition t).isSome = true := by
  cases t with
  | nightly => decide
  | stable m p =>
    have hm : 51 ≤ m := by
      simp only [Target.lt, Bool.or_eq_false_iff, decide_eq_false_iff_not, Bool.and_eq_false_iff] at h
      omega
    have : isAvailable .e2018 (.stable m p) = true := by
      rw [isAvailable_stable]; simp only [Edition.firstMinor]; omega
    unfold latestEdition latestEditionIn
    rw [List.find?_isSome]
    exact ⟨.e2018, by simp [Edition.all], this⟩

/-! ## `RustTarget::from_str` -/

theorem finish_ok {earliest : Target} {m p : Nat} {t : Target} (h : finish earliest m p = .ok t) :
    t = .stable m p ∧ t.lt earliest = false := by
  unfold finish stableCtor at h
  by_cases hl : (Target.stable m p).lt earliest = true
  · simp [hl] at h
  · have hl' : (Target.stable m p).lt earliest = false := by simpa using hl
    simp only [hl'] at h
    simp at h
    subst h; exact ⟨rfl, hl'⟩

theorem adjust_ok {decr : DecrKind} {earliest : Target} {checks isN : Bool} {m p : Nat} {t : Target}
    (h : adjust decr earliest checks isN m p = .ok t) : t.lt earliest = false := by
  unfold adjust at h
  split at h
  · split at h
    · cases decr with
      | checked => simp at h
      | unchecked =>
        simp only at h
        split at h
        · simp at h
        · exact (finish_ok h).2
    · exact (finish_ok h).2
  · exact (finish_ok h).2

theorem parseVersion_ok {decr : DecrKind} {earliest : Target} {checks isN : Bool} {v : List Char}
    {t : Target} (h : parseVersion decr earliest checks v isN = .ok t) : t.lt earliest = false := by
  unfold parseVersion at h
  split at h
  · simp at h
  · split at h
    · simp at h
    · split at h
      · simp at h
      · exact adjust_ok h

/-- **Selectable targets.** Whatever string is given, a parsed target is nightly or not below the
earliest supported release (so every selectable target is covered by the theorems above). -/
theorem C14_fromStr_ok_valid (decr : DecrKind) (earliest : Target) (checks : Bool) (s : List Char)
    (t : Target) (h : fromStr decr earliest checks s = .ok t) :
    t = .nightly ∨ t.lt earliest = false := by
  unfold fromStr at h
  split at h
  · simp at h; exact Or.inl h.symm
  · split at h
    · simp at h
    · exact Or.inr (parseVersion_ok h)

theorem adjust_panic_iff (earliest : Target) (isN : Bool) (m p : Nat) :
    adjust .unchecked earliest true isN m p = .panic ↔ (isN = true ∧ m = 0) := by
  unfold adjust finish
  cases isN <;> by_cases hm : m = 0 <;> simp [hm] <;> split <;> simp

theorem parseVersion_panic_iff (earliest : Target) (v : List Char) (isN : Bool) :
    parseVersion .unchecked earliest true v isN = .panic ↔ (isN = true ∧ versionMinorZero v = true) := by
  unfold parseVersion versionMinorZero
  cases hv : splitOnce '.' v with
  | none => simp
  | some mt =>
    obtain ⟨major, tail⟩ := mt
    by_cases hmaj : major = ['1']
    · subst hmaj
      cases hn : parseNumbers tail with
      | error e => simp [hn]
      | ok mp =>
        obtain ⟨m, p⟩ := mp
        simp [hn, adjust_panic_iff]
    · simp [hmaj]

theorem preOk_nightly : preOk sNightly = true := by decide

/-- **Panic region.** With the unchecked `minor -= 1` and overflow checks on, `from_str` panics
exactly on `1.0[.p]-nightly`-shaped inputs (`regionNightlyMinorZero`). -/
theorem C14_fromStr_panics_iff (earliest : Target) (s : List Char) :
    fromStr .unchecked earliest true s = .panic ↔ regionNightlyMinorZero s = true := by
  unfold fromStr regionNightlyMinorZero
  by_cases h0 : s = sNightly
  · subst h0
    constructor
    · intro h; simp at h
    · intro h; exact absurd h (by decide)
  · simp only [h0, if_false]
    by_cases hp : (splitPre s).2 = sNightly
    · simp [hp, preOk_nightly, parseVersion_panic_iff]
    · have hb : ((splitPre s).2 == sNightly) = false := by simpa using hp
      simp only [hb, Bool.false_and]
      split
      · simp
      · simp [parseVersion_panic_iff]

theorem adjust_checked_ne_panic (earliest : Target) (checks isN : Bool) (m p : Nat) :
    adjust .checked earliest checks isN m p ≠ .panic := by
  unfold adjust finish
  cases isN <;> by_cases hm : m = 0 <;> simp [hm] <;> split <;> simp

theorem parseVersion_checked_ne_panic (earliest : Target) (checks isN : Bool) (v : List Char) :
    parseVersion .checked earliest checks v isN ≠ .panic := by
  unfold parseVersion
  split
  · simp
  · split
    · simp
    · split
      · simp
      · exact adjust_checked_ne_panic _ _ _ _ _

/-- with `checked_sub` (the proposed fix) `from_str` never panics -/
theorem C14_fromStr_checked_never_panics (earliest : Target) (checks : Bool) (s : List Char) :
    fromStr .checked earliest checks s ≠ .panic := by
  unfold fromStr
  split
  · simp
  · split
    · simp
    · exact parseVersion_checked_ne_panic _ _ _ _

def w_1_0_nightly : List Char := ['1', '.', '0', '-', 'n', 'i', 'g', 'h', 't', 'l', 'y']

/-- **Negation (witness).** `--rust-target 1.0-nightly`: a build with overflow checks panics … -/
theorem C14_fromStr_fails_on_1_0_nightly_dbg :
    fromStr .unchecked (.stable 51 0) true w_1_0_nightly = .panic := by decide

/-- … and a build without them wraps to `1.18446744073709551615.18446744073709551615`, i.e. it
silently selects every stable feature although `1.0-nightly` predates all of them. -/
theorem C14_fromStr_fails_on_1_0_nightly_rel :
    fromStr .unchecked (.stable 51 0) false w_1_0_nightly = .ok (.stable u64Max u64Max) := by decide

theorem C14_fromStr_1_0_nightly_fixed :
    fromStr .checked (.stable 51 0) true w_1_0_nightly = .err .tooEarly := by decide

/-! ## what code generation emits -/

theorem requires_eq_stabilised (c : Construct) :
    ∃ f, c.needs = [f] ∧ c.requires = stabilised f := by
  cases c <;> exact ⟨_, rfl, rfl⟩

theorem impliesIn_sound (tbl : Table) (g f : Feature) (h : impliesIn tbl g f = true)
    (t : Target) (e : Edition) : featuresNew tbl t e g = true → featuresNew tbl t e f = true := by
  unfold impliesIn at h
  simp only [Bool.or_eq_true, decide_eq_true_eq, Bool.and_eq_true, List.all_eq_true, List.any_eq_true,
    Bool.not_eq_true', decide_eq_false_iff_not] at h
  rcases h with rfl | ⟨hg, hf⟩
  · exact id
  · simp only [featuresNew_true]
    rintro (⟨hc, _⟩ | ⟨row, hr, _, en, hen, hfe, _⟩)
    · have ht : t = .nightly := by cases t <;> simp_all [isCompatible]
      subst ht
      rcases hf with ⟨en, hen, hfe, hem⟩ | ⟨row, hr, en, hen, hfe, hem⟩
      · exact Or.inl ⟨rfl, en, hen, hfe, by simp [edOk, hem]⟩
      · exact Or.inr ⟨row, hr, rfl, en, hen, hfe, by simp [edOk, hem]⟩
    · exact absurd hfe (hg row hr en hen)

/-- **Gate sites.** Every inventoried code-generation site (other than the prefix-dependent
`CStr` path, see below) that emits a gated construct does so only when the construct is usable
for the target and edition. -/
theorem C14_gate_sites (s : GateSite) (hs : s ∈ gateSites) (hc : s.construct ≠ .coreFfiCStr)
    (t : Target) (e : Edition) (hg : ∀ g ∈ s.guards, featuresNew theTable t e g = true) :
    s.construct.requires.allows t e = true := by
  have hok := gate_sites_all s hs hc
  obtain ⟨f, hn, hr⟩ := requires_eq_stabilised s.construct
  unfold siteOk at hok
  rw [hn] at hok
  simp only [List.all_cons, List.all_nil, Bool.and_true, List.any_eq_true] at hok
  obtain ⟨g, hgm, himp⟩ := hok
  rw [hr]
  exact sound_of_table theTable features_sound_all t e f (impliesIn_sound theTable g f himp t e (hg g hgm))

/-- **Emission sound (partial).** On the decision model of the gate sites, every construct
emitted for `(t, e)` under any option set is usable for `(t, e)` — outright if codegen gates the
`CStr` path on `core_ffi_c` (`gate = true`, the proposed fix), otherwise outside the region of
known finding `core_cstr_before_1_64`. -/
theorem C14_emits_sound_partial (gate : Bool) (t : Target) (e : Edition) (o : EmitOpts) (c : Construct)
    (hreg : gate = true ∨ regionCoreCStr t o = false ∨ c ≠ .coreFfiCStr)
    (h : emits gate (featuresNew theTable t e) o c = true) : c.requires.allows t e = true := by
  have S := fun f hf => sound_of_table theTable features_sound_all t e f hf
  cases c <;> simp only [emits, cstrOn, Bool.and_eq_true, Bool.or_eq_true, Bool.not_eq_true'] at h
  case unsafeExternBlock => exact S _ h
  case offsetOf => exact S _ h
  case cstrLiteral => exact S _ h.2
  case constCStrUnchecked => exact S _ h.1.1.2
  case coreFfiCType => exact S _ h.2
  case abiThiscall => exact S _ h.2
  case abiVectorcall => exact S _ h.2
  case abiCUnwind => exact S _ h.2
  case abiEfiapi => exact S _ h.2
  case layoutForPtr => exact S _ h.2
  case ptrMetadata =>
    rcases h.2 with h' | h'
    · exact S _ h'
    · have := S _ h'
      cases t <;> simp_all [Stab.allows, stabilised, Construct.requires, Since.le]
  case coreFfiCStr =>
    obtain ⟨hu, ⟨hg, hcc⟩, hgate⟩ := h
    have hc := S _ hcc
    rcases hreg with hreg | hreg | hreg
    · subst hreg
      rcases hgate with (hgate | hgate) | hgate
      · simp at hgate
      · simp [hu] at hgate
      · exact S _ hgate
    · cases t with
      | nightly => simp [Stab.allows, Construct.requires, Since.le, edOk]
      | stable m p =>
        simp only [regionCoreCStr, hu, hg, Bool.true_and, Bool.and_eq_false_iff,
          decide_eq_false_iff_not] at hreg
        simp only [Stab.allows, stabilised, Since.le, Bool.and_eq_true, decide_eq_true_eq] at hc
        simp only [Stab.allows, Construct.requires, Since.le, edOk, List.isEmpty_nil, Bool.true_or,
          Bool.and_true, decide_eq_true_eq]
        omega
    · exact absurd rfl hreg

/-- **Negation (witness).** `--rust-target 1.60 --use-core --generate-cstr` with the ungated
condition: the model (and the real CLI, see the correspondence run) emits `::core::ffi::CStr`,
which exists since 1.64. -/
theorem C14_emits_fails_on_core_cstr :
    emits false (featuresNew theTable (.stable 60 0) .e2021) ⟨true, true, false, false⟩ .coreFfiCStr = true ∧
    (Construct.requires .coreFfiCStr).allows (.stable 60 0) .e2021 = false := by decide

/-- inside the region the failure always happens (the region is exact) -/
theorem C14_core_cstr_region_exact (m p : Nat) (e : Edition) (o : EmitOpts)
    (h : regionCoreCStr (.stable m p) o = true) :
    emits false (featuresNew theTable (.stable m p) e) o .coreFfiCStr = true ∧
    (Construct.requires .coreFfiCStr).allows (.stable m p) e = false := by
  simp only [regionCoreCStr, Bool.and_eq_true, decide_eq_true_eq] at h
  obtain ⟨⟨hu, hg⟩, h59, h64⟩ := h
  constructor
  · simp only [emits, cstrOn, hu, hg, Bool.true_and, Bool.not_false, Bool.true_or, Bool.and_true]
    rw [featuresNew_true]
    refine Or.inr ⟨(59, [⟨.const_cstr, []⟩]), by simp [theTable, releaseRows], ?_, ⟨.const_cstr, []⟩, by simp, rfl, rfl⟩
    simp only [isCompatible, decide_eq_true_eq]; omega
  · simp only [Stab.allows, Construct.requires, Since.le, Bool.and_eq_false_iff, decide_eq_false_iff_not]
    left; omega

/-! ## monotonicity at the level of emitted constructs -/

/-- `cstrOn` is monotone in the flags -/
theorem cstrOn_mono (gate : Bool) (fs fs' : Feature → Bool) (o : EmitOpts)
    (hm : ∀ f, fs f = true → fs' f = true) (h : cstrOn gate fs o = true) : cstrOn gate fs' o = true := by
  simp only [cstrOn, Bool.and_eq_true, Bool.or_eq_true, Bool.not_eq_true'] at h ⊢
  obtain ⟨⟨hg, hc⟩, h3⟩ := h
  refine ⟨⟨hg, hm _ hc⟩, ?_⟩
  rcases h3 with (h3 | h3) | h3
  · exact Or.inl (Or.inl h3)
  · exact Or.inl (Or.inr h3)
  · exact Or.inr (hm _ h3)

/-- **Constructs are monotone.**  Whatever gated construct the generator emits for a target it
also emits for every later target (same edition, same options) — with one exception by design:
`CStr::from_bytes_with_nul_unchecked` constants, which a later target *replaces* by C-string
literals (next theorem).  Holds with and without the `core_ffi_c` conjunct in the `cstr` gate. -/
theorem C14_emits_monotone (gate : Bool) (tbl : Table) (t t' : Target) (e : Edition) (o : EmitOpts)
    (c : Construct) (hle : Target.le t t' = true) (hc : c ≠ .constCStrUnchecked)
    (h : emits gate (featuresNew tbl t e) o c = true) : emits gate (featuresNew tbl t' e) o c = true := by
  have hm : ∀ f, featuresNew tbl t e f = true → featuresNew tbl t' e f = true :=
    fun f => C14_monotone tbl t t' e f hle
  cases c with
  | constCStrUnchecked => exact absurd rfl hc
  | unsafeExternBlock => exact hm _ h
  | offsetOf => exact hm _ h
  | cstrLiteral =>
    simp only [emits, Bool.and_eq_true] at h ⊢
    exact ⟨cstrOn_mono gate _ _ o hm h.1, hm _ h.2⟩
  | coreFfiCType =>
    simp only [emits, Bool.and_eq_true] at h ⊢
    exact ⟨h.1, hm _ h.2⟩
  | coreFfiCStr =>
    simp only [emits, Bool.and_eq_true] at h ⊢
    exact ⟨h.1, cstrOn_mono gate _ _ o hm h.2⟩
  | abiThiscall =>
    simp only [emits, Bool.and_eq_true] at h ⊢
    exact ⟨h.1, hm _ h.2⟩
  | abiVectorcall =>
    simp only [emits, Bool.and_eq_true] at h ⊢
    exact ⟨h.1, hm _ h.2⟩
  | abiCUnwind =>
    simp only [emits, Bool.and_eq_true] at h ⊢
    exact ⟨h.1, hm _ h.2⟩
  | abiEfiapi =>
    simp only [emits, Bool.and_eq_true] at h ⊢
    exact ⟨h.1, hm _ h.2⟩
  | ptrMetadata =>
    simp only [emits, Bool.and_eq_true, Bool.or_eq_true] at h ⊢
    exact ⟨h.1, h.2.imp (hm _) (hm _)⟩
  | layoutForPtr =>
    simp only [emits, Bool.and_eq_true] at h ⊢
    exact ⟨h.1, hm _ h.2⟩

/-- the exception: a target that emitted `from_bytes_with_nul_unchecked` constants is followed by
targets that emit either the same or C-string literals — `CStr` constants never disappear -/
theorem C14_cstr_constants_persist (gate : Bool) (tbl : Table) (t t' : Target) (e : Edition) (o : EmitOpts)
    (hle : Target.le t t' = true)
    (h : emits gate (featuresNew tbl t e) o .constCStrUnchecked = true) :
    emits gate (featuresNew tbl t' e) o .constCStrUnchecked = true ∨
    emits gate (featuresNew tbl t' e) o .cstrLiteral = true := by
  have hm : ∀ f, featuresNew tbl t e f = true → featuresNew tbl t' e f = true :=
    fun f => C14_monotone tbl t t' e f hle
  simp only [emits, Bool.and_eq_true, Bool.not_eq_true'] at h ⊢
  have hon := cstrOn_mono gate _ _ o hm h.1
  cases hl : featuresNew tbl t' e .literal_cstr with
  | true => exact Or.inr ⟨hon, rfl⟩
  | false => exact Or.inl ⟨hon, rfl⟩

/-- non-vacuity: 1.59 emits the unchecked form, 1.77 (edition 2021) the literal form -/
example : emits true (featuresNew theTable (.stable 59 0) .e2021) ⟨false, true, false, false⟩ .constCStrUnchecked = true ∧
    emits true (featuresNew theTable (.stable 77 0) .e2021) ⟨false, true, false, false⟩ .constCStrUnchecked = false ∧
    emits true (featuresNew theTable (.stable 77 0) .e2021) ⟨false, true, false, false⟩ .cstrLiteral = true := by decide

/-! ## non-vacuity -/

example : featuresNew theTable (.stable 77 3) .e2021 .literal_cstr = true ∧
    featuresNew theTable (.stable 77 3) .e2018 .literal_cstr = false ∧
    featuresNew theTable (.stable 76 0) .e2021 .offset_of = false ∧
    featuresNew theTable .nightly .e2018 .ptr_metadata = true := by decide
example : resolve theTable (.stable 84 0) (some .e2024) = .unsupportedEdition .e2024 (.stable 84 0) :=
  (C14_edition_rejected_ground_truth 84 0 .e2024).mpr (by decide)
example : regionCoreCStr (.stable 60 0) ⟨true, true, false, false⟩ = true := by decide
example : regionNightlyMinorZero w_1_0_nightly = true := by decide
example : gateSites.any (fun s => s.construct == .ptrMetadata && s.guards == [.layout_for_ptr]) = true := by
  decide

end BindgenModel.Features
