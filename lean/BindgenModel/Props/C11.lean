import BindgenModel.Model.Determinism
import BindgenModel.Generated.Sites
/-!
# C11 — output is a pure function of inputs across processes, repeats and threads

Property theorems about `Model/Determinism.lean`:

* every consumer class of a hash-container iteration is invariant under permutation of the
  yielded list (`consume_perm`) ⇒ a generation does not depend on the iteration order of any
  site: `C11_perm_invariant_partial` (hypothesis forced by the proof: a `find` site must have
  at most one matching element; `C11_find_order_dependent_witness` shows the dependence
  otherwise; the only such sites are the two `abi_overrides` lookups, `C11_findUnique_sites`);
  `C11_perm_invariant` is the unconditional form for programs without `find` sites;
* process-wide write-once cells whose initial value does not depend on the initialising
  generation's input (`InputIndependent`) cannot carry information between generations:
  `C11_history_irrelevant` (k-th generation of any history = the same input run first),
  `C11_interleaving_irrelevant` (any interleaving of the micro-steps of `m` generations gives
  every finished generation its solo output), `C11_schedule_progress` (a generation finishes as
  soon as it was scheduled `nsteps` times, so every fair schedule finishes all of them);
  `C11_history_matters_if_init_depends_on_input` is the negation witness for the hypothesis;
* the one kind of shared MUTABLE state found by the inventory — the scratch files of
  `--clang-macro-fallback`, whose names do not depend on the generation — is outside that
  hypothesis: `C11_shared_scratch_sites` pins the four sites, `C11_scratch_file_sequential_ok`
  shows histories are unaffected, `C11_scratch_file_interleaving_witness` shows what
  interleaving does (known finding `macro_fallback_shared_scratch_files`);
* `C11_all_sites_classified`: every site of the regenerated inventory (`Generated/Sites.lean`
  (a) process-wide state, (b) hash iterations) has a row in the committed classification.
-/
namespace BindgenModel.Determinism
open List

/-! ## consumers are permutation invariant -/

theorem ordInsert_comm (a b : Nat) (l : List Nat) :
    ordInsert a (ordInsert b l) = ordInsert b (ordInsert a l) := by
  induction l with
  | nil => simp only [ordInsert]; grind
  | cons c l ih => simp only [ordInsert]; grind [ordInsert]

theorem setInsert_comm (a b : Nat) (l : List Nat) :
    setInsert a (setInsert b l) = setInsert b (setInsert a l) := by
  induction l with
  | nil => simp only [setInsert]; grind
  | cons c l ih => simp only [setInsert]; grind [setInsert]

/-- `collect::<Vec>()` + `sort` does not see the iteration order -/
theorem sortList_perm {xs ys : List Elem} (h : xs.Perm ys) : sortList xs = sortList ys :=
  Perm.foldr_eq' h (fun x _ y _ z => ordInsert_comm y x z) []

/-- `collect::<BTreeSet>()` / inserting everything into another set does not see the order -/
theorem toOrderedSet_perm {xs ys : List Elem} (h : xs.Perm ys) : toOrderedSet xs = toOrderedSet ys :=
  Perm.foldr_eq' h (fun x _ y _ z => setInsert_comm y x z) []

/-! the models of `sort` and of `BTreeSet` are what they claim to be: the result is ascending, has
the content of the input, and (for the set) no duplicates — so it is *the* canonical listing of the
content, a function of the content alone -/

theorem ordInsert_perm (a : Elem) (l : List Elem) : (ordInsert a l).Perm (a :: l) := by
  induction l with
  | nil => exact Perm.refl _
  | cons b l ih =>
    simp only [ordInsert]
    split
    · exact Perm.refl _
    · exact (Perm.cons b ih).trans (Perm.swap a b l)

/-- `sort` keeps the content (with multiplicities) -/
theorem C11_sortList_content (xs : List Elem) : (sortList xs).Perm xs := by
  induction xs with
  | nil => exact Perm.refl _
  | cons a xs ih => exact (ordInsert_perm a _).trans (Perm.cons a ih)

theorem ordInsert_sorted (a : Elem) (l : List Elem) (h : l.Pairwise (· ≤ ·)) :
    (ordInsert a l).Pairwise (· ≤ ·) := by
  induction l with
  | nil => simp [ordInsert]
  | cons b l ih =>
    simp only [ordInsert]
    rw [List.pairwise_cons] at h
    split
    · rename_i hab
      exact List.pairwise_cons.2 ⟨fun x hx => by
        rcases List.mem_cons.1 hx with rfl | hx
        · exact hab
        · exact Nat.le_trans hab (h.1 x hx), List.pairwise_cons.2 h⟩
    · rename_i hab
      refine List.pairwise_cons.2 ⟨fun x hx => ?_, ih h.2⟩
      rcases List.mem_cons.1 ((ordInsert_perm a l).mem_iff.1 hx) with e | hx
      · rw [e]; exact Nat.le_of_lt (Nat.lt_of_not_le hab)
      · exact h.1 x hx

/-- `sort` yields an ascending list -/
theorem C11_sortList_sorted (xs : List Elem) : (sortList xs).Pairwise (· ≤ ·) := by
  induction xs with
  | nil => exact List.Pairwise.nil
  | cons a xs ih => exact ordInsert_sorted a _ ih

theorem mem_setInsert (a x : Elem) (l : List Elem) : x ∈ setInsert a l ↔ x = a ∨ x ∈ l := by
  induction l with
  | nil => simp [setInsert]
  | cons b l ih =>
    simp only [setInsert]
    split
    · simp
    · split
      · rename_i hab; subst hab; simp
      · simp only [List.mem_cons, ih]
        constructor
        · rintro (h | h | h)
          · exact Or.inr (Or.inl h)
          · exact Or.inl h
          · exact Or.inr (Or.inr h)
        · rintro (h | h | h)
          · exact Or.inr (Or.inl h)
          · exact Or.inl h
          · exact Or.inr (Or.inr h)

/-- the ordered set has exactly the elements of the input -/
theorem C11_toOrderedSet_content (xs : List Elem) (x : Elem) : x ∈ toOrderedSet xs ↔ x ∈ xs := by
  induction xs with
  | nil => simp [toOrderedSet]
  | cons a xs ih =>
    have : toOrderedSet (a :: xs) = setInsert a (toOrderedSet xs) := rfl
    rw [this, mem_setInsert, ih, List.mem_cons]

theorem setInsert_strict (a : Elem) (l : List Elem) (h : l.Pairwise (· < ·)) :
    (setInsert a l).Pairwise (· < ·) := by
  induction l with
  | nil => simp [setInsert]
  | cons b l ih =>
    simp only [setInsert]
    have h' := List.pairwise_cons.1 h
    split
    · rename_i hab
      exact List.pairwise_cons.2 ⟨fun x hx => by
        rcases List.mem_cons.1 hx with rfl | hx
        · exact hab
        · exact Nat.lt_trans hab (h'.1 x hx), h⟩
    · split
      · exact h
      · rename_i h1 h2
        refine List.pairwise_cons.2 ⟨fun x hx => ?_, ih h'.2⟩
        rcases (mem_setInsert a x l).1 hx with e | hx
        · rw [e]; exact Nat.lt_of_le_of_ne (Nat.le_of_not_lt h1) (fun e' => h2 e'.symm)
        · exact h'.1 x hx

/-- the ordered set is strictly ascending: no duplicates, one canonical order -/
theorem C11_toOrderedSet_strict (xs : List Elem) : (toOrderedSet xs).Pairwise (· < ·) := by
  induction xs with
  | nil => exact List.Pairwise.nil
  | cons a xs ih => exact setInsert_strict a _ ih

/-- … hence two inputs with the same elements (any order, any multiplicities — two hash seeds,
two insertion histories) give the same ordered set -/
theorem C11_toOrderedSet_content_determines (xs ys : List Elem) (h : ∀ x, x ∈ xs ↔ x ∈ ys) :
    toOrderedSet xs = toOrderedSet ys := by
  have hs : ∀ (l₁ l₂ : List Elem), l₁.Pairwise (· < ·) → l₂.Pairwise (· < ·) →
      (∀ x, x ∈ l₁ ↔ x ∈ l₂) → l₁ = l₂ := by
    intro l₁
    induction l₁ with
    | nil =>
      intro l₂ _ _ hm
      cases l₂ with
      | nil => rfl
      | cons b l₂ => exact absurd ((hm b).2 (List.mem_cons_self ..)) (by simp)
    | cons a l₁ ih =>
      intro l₂ h₁ h₂ hm
      cases l₂ with
      | nil => exact absurd ((hm a).1 (List.mem_cons_self ..)) (by simp)
      | cons b l₂ =>
        have p₁ := List.pairwise_cons.1 h₁
        have p₂ := List.pairwise_cons.1 h₂
        have hab : a = b := by
          have ha := (hm a).1 (List.mem_cons_self ..)
          have hb := (hm b).2 (List.mem_cons_self ..)
          rcases List.mem_cons.1 ha with e | ha
          · exact e
          · rcases List.mem_cons.1 hb with e | hb
            · exact e.symm
            · exact absurd (Nat.lt_trans (p₂.1 a ha) (p₁.1 b hb)) (Nat.lt_irrefl _)
        subst hab
        congr 1
        refine ih l₂ p₁.2 p₂.2 (fun x => ?_)
        constructor
        · intro hx
          rcases List.mem_cons.1 ((hm x).1 (List.mem_cons_of_mem _ hx)) with e | hx'
          · subst e; exact absurd (p₁.1 x hx) (Nat.lt_irrefl _)
          · exact hx'
        · intro hx
          rcases List.mem_cons.1 ((hm x).2 (List.mem_cons_of_mem _ hx)) with e | hx'
          · subst e; exact absurd (p₂.1 x hx) (Nat.lt_irrefl _)
          · exact hx'
  exact hs _ _ (C11_toOrderedSet_strict xs) (C11_toOrderedSet_strict ys)
    (fun x => by rw [C11_toOrderedSet_content, C11_toOrderedSet_content]; exact h x)

/-- at most one element of `xs` satisfies `p` -/
def AtMostOne (p : Elem → Bool) (xs : List Elem) : Prop :=
  ∀ a ∈ xs, ∀ b ∈ xs, p a = true → p b = true → a = b

theorem find?_eq_some_of_atMostOne {p : Elem → Bool} {xs : List Elem} (h : AtMostOne p xs)
    {a : Elem} (ha : a ∈ xs) (hp : p a = true) : xs.find? p = some a := by
  induction xs with
  | nil => cases ha
  | cons x xs ih =>
    rw [find?_cons]
    by_cases hx : p x = true
    · have : x = a := h x (mem_cons_self ..) a ha hx hp
      subst this
      simp [hx]
    · have hx' : p x = false := by simpa using hx
      simp only [hx']
      have ha' : a ∈ xs := by
        rcases mem_cons.mp ha with e | e
        · subst e; exact absurd hp hx
        · exact e
      exact ih (fun c hc d hd => h c (mem_cons_of_mem _ hc) d (mem_cons_of_mem _ hd)) ha'

/-- `find` on a predicate that at most one element satisfies does not see the order -/
theorem find?_perm_of_atMostOne {p : Elem → Bool} {xs ys : List Elem} (h : AtMostOne p xs)
    (hp : xs.Perm ys) : xs.find? p = ys.find? p := by
  cases hf : xs.find? p with
  | none =>
    have hn := find?_eq_none.mp hf
    exact (find?_eq_none.mpr (fun x hx => hn x (hp.mem_iff.mpr hx))).symm
  | some a =>
    have ha := mem_of_find?_eq_some hf
    have hpa := find?_some hf
    have h' : AtMostOne p ys := fun c hc d hd => h c (hp.mem_iff.mpr hc) d (hp.mem_iff.mpr hd)
    exact (find?_eq_some_of_atMostOne h' (hp.mem_iff.mp ha) hpa).symm

/-- every consumer class yields the same value for every order of the same content -/
theorem consume_perm (c : ConsumerClass) (p : Elem → Bool) (f : Elem → List Elem) {xs ys : List Elem}
    (hu : c = .findUnique → AtMostOne p xs) (h : xs.Perm ys) :
    consume c p f xs = consume c p f ys := by
  cases c <;> simp only [consume]
  · rw [toOrderedSet_perm (Perm.flatMap_right f h)]
  · rw [sortList_perm (Perm.flatMap_right f h)]
  · rw [h.any_eq]
  · rw [find?_perm_of_atMostOne (hu rfl) h]
  · rw [toOrderedSet_perm (Perm.flatMap_right f h)]
  · rw [toOrderedSet_perm (Perm.flatMap_right f h)]

/-! ## generation: the iteration order of no site reaches the output -/

/-- an iteration order yields a permutation of the container's content -/
def IsOrder (π : Order) : Prop := ∀ s l, (π s l).Perm l

/-- side condition of `find` sites -/
def StepOK {σ : Type} (s : Step σ) : Prop :=
  s.cls = .findUnique → ∀ st, AtMostOne s.p (s.content st)

theorem runSteps_order_irrelevant {σ : Type} (π π' : Order) (hπ : IsOrder π) (hπ' : IsOrder π')
    (prog : List (Step σ)) (hok : ∀ s ∈ prog, StepOK s) (st : σ) :
    runSteps π prog st = runSteps π' prog st := by
  induction prog generalizing st with
  | nil => rfl
  | cons s rest ih =>
    simp only [runSteps]
    have hs : s.run π st = s.run π' st := by
      simp only [Step.run]
      have hperm : (π s.site (s.content st)).Perm (π' s.site (s.content st)) :=
        (hπ _ _).trans (hπ' _ _).symm
      have hu : s.cls = .findUnique → AtMostOne s.p (π s.site (s.content st)) := fun hc =>
        fun a ha b hb => hok s (mem_cons_self ..) hc st a ((hπ _ _).mem_iff.mp ha) b ((hπ _ _).mem_iff.mp hb)
      rw [consume_perm s.cls s.p s.f hu hperm]
    rw [hs]
    exact ih (fun t ht => hok t (mem_cons_of_mem _ ht)) _

/-- **perm_invariant** (partial: `find` sites need at most one match): `gen i π = gen i π'`. -/
theorem C11_perm_invariant_partial {ι σ ω : Type} (prog : ι → List (Step σ)) (init : ι → σ)
    (out : σ → ω) (i : ι) (π π' : Order) (hπ : IsOrder π) (hπ' : IsOrder π')
    (hok : ∀ s ∈ prog i, StepOK s) :
    gen prog init out i π = gen prog init out i π' := by
  simp only [gen]
  rw [runSteps_order_irrelevant π π' hπ hπ' (prog i) hok]

/-- **perm_invariant**, unconditional for programs without `find` sites. -/
theorem C11_perm_invariant {ι σ ω : Type} (prog : ι → List (Step σ)) (init : ι → σ)
    (out : σ → ω) (i : ι) (π π' : Order) (hπ : IsOrder π) (hπ' : IsOrder π')
    (hnf : ∀ s ∈ prog i, s.cls ≠ .findUnique) :
    gen prog init out i π = gen prog init out i π' :=
  C11_perm_invariant_partial prog init out i π π' hπ hπ'
    (fun s hs hc => absurd hc (hnf s hs))

/-- the program used by the witnesses: one `find` site over the content `[1, 2]` -/
def witnessProg (p : Elem → Bool) : Unit → List (Step Val) := fun _ =>
  [{ site := 0, cls := .findUnique, content := fun _ => [1, 2], p := p, f := fun a => [a],
     update := fun _ v => v }]

/-- negation on the excluded region: a `find` whose predicate two elements satisfy returns
    whichever the iteration yields first (two `--override-abi` sets matching one name). -/
theorem C11_find_order_dependent_witness :
    IsOrder (fun _ l => l) ∧ IsOrder (fun _ l => l.reverse) ∧
    gen (witnessProg (fun _ => true)) (fun _ => Val.unit) id () (fun _ l => l)
      ≠ gen (witnessProg (fun _ => true)) (fun _ => Val.unit) id () (fun _ l => l.reverse) := by
  refine ⟨fun _ _ => Perm.refl _, fun _ l => reverse_perm l, ?_⟩
  decide

/-- the hypotheses of `C11_perm_invariant_partial` are satisfiable on a non-trivial program -/
example : ∀ s ∈ witnessProg (fun a => a == 2) (), StepOK s := by
  intro s hs
  simp only [witnessProg, mem_singleton] at hs
  subst hs
  intro _ _ a _ b _ pa pb
  have ea : a = 2 := by simpa using pa
  have eb : b = 2 := by simpa using pb
  rw [ea, eb]

example : gen (witnessProg (fun a => a == 2)) (fun _ => Val.unit) id () (fun _ l => l)
    = gen (witnessProg (fun a => a == 2)) (fun _ => Val.unit) id () (fun _ l => l.reverse) := by decide

/-! ## process-wide write-once cells -/

/-- the value a cell is initialised with does not depend on which generation initialises it -/
def InputIndependent (S : Sys) : Prop := ∀ i j c, S.initVal i c = S.initVal j c

def CellsOK (S : Sys) (cells : List (Nat × Nat)) : Prop :=
  ∀ c v, cellGet cells c = some v → ∀ i, v = S.initVal i c

def GenOK (S : Sys) (g : GenSt) : Prop :=
  g.pc ≤ S.nsteps g.input ∧ g.loc = soloLoc S g.input g.pc

theorem cellsOK_nil (S : Sys) : CellsOK S [] := by
  intro c v h; simp [cellGet] at h

theorem getOrInit_ok (S : Sys) (hI : InputIndependent S) {cells : List (Nat × Nat)}
    (hc : CellsOK S cells) (i c : Nat) :
    (getOrInit S cells i c).1 = S.initVal i c ∧ CellsOK S (getOrInit S cells i c).2 := by
  unfold getOrInit
  cases h : cellGet cells c with
  | some v => exact ⟨hc c v h i, hc⟩
  | none =>
    refine ⟨rfl, ?_⟩
    intro c' v' h' j
    simp only [cellGet] at h'
    by_cases e : c = c'
    · subst e
      simp only [ite_true, Option.some.injEq] at h'
      rw [← h']; exact hI i j c
    · simp only [e, ite_false] at h'
      exact hc c' v' h' j

theorem stepGen_ok (S : Sys) (hI : InputIndependent S) {cells : List (Nat × Nat)} {g : GenSt}
    (hc : CellsOK S cells) (hg : GenOK S g) :
    CellsOK S (stepGen S cells g).1 ∧ GenOK S (stepGen S cells g).2 ∧
    (stepGen S cells g).2.input = g.input ∧
    (stepGen S cells g).2.pc = (if g.pc < S.nsteps g.input then g.pc + 1 else g.pc) := by
  unfold stepGen
  by_cases h : g.pc < S.nsteps g.input
  · simp only [h, ite_true]
    have := getOrInit_ok S hI hc g.input (S.cellOf g.input g.pc)
    refine ⟨this.2, ⟨h, ?_⟩, trivial, trivial⟩
    simp only [soloLoc, this.1, hg.2]
  · simp only [h, ite_false]
    exact ⟨hc, hg, trivial, trivial⟩

theorem mem_setNth {α : Type} {l : List α} {n : Nat} {a b : α} (h : b ∈ setNth l n a) :
    b = a ∨ b ∈ l := by
  induction l generalizing n with
  | nil => simp [setNth] at h
  | cons x l ih =>
    cases n with
    | zero =>
      simp only [setNth, mem_cons] at h
      rcases h with h | h
      · exact Or.inl h
      · exact Or.inr (mem_cons_of_mem _ h)
    | succ n =>
      simp only [setNth, mem_cons] at h
      rcases h with h | h
      · exact Or.inr (h ▸ mem_cons_self ..)
      · rcases ih h with h | h
        · exact Or.inl h
        · exact Or.inr (mem_cons_of_mem _ h)

theorem map_setNth_of_eq {α β : Type} (f : α → β) {l : List α} {n : Nat} {a b : α}
    (hl : l[n]? = some b) (hf : f a = f b) : (setNth l n a).map f = l.map f := by
  induction l generalizing n with
  | nil => rfl
  | cons x l ih =>
    cases n with
    | zero =>
      simp only [getElem?_cons_zero, Option.some.injEq] at hl
      simp [setNth, hf, hl]
    | succ n =>
      simp only [getElem?_cons_succ] at hl
      simp [setNth, ih hl]

def ProcOK (S : Sys) (P : Proc) : Prop := CellsOK S P.cells ∧ ∀ g ∈ P.gens, GenOK S g

theorem fire_ok (S : Sys) (hI : InputIndependent S) {P : Proc} (h : ProcOK S P) (k : Nat) :
    ProcOK S (fire S P k) ∧ (fire S P k).gens.map (·.input) = P.gens.map (·.input) := by
  unfold fire
  cases hk : P.gens[k]? with
  | none => exact ⟨h, rfl⟩
  | some g =>
    have hg : GenOK S g := h.2 g (mem_of_getElem? hk)
    have st := stepGen_ok S hI h.1 hg
    refine ⟨⟨st.1, ?_⟩, ?_⟩
    · intro g' hg'
      rcases mem_setNth hg' with e | e
      · rw [e]; exact st.2.1
      · exact h.2 g' e
    · exact map_setNth_of_eq (·.input) hk st.2.2.1

theorem runSched_ok (S : Sys) (hI : InputIndependent S) (sched : List Nat) {P : Proc}
    (h : ProcOK S P) :
    ProcOK S (runSched S sched P) ∧ (runSched S sched P).gens.map (·.input) = P.gens.map (·.input) := by
  induction sched generalizing P with
  | nil => exact ⟨h, rfl⟩
  | cons k ks ih =>
    simp only [runSched]
    have f := fire_ok S hI h k
    have r := ih f.1
    exact ⟨r.1, r.2.trans f.2⟩

theorem procOK_fresh (S : Sys) (inputs : List Nat) :
    ProcOK S { cells := [], gens := inputs.map (freshGen S) } := by
  refine ⟨cellsOK_nil S, ?_⟩
  intro g hg
  simp only [mem_map] at hg
  obtain ⟨i, _, rfl⟩ := hg
  exact ⟨Nat.zero_le _, rfl⟩

/-- **interleaving_irrelevant**: start `m` generations (inputs `inputs`) in a fresh process and
    let them take micro-steps in ANY order `sched` (threads sharing only the write-once cells):
    the inputs are undisturbed and every generation that has finished holds exactly the output
    of the same input run alone in a fresh process. -/
theorem C11_interleaving_irrelevant (S : Sys) (hI : InputIndependent S) (inputs sched : List Nat) :
    let P := runSched S sched { cells := [], gens := inputs.map (freshGen S) }
    P.gens.map (·.input) = inputs ∧
    ∀ g ∈ P.gens, g.pc = S.nsteps g.input → S.out g.loc = soloOut S g.input := by
  intro P
  have r := runSched_ok S hI sched (procOK_fresh S inputs)
  refine ⟨?_, ?_⟩
  · have : (inputs.map (freshGen S)).map (·.input) = inputs := by
      simp [freshGen, Function.comp_def]
    exact r.2.trans this
  · intro g hg hfin
    have := (r.1.2 g hg).2
    simp only [soloOut, this, hfin]

/-- progress of one generation under a schedule: its program counter is the number of times it
    was scheduled, capped at its length (so every schedule that names each generation at least
    `nsteps` times finishes all of them — with `C11_interleaving_irrelevant`: with solo outputs). -/
theorem C11_schedule_progress (S : Sys) (hI : InputIndependent S) (sched : List Nat) (P : Proc)
    (h : ProcOK S P) (k : Nat) (g : GenSt) (hk : P.gens[k]? = some g) :
    ∃ g', (runSched S sched P).gens[k]? = some g' ∧ g'.input = g.input ∧
      g'.pc = min (S.nsteps g.input) (g.pc + sched.count k) := by
  induction sched generalizing P g with
  | nil =>
    refine ⟨g, hk, rfl, ?_⟩
    have := (h.2 g (mem_of_getElem? hk)).1
    simp only [count_nil, Nat.add_zero]; omega
  | cons j js ih =>
    simp only [runSched]
    have f := fire_ok S hI h j
    have hgok := h.2 g (mem_of_getElem? hk)
    by_cases e : j = k
    · subst e
      have st := stepGen_ok S hI h.1 hgok
      have hk' : (fire S P j).gens[j]? = some (stepGen S P.cells g).2 := by
        unfold fire
        simp only [hk]
        have hlt : j < P.gens.length := by
          rcases List.getElem?_eq_some_iff.mp hk with ⟨hl, _⟩; exact hl
        clear ih f st hgok h hk
        generalize P.gens = l at hlt
        induction l generalizing j with
        | nil => simp at hlt
        | cons x l ihl =>
          cases j with
          | zero => simp [setNth]
          | succ j => simp only [setNth, getElem?_cons_succ]; exact ihl j (by simpa using hlt)
      obtain ⟨g', h1, h2, h3⟩ := ih (fire S P j) f.1 _ hk'
      refine ⟨g', h1, h2.trans st.2.2.1, ?_⟩
      rw [h3, st.2.2.1, st.2.2.2, count_cons_self]
      have := hgok.1
      split <;> omega
    · have hk' : (fire S P j).gens[k]? = some g := by
        unfold fire
        cases hj : P.gens[j]? with
        | none => exact hk
        | some gj =>
          simp only
          clear ih f hgok h
          generalize (stepGen S P.cells gj).2 = a
          generalize P.gens = l at hk hj
          induction l generalizing j k with
          | nil => simp at hk
          | cons x l ihl =>
            cases j with
            | zero =>
              cases k with
              | zero => exact absurd rfl e
              | succ k => simpa [setNth] using hk
            | succ j =>
              cases k with
              | zero => simpa [setNth] using hk
              | succ k =>
                simp only [setNth, getElem?_cons_succ] at hk hj ⊢
                exact ihl _ _ (by omega) hk hj
      obtain ⟨g', h1, h2, h3⟩ := ih (fire S P j) f.1 g hk'
      refine ⟨g', h1, h2, ?_⟩
      rw [h3, count_cons]
      have : (j == k) = false := by simpa using e
      simp [this]

theorem runToEnd_ok (S : Sys) (hI : InputIndependent S) (fuel : Nat) {cells : List (Nat × Nat)}
    {g : GenSt} (hc : CellsOK S cells) (hg : GenOK S g) :
    CellsOK S (runToEnd S fuel cells g).1 ∧ GenOK S (runToEnd S fuel cells g).2 ∧
    (runToEnd S fuel cells g).2.input = g.input ∧
    (runToEnd S fuel cells g).2.pc = min (S.nsteps g.input) (g.pc + fuel) := by
  induction fuel generalizing cells g with
  | zero =>
    refine ⟨hc, hg, rfl, ?_⟩
    have := hg.1
    simp only [runToEnd, Nat.add_zero]; omega
  | succ n ih =>
    simp only [runToEnd]
    have st := stepGen_ok S hI hc hg
    have r := ih st.1 st.2.1
    refine ⟨r.1, r.2.1, r.2.2.1.trans st.2.2.1, ?_⟩
    rw [r.2.2.2, st.2.2.1, st.2.2.2]
    have := hg.1
    split <;> omega

theorem runHistory_eq (S : Sys) (hI : InputIndependent S) (hist : List Nat) {cells : List (Nat × Nat)}
    (hc : CellsOK S cells) : runHistory S hist cells = hist.map (soloOut S) := by
  induction hist generalizing cells with
  | nil => rfl
  | cons i rest ih =>
    simp only [runHistory, map_cons]
    have hg : GenOK S (freshGen S i) := ⟨Nat.zero_le _, rfl⟩
    have r := runToEnd_ok S hI (S.nsteps i) hc hg
    have hpc : (runToEnd S (S.nsteps i) cells (freshGen S i)).2.pc = S.nsteps i := by
      rw [r.2.2.2]; simp [freshGen]
    have hin : (runToEnd S (S.nsteps i) cells (freshGen S i)).2.input = i := r.2.2.1
    have hloc := r.2.1.2
    rw [hin, hpc] at hloc
    rw [ih r.1, hloc]
    rfl

/-- **history_irrelevant**: in any history of generations run one after another in one process
    (whatever ran before, in whatever state the cells were legitimately left), the k-th output
    equals the output of the same input run first in a fresh process. -/
theorem C11_history_irrelevant (S : Sys) (hI : InputIndependent S) (hist : List Nat) (k i : Nat)
    (hk : hist[k]? = some i) :
    (runHistory S hist [])[k]? = (runHistory S [i] [])[0]? := by
  rw [runHistory_eq S hI hist (cellsOK_nil S), runHistory_eq S hI [i] (cellsOK_nil S)]
  simp [hk]

/-- the same builder run repeatedly: all outputs are equal -/
theorem C11_repeat_irrelevant (S : Sys) (hI : InputIndependent S) (i n : Nat) :
    runHistory S (replicate n i) [] = replicate n (soloOut S i) := by
  rw [runHistory_eq S hI _ (cellsOK_nil S)]; simp

/-- negation witness for the hypothesis: if a cell's initial value depends on the input of the
    generation that happens to initialise it, the second generation of a history sees the first
    one's input (history matters) -/
theorem C11_history_matters_if_init_depends_on_input :
    ¬ InputIndependent leakySys ∧
    (runHistory leakySys [1, 2] [])[1]? ≠ (runHistory leakySys [2] [])[0]? := by
  refine ⟨fun h => ?_, by decide⟩
  have := h 1 2 0
  simp [leakySys] at this

/-- the hypothesis is satisfiable on a non-trivial system (`sampleSys`: two cells, 2–3 steps) -/
example : InputIndependent sampleSys := fun _ _ _ => rfl
example : (runSched sampleSys [1, 0, 1, 0, 1, 0] { cells := [], gens := [3, 4].map (freshGen sampleSys) }).gens.map
    (fun g => sampleSys.out g.loc) = [soloOut sampleSys 3, soloOut sampleSys 4] := by decide

/-! ## the inventory is classified -/

/-- **all_sites_classified**: every process-wide-state site and every hash-iteration site the
    translator found in /repo's working tree has a row in the committed classification.  A new
    `static`, `thread_local!`, `OnceLock`, environment read or a new iteration over a hash
    container (or an edit of an existing one's statement) breaks this theorem. -/
theorem C11_all_sites_classified :
    (Generated.hashIterSitesHashes.all (fun h => (iterClassOf h).isSome) &&
     Generated.stateSitesHashes.all (fun h => (stateClassOf h).isSome)) = true := by decide

/-- the only sites whose invariance needs the `AtMostOne` hypothesis -/
theorem C11_findUnique_sites :
    (iterClasses.filter (fun r => r.2.1 == ConsumerClass.findUnique)).map (·.1)
      = [931047457799873773, 353906315918619630] := by decide

/-- the excluded region of `C11_interleaving_irrelevant`: the only sites that are shared MUTABLE
    state (a scratch file at a generation-independent path) are the four of the
    `--clang-macro-fallback` translation unit -/
theorem C11_shared_scratch_sites :
    (stateClasses.filter (fun r => r.2.1 == StateClass.sharedScratchFile)).map (·.1)
      = [865492049953808878, 1029920217957333306, 707024884831842029, 937651750378931466] := by decide

/-- run one after the other, generations sharing the scratch file still read their own content -/
theorem C11_scratch_file_sequential_ok (hist : List Nat) (file : Option Nat) :
    fRunHistory hist file = hist.map (fun i => some (some i)) := by
  induction hist generalizing file with
  | nil => rfl
  | cons i rest ih =>
    simp only [fRunHistory, map_cons]
    rw [ih]
    rfl

/-- negation on the excluded region: interleaved, a generation reads the OTHER generation's file
    (first schedule) or finds it deleted (second schedule: the other one finished in between) -/
theorem C11_scratch_file_interleaving_witness :
    ((fRunSched [0, 1, 0] (none, [fFresh 7, fFresh 9])).2.map (·.seen))[0]? = some (some (some 9)) ∧
    ((fRunSched [0, 1, 1, 1, 0] (none, [fFresh 7, fFresh 9])).2.map (·.seen))[0]? = some (some none) := by
  decide

/-- no environment-MUTATING call (`set_var`, `remove_var`, `set_current_dir`) exists: every
    `env` site is classified as a read (`envInput`), a hook or the build script -/
theorem C11_state_classes_closed :
    stateClasses.all (fun r => r.2.1 == .immutableConst || r.2.1 == .writeOnceConst ||
      r.2.1 == .writeOnceEnv || r.2.1 == .envInput || r.2.1 == .perGenerationCell ||
      r.2.1 == .hookOnly || r.2.1 == .buildScript || r.2.1 == .declaredOutput ||
      r.2.1 == .sharedScratchFile || r.2.1 == .scratchNameCounter) = true := by decide

end BindgenModel.Determinism
