import BindgenModel.Lemmas.MacroKind
import BindgenModel.Lemmas.CExpr
import BindgenModel.Lemmas.ConstEmit
import BindgenModel.Model.ConstEmit
import BindgenModel.Model.CRegions
/-!
# C05 — constants carry the C compiler's value in a type that can hold it

Part 1: the integer kind chosen for a macro value (`default_macro_constant_type`).
The ladder is the table `Generated.macroKindRows`, regenerated from bindgen/ir/var.rs on every
run; the theorems quantify over **every** `Int` in the i64 range and both option values.
-/
namespace BindgenModel.MacroKind
open BindgenModel.Generated

/-! ## generic theorem: any well-formed ladder chooses a kind that holds the value -/

/-- **Generic ladder theorem.**  If a decision list passes the decidable check `wfLadder`
(good at the finitely many candidate points), then for every option value and EVERY i64 value it
returns a kind whose range contains the value, signed whenever the value is negative. -/
theorem C05_ladder_good_of_wf (rows : List MRow) (hwf : wfLadder rows = true)
    (o : MOpts) (v : Int) (h1 : i64Min ≤ v) (h2 : v ≤ i64Max) :
    ∃ k, evalRows o v rows = some k ∧ k.lo ≤ v ∧ v ≤ k.hi ∧ (v < 0 → k.isSigned = true) := by
  obtain ⟨a, z, ha, hz, hamin, hzmax, hac, hzc, hk⟩ := bracket (rowsCuts rows) v h1 h2
  have hea : evalRows o a rows = evalRows o v rows :=
    evalRows_congr o rows a v fun k hkm => (hk k hkm).1
  have hez : evalRows o z rows = evalRows o v rows :=
    evalRows_congr o rows z v fun k hkm => (hk k hkm).2
  unfold wfLadder at hwf
  rw [List.all_eq_true] at hwf
  have hwo := hwf o (mem_allOpts o)
  rw [List.all_eq_true] at hwo
  have ga := hwo a hac
  have gz := hwo z hzc
  have hza : i64Min ≤ z := by omega
  have haz : a ≤ i64Max := by omega
  simp only [hamin, haz, hza, hzmax, decide_true, Bool.and_self, Bool.not_true, Bool.false_or] at ga gz
  unfold goodAt at ga gz
  rw [hea] at ga
  rw [hez] at gz
  cases hev : evalRows o v rows with
  | none => rw [hev] at ga; simp at ga
  | some k =>
    rw [hev] at ga gz
    simp only [MKind.fits, Bool.and_eq_true, decide_eq_true_eq, Bool.or_eq_true, Bool.not_eq_true',
      decide_eq_false_iff_not] at ga gz
    refine ⟨k, rfl, by omega, by omega, ?_⟩
    intro hv
    rcases ga.2 with h | h
    · omega
    · exact h

/-! ## obligations about the generated table (break when the source changes a threshold) -/

/-- the table extracted from the current source passes the candidate-point check -/
theorem C05_macroKindRows_wf : wfLadder macroKindRows = true := by decide

/-- the table ends with an unconditional row (the `if` chain is total) -/
theorem C05_macroKindRows_total : (macroKindRows.getLast?).map (·.cond) = some [] := by decide

/-- **C05 (kind holds value).**  For every i64 value and both options the kind chosen by
`default_macro_constant_type` contains the value and is signed when the value is negative. -/
theorem C05_kind_holds_value (o : MOpts) (v : Int) (h1 : i64Min ≤ v) (h2 : v ≤ i64Max) :
    ∃ k, macroKind o v = some k ∧ k.lo ≤ v ∧ v ≤ k.hi ∧ (v < 0 → k.isSigned = true) :=
  C05_ladder_good_of_wf macroKindRows C05_macroKindRows_wf o v h1 h2

/-- the generated table is the function the source spells out today (all `Int`, both options) -/
theorem C05_macroKind_eq_hand (o : MOpts) (v : Int) : macroKind o v = some (macroKindHand o v) := by
  rcases o with ⟨s, f⟩
  simp only [macroKind, macroKindRows, evalRows, condHolds, clauseHolds, atomHolds, macroKindHand,
    List.all_cons, List.all_nil, List.any_cons, List.any_nil, Bool.or_false, Bool.and_true]
  cases s <;> cases f <;> simp <;> (repeat' split) <;> first | rfl | omega

/-- direct proof over `Int` for the hand transcription (no table, no candidate points) -/
theorem C05_kind_holds_value_hand (o : MOpts) (v : Int) (h1 : i64Min ≤ v) (h2 : v ≤ i64Max) :
    (macroKindHand o v).lo ≤ v ∧ v ≤ (macroKindHand o v).hi ∧
      (v < 0 → (macroKindHand o v).isSigned = true) := by
  unfold i64Min at h1; unfold i64Max at h2
  unfold macroKindHand
  (repeat' split) <;> simp only [MKind.lo, MKind.hi, MKind.isSigned] <;>
    refine ⟨by omega, by omega, fun _ => ?_⟩ <;> first | trivial | rfl | omega

/-- with `--fit-macro-constant-types` the kind is the narrowest of its signedness -/
theorem C05_fit_is_narrowest (s : Bool) (v : Int) (k' : MKind)
    (hk' : k'.isSigned = (macroKindHand ⟨s, true⟩ v).isSigned) (hfit : k'.lo ≤ v ∧ v ≤ k'.hi) :
    (macroKindHand ⟨s, true⟩ v).bits ≤ k'.bits := by
  revert hk' hfit
  unfold macroKindHand
  cases k' <;> (repeat' split) <;> simp [MKind.lo, MKind.hi, MKind.isSigned, MKind.bits] <;>
    intros <;> first | trivial | omega | (simp_all; done) | (simp_all; omega)

/-- non-vacuity: the hypotheses hold at both ends of the range -/
example : ∃ k, macroKind ⟨false, true⟩ (-9223372036854775808) = some k ∧ k = .I64 := ⟨_, by decide, rfl⟩
example : ∃ k, macroKind ⟨false, true⟩ 9223372036854775807 = some k ∧ k = .U64 := ⟨_, by decide, rfl⟩
example : macroKind ⟨true, true⟩ 200 = some .I16 := by decide

end BindgenModel.MacroKind

/-!
Part 2: the cexpr evaluator versus C.

`signedFrag cenv e`: `e` is built from integer literals, references, parentheses, unary `+ - ~`
and the binary operators cexpr knows, and EVERY literal and intermediate result has, in C, a
signed type `int` / `long` / `long long` (with a value of that type — no undefined behaviour
anywhere).  On that fragment cexpr computes C's value (`C05_cexpr_eq_c_partial`); outside it
the witness lemmas below show the two differ.
-/
namespace BindgenModel.CExpr

def slB (t : CTy) : Bool := t = .int || t = .long || t = .llong

/-- C gives this node a value of signed type int/long/long long -/
def nodeOk (cenv : CEnv) (e : Expr) : Bool :=
  match cEval cenv e with
  | .val (.int t v) => slB t && t.holds v
  | _ => false

def signedFrag (cenv : CEnv) : Expr → Bool
  | .int d n s => nodeOk cenv (.int d n s)
  | .ident n => nodeOk cenv (.ident n)
  | .paren e => signedFrag cenv e
  | .un op e => (op != .lnot) && signedFrag cenv e && nodeOk cenv (.un op e)
  | .bin op a b => isCexprBinOp op && signedFrag cenv a && signedFrag cenv b && nodeOk cenv (.bin op a b)
  | _ => false

/-- `parsed_macros` holds, for every integer macro C knows, the same value -/
def EnvAgree (cenv : CEnv) (env : Env) : Prop :=
  ∀ n t v, clookup cenv n = some (.int t v) → lookup env n = some (.int v)

theorem slB_SL {t : CTy} (h : slB t = true) : SL t := by
  simp [slB] at h
  rcases h with (h | h) | h
  · exact Or.inl h
  · exact Or.inr (Or.inl h)
  · exact Or.inr (Or.inr h)

theorem nodeOk_spec {cenv : CEnv} {e : Expr} (h : nodeOk cenv e = true) :
    ∃ t v, cEval cenv e = .val (.int t v) ∧ SL t ∧ t.holds v = true := by
  unfold nodeOk at h
  split at h
  · rename_i t v heq
    simp only [Bool.and_eq_true] at h
    exact ⟨t, v, heq, slB_SL h.1, h.2⟩
  · simp at h

theorem cEval_paren_int {cenv : CEnv} {e : Expr} {t : CTy} {v : Int}
    (h : cEval cenv e = .val (.int t v)) : cEval cenv (.paren e) = .val (.int t v) := by
  simp only [cEval, h]

theorem signedFrag_node (cenv : CEnv) (e : Expr) (h : signedFrag cenv e = true) :
    ∃ t v, cEval cenv e = .val (.int t v) ∧ SL t ∧ t.holds v = true := by
  induction e with
  | int d n s => exact nodeOk_spec h
  | ident n => exact nodeOk_spec h
  | paren e ih =>
    obtain ⟨t, v, h1, h2, h3⟩ := ih h
    exact ⟨t, v, cEval_paren_int h1, h2, h3⟩
  | un op e _ =>
    simp only [signedFrag, Bool.and_eq_true] at h
    exact nodeOk_spec h.2
  | bin op a b _ _ =>
    simp only [signedFrag, Bool.and_eq_true] at h
    exact nodeOk_spec h.2
  | _ => simp [signedFrag] at h

theorem litType_holds {dec : Bool} {n : Nat} {suf : IntSuffix} {t : CTy}
    (h : litType dec n suf = some t) : t.holds n = true := by
  unfold litType at h
  exact List.find?_some (p := fun t => CTy.holds t n) h

/-- **C05 (cexpr = C, partial).**  On the signed, UB-free fragment the value cexpr computes (and
bindgen emits) is the value the C compiler computes. -/
theorem C05_cexpr_eq_c_partial (cenv : CEnv) (env : Env) (hagree : EnvAgree cenv env)
    (e : Expr) (hfrag : signedFrag cenv e = true) (t : CTy) (v : Int)
    (hc : cEval cenv e = .val (.int t v)) : cexprNum env e = .ok (.int v) := by
  induction e generalizing t v with
  | int d n s =>
    obtain ⟨t', v', h1, h2, h3⟩ := nodeOk_spec hfrag
    rw [hc] at h1
    simp only [CRes.val.injEq, CVal.int.injEq] at h1
    obtain ⟨ht, hv⟩ := h1
    subst ht; subst hv
    simp only [cEval] at hc
    split at hc
    · rename_i t'' hl
      simp only [CRes.val.injEq, CVal.int.injEq] at hc
      obtain ⟨ht, hv⟩ := hc
      subst ht; subst hv
      have hn : (n : Int) ≤ 9223372036854775807 := by
        rcases h2 with rfl | rfl | rfl <;> simp only [holds_int, holds_long, holds_llong] at h3 <;> omega
      have hlt : n < 18446744073709551616 := by omega
      simp only [cexprNum, hlt, if_true, Outcome.ok.injEq, Res.int.injEq]
      apply wrap64_eq <;> omega
    · simp at hc
  | ident n =>
    simp only [cEval] at hc
    split at hc
    · rename_i cv hl
      simp only [CRes.val.injEq] at hc
      subst hc
      simp only [cexprNum, hagree n t v hl]
    · simp at hc
  | paren e ih =>
    simp only [signedFrag] at hfrag
    obtain ⟨t', v', h1, _, _⟩ := signedFrag_node cenv e hfrag
    have hp := cEval_paren_int (cenv := cenv) h1
    rw [hp] at hc
    simp only [CRes.val.injEq, CVal.int.injEq] at hc
    obtain ⟨ht, hv⟩ := hc
    subst ht; subst hv
    simp only [cexprNum]
    exact ih hfrag t' v' h1
  | un op e ih =>
    simp only [signedFrag, Bool.and_eq_true, bne_iff_ne, ne_eq] at hfrag
    obtain ⟨⟨hop, hfe⟩, _⟩ := hfrag
    obtain ⟨te, ve, he, hsl, hh⟩ := signedFrag_node cenv e hfe
    have ihe := ih hfe te ve he
    simp only [cEval, he] at hc
    cases op with
    | lnot => exact absurd rfl hop
    | plus =>
      simp only [CRes.val.injEq, CVal.int.injEq] at hc
      obtain ⟨_, hv⟩ := hc
      subst hv
      simp only [cexprNum, ihe]
    | neg =>
      simp only [cexprNum, ihe]
      rcases hsl with hx | hx | hx <;> subst hx <;>
        simp only [holds_int, holds_long, holds_llong] at hh <;>
        simp (disch := omega) [promote, CTy.rank, CTy.signed, CTy.isFloat, holds_int, holds_long, holds_llong] at hc <;>
        (split at hc
         · simp only [CRes.val.injEq, CVal.int.injEq] at hc
           obtain ⟨_, hv⟩ := hc
           subst hv
           simp only [Outcome.ok.injEq, Res.int.injEq]
           apply wrap64_eq <;> omega
         · simp at hc)
    | bnot =>
      simp only [cexprNum, ihe]
      rcases hsl with hx | hx | hx <;> subst hx <;>
        simp only [holds_int, holds_long, holds_llong] at hh <;>
        simp (disch := omega) [promote, CTy.rank, CTy.signed, CTy.isFloat, CTy.bits, convInt, bmod32_eq, bmod64_eq] at hc <;>
        (obtain ⟨_, hv⟩ := hc; subst hv; rfl)
  | bin op a b iha ihb =>
    simp only [signedFrag, Bool.and_eq_true] at hfrag
    obtain ⟨⟨⟨hop, hfa⟩, hfb⟩, _⟩ := hfrag
    obtain ⟨ta, va, hea, hsla, hha⟩ := signedFrag_node cenv a hfa
    obtain ⟨tb, vb, heb, hslb, hhb⟩ := signedFrag_node cenv b hfb
    have ia := iha hfa ta va hea
    have ib := ihb hfb tb vb heb
    have hcb : cIntBin op ta tb va vb = .val (.int t v) := by
      cases op <;> simp [isCexprBinOp] at hop <;> simpa only [cEval, hea, heb, cBin] using hc
    simp only [cexprNum, hop, if_true, ia, ib, cexprBin]
    exact intBin_agree op ta tb va vb t v hop hsla hslb hha hhb hcb
  | _ => simp [signedFrag] at hfrag

/-- non-vacuity: `(-5 + (7 << 3)) / 2` lies in the fragment and evaluates to 25 on both sides -/
example :
    let e := Expr.bin .div (.paren (.bin .add (.un .neg (.int true 5 .none)) (.paren (.bin .shl (.int true 7 .none) (.int true 3 .none))))) (.int true 2 .l)
    signedFrag [] e = true ∧ cEval [] e = .val (.int .long 25) ∧ cexprNum [] e = .ok (.int 25) := by
  decide

end BindgenModel.CExpr

/-! Part 3: emission — literals, enums — and the witnesses of the known-finding regions. -/
namespace BindgenModel.ConstEmit
open BindgenModel.CExpr BindgenModel.Generated BindgenModel.MacroKind

/-- **print / parse round trip** of the integer literals `int_expr` / `uint_expr` print -/
theorem C05_print_parse_roundtrip (v : Int) :
    readInt (printInt v) = some v ∧ (0 ≤ v → readInt (printNat v.toNat) = some v) := by
  refine ⟨readInt_printInt v, fun h => ?_⟩
  rw [readInt_printNat]
  exact congrArg some (Int.toNat_of_nonneg h)

/-- the literal printed for an integer macro value under the chosen kind reads back as that value -/
theorem C05_macro_literal_reads_back (o : MOpts) (v : Int) (h1 : i64Min ≤ v) (h2 : v ≤ i64Max) :
    ∃ k, macroKind o v = some k ∧ readInt (intLiteral k.isSigned v) = some v ∧ k.lo ≤ v ∧ v ≤ k.hi := by
  obtain ⟨k, hk, hlo, hhi, hsg⟩ := C05_kind_holds_value o v h1 h2
  refine ⟨k, hk, ?_, hlo, hhi⟩
  unfold intLiteral
  cases hs : k.isSigned with
  | true => simp only [if_true]; exact readInt_printInt v
  | false =>
    have hv : 0 ≤ v := by
      by_cases hneg : v < 0
      · have := hsg hneg; rw [hs] at this; exact absurd this (by simp)
      · omega
    unfold i64Max at h2
    have hm : v % 18446744073709551616 = v := Int.emod_eq_of_lt hv (by omega)
    simp only [Bool.false_eq_true, if_false, hm, readInt_printNat]
    exact congrArg some (Int.toNat_of_nonneg hv)

/-- **C05 (macro constants, partial).**  For a macro body in the signed UB-free fragment:
bindgen parses it, and the constant it emits has a kind whose range contains C's value, a
literal that reads back as C's value, and is signed when the value is negative. -/
theorem C05_macro_emitted_eq_c_partial (o : MOpts) (cenv : CEnv) (env : Env) (hagree : EnvAgree cenv env)
    (e : Expr) (hfrag : signedFrag cenv e = true) (t : CTy) (v : Int)
    (hc : cEval cenv e = .val (.int t v)) :
    cexprTop env e = .ok (.int v) ∧
    ∃ k, macroKind o v = some k ∧ readInt (intLiteral k.isSigned v) = some v ∧ k.lo ≤ v ∧ v ≤ k.hi := by
  have hnum := C05_cexpr_eq_c_partial cenv env hagree e hfrag t v hc
  obtain ⟨t', v', h1, hsl, hh⟩ := signedFrag_node cenv e hfrag
  rw [hc] at h1
  simp only [CRes.val.injEq, CVal.int.injEq] at h1
  obtain ⟨ht, hv⟩ := h1
  subst ht; subst hv
  have hr : i64Min ≤ v ∧ v ≤ i64Max := by
    unfold i64Min i64Max
    rcases hsl with hx | hx | hx <;> subst hx <;> simp only [holds_int, holds_long, holds_llong] at hh <;> omega
  refine ⟨?_, C05_macro_literal_reads_back o v hr.1 hr.2⟩
  cases e <;> simp only [cexprTop, hnum]

/-- **C05 (enum values).**  Under every style the items `Enum::codegen` emits read back (aliases
resolved) as exactly the declared enumerators with their C values — including duplicate,
negative and 64-bit values — for every integer underlying type. -/
theorem C05_enum_value_preserved (style : EStyle) (t : CTy) (hint : t.isFloat = false)
    (vs : List (String × Int)) (hfit : ∀ p ∈ vs, t.holds p.2 = true) (hnd : (vs.map (·.1)).Nodup) :
    readItems [] (emitEnum style t vs) = some vs := by
  have := readItems_emitVariants style.isRust t hint vs [] [] hfit (by simpa using hnd)
    (by intro ev nm h; simp [seenLookup] at h)
  simpa [emitEnum] using this

/-- the name an emitted item defines -/
def EItem.defines : EItem → String
  | .lit n _ => n
  | .aliasOf n _ => n

theorem emitVariants_names (isRust : Bool) (t : CTy) (vs : List (String × Int)) (seen : List (EVal × String)) :
    (emitVariants isRust t vs seen).map EItem.defines = vs.map (·.1) := by
  induction vs generalizing seen with
  | nil => rfl
  | cons p vs ih =>
    obtain ⟨n, v⟩ := p
    simp only [emitVariants]
    split
    · cases isRust <;> simp [EItem.defines, ih]
    · simp [EItem.defines, ih]

/-- **C05 (enum, one item per enumerator).**  Under every style exactly one item is emitted per
declared enumerator, under its own name, in declaration order — duplicates of a value are kept (as
an alias or a second constant), never merged away or reordered. -/
theorem C05_enum_names_in_order (style : EStyle) (t : CTy) (vs : List (String × Int)) :
    (emitEnum style t vs).map EItem.defines = vs.map (·.1) ∧ (emitEnum style t vs).length = vs.length := by
  have h := emitVariants_names style.isRust t vs []
  refine ⟨h, ?_⟩
  have := congrArg List.length h
  simpa [emitEnum] using this

/-- an alias is only emitted in the Rust-enum style, and only for a value seen before -/
theorem C05_alias_only_rust_dup (isRust : Bool) (t : CTy) (vs : List (String × Int)) (seen : List (EVal × String))
    (n tgt : String) (h : EItem.aliasOf n tgt ∈ emitVariants isRust t vs seen) : isRust = true := by
  induction vs generalizing seen with
  | nil => simp [emitVariants] at h
  | cons p vs ih =>
    obtain ⟨m, v⟩ := p
    simp only [emitVariants] at h
    split at h
    · cases isRust
      · simp only [Bool.false_eq_true, ite_false, List.mem_cons] at h
        rcases h with h | h
        · cases h
        · exact ih _ h
      · rfl
    · simp only [List.mem_cons] at h
      rcases h with h | h
      · cases h
      · exact ih _ h

/-- **C05 (enum repr).**  The translated repr (`--translate-enum-integer-types`, Rust-enum
style) has the width and signedness of the underlying C type; the untranslated repr is the C
type itself.  Table obligation on `Generated.enumReprRows`. -/
theorem C05_enum_repr_width (translate : Bool) (style : EStyle) (t : CTy) (hint : t.isFloat = false) :
    (enumRepr translate style t).bits = t.bits ∧ (enumRepr translate style t).signed = t.signed := by
  cases t <;> simp [CTy.isFloat] at hint <;> cases translate <;> cases style <;> decide

/-- every (signed, size) row of the generated ladder has exactly that width and signedness -/
theorem C05_enumReprRows_wf :
    enumReprRows.all (fun r => r.2.2.bits == 8 * r.2.1 && r.2.2.isSigned == r.1) = true := by decide

/-! ### witnesses: where bindgen emits a value that is not C's -/

/-- `#define BIG 0xFFFFFFFFFFFFFFFF` → cexpr −1 → `i32`; C: 18446744073709551615 (unsigned long) -/
theorem C05_cexpr_ne_c_unsigned_big :
    cexprTop [] (.int false 18446744073709551615 .none) = .ok (.int (-1)) ∧
    macroKind ⟨false, false⟩ (-1) = some .I32 ∧
    cEval [] (.int false 18446744073709551615 .none) = .val (.int .ulong 18446744073709551615) ∧
    hasUnsigned [] (.int false 18446744073709551615 .none) = true := by decide

/-- `#define M1U (-1u)` → −1; C: 4294967295 (unsigned int) -/
theorem C05_cexpr_ne_c_neg_unsigned :
    cexprTop [] (.paren (.un .neg (.int true 1 .u))) = .ok (.int (-1)) ∧
    cEval [] (.paren (.un .neg (.int true 1 .u))) = .val (.int .uint 4294967295) ∧
    hasUnsigned [] (.paren (.un .neg (.int true 1 .u))) = true := by decide

/-- `#define NOTU (~0u)` → −1; C: 4294967295 -/
theorem C05_cexpr_ne_c_not_unsigned :
    cexprTop [] (.paren (.un .bnot (.int true 0 .u))) = .ok (.int (-1)) ∧
    cEval [] (.paren (.un .bnot (.int true 0 .u))) = .val (.int .uint 4294967295) ∧
    hasUnsigned [] (.paren (.un .bnot (.int true 0 .u))) = true := by decide

/-- `#define CH '\xff'` → `u8 = 255`; C: −1 -/
theorem C05_cexpr_ne_c_char_high :
    cexprTop [] (.chr .none 255) = .ok (.chr 255) ∧
    emitMacro ⟨false, false⟩ (.chr 255) = some (.chr 255) ∧
    cEval [] (.chr .none 255) = .val (.int .int (-1)) ∧ charHighLocal (.chr .none 255) = true := by decide

/-- the f / l suffix is ignored: cexpr yields the f64 nearest to the digits, C the f32 -/
theorem C05_float_suffix_ignored (b64 b32 : Nat) :
    cexprTop [] (.flt .f b64 b32 false) = .ok (.flt b64) ∧
    cEval [] (.flt .f b64 b32 false) = .val (.flt .float b32) ∧
    hasFloatSuffix (.flt .f b64 b32 false) = true := by
  simp [cexprTop, cexprNum, cEval, hasFloatSuffix]

/-- a wide string is emitted as the narrow bytes; C has a `wchar_t` array -/
theorem C05_wide_string_narrowed (bytes : List Nat) :
    cexprTop [] (.str .L bytes) = .ok (.str bytes) ∧
    emitMacro ⟨false, false⟩ (.str bytes) = some (.bytes (bytes ++ [0])) ∧
    cEval [] (.str .L bytes) = .val (.str .L bytes true) ∧ hasWideString (.str .L bytes) = true := by
  simp [cexprTop, cexprNum, cexprStr, cEval, emitMacro, emitMacroC, hasWideString]

/-- with `--clang-macro-fallback`, `((unsigned long long)-1)` is carried as i64 −1 → `i32` -/
theorem C05_fallback_unsigned_wraps :
    let body := Expr.paren (.cast .ullong (.un .neg (.int true 1 .none)))
    cEval [] body = .val (.int .ullong 18446744073709551615) ∧
    cexprTop [] body = .fail ∧
    wrap64 18446744073709551615 = -1 ∧
    ∀ name, (processDef (fun _ => some (-1)) [] name body).emitted = some (.int (-1)) := by
  refine ⟨by decide, by decide, by decide, fun name => ?_⟩
  simp [processDef, cexprTop, cexprNum, cexprStr, lookup]

/-- `enum E : bool` with `--translate-enum-integer-types` under a non-Rust style: repr `u8`,
literal `true` -/
theorem C05_enum_bool_translated_mismatch :
    enumRepr true .newType .bool = .rust .U8 ∧
    variantLiteral false (extractVal .bool 1) = .bool true := by decide

/-- `wchar_t` (a signed int for the C compiler) is read as unsigned: the enumerator −1 becomes
4294967295, and `const wchar_t w = -1` prints the u64 bits into a `u32` -/
theorem C05_wchar_unsigned_mismatch :
    wcharExtract (-1) = .unsigned 4294967295 ∧
    readInt (intLiteral false (wrap64 (-1))) = some 18446744073709551615 ∧
    ¬ ((18446744073709551615 : Int) ≤ MKind.hi .U32) ∧ wcharRegion (-1) = true := by decide

/-- `const long double` gets the integer type `u128` with a floating literal -/
theorem C05_long_double_emitted_as_u128 : rustIntName .ldouble = "u128" := by decide

end BindgenModel.ConstEmit

namespace BindgenModel.CExpr
/-- redefinition: `#define X 1`, `#define Y (X+10)`, `#define X 2` — the first definition of `X`
is emitted, the second is not, later references see 2; C at the end of the header sees
X = 2 and Y = 12 -/
theorem C05_redefinition_first_emitted_latest_kept (x y : String) (hxy : x ≠ y) :
    let defs := [(x, Expr.int true 1 .none),
                 (y, Expr.paren (.bin .add (.ident x) (.int true 10 .none))),
                 (x, Expr.int true 2 .none)]
    (processDefs (fun _ => none) [] defs).map (fun p => p.2.emitted) = [some (.int 1), some (.int 11), none] ∧
    (processDefs (fun _ => none) [] defs).getLast?.map (fun p => lookup p.2.env x) = some (some (.int 2)) := by
  have hyx : ¬ y = x := fun h => hxy h.symm
  simp [processDefs, processDef, cexprTop, cexprNum, lookup, cexprBin, cexprIntBin, isCexprBinOp, hxy, hyx, wrap64]

/-- open reference: `#define A 1+2`, `#define B (A*3)` — cexpr substitutes the VALUE of `A`
(B = 9) where C substitutes its tokens (`1+2*3` = 7, judged by clang in the correspondence run);
the definition lies in region `p` -/
theorem C05_cexpr_open_reference :
    let defs := [("A", Expr.bin .add (.int true 1 .none) (.int true 2 .none)),
                 ("B", Expr.paren (.bin .mul (.ident "A") (.int true 3 .none)))]
    (processDefs (fun _ => none) [] defs).map (fun p => p.2.emitted) = [some (.int 3), some (.int 9)] ∧
    (defFlags [] defs (nameFlags [] defs) "B" (Expr.paren (.bin .mul (.ident "A") (.int true 3 .none)))).p = true ∧
    clookup (cFinalEnv defs) "B" = none := by
  decide

theorem C05_cexpr_ne_c_redefinition :
    let defs := [("X", Expr.int true 1 .none),
                 ("Y", Expr.paren (.bin .add (.ident "X") (.int true 10 .none))),
                 ("X", Expr.int true 2 .none)]
    clookup (cFinalEnv defs) "X" = some (.int .int 2) ∧ clookup (cFinalEnv defs) "Y" = some (.int .int 12) ∧
    (processDefs (fun _ => none) [] defs).map (fun p => p.2.emitted) = [some (.int 1), some (.int 11), none] := by
  decide
end BindgenModel.CExpr

/-! Part 4: the FULL statement for macro constants, and why only its partial form is provable. -/
namespace BindgenModel.CExpr

/-- the emitted value is the value C computes -/
def valueAgrees : Res → CVal → Bool
  | .int v, .int _ v' => v == v'
  | .chr c, .int _ v' => Int.ofNat c == v'
  | .flt b, .flt .double b' => b == b'
  | .str bs, .str .none bs' _ => bs == bs'
  | .str bs, .str .u8 bs' _ => bs == bs'
  | _, _ => false

/-- **FULL statement (macros), never weakened:** every constant bindgen emits for a macro of a
header carries the value the C compiler computes for that name (at the end of the header);
what it cannot evaluate faithfully is omitted. -/
def C05_statement : Prop :=
  ∀ (defs : List (String × Expr)) (name : String) (st : Step),
    (name, st) ∈ processDefs (fun _ => none) [] defs →
    ∀ r, st.emitted = some r → ∃ cv, clookup (cFinalEnv defs) name = some cv ∧ valueAgrees r cv = true

/-- the full statement is FALSE of the model (and of bindgen: the witness is replayed against
the real code on every run — known finding `macro_unsigned_wrap`) -/
theorem C05_statement_fails : ¬ C05_statement := by
  intro h
  have h1 := h [("BIG", .int false 18446744073709551615 .none)] "BIG"
    (processDef (fun _ => none) [] "BIG" (.int false 18446744073709551615 .none)) (by decide)
    (.int (-1)) (by decide)
  revert h1
  decide

end BindgenModel.CExpr
