import BindgenModel.Lemmas.MacroKind
/-!
# C05 — constants carry the C compiler's value in a type that can hold it

Part 1: the integer kind chosen for a macro value (`default_macro_constant_type`).
The ladder is the table `Generated.macroKindRows`, regenerated from bindgen/ir/var.rs on every
run; the theorems quantify over **every** `Int` in the i64 range and both option values.
-/
namespace BindgenModel.MacroKind
open BindgenModel.Generated

/-! ## generic theorem: any well-formed ladder chooses a kind that holds the value -/

/-- **Generic ladder theorem.**  If a decision list passes the decidable check `wfLadder`
(good at the finitely many candidate points), then for every option value and EVERY i64 value it
returns a kind whose range contains the value, signed whenever the value is negative. -/
theorem C05_ladder_good_of_wf (rows : List MRow) (hwf : wfLadder rows = true)
    (o : MOpts) (v : Int) (h1 : i64Min ≤ v) (h2 : v ≤ i64Max) :
    ∃ k, evalRows o v rows = some k ∧ k.lo ≤ v ∧ v ≤ k.hi ∧ (v < 0 → k.isSigned = true) := by
  obtain ⟨a, z, ha, hz, hamin, hzmax, hac, hzc, hk⟩ := bracket (rowsCuts rows) v h1 h2
  have hea : evalRows o a rows = evalRows o v rows :=
    evalRows_congr o rows a v fun k hkm => (hk k hkm).1
  have hez : evalRows o z rows = evalRows o v rows :=
    evalRows_congr o rows z v fun k hkm => (hk k hkm).2
  unfold wfLadder at hwf
  rw [List.all_eq_true] at hwf
  have hwo := hwf o (mem_allOpts o)
  rw [List.all_eq_true] at hwo
  have ga := hwo a hac
  have gz := hwo z hzc
  have hza : i64Min ≤ z := by omega
  have haz : a ≤ i64Max := by omega
  simp only [hamin, haz, hza, hzmax, decide_true, Bool.and_self, Bool.not_true, Bool.false_or] at ga gz
  unfold goodAt at ga gz
  rw [hea] at ga
  rw [hez] at gz
  cases hev : evalRows o v rows with
  | none => rw [hev] at ga; simp at ga
  | some k =>
    rw [hev] at ga gz
    simp only [MKind.fits, Bool.and_eq_true, decide_eq_true_eq, Bool.or_eq_true, Bool.not_eq_true',
      decide_eq_false_iff_not] at ga gz
    refine ⟨k, rfl, by omega, by omega, ?_⟩
    intro hv
    rcases ga.2 with h | h
    · omega
    · exact h

/-! ## obligations about the generated table (break when the source changes a threshold) -/

/-- the table extracted from the current source passes the candidate-point check -/
theorem C05_macroKindRows_wf : wfLadder macroKindRows = true := by decide

/-- the table ends with an unconditional row (the `if` chain is total) -/
theorem C05_macroKindRows_total : (macroKindRows.getLast?).map (·.cond) = some [] := by decide

/-- **C05 (kind holds value).**  For every i64 value and both options the kind chosen by
`default_macro_constant_type` contains the value and is signed when the value is negative. -/
theorem C05_kind_holds_value (o : MOpts) (v : Int) (h1 : i64Min ≤ v) (h2 : v ≤ i64Max) :
    ∃ k, macroKind o v = some k ∧ k.lo ≤ v ∧ v ≤ k.hi ∧ (v < 0 → k.isSigned = true) :=
  C05_ladder_good_of_wf macroKindRows C05_macroKindRows_wf o v h1 h2

/-- the generated table is the function the source spells out today (all `Int`, both options) -/
theorem C05_macroKind_eq_hand (o : MOpts) (v : Int) : macroKind o v = some (macroKindHand o v) := by
  rcases o with ⟨s, f⟩
  simp only [macroKind, macroKindRows, evalRows, condHolds, clauseHolds, atomHolds, macroKindHand,
    List.all_cons, List.all_nil, List.any_cons, List.any_nil, Bool.or_false, Bool.and_true]
  cases s <;> cases f <;> simp <;> (repeat' split) <;> first | rfl | omega

/-- direct proof over `Int` for the hand transcription (no table, no candidate points) -/
theorem C05_kind_holds_value_hand (o : MOpts) (v : Int) (h1 : i64Min ≤ v) (h2 : v ≤ i64Max) :
    (macroKindHand o v).lo ≤ v ∧ v ≤ (macroKindHand o v).hi ∧
      (v < 0 → (macroKindHand o v).isSigned = true) := by
  unfold i64Min at h1; unfold i64Max at h2
  unfold macroKindHand
  (repeat' split) <;> simp only [MKind.lo, MKind.hi, MKind.isSigned] <;>
    refine ⟨by omega, by omega, fun _ => ?_⟩ <;> first | trivial | rfl | omega

/-- with `--fit-macro-constant-types` the kind is the narrowest of its signedness -/
theorem C05_fit_is_narrowest (s : Bool) (v : Int) (k' : MKind)
    (hk' : k'.isSigned = (macroKindHand ⟨s, true⟩ v).isSigned) (hfit : k'.lo ≤ v ∧ v ≤ k'.hi) :
    (macroKindHand ⟨s, true⟩ v).bits ≤ k'.bits := by
  revert hk' hfit
  unfold macroKindHand
  cases k' <;> (repeat' split) <;> simp [MKind.lo, MKind.hi, MKind.isSigned, MKind.bits] <;>
    intros <;> first | trivial | omega | (simp_all; done) | (simp_all; omega)

/-- non-vacuity: the hypotheses hold at both ends of the range -/
example : ∃ k, macroKind ⟨false, true⟩ (-9223372036854775808) = some k ∧ k = .I64 := ⟨_, by decide, rfl⟩
example : ∃ k, macroKind ⟨false, true⟩ 9223372036854775807 = some k ∧ k = .U64 := ⟨_, by decide, rfl⟩
example : macroKind ⟨true, true⟩ 200 = some .I16 := by decide

end BindgenModel.MacroKind
