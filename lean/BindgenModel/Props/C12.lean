import BindgenModel.Model.Entry
import BindgenModel.Model.PanicSites
import BindgenModel.Generated.Entry
import BindgenModel.Generated.Sites
/-!
# C12 — generation always ends with bindings or an error value, never a panic  (PARTIAL)

Absence of panics in the ~33 k lines driven by libclang is not a theorem about a model we can
write.  What is proved here are the decision and termination cores of `Model/Entry.lean`:

* `C12_path_triage_total`      — the input-path checks give exactly the documented error for a
                                  directory / no read bit / failed `metadata`, else proceed;
* `C12_clang_error_iff`        — `Err(ClangDiagnostic m)` ⇔ some diagnostic has severity ≥ Error,
                                  and `m` is the concatenation of exactly those messages + '\n';
* `C12_unsupported_edition_iff`
* `C12_from_str_total_partial` — `RustTarget::from_str` panics exactly on `-nightly` strings whose
                                  minor parses to 0 in a build with overflow checks and the
                                  unchecked `minor -= 1` (`C12_from_str_panics_on_1_0_nightly`),
                                  never with `checked_sub` (`C12_from_str_fixed_total`);
* `C12_resolve_terminates`     — `ItemResolver::resolve` returns on every graph, cycles included;
* `C12_latest_edition_exists`  — guard of the `expect` in `RustTarget::latest_edition`;
* `C12_all_panic_sites_classified` — drift detector over the regenerated panic-site inventory.

Everything else (the unmodelled parser / codegen panic sites: `C12_unmodelled_sites_counted`) is
covered only by the exploration in checks/c12.py, never by a theorem.
-/
namespace BindgenModel.Entry
open List

/-! ## path triage -/

/-- exactly one outcome, and which: the order of the checks in the code is
    metadata-failed → `NotExist`; directory → `FolderAsHeader`; no read bit → `InsufficientPermissions`. -/
theorem C12_path_triage_total (mask : Nat) (m : Option Meta) :
    (pathTriage mask m = .notExist ↔ m = some .err) ∧
    (pathTriage mask m = .folderAsHeader ↔ m = some .dir) ∧
    (pathTriage mask m = .insufficientPermissions ↔ ∃ mode, m = some (.file mode) ∧ mode &&& mask = 0) ∧
    (pathTriage mask m = .proceed ↔ m = none ∨ ∃ mode, m = some (.file mode) ∧ mode &&& mask > 0) := by
  cases m with
  | none => simp [pathTriage]
  | some md =>
    cases md with
    | err => simp [pathTriage]
    | dir => simp [pathTriage]
    | file mode =>
      by_cases h : mode &&& mask > 0
      · have h0 : ¬ (mode &&& mask = 0) := by omega
        simp [pathTriage, canRead, h, h0]
      · have h0 : mode &&& mask = 0 := by omega
        simp [pathTriage, canRead, h0]

/-- a file whose only read bit is "other" passes the check although its owner cannot read it
    (then clang fails to open it and the error is `ClangDiagnostic`, not `InsufficientPermissions`) -/
theorem C12_path_triage_other_read_bit :
    pathTriage Generated.Entry.canReadMask (some (.file 0o004)) = .proceed ∧
    pathTriage Generated.Entry.canReadMask (some (.file 0o200)) = .insufficientPermissions := by decide

/-! ## diagnostics scan -/

/-- the error diagnostics, in order -/
def errorsOf (thr : Nat) (ds : List Diag) : List Diag := ds.filter (fun d => d.severity ≥ thr)

/-- the message of `ClangDiagnostic`: every error message followed by a newline -/
def render (es : List Diag) : List Char := es.flatMap (fun d => d.msg ++ ['\n'])

theorem scan_foldl (thr : Nat) (ds : List Diag) (acc : Option (List Char)) :
    ds.foldl (scanStep thr) acc =
      if errorsOf thr ds = [] then acc else some (acc.getD [] ++ render (errorsOf thr ds)) := by
  induction ds generalizing acc with
  | nil => simp [errorsOf]
  | cons d ds ih =>
    simp only [foldl_cons, ih]
    by_cases hd : d.severity ≥ thr
    · have e : errorsOf thr (d :: ds) = d :: errorsOf thr ds := by simp [errorsOf, hd]
      simp only [e, scanStep, hd, ite_true, Option.getD_some]
      by_cases hr : errorsOf thr ds = []
      · simp [hr, render]
      · simp [hr, render, List.append_assoc]
    · have e : errorsOf thr (d :: ds) = errorsOf thr ds := by simp [errorsOf, hd]
      simp only [e, scanStep, hd, ite_false]

/-- **clang_error_iff**: the scan yields `Err(ClangDiagnostic m)` iff some diagnostic has severity
    ≥ the threshold, and then `m` is the concatenation of exactly the error messages. -/
theorem C12_clang_error_iff (thr : Nat) (ds : List Diag) :
    (scanDiags thr ds = none ↔ ∀ d ∈ ds, d.severity < thr) ∧
    (∀ m, scanDiags thr ds = some m → (∃ d ∈ ds, d.severity ≥ thr) ∧ m = render (errorsOf thr ds)) := by
  unfold scanDiags
  rw [scan_foldl]
  by_cases hr : errorsOf thr ds = []
  · simp only [hr, ite_true, true_iff]
    have hall : ∀ d ∈ ds, d.severity < thr := by
      intro d hd
      have := (filter_eq_nil_iff.mp hr) d hd
      simpa using this
    exact ⟨hall, fun m h => by simp at h⟩
  · simp only [hr, ite_false]
    have hex : ∃ d ∈ ds, d.severity ≥ thr := by
      cases he : errorsOf thr ds with
      | nil => exact absurd he hr
      | cons d _ =>
        have hm : d ∈ errorsOf thr ds := by rw [he]; exact mem_cons_self ..
        have := mem_filter.mp hm
        exact ⟨d, this.1, by simpa using this.2⟩
    refine ⟨⟨fun h => by simp at h, fun h => ?_⟩, fun m h => ⟨hex, ?_⟩⟩
    · obtain ⟨d, hd, hs⟩ := hex
      have := h d hd
      omega
    · simp only [Option.getD_none, List.nil_append, Option.some.injEq] at h
      exact h.symm

/-- diagnostics below the threshold (notes, warnings) never influence the outcome: the scan of a
list equals the scan of its error diagnostics alone -/
theorem C12_warnings_irrelevant (thr : Nat) (ds : List Diag) :
    scanDiags thr ds = scanDiags thr (errorsOf thr ds) := by
  unfold scanDiags
  rw [scan_foldl, scan_foldl]
  have : errorsOf thr (errorsOf thr ds) = errorsOf thr ds := by simp [errorsOf]
  rw [this]

/-- **the error carries clang's diagnostics**: every error diagnostic's message, followed by a
newline, occurs in the message of `ClangDiagnostic` -/
theorem C12_error_message_complete (thr : Nat) (ds : List Diag) (m : List Char)
    (h : scanDiags thr ds = some m) (d : Diag) (hd : d ∈ ds) (hs : d.severity ≥ thr) :
    ∃ pre post, m = pre ++ (d.msg ++ ['\n']) ++ post := by
  have hm := ((C12_clang_error_iff thr ds).2 m h).2
  have hmem : d ∈ errorsOf thr ds := mem_filter.mpr ⟨hd, by simpa using hs⟩
  obtain ⟨l₁, l₂, e⟩ := List.append_of_mem hmem
  refine ⟨render l₁, render l₂, ?_⟩
  rw [hm, e]
  simp [render, List.flatMap_append]

/-- a single fatal or error diagnostic anywhere in the list is enough for `Err` -/
theorem C12_one_error_suffices (thr : Nat) (pre post : List Diag) (d : Diag) (hs : d.severity ≥ thr) :
    scanDiags thr (pre ++ d :: post) ≠ none := by
  intro h
  have := ((C12_clang_error_iff thr _).1.1 h) d (by simp)
  omega

/-! ## edition check -/

/-- **unsupported_edition_iff** -/
theorem C12_unsupported_edition_iff (ed : Option Nat) (t : Target) :
    editionCheck ed t = .unsupportedEdition ↔ ∃ e m p, ed = some e ∧ t = .stable m p ∧ m < e := by
  cases ed with
  | none => simp [editionCheck]
  | some e =>
    cases t with
    | nightly => simp [editionCheck, editionAvailable, Target.minor?]
    | stable m p =>
      by_cases h : e ≤ m
      · have : ¬ m < e := by omega
        simp [editionCheck, editionAvailable, Target.minor?, h, this]
      · have : m < e := by omega
        simp [editionCheck, editionAvailable, Target.minor?, h, this]

/-- guard of `.expect("bindgen should always support at least one edition")` in
    `RustTarget::latest_edition`: every target `RustTarget::stable` can build (minor ≥ earliest) and
    nightly has an available edition in the regenerated table. -/
theorem C12_latest_edition_exists (t : Target)
    (ht : ∀ m p, t = .stable m p → Generated.Entry.earliestMinor ≤ m) :
    ∃ r ∈ Generated.Entry.editions, editionAvailable r.2 t = true := by
  have hmin : (Generated.Entry.editions.any (fun r => r.2 ≤ Generated.Entry.earliestMinor)) = true := by decide
  obtain ⟨r, hr, hle⟩ := any_eq_true.mp hmin
  refine ⟨r, hr, ?_⟩
  cases t with
  | nightly => simp [editionAvailable, Target.minor?]
  | stable m p =>
    have := ht m p rfl
    have hle' : r.2 ≤ Generated.Entry.earliestMinor := by simpa using hle
    simp only [editionAvailable, Target.minor?, decide_eq_true_eq]
    omega

/-! ## `RustTarget::from_str` -/

theorem stable_ne_panic (e m p : Nat) : stable e m p ≠ .panic := by
  unfold stable; split <;> simp

/-- **from_str_total_partial**: `from_str` is total — it returns `Ok` or `Err` — except that it
    panics exactly when the source uses the unchecked `minor -= 1`, overflow checks are on, and the
    input is a `…-nightly` version whose minor number parses to 0. -/
theorem C12_from_str_total_partial (checkedSub overflowChecks : Bool) (earliest : Nat) (s : List Char) :
    fromStr checkedSub overflowChecks earliest s = .panic ↔
      (checkedSub = false ∧ overflowChecks = true ∧ (s == nightlyStr) = false ∧
        ∃ patch, parseParts s = .ok (0, patch, true)) := by
  unfold fromStr
  by_cases hn : (s == nightlyStr) = true
  · simp [hn]
  · have hn' : (s == nightlyStr) = false := by simpa using hn
    simp only [hn', Bool.false_eq_true, ite_false]
    cases hp : parseParts s with
    | error e => simp
    | ok parts =>
      obtain ⟨minor, patch, nightly⟩ := parts
      cases nightly with
      | false => simp [finish, stable_ne_panic]
      | true =>
        by_cases hm : minor = 0
        · subst hm
          cases checkedSub <;> cases overflowChecks <;> simp [finish, stable_ne_panic]
        · simp [finish, hm, stable_ne_panic]

/-- the source as it is (unchecked subtraction) in a build with overflow checks: the witness -/
theorem C12_from_str_panics_on_1_0_nightly :
    fromStr false true 51 ['1', '.', '0', '-', 'n', 'i', 'g', 'h', 't', 'l', 'y'] = .panic ∧
    fromStr false true 51 ['1', '.', '+', '0', '.', '7', '-', 'n', 'i', 'g', 'h', 't', 'l', 'y'] = .panic := by
  decide

/-- without overflow checks the same input is ACCEPTED as Rust 1.18446744073709551615 -/
theorem C12_from_str_wraps_in_release :
    fromStr false false 51 ['1', '.', '0', '-', 'n', 'i', 'g', 'h', 't', 'l', 'y']
      = .ok (.stable (2 ^ 64 - 1) (2 ^ 64 - 1)) := by decide

/-- with `checked_sub` (the proposed fix) `from_str` is total -/
theorem C12_from_str_fixed_total (overflowChecks : Bool) (earliest : Nat) (s : List Char) :
    fromStr true overflowChecks earliest s ≠ .panic := by
  intro h
  have := (C12_from_str_total_partial true overflowChecks earliest s).mp h
  simp at this

/-- the hypotheses of the total region are satisfiable on non-trivial inputs -/
example : fromStr false true 51 ['1', '.', '7', '1', '.', '1', '-', 'b', 'e', 't', 'a', '.', '2'] = .ok (.stable 71 1) := by decide
example : fromStr false true 51 ['1', '.', '5', '2', '-', 'n', 'i', 'g', 'h', 't', 'l', 'y'] = .ok (.stable 51 (2 ^ 64 - 1)) := by decide
example : fromStr false true 51 ['1', '.', '3', '0'] = .err .tooEarly := by decide
example : fromStr false true 51 ['2', '.', '0'] = .err .major := by decide

/-! ## `ItemResolver::resolve` terminates -/

/-- valid ids not yet seen -/
def unseen (n : Nat) (seen : List Nat) : Nat := (List.range n).countP (fun i => !seen.contains i)

theorem countP_lt_of (p q : Nat → Bool) (id : Nat) (hq : q id = true) (hp : p id = false)
    (hle : ∀ x, p x = true → q x = true) (l : List Nat) (h : id ∈ l) : l.countP p < l.countP q := by
  induction l with
  | nil => cases h
  | cons a l ih =>
    have mono : l.countP p ≤ l.countP q := countP_mono_left (fun x _ hx => hle x hx)
    by_cases e : a = id
    · subst e
      simp [countP_cons, hp, hq]
      omega
    · have hl : id ∈ l := by
        rcases mem_cons.mp h with h | h
        · exact absurd h.symm e
        · exact h
      have := ih hl
      simp only [countP_cons]
      by_cases hpa : p a = true
      · simp [hpa, hle a hpa]; omega
      · by_cases hqa : q a = true
        · simp [hpa, hqa]; omega
        · simp [hpa, hqa]; omega

theorem unseen_cons_lt (n id : Nat) (seen : List Nat) (hid : id < n) (hs : seen.contains id = false) :
    unseen n (id :: seen) < unseen n seen := by
  unfold unseen
  have hs' : id ∉ seen := by simpa using hs
  apply countP_lt_of _ _ id
  · simp [hs']
  · simp
  · intro x hx
    simp only [contains_cons, Bool.not_or, Bool.and_eq_true] at hx
    exact hx.2
  · exact mem_range.mpr hid

theorem resolveLoop_ne_outOfFuel (g : List Node) (refs aliases : Bool) (fuel id : Nat) (seen : List Nat)
    (h : unseen g.length seen < fuel) : resolveLoop g refs aliases fuel id seen ≠ .outOfFuel := by
  induction fuel generalizing id seen with
  | zero => omega
  | succ fuel ih =>
    unfold resolveLoop
    cases hg : g[id]? with
    | none => simp
    | some node =>
      have hid : id < g.length := by
        rcases List.getElem?_eq_some_iff.mp hg with ⟨hl, _⟩; exact hl
      by_cases hs : seen.contains id = true
      · have hm : id ∈ seen := by simpa using hs
        simp [hm]
      · have hs' : seen.contains id = false := by simpa using hs
        have hm : id ∉ seen := by simpa using hs
        have hlt := unseen_cons_lt g.length id seen hid hs'
        have hfuel : unseen g.length (id :: seen) < fuel := by omega
        simp only [contains_eq_mem, hm, decide_false, Bool.false_eq_true, ite_false]
        cases node with
        | typeRef next => cases refs <;> simp [ih next (id :: seen) hfuel]
        | alias next => cases aliases <;> simp [ih next (id :: seen) hfuel]
        | other => simp

/-- **resolve_terminates**: on every item graph — cycles, self-loops, dangling ids included — and
    for every flag combination the loop returns (an item, or the `resolve_item` panic for an id
    that is not an item) within `g.length + 1` iterations. -/
theorem C12_resolve_terminates (g : List Node) (refs aliases : Bool) (id : Nat) :
    resolve g refs aliases id ≠ .outOfFuel := by
  unfold resolve
  apply resolveLoop_ne_outOfFuel
  have : unseen g.length [] ≤ g.length := by
    unfold unseen
    have := countP_le_length (p := fun i => !([] : List Nat).contains i) (l := List.range g.length)
    simpa using this
  omega

/-- cycle ⇒ returns (the item at which the cycle closes), and a chain is followed to its end -/
theorem C12_resolve_cycle_returns :
    resolve [.typeRef 1, .alias 2, .typeRef 0] true true 0 = .item 0 ∧
    resolve [.typeRef 0] true true 0 = .item 0 ∧
    resolve [.typeRef 1, .alias 2, .other] true true 0 = .item 2 ∧
    resolve [.typeRef 1, .alias 2, .other] true false 0 = .item 1 ∧
    resolve [.typeRef 7] true true 0 = .noItem 7 := by decide

end BindgenModel.Entry

namespace BindgenModel.PanicSites
open List

theorem consumedAlong_sound (a b : List Nat) (h : consumedAlong a b = true) : ∀ x ∈ a, x ∈ b := by
  induction b generalizing a with
  | nil =>
    cases a with
    | nil => intro x hx; cases hx
    | cons _ _ => simp [consumedAlong] at h
  | cons y ys ih =>
    cases a with
    | nil => intro x hx; cases hx
    | cons x xs =>
      simp only [consumedAlong] at h
      by_cases e : x = y
      · subst e
        simp only [ite_true] at h
        intro z hz
        rcases mem_cons.mp hz with hz | hz
        · subst hz; exact mem_cons_self ..
        · exact mem_cons_of_mem _ (ih xs h z hz)
      · simp only [e, ite_false] at h
        intro z hz
        exact mem_cons_of_mem _ (ih (x :: xs) h z hz)

/-- **all_panic_sites_classified**: every `unwrap()` / `expect(` / `panic!` / `unreachable!` /
    `assert!` / `unimplemented!` / `todo!` / decision-core index site the translator found in
    /repo's working tree has a row in the committed classification.  A new or edited panic site
    breaks this theorem. -/
theorem C12_all_panic_sites_classified :
    ∀ h ∈ Generated.panicSitesHashes, h ∈ classifiedHashes := by
  apply consumedAlong_sound
  decide +kernel

/-- how much of the inventory is covered by a stated invariant, and how much only by exploration
    (the honest size of the partial claim) -/
theorem C12_unmodelled_sites_counted :
    (panicClasses.filter (fun r => r.2.1.covered)).length = 20 ∧
    (panicClasses.filter (fun r => !r.2.1.covered)).length = 315 := by decide +kernel

end BindgenModel.PanicSites
