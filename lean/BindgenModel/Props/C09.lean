import BindgenModel.Lemmas.Reach
import BindgenModel.Lemmas.Regex
import BindgenModel.Generated.RootFilter
/-! # C09 — allow-listing yields a self-contained, minimal, consistent subset

Model: `Model/Reach.lean` (the traversal and root selection of
`compute_allowlisted_and_codegen_items`) and `Model/Regex.lean` (`RegexSet`).  The theorems
hold for every finite graph, every root list, every blocklist and every edge predicate. -/
namespace BindgenModel.Reach
open BindgenModel.Generated BindgenModel.Regex

/-- every edge target is an item of the graph (bindgen: `AssertNoDanglingItemsTraversal`) -/
def Graph.Closed (g : Graph) : Prop := ∀ v e, e ∈ g.out v → e.to ∈ g.nodes

theorem Graph.succ_mem {g : Graph} {adm : Edge → Bool} {v t : Nat} :
    t ∈ g.succ adm v ↔ ∃ e, e ∈ g.out v ∧ adm e = true ∧ e.to = t := by
  simp only [Graph.succ, List.mem_map, List.mem_filter]
  constructor
  · rintro ⟨e, ⟨h1, h2⟩, h3⟩; exact ⟨e, h1, h2, h3⟩
  · rintro ⟨e, h1, h2, h3⟩; exact ⟨e, ⟨h1, h2⟩, h3⟩

/-- FULL statement on the model: the allow-listed traversal terminates and yields exactly the
non-blocklisted items reachable from the roots along admitted edges. -/
def C09_statement : Prop :=
  ∀ (g : Graph) (adm : Edge → Bool) (bl : Nat → Bool) (roots : List Nat), g.Closed →
    ∃ ys, allowlistedTraversal (g.succ adm) bl (g.fuel roots) roots = some ys ∧
      ∀ x, x ∈ ys ↔ (ReachFrom (g.succ adm) roots x ∧ bl x = false)

/-- Termination: `|nodes| + |roots| + 1` iterations of `next` always suffice. -/
theorem C09_fuel_suffices (g : Graph) (hc : g.Closed) (adm : Edge → Bool) (bl : Nat → Bool)
    (roots : List Nat) :
    (allowlistedTraversal (g.succ adm) bl (g.fuel roots) roots).isSome = true := by
  have hV : ∀ v t, t ∈ g.succ adm v → t ∈ g.nodes := by
    intro v t ht
    obtain ⟨e, he, _, rfl⟩ := Graph.succ_mem.mp ht
    exact hc v e he
  have := itemTraversal_isSome (g.succ adm) g.nodes roots hV
  simp only [allowlistedTraversal, Graph.fuel, Option.isSome_map]
  exact this

/-- yielded set = reachable set minus blocklisted items -/
theorem C09_dfs_eq_reach (g : Graph) (adm : Edge → Bool) (bl : Nat → Bool) (fuel : Nat)
    (roots ys : List Nat) (h : allowlistedTraversal (g.succ adm) bl fuel roots = some ys) :
    ∀ x, x ∈ ys ↔ (ReachFrom (g.succ adm) roots x ∧ bl x = false) := by
  intro x
  simp only [allowlistedTraversal, Option.map_eq_some_iff] at h
  obtain ⟨res, hres, rfl⟩ := h
  have := itemTraversal_spec (g.succ adm) fuel roots res hres x
  simp only [List.mem_filter, Bool.not_eq_true', this]

theorem C09_statement_holds : C09_statement := by
  intro g adm bl roots hc
  have h := C09_fuel_suffices g hc adm bl roots
  obtain ⟨ys, hys⟩ := Option.isSome_iff_exists.mp h
  exact ⟨ys, hys, C09_dfs_eq_reach g adm bl _ roots ys hys⟩

/-- Self-containedness: every admitted edge out of a yielded item ends in a yielded item or in a
blocklisted one. -/
theorem C09_closure (g : Graph) (adm : Edge → Bool) (bl : Nat → Bool) (fuel : Nat)
    (roots ys : List Nat) (h : allowlistedTraversal (g.succ adm) bl fuel roots = some ys)
    (u : Nat) (hu : u ∈ ys) (e : Edge) (he : e ∈ g.out u) (ha : adm e = true) :
    e.to ∈ ys ∨ bl e.to = true := by
  have spec := C09_dfs_eq_reach g adm bl fuel roots ys h
  obtain ⟨⟨r, hr, hreach⟩, _⟩ := (spec u).mp hu
  cases hb : bl e.to with
  | true => exact Or.inr rfl
  | false =>
    left
    exact (spec e.to).mpr ⟨⟨r, hr, Reach.step hreach (Graph.succ_mem.mpr ⟨e, he, ha, rfl⟩)⟩, hb⟩

/-- The traversal goes *through* blocklisted items: what a blocklisted item needs is yielded too. -/
theorem C09_closure_through_blocklisted (g : Graph) (adm : Edge → Bool) (bl : Nat → Bool) (fuel : Nat)
    (roots ys : List Nat) (h : allowlistedTraversal (g.succ adm) bl fuel roots = some ys)
    (u : Nat) (hu : ReachFrom (g.succ adm) roots u) (e : Edge) (he : e ∈ g.out u) (ha : adm e = true) :
    e.to ∈ ys ∨ bl e.to = true := by
  have spec := C09_dfs_eq_reach g adm bl fuel roots ys h
  obtain ⟨r, hr, hreach⟩ := hu
  cases hb : bl e.to with
  | true => exact Or.inr rfl
  | false =>
    left
    exact (spec e.to).mpr ⟨⟨r, hr, Reach.step hreach (Graph.succ_mem.mpr ⟨e, he, ha, rfl⟩)⟩, hb⟩

theorem C09_roots_included (g : Graph) (adm : Edge → Bool) (bl : Nat → Bool) (fuel : Nat)
    (roots ys : List Nat) (h : allowlistedTraversal (g.succ adm) bl fuel roots = some ys)
    (r : Nat) (hr : r ∈ roots) (hb : bl r = false) : r ∈ ys :=
  (C09_dfs_eq_reach g adm bl fuel roots ys h r).mpr ⟨⟨r, hr, Reach.refl r⟩, hb⟩

/-- Minimality: every yielded item has a path of admitted edges from a root. -/
theorem C09_minimal (g : Graph) (adm : Edge → Bool) (bl : Nat → Bool) (fuel : Nat)
    (roots ys : List Nat) (h : allowlistedTraversal (g.succ adm) bl fuel roots = some ys)
    (y : Nat) (hy : y ∈ ys) : ∃ r, r ∈ roots ∧ Reach (g.succ adm) r y :=
  ((C09_dfs_eq_reach g adm bl fuel roots ys h y).mp hy).1

/-- An item matched by an allow-list (a root) and by a blocklist is not yielded. -/
theorem C09_blocklist_wins (g : Graph) (adm : Edge → Bool) (bl : Nat → Bool) (fuel : Nat)
    (roots ys : List Nat) (h : allowlistedTraversal (g.succ adm) bl fuel roots = some ys)
    (x : Nat) (hb : bl x = true) : x ∉ ys := by
  intro hx
  have := ((C09_dfs_eq_reach g adm bl fuel roots ys h x).mp hx).2
  rw [hb] at this; cases this

/-- **Monotone in the allow-list**: adding patterns (more roots) never removes an item -/
theorem C09_monotone_in_roots (g : Graph) (adm : Edge → Bool) (bl : Nat → Bool) (fuel fuel' : Nat)
    (roots roots' ys ys' : List Nat) (hsub : ∀ r ∈ roots, r ∈ roots')
    (h : allowlistedTraversal (g.succ adm) bl fuel roots = some ys)
    (h' : allowlistedTraversal (g.succ adm) bl fuel' roots' = some ys') :
    ∀ x ∈ ys, x ∈ ys' := by
  intro x hx
  obtain ⟨⟨r, hr, hreach⟩, hb⟩ := (C09_dfs_eq_reach g adm bl fuel roots ys h x).mp hx
  exact (C09_dfs_eq_reach g adm bl fuel' roots' ys' h' x).mpr ⟨⟨r, hsub r hr, hreach⟩, hb⟩

/-- **The yielded set depends on the set of roots only**: order and repetition of the roots (the
order in which allow-listed items are met) do not change which items are yielded -/
theorem C09_roots_as_set (g : Graph) (adm : Edge → Bool) (bl : Nat → Bool) (fuel fuel' : Nat)
    (roots roots' ys ys' : List Nat) (hsame : ∀ r, r ∈ roots ↔ r ∈ roots')
    (h : allowlistedTraversal (g.succ adm) bl fuel roots = some ys)
    (h' : allowlistedTraversal (g.succ adm) bl fuel' roots' = some ys') :
    ∀ x, x ∈ ys ↔ x ∈ ys' :=
  fun x => ⟨C09_monotone_in_roots g adm bl fuel fuel' roots roots' ys ys' (fun r hr => (hsame r).1 hr) h h' x,
    C09_monotone_in_roots g adm bl fuel' fuel roots' roots ys' ys (fun r hr => (hsame r).2 hr) h' h x⟩

/-- **Antitone in the blocklist, and nothing else is lost**: blocklisting more items removes exactly
the newly blocklisted ones — every other item stays (the traversal goes through blocklisted items) -/
theorem C09_blocklist_removes_only_blocklisted (g : Graph) (adm : Edge → Bool) (bl bl' : Nat → Bool)
    (fuel fuel' : Nat) (roots ys ys' : List Nat)
    (h : allowlistedTraversal (g.succ adm) bl fuel roots = some ys)
    (h' : allowlistedTraversal (g.succ adm) bl' fuel' roots = some ys') (x : Nat) (hx : x ∈ ys)
    (hb' : bl' x = false) : x ∈ ys' := by
  obtain ⟨hr, _⟩ := (C09_dfs_eq_reach g adm bl fuel roots ys h x).mp hx
  exact (C09_dfs_eq_reach g adm bl' fuel' roots ys' h' x).mpr ⟨hr, hb'⟩

theorem reach_mono_adm (g : Graph) (adm adm' : Edge → Bool) (hadm : ∀ e, adm e = true → adm' e = true)
    {r x : Nat} (hreach : Reach (g.succ adm) r x) : Reach (g.succ adm') r x := by
  induction hreach with
  | refl => exact Reach.refl _
  | step _ hs ih =>
    obtain ⟨e, he, ha, rfl⟩ := Graph.succ_mem.mp hs
    exact Reach.step ih (Graph.succ_mem.mpr ⟨e, he, hadm e ha, rfl⟩)

/-- **Monotone in the admitted edges**: following more kinds of edges (e.g. turning recursion or
function/method generation on) never removes an item -/
theorem C09_monotone_in_edges (g : Graph) (adm adm' : Edge → Bool) (bl : Nat → Bool) (fuel fuel' : Nat)
    (roots ys ys' : List Nat) (hadm : ∀ e, adm e = true → adm' e = true)
    (h : allowlistedTraversal (g.succ adm) bl fuel roots = some ys)
    (h' : allowlistedTraversal (g.succ adm') bl fuel' roots = some ys') :
    ∀ x ∈ ys, x ∈ ys' := by
  intro x hx
  obtain ⟨⟨r, hr, hreach⟩, hb⟩ := (C09_dfs_eq_reach g adm bl fuel roots ys h x).mp hx
  exact (C09_dfs_eq_reach g adm' bl fuel' roots ys' h' x).mpr ⟨⟨r, hr, reach_mono_adm g adm adm' hadm hreach⟩, hb⟩

/-! ### the whole of `compute_allowlisted_and_codegen_items` -/

theorem C09_compute_isSome (g : Graph) (hc : g.Closed) (o : Options) (items : List ItemInfo)
    (en bl : Nat → Bool) : (compute g o items en bl).isSome = true := by
  unfold compute
  simp only
  obtain ⟨al, hal⟩ := Option.isSome_iff_exists.mp
    (C09_fuel_suffices g hc ((if o.recursive = true then Pred.allEdges else Pred.onlyInnerTypeEdges).admits o.cfg en) bl (roots o items))
  rw [hal]
  cases hrec : o.recursive with
  | false => simp
  | true =>
    obtain ⟨cg, hcg⟩ := Option.isSome_iff_exists.mp
      (C09_fuel_suffices g hc (Pred.codegenEdges.admits o.cfg en) bl (roots o items))
    simp [hcg]

/-- `codegen_items ⊆ allowlisted` (always), and they coincide when allow-listing is not recursive. -/
theorem C09_codegen_subset_allowlisted (g : Graph) (o : Options) (items : List ItemInfo)
    (en bl : Nat → Bool) (s : Sets) (h : compute g o items en bl = some s) :
    ∀ x, x ∈ s.codegen → x ∈ s.allowlisted := by
  unfold compute at h
  simp only at h
  cases hrec : o.recursive with
  | false =>
    rw [hrec] at h
    simp only [Bool.false_eq_true, if_false] at h
    split at h
    · cases h
    · simp only [Option.some.injEq] at h; subst h; intro x hx; exact hx
  | true =>
    rw [hrec] at h
    simp only [if_true] at h
    split at h
    · cases h
    · rename_i al hal
      split at h
      · cases h
      · rename_i cg hcg
        simp only [Option.some.injEq] at h; subst h
        intro x hx
        have h1 := (C09_dfs_eq_reach g _ bl _ _ cg hcg x).mp hx
        refine (C09_dfs_eq_reach g _ bl _ _ al hal x).mpr ⟨?_, h1.2⟩
        obtain ⟨r, hr, hreach⟩ := h1.1
        refine ⟨r, hr, Reach.mono ?_ hreach⟩
        intro v t ht
        obtain ⟨e, he, _, rfl⟩ := Graph.succ_mem.mp ht
        exact Graph.succ_mem.mpr ⟨e, he, rfl, rfl⟩

/-- With `--no-recursive-allowlist`, `codegen_items` is `allowlisted` itself. -/
theorem C09_nonrecursive_codegen_eq (g : Graph) (o : Options) (items : List ItemInfo)
    (en bl : Nat → Bool) (s : Sets) (hrec : o.recursive = false)
    (h : compute g o items en bl = some s) : s.codegen = s.allowlisted := by
  unfold compute at h
  simp only [hrec, Bool.false_eq_true, if_false] at h
  split at h
  · cases h
  · simp only [Option.some.injEq] at h; subst h; rfl

/-- Roots are exactly the enabled items passing the filter. -/
theorem C09_roots_mem (o : Options) (items : List ItemInfo) (x : Nat) :
    x ∈ roots o items ↔ ∃ it, it ∈ items ∧ it.enabled o = true ∧ rootFilter o it = true ∧ it.id = x := by
  simp only [roots, List.mem_reverse, List.mem_map, List.mem_filter, Bool.and_eq_true]
  constructor
  · rintro ⟨it, ⟨h1, h2, h3⟩, h4⟩; exact ⟨it, h1, h2, h3, h4⟩
  · rintro ⟨it, h1, h2, h3, h4⟩; exact ⟨it, ⟨h1, h2, h3⟩, h4⟩

/-- Nothing allow-listed ⇒ every enabled item is a root. -/
theorem C09_nothing_allowlisted_everything (o : Options) (it : ItemInfo)
    (h : (o.types.isEmpty && o.functions.isEmpty && o.vars.isEmpty && o.files.isEmpty && o.items.isEmpty) = true) :
    rootFilter o it = true := by
  unfold rootFilter; rw [if_pos h]

/-! ### generated tables: what codegen mentions is traversed -/

/-- THE table obligation: for every `CodegenConfig`, every edge kind through which code generation
names the target (hand-written `mentionEdges`) is admitted by the GENERATED `codegen_edges` table,
the `Generic` gate being evaluated with `is_enabled_for_codegen` of the class of item the edge
points to.  Dropping an edge kind from `codegen_edges` (or gating it on another flag) breaks this. -/
theorem C09_mention_subset_codegen (cfg : Nat) (k : EdgeKind) (h : mentionEdges cfg k = true) :
    (codegenEdgeGate k).eval cfg ((enabledFor (targetClass k)).eval cfg) = true := by
  cases k <;>
    simpa [mentionEdges, mentionBit, codegenEdgeGate, EdgeGate.eval, targetClass, enabledFor,
      ItemGate.eval] using h

/-- `all_edges` admits whatever `codegen_edges` admits, and `only_inner_type_edges` is the kind
codegen always emits inline (`InnerType`). -/
theorem C09_mention_subset_all (cfg : Nat) (en : Nat → Bool) (e : Edge) :
    Pred.allEdges.admits cfg en e = true := rfl

/-- The comment in `codegen_edges` ("we statically know the kind of item that non-generic edges can
point to, so we don't need to [...] check `Item::is_enabled_for_codegen`") as an obligation on the
two generated tables: for every non-generic kind the gate equals `is_enabled_for_codegen` of the
target's class. -/
theorem C09_codegen_gate_eq_target_enabled (cfg : Nat) (k : EdgeKind) (te : Bool) (hk : k ≠ .generic) :
    (codegenEdgeGate k).eval cfg te = (enabledFor (targetClass k)).eval cfg := by
  cases k <;>
    first
    | exact absurd rfl hk
    | simp [codegenEdgeGate, EdgeGate.eval, targetClass, enabledFor, ItemGate.eval]

/-- the bit numbering of `CodegenConfig` used by `CfgBit.on` is injective and below 6 -/
theorem C09_cfgbits_wellformed :
    (CfgBit.all.map CfgBit.index).Nodup ∧ ∀ b, b ∈ CfgBit.all → b.index < 6 := by decide

/-! ### regular-expression sets -/

/-- Patterns are whole-name anchored: under the `regex` crate's search semantics, `^(p)$` is found in
`s` iff the whole of `s` is in the language of `p`. -/
theorem C09_anchored_whole_name (p : Re) (s : List Char) : IsMatch (anchored p) s ↔ Lang p s :=
  anchored_whole_name p s

/-- the executable matcher used by the model decides exactly that -/
theorem C09_matches_iff (p : Re) (s : List Char) : Regex.matches p s = true ↔ IsMatch (anchored p) s :=
  matches_eq_anchored p s

/-- `RegexSet::matches`: every item compiled and some anchored item matches. -/
theorem C09_set_matches_iff (set : RegexSet) (name : List Char) :
    set.matches name = true ↔
      (∀ i, i ∈ set.items → i ≠ none) ∧ ∃ r, some r ∈ set.items ∧ IsMatch (anchored r) name := by
  unfold RegexSet.matches
  by_cases hbad : set.items.any Option.isNone = true
  · rw [if_pos hbad]
    simp only [Bool.false_eq_true, false_iff, not_and]
    intro hall
    obtain ⟨i, hi, hn⟩ := List.any_eq_true.mp hbad
    cases i with
    | none => exact absurd rfl (hall none hi)
    | some _ => cases hn
  · rw [if_neg hbad]
    have hall : ∀ i, i ∈ set.items → i ≠ none := by
      intro i hi hn
      apply hbad
      exact List.any_eq_true.mpr ⟨i, hi, by rw [hn]; rfl⟩
    simp only [List.any_eq_true]
    constructor
    · rintro ⟨i, hi, hm⟩
      cases i with
      | none => cases hm
      | some r => exact ⟨hall, r, hi, (matches_eq_anchored r name).mp hm⟩
    · rintro ⟨_, r, hr, hm⟩
      exact ⟨some r, hr, (matches_eq_anchored r name).mpr hm⟩

/-- A name that is a proper prefix (or extension) of another is not matched by its literal
pattern, although an unanchored search would find it. -/
theorem C09_prefix_not_matched :
    Regex.matches (.cat (lit 'f') (.cat (lit 'o') (lit 'o'))) ['f', 'o', 'o', 'b'] = false ∧
    Regex.matches (.cat (lit 'f') (.cat (lit 'o') (lit 'o'))) ['f', 'o'] = false ∧
    Regex.matches (.cat (lit 'f') (.cat (lit 'o') (lit 'o'))) ['f', 'o', 'o'] = true ∧
    searchMatches (.cat (lit 'f') (.cat (lit 'o') (lit 'o'))) ['x', 'f', 'o', 'o', 'b'] = true := by
  decide

/-! ### known findings (negation lemmas with concrete witnesses)

The theorems above are about the model's own notion of root.  Two places where that notion, and one
where the naming of anonymous items, departs from the property text: -/

/-- `[^n].*` -/
def exPatNotN : Re := .cat (.cls true [(110, 110)]) (.star dot)

/-- `struct nU { int a; }; struct other { int b; }; void F(struct nU *p);` with
`--allowlist-type '[^n].*'`: items 1 = `nU`, 4 = `other`, 8 = the pointer type `struct nU *`
(synthetic name `ptr_struct_nU`), 11 = `F`. -/
def exSynItems : List ItemInfo := [
  { id := 0, cls := .module, useInsteadOf := false, file := none, name := [], autoKind := false,
    parentIsModule := false, unnamedEnumVariants := none },
  { id := 1, cls := .type, useInsteadOf := false, file := none, name := ['n', 'U'], autoKind := false,
    parentIsModule := true, unnamedEnumVariants := none },
  { id := 4, cls := .type, useInsteadOf := false, file := none, name := ['o', 't', 'h', 'e', 'r'],
    autoKind := false, parentIsModule := true, unnamedEnumVariants := none },
  { id := 8, cls := .type, useInsteadOf := false, file := none,
    name := ['p', 't', 'r', '_', 's', 't', 'r', 'u', 'c', 't', '_', 'n', 'U'], autoKind := true,
    syntheticKind := true, parentIsModule := true, unnamedEnumVariants := none },
  { id := 11, cls := .fnFunction, useInsteadOf := false, file := none, name := ['F'], autoKind := false,
    parentIsModule := true, unnamedEnumVariants := none } ]

def exSynGraph : Graph where
  nodes := [0, 1, 4, 8, 11]
  out := fun
    | 8 => [⟨1, .typeReference⟩]
    | _ => []

def exSynOpts : Options :=
  { cfg := 63, recursive := true, sizeTIsUsize := true, types := ⟨[some exPatNotN]⟩, functions := ⟨[]⟩,
    vars := ⟨[]⟩, files := ⟨[]⟩, items := ⟨[]⟩ }

/-- Known finding `synthetic_names_match`: `nU` does not match `[^n].*` and nothing the user named
needs it, yet it is in `codegen_items`, because the pointer type item `struct nU *` carries the
synthetic name `ptr_struct_nU`, which matches (region `syntheticRoot`). -/
theorem C09_fails_on_synthetic_names :
    exSynOpts.types.matches ['n', 'U'] = false ∧
    (exSynItems.filter (fun it => syntheticRoot exSynOpts it)).map (·.id) = [8] ∧
    (compute exSynGraph exSynOpts exSynItems (fun _ => true) (fun _ => false)).map (·.codegen)
      = some [0, 4, 8, 1] := by decide

/-- without the synthetic root `nU` is not generated -/
theorem C09_without_synthetic_root :
    (allowlistedTraversal (exSynGraph.succ fun _ => true) (fun _ => false) 10 [4, 0]) = some [0, 4] := by decide

/-- Known finding `anon_type_renumbered`: two anonymous enums `a` (in an allow-listed file) and `b`.
Un-allow-listed, names are first requested in codegen order `[a, b]`; with `--allowlist-file` the root
filter returns early for `a` and requests the name of `b` first.  The same item gets two numbers. -/
theorem C09_fails_on_anon_renumbering :
    localId [10, 20] 10 = some 1 ∧ localId [20, 10] 10 = some 2 := by decide

/-- the early return that reorders the requests -/
theorem C09_file_match_skips_name (o : Options) (it : ItemInfo) (f : List Char)
    (hf : it.file = some f) (hne : o.files.isEmpty = false) (hm : o.files.matches f = true)
    : nameRequestedByRootFilter o it = false := by
  unfold nameRequestedByRootFilter
  by_cases h1 : (o.types.isEmpty && o.functions.isEmpty && o.vars.isEmpty && o.files.isEmpty && o.items.isEmpty) = true
  · rw [if_pos h1]
  · rw [if_neg h1]
    by_cases h2 : it.useInsteadOf = true
    · rw [if_pos h2]
    · rw [if_neg h2]
      simp [hf, hne, hm]

/-- **without file patterns the root filter names every item it is asked about**, whatever the type,
function, variable and item patterns are: once something is allow-listed and no `--allowlist-file` is
given, the only early answer left is the `replaces` annotation.  The sequence of name requests (hence
the number every anonymous type gets, `localId`) is then the item order, the same for every choice of
patterns — region of `anon_type_renumbered` = "a file pattern is given". -/
theorem C09_names_requested_without_files (o : Options) (it : ItemInfo)
    (hsome : (o.types.isEmpty && o.functions.isEmpty && o.vars.isEmpty && o.files.isEmpty && o.items.isEmpty) = false)
    (hf : o.files.isEmpty = true) (hr : it.useInsteadOf = false) :
    nameRequestedByRootFilter o it = true := by
  unfold nameRequestedByRootFilter
  rw [if_neg (by rw [hsome]; decide), if_neg (by rw [hr]; decide)]
  simp [hf]

/-- hence two allow-lists without file patterns request the same names in the same order -/
theorem C09_request_order_pattern_independent (o₁ o₂ : Options) (items : List ItemInfo)
    (h₁ : (o₁.types.isEmpty && o₁.functions.isEmpty && o₁.vars.isEmpty && o₁.files.isEmpty && o₁.items.isEmpty) = false)
    (h₂ : (o₂.types.isEmpty && o₂.functions.isEmpty && o₂.vars.isEmpty && o₂.files.isEmpty && o₂.items.isEmpty) = false)
    (f₁ : o₁.files.isEmpty = true) (f₂ : o₂.files.isEmpty = true) :
    (items.filter (nameRequestedByRootFilter o₁)).map (·.id) = (items.filter (nameRequestedByRootFilter o₂)).map (·.id) := by
  congr 1
  apply List.filter_congr
  intro it _
  by_cases hr : it.useInsteadOf = true
  · simp [nameRequestedByRootFilter, h₁, h₂, hr]
  · have hr' : it.useInsteadOf = false := by simpa using hr
    rw [C09_names_requested_without_files o₁ it h₁ f₁ hr', C09_names_requested_without_files o₂ it h₂ f₂ hr']

/-- hence the number every anonymous type gets from the root filter's requests (`_bindgen_ty_N`) is the same for any two
allow-lists without file patterns -/
theorem C09_numbering_pattern_independent (o₁ o₂ : Options) (items : List ItemInfo) (x : Nat)
    (h₁ : (o₁.types.isEmpty && o₁.functions.isEmpty && o₁.vars.isEmpty && o₁.files.isEmpty && o₁.items.isEmpty) = false)
    (h₂ : (o₂.types.isEmpty && o₂.functions.isEmpty && o₂.vars.isEmpty && o₂.files.isEmpty && o₂.items.isEmpty) = false)
    (f₁ : o₁.files.isEmpty = true) (f₂ : o₂.files.isEmpty = true) :
    localId ((items.filter (nameRequestedByRootFilter o₁)).map (·.id)) x =
      localId ((items.filter (nameRequestedByRootFilter o₂)).map (·.id)) x := by
  rw [C09_request_order_pattern_independent o₁ o₂ items h₁ h₂ f₁ f₂]

/-- **source obligation**: the closure takes its steps in the modelled order and computes the name as an
unconditional statement between the file test and the pattern tests (a name computed lazily, only when
some pattern set is non-empty, would make the numbering depend on the patterns) -/
theorem C09_root_filter_steps_in_source :
    rootFilterSteps = ["nothingAllowlisted", "useInsteadOf", "files", "name", "items", "kindMatch"] ∧
    rootFilterNameUnconditional = true ∧ rootsReversed = true := by decide

/-! ### non-vacuity -/

/-- a 4-node graph: 0 → 1 (blocklisted) → 2, and 3 unrelated: yields exactly 0 and 2 -/
def exGraph : Graph where
  nodes := [0, 1, 2, 3]
  out := fun
    | 0 => [⟨1, .field⟩]
    | 1 => [⟨2, .typeReference⟩]
    | _ => []

example : allowlistedTraversal (exGraph.succ fun _ => true) (fun i => i == 1) (exGraph.fuel [0]) [0]
    = some [0, 2] := by decide

example : exGraph.Closed := by
  intro v e he
  match v, he with
  | 0, he => simp [exGraph] at he; subst he; simp [exGraph]
  | 1, he => simp [exGraph] at he; subst he; simp [exGraph]
  | (n + 2), he => simp [exGraph] at he

example : mentionEdges 2 .field = true ∧ mentionEdges 2 .method = false := by decide

end BindgenModel.Reach
