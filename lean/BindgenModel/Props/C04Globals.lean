import BindgenModel.Model.GlobalConst
import BindgenModel.Generated.GlobalConstRule
/-!
# C04 — globals have the declared mutability
-/
namespace BindgenModel.C04
open BindgenModel.GlobalConst BindgenModel.Generated

theorem innermost_selfConst (t : GTy) : t.innermost.selfConst = t.declaredConst := by
  induction t with
  | leaf c => rfl
  | array c e ih => simpa [GTy.innermost, GTy.declaredConst] using ih

/-- **mutability**: for every type libclang can report, of any number of array dimensions, the binding is
immutable exactly when C declares the object `const` -/
theorem C04_global_mutability (t : GTy) (h : t.Clang) : isConst true t = t.declaredConst := by
  unfold isConst
  simp only [if_true, innermost_selfConst]
  cases t with
  | leaf c => simp [GTy.selfConst, GTy.declaredConst]
  | array c e =>
    obtain ⟨hc, _⟩ := h
    simp [GTy.selfConst, hc]

/-- the rule that looked at one level (repaired in /repo e0ad9728): `extern const int m[2][3];` was mutable -/
theorem C04_one_level_rule_wrong :
    isConst false (.array false (.array false (.leaf true))) = false ∧
    (GTy.array false (.array false (.leaf true))).declaredConst = true ∧
    isConst true (.array false (.array false (.leaf true))) = true := by decide

/-- **source obligation** -/
theorem C04_global_const_rule_in_source : globalConstAllLevels = true := by decide

end BindgenModel.C04
