import BindgenModel.Lemmas.Worklist
/-!
# C07 — inferred type facts are the least fixed point; declaration order is irrelevant

Generic theorems about the model of `analysis::analyze` (`Model/Worklist.lean`), for **every**
finite node set, lattice of finite height, rule and schedule.  The per-analysis obligations
(`Lawful`: lattice laws, `reads_only`, `reads_deps`, `mono`) are discharged in
`Props/C07Instances.lean` from the rule tables regenerated out of `/repo`.
-/
namespace BindgenModel.Worklist

variable {N L : Type} [DecidableEq N] [DecidableEq L]

/-- `analysis::analyze` always terminates (the loop empties its work-list within `fuel` steps). -/
theorem C07_terminates (F : Framework N L) (h : Lawful F)
    (hd : ∀ n ∈ F.nodes, ∀ m ∈ F.deps n, m ∈ F.nodes) (wl : List N) (hwl : ∀ n ∈ wl, n ∈ F.nodes) :
    (run F (fuel F (fun _ => F.bot) wl) (fun _ => F.bot) wl).2 = [] :=
  run_terminates F h hd _ _ wl hwl (Nat.le_refl _)

/-- **Stability**: if the initial work-list contains every node, then in the result re-applying
any node's rule changes nothing. -/
theorem C07_stable (F : Framework N L) (h : Lawful F)
    (hd : ∀ n ∈ F.nodes, ∀ m ∈ F.deps n, m ∈ F.nodes) (wl : List N)
    (hwl : ∀ n ∈ wl, n ∈ F.nodes) (hall : ∀ n ∈ F.nodes, n ∈ wl) :
    ∀ n ∈ F.nodes, Stable F (analyze F wl) n := by
  intro n hn
  have hinv : Inv F (fun _ => F.bot) wl := fun m hm hmw => absurd (hall m hm) hmw
  have hfin := run_inv F h (fuel F (fun _ => F.bot) wl) _ _ hinv
  have hemp := C07_terminates F h hd wl hwl
  unfold analyze
  exact hfin n hn (by rw [hemp]; simp)

/-- re-applying the rule (`s[n] ⊔ rule s n`) to the result returns the result: "re-applying any
rule to the final answer changes no fact" -/
theorem C07_reapply_noop (F : Framework N L) (h : Lawful F)
    (hd : ∀ n ∈ F.nodes, ∀ m ∈ F.deps n, m ∈ F.nodes) (wl : List N)
    (hwl : ∀ n ∈ wl, n ∈ F.nodes) (hall : ∀ n ∈ F.nodes, n ∈ wl) (n : N) (hn : n ∈ F.nodes) :
    F.join (analyze F wl n) (F.rule (analyze F wl) n) = analyze F wl n := by
  have hs := C07_stable F h hd wl hwl hall n hn
  apply h.le_antisymm
  · exact h.join_lub _ _ _ (h.le_refl _) hs
  · exact h.join_ub_l _ _

/-- **Leastness**: the result is below every state that is closed under the rules. -/
theorem C07_least (F : Framework N L) (h : Lawful F) (hbot : ∀ a, F.le F.bot a = true)
    (wl : List N) (p : N → L) (hp : ∀ n, Stable F p n) :
    ∀ n, F.le (analyze F wl n) (p n) = true :=
  run_le F h _ wl _ p hp (fun n => hbot (p n))

/-- leastness against states that are only known to be stable on the analysis' own nodes -/
theorem run_le_nodes (F : Framework N L) (h : Lawful F)
    (hd : ∀ n ∈ F.nodes, ∀ m ∈ F.deps n, m ∈ F.nodes) (p : N → L)
    (hp : ∀ n ∈ F.nodes, Stable F p n) :
    ∀ (k : Nat) (s : N → L) (wl : List N), (∀ n ∈ wl, n ∈ F.nodes) →
      (∀ n, F.le (s n) (p n) = true) → ∀ n, F.le ((run F k s wl).1 n) (p n) = true := by
  intro k
  induction k with
  | zero => intro s wl _ hs; simpa [run] using hs
  | succ k ih =>
    intro s wl hwl hs
    cases wl with
    | nil => simpa [run] using hs
    | cons a wl =>
      simp only [run]
      have ha : a ∈ F.nodes := hwl a (by simp)
      apply ih
      · intro n hn
        simp only [step] at hn
        split at hn
        · exact hwl n (by simp [hn])
        · simp only [List.mem_append, List.mem_reverse] at hn
          rcases hn with hn | hn
          · exact hd a ha n hn
          · exact hwl n (by simp [hn])
      · intro n
        simp only [step]
        split
        · exact hs n
        · simp only [upd]
          split
          · rename_i heq; subst heq
            apply h.join_lub _ _ _ (hs n)
            exact h.le_trans _ _ _ (h.mono s p n hs) (hp n ha)
          · exact hs n

/-- leastness against states stable on the nodes only, stated for `analyze` -/
theorem C07_least_on_nodes (F : Framework N L) (h : Lawful F) (hbot : ∀ a, F.le F.bot a = true)
    (hd : ∀ n ∈ F.nodes, ∀ m ∈ F.deps n, m ∈ F.nodes) (wl : List N) (hwl : ∀ n ∈ wl, n ∈ F.nodes)
    (p : N → L) (hp : ∀ n ∈ F.nodes, Stable F p n) :
    ∀ n, F.le (analyze F wl n) (p n) = true :=
  fun n => run_le_nodes F h hd p hp _ _ wl hwl (fun m => hbot _) n

/-- **The least solution is unique**: a state that is closed under the rules on every node and lies
below every other such state *is* the analysis result — there is exactly one "least solution of
the inference rules", and `analyze` computes it (whatever the schedule). -/
theorem C07_least_solution_unique (F : Framework N L) (h : Lawful F) (hbot : ∀ a, F.le F.bot a = true)
    (hd : ∀ n ∈ F.nodes, ∀ m ∈ F.deps n, m ∈ F.nodes) (wl : List N)
    (hwl : ∀ n ∈ wl, n ∈ F.nodes) (hall : ∀ n ∈ F.nodes, n ∈ wl)
    (p : N → L) (hp : ∀ n ∈ F.nodes, Stable F p n)
    (hleast : ∀ q : N → L, (∀ n ∈ F.nodes, Stable F q n) → ∀ n, F.le (p n) (q n) = true) :
    p = analyze F wl := by
  funext n
  apply h.le_antisymm
  · exact hleast _ (C07_stable F h hd wl hwl hall) n
  · exact C07_least_on_nodes F h hbot hd wl hwl p hp n

/-- **Schedule irrelevance**: any two work-list orders that cover the nodes (LIFO over ascending
ids, any permutation, any order inside `deps`) produce the same facts.  Hence the facts do not
depend on the order in which declarations were numbered. -/
theorem C07_schedule_irrelevant (F : Framework N L) (h : Lawful F)
    (hbot : ∀ a, F.le F.bot a = true)
    (hd : ∀ n ∈ F.nodes, ∀ m ∈ F.deps n, m ∈ F.nodes) (wl₁ wl₂ : List N)
    (h₁ : ∀ n ∈ wl₁, n ∈ F.nodes) (h₂ : ∀ n ∈ wl₂, n ∈ F.nodes)
    (a₁ : ∀ n ∈ F.nodes, n ∈ wl₁) (a₂ : ∀ n ∈ F.nodes, n ∈ wl₂) :
    analyze F wl₁ = analyze F wl₂ := by
  funext n
  apply h.le_antisymm
  · exact run_le_nodes F h hd _ (C07_stable F h hd wl₂ h₂ a₂) _ _ wl₁ h₁ (fun m => hbot _) n
  · exact run_le_nodes F h hd _ (C07_stable F h hd wl₁ h₁ a₁) _ _ wl₂ h₂ (fun m => hbot _) n

/-- the order of the dependants inside `each_depending_on` is irrelevant too: two frameworks that
differ only in the order (or multiplicity) of `deps` compute the same facts -/
theorem C07_deps_order_irrelevant (F G : Framework N L) (hF : Lawful F) (hG : Lawful G)
    (hbot : ∀ a, F.le F.bot a = true)
    (hsame : G.nodes = F.nodes ∧ G.bot = F.bot ∧ G.join = F.join ∧ G.le = F.le ∧ G.rule = F.rule)
    (hdF : ∀ n ∈ F.nodes, ∀ m ∈ F.deps n, m ∈ F.nodes)
    (hdG : ∀ n ∈ G.nodes, ∀ m ∈ G.deps n, m ∈ G.nodes)
    (wl : List N) (hwl : ∀ n ∈ wl, n ∈ F.nodes) (hall : ∀ n ∈ F.nodes, n ∈ wl) :
    analyze F wl = analyze G wl := by
  obtain ⟨hn, hb, hj, hl, hr⟩ := hsame
  funext n
  apply hF.le_antisymm
  · -- the G-result is stable for F (same rule, same order)
    have hsG := C07_stable G hG hdG wl (by rw [hn]; exact hwl) (by rw [hn]; exact hall)
    have : ∀ m ∈ F.nodes, Stable F (analyze G wl) m := by
      intro m hm
      have := hsG m (by rw [hn]; exact hm)
      unfold Stable at *
      rw [hl, hr] at this; exact this
    exact run_le_nodes F hF hdF _ this _ _ wl hwl (fun m => hbot _) n
  · have hsF := C07_stable F hF hdF wl hwl hall
    have : ∀ m ∈ G.nodes, Stable G (analyze F wl) m := by
      intro m hm
      have := hsF m (by rw [← hn]; exact hm)
      unfold Stable at *
      rw [hl, hr]; exact this
    have hle := run_le_nodes G hG hdG _ this (fuel G (fun _ => G.bot) wl) (fun _ => G.bot) wl
      (by rw [hn]; exact hwl) (fun m => by rw [hl, hb]; exact hbot _) n
    unfold analyze
    rw [← hl]; exact hle

/-- the executable array version used by the correspondence driver computes `analyze` -/
theorem C07_analyzeA_eq (F : Framework Nat L) (hd : ∀ n, ∀ m ∈ F.deps n, m ∈ F.nodes) (size : Nat)
    (hsz : ∀ n ∈ F.nodes, n < size) (wl : List Nat) (hwl : ∀ n ∈ wl, n < size) :
    getA F.bot (analyzeA F size wl) = analyze F wl := by
  unfold analyzeA analyze
  have := (runA_run F hd size hsz (fuel F (fun _ => F.bot) wl) (Array.replicate size F.bot) wl
    (by simp) hwl).1
  rw [this]
  have e : getA F.bot (Array.replicate size F.bot) = fun _ => F.bot := by
    funext n; exact getA_replicate F.bot size n
  rw [e]

/-! ## non-vacuity: a concrete lawful framework (reachability of a "tainted" leaf on a cycle) -/

/-- three nodes `0 → 1 → 2 → 0`, node 2 is a source of `true`; Bool lattice -/
def demo : Framework Nat Bool where
  nodes := [0, 1, 2]
  bot := false
  join := (· || ·)
  le := fun a b => !a || b
  rank := fun b => if b then 1 else 0
  height := 1
  rule := fun s n => match n with
    | 0 => s 1
    | 1 => s 2
    | 2 => true
    | _ => false
  deps := fun n => match n with
    | 1 => [0]
    | 2 => [1]
    | _ => []
  reads := fun n => match n with
    | 0 => [1]
    | 1 => [2]
    | _ => []

theorem demo_lawful : Lawful demo where
  le_refl := by decide
  le_trans := by decide
  le_antisymm := by decide
  join_ub_l := by decide
  join_ub_r := by decide
  join_lub := by decide
  rank_strict := by decide
  rank_le := by decide
  reads_only := by
    intro s s' n hh
    match n with
    | 0 => exact hh 1 (by simp [demo])
    | 1 => exact hh 2 (by simp [demo])
    | 2 => rfl
    | _ + 3 => rfl
  reads_deps := by
    intro n m hm hn
    simp only [demo, List.mem_cons, List.mem_nil_iff, or_false] at hn
    rcases hn with rfl | rfl | rfl <;> simp_all [demo]
  mono := by
    intro s s' n hh
    match n with
    | 0 => exact hh 1
    | 1 => exact hh 2
    | 2 => rfl
    | _ + 3 => rfl

example : (analyzeA demo 3 [2, 1, 0]).toList = [true, true, true] := by decide
example : (analyzeA demo 3 [0, 1, 2]).toList = [true, true, true] := by decide

end BindgenModel.Worklist
