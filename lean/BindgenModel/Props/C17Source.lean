import BindgenModel.Generated.CodegenOrder
/-!
# C17 — source obligation behind the include model

`Model/Includes.lean` takes the inclusion directives of the translation unit as given: they are what
`Item::parse` turns into `include_file` notifications and depfile entries.  libclang only keeps them when
the unit is parsed with `CXTranslationUnit_DetailedPreprocessingRecord`; the model therefore speaks about the
source only if `BindgenContext::new` passes that option whatever the code-generation configuration is
(seeded change C17-6 made it depend on `codegen_config.vars()`).
-/
namespace BindgenModel.Includes
open BindgenModel.Generated

theorem C17_preprocessing_record_unconditional : preprocessingRecordUnconditional = true := by decide

end BindgenModel.Includes
