import BindgenModel.Lemmas.PostTree
/-! # C18 — extern-block merging and semantic sorting only regroup items

All theorems are about `Model/Post.lean` with the tables of `Generated/PostTables.lean`
(rank table, compared fields, pass order extracted from the source on every run) and quantify over
**all** item lists / module trees and all four on/off combinations (`c : Config`).

Status on the present source: the merge key is `[attrs, abi]` — it ignores `unsafety`.  The
inventory theorem *with* unsafety therefore holds only under the hypothesis that no module level
has two blocks with equal (attrs, abi) and different unsafety (`…_partial`, region predicate
`mixedUnsafety`); `C18_fails_on_mixed_unsafety` is the negation on the excluded region.  If
`unsafety` is added to the comparison the hypothesis disappears (`C18_inventory_perm_of_unsafety_key`). -/
set_option linter.unusedSectionVars false
set_option linter.unusedSimpArgs false
namespace BindgenModel.Post
open BindgenModel.Generated

variable {α : Type} [DecidableEq α]

/-! ## obligations about the generated tables -/

/-- the comparison in `merge_extern_blocks.rs` includes the attributes and the ABI -/
theorem C18_key_has_attrs_abi : MergeField.attrs ∈ mergeKeyFields ∧ MergeField.abi ∈ mergeKeyFields := by
  decide

/-- `PASSES` = merge, then sort (the order the idempotence proof is about) -/
theorem C18_passes_order : passes = [.mergeExternBlocks, .sortSemantically] := by decide

/-- foreign mods are sorted with the rank of `Item::ForeignMod`, inline modules with `Item::Mod`
(definitional in the model; stated so that a change of `Item.rank` is visible) -/
theorem C18_rank_of_blocks_and_modules (f : Foreign α) (h : α) (is : List (Item α)) :
    (Item.foreign f).rank = sortRank .foreignMod ∧ (Item.module h is).rank = sortRank .mod := ⟨rfl, rfl⟩

/-! ## the level operation of a configuration -/

/-- what a configuration does to one item list: merge (if selected), then sort (if selected) -/
def levelOp (fields : List MergeField) (c : Config) : List (Item α) → List (Item α) :=
  (if c.sort then sortLevel else fun l => l) ∘ (if c.merge then mergeLevel fields else fun l => l)

theorem levelOp_natural (fields) (c : Config) : Natural (levelOp (α := α) fields c) := by
  unfold levelOp
  apply Natural.comp
  · split
    · exact mergeLevel_natural fields
    · exact natural_id
  · split
    · exact sortLevel_natural
    · exact natural_id

/-- `postprocessing` = the level operation applied to the file's items and to the items of every
inline module (both passes recurse in the same way, so they fuse) -/
theorem postprocessWith_eq_levelOp (fields) (c : Config) (items : List (Item α)) :
    postprocessWith fields [.mergeExternBlocks, .sortSemantically] c items = treeFile (levelOp fields c) items := by
  obtain ⟨m, s⟩ := c
  cases m <;> cases s <;>
    simp only [postprocessWith, List.foldl_cons, List.foldl_nil, Config.runs, passFile, passLevel, levelOp,
      if_true, if_false, Bool.false_eq_true]
  · have : ((fun l => l) ∘ fun l => l) = (fun l : List (Item α) => l) := rfl
    rw [this, treeFile_id]
  · rfl
  · rfl
  · rw [treeFile_fuse (mergeLevel_natural fields)]

theorem C18_postprocess_eq_levelOp (c : Config) (items : List (Item α)) :
    postprocess c items = treeFile (levelOp mergeKeyFields c) items := by
  rw [postprocess, C18_passes_order, postprocessWith_eq_levelOp]

/-- the code visits a level first and then its inline modules; the model visits the modules first:
same result -/
theorem C18_visit_order (c : Config) (items : List (Item α)) :
    postprocess c items =
      (levelOp mergeKeyFields c items).map (treeItem (levelOp mergeKeyFields c)) := by
  rw [C18_postprocess_eq_levelOp, treeFile_code_order (levelOp_natural _ c)]

/-! ## multiset preservation (per module path) -/

theorem levelOp_levelPerm (fields g) (c : Config) : LevelPerm (α := α) fields g (levelOp fields c) := by
  intro path l h
  obtain ⟨m, s⟩ := c
  cases m <;> cases s <;> simp only [levelOp, Function.comp, if_true, if_false, Bool.false_eq_true]
  · exact List.Perm.refl _
  · exact sortLevel_inv_perm g path l
  · exact mergeLevel_inv_perm fields g path l h
  · exact (sortLevel_inv_perm g path _).trans (mergeLevel_inv_perm fields g path l h)

/-- **Multiset preservation (partial).**  For every module tree without mixed unsafety, every
configuration and module path: the inventory (plain items, module headers, and every foreign item
with its block's attributes, ABI **and unsafety**, each with its module path) of the processed
bindings is a permutation of that of the unprocessed ones. -/
theorem C18_inventory_perm_partial (c : Config) (items : List (Item α)) (path : List α)
    (h : mixedUnsafety items = false) :
    (invList id path (postprocess c items)).Perm (invList id path items) := by
  rw [C18_postprocess_eq_levelOp]
  exact treeFile_inv_perm (levelOp_levelPerm _ id c) path items
    (agreeFile_of_not_mixed C18_key_has_attrs_abi.1 C18_key_has_attrs_abi.2 items h)

/-- **Multiset preservation modulo unsafety (unconditional).**  Same with the unsafety of the block
erased: plain items, module headers and (attrs, abi, foreign item) triples are always preserved. -/
theorem C18_inventory_perm_modulo_unsafety (c : Config) (items : List (Item α)) (path : List α) :
    (invList (fun _ => false) path (postprocess c items)).Perm (invList (fun _ => false) path items) := by
  rw [C18_postprocess_eq_levelOp]
  have ha := agree_const (α := α) C18_key_has_attrs_abi.1 C18_key_has_attrs_abi.2 false
  exact treeFile_inv_perm (levelOp_levelPerm _ _ c) path items ⟨ha _, agreeList_of_forall ha items⟩

/-- with `unsafety` in the compared fields the full inventory is preserved for every input -/
theorem C18_inventory_perm_of_unsafety_key (fields : List MergeField) (ha : MergeField.attrs ∈ fields)
    (hb : MergeField.abi ∈ fields) (hu : MergeField.unsafety ∈ fields)
    (c : Config) (items : List (Item α)) (path : List α) :
    (invList id path (postprocessWith fields [.mergeExternBlocks, .sortSemantically] c items)).Perm
      (invList id path items) := by
  rw [postprocessWith_eq_levelOp]
  have h := agree_of_unsafety_key (α := α) ha hb hu
  exact treeFile_inv_perm (levelOp_levelPerm _ id c) path items ⟨h _, agreeList_of_forall h items⟩

/-- the non-foreign items of a level are not touched by merging: same list, same order -/
theorem C18_merge_keeps_nonforeign (fields) (l : List (Item α)) :
    others (mergeLevel fields l) = others l := others_mergeLevel fields l

/-! ### the excluded region: negation with a concrete witness -/

/-- `extern "C" { fn raw(); }` (from a module raw line) followed by bindgen's
`unsafe extern "C" { fn f(); }` in one module -/
def witnessMixed : List (Item Nat) :=
  [.module 9 [.foreign ⟨0, 0, false, [1]⟩, .foreign ⟨0, 0, true, [2]⟩]]

theorem witnessMixed_in_region : mixedUnsafety witnessMixed = true := by decide

/-- **Negation.**  With the present key (attrs, abi) merging moves `f` out of its `unsafe extern`
block into the non-`unsafe` one: the tuple (attrs, abi, unsafe, f) is lost. -/
theorem C18_fails_on_mixed_unsafety :
    ¬ (invList id [] (postprocessWith [.attrs, .abi] [.mergeExternBlocks, .sortSemantically] ⟨true, false⟩
        witnessMixed)).Perm (invList id [] witnessMixed) := by
  intro h
  have hm : Entry.tuple [9] ⟨0, 0, true, 2⟩ ∈ invList id [] witnessMixed := by decide
  have hn : Entry.tuple [9] ⟨0, 0, true, 2⟩ ∉
      invList id [] (postprocessWith [.attrs, .abi] [.mergeExternBlocks, .sortSemantically] ⟨true, false⟩
        witnessMixed) := by decide
  exact hn (h.mem_iff.mpr hm)

/-- the generated key is the present one or the repaired one (else the theorems above must be revisited) -/
theorem C18_key_cases : mergeKeyFields = [.attrs, .abi] ∨ mergeKeyFields = [.attrs, .abi, .unsafety] := by
  decide

/-! ## merged only into a block with equal key; order inside a merged block -/

theorem foreign_filter_eq (l : List (Item α)) :
    (blocksOf l).map Item.foreign = l.filter Item.isForeign := by
  induction l with
  | nil => rfl
  | cons x xs ih =>
    cases x <;> simp_all [blocksOf, Item.asForeign, Item.isForeign, List.filterMap_cons, List.filter_cons]

/-- a predicate that fixes the rank is kept in order by the stable sort -/
theorem stableSort_filter_of_rank {β : Type} (key : β → Nat) (q : β → Bool) (r : Nat)
    (hq : ∀ x, q x = true → key x = r) (l : List β) :
    (stableSort key l).filter q = l.filter q := by
  have e : ∀ l : List β, l.filter q = (l.filter (fun a => key a == r)).filter q := by
    intro l
    rw [List.filter_filter]
    apply List.filter_congr
    intro x _
    by_cases hx : q x = true
    · simp [hx, hq x hx]
    · simp [hx]
  rw [e (stableSort key l), stableSort_filter, ← e]

theorem blocksOf_sortLevel (l : List (Item α)) : blocksOf (sortLevel l) = blocksOf l := by
  have h : (sortLevel l).filter Item.isForeign = l.filter Item.isForeign := by
    apply stableSort_filter_of_rank Item.rank Item.isForeign (sortRank .foreignMod)
    intro x hx
    cases x <;> simp_all [Item.isForeign, Item.rank]
  have := congrArg blocksOf h
  rw [← foreign_filter_eq, ← foreign_filter_eq, blocksOf_map_foreign, blocksOf_map_foreign] at this
  exact this

/-- the extern blocks of a processed level, in order -/
theorem C18_blocks_of_level (fields) (c : Config) (l : List (Item α)) :
    blocksOf (levelOp fields c l) = if c.merge then mergeBlocks fields (blocksOf l) else blocksOf l := by
  obtain ⟨m, s⟩ := c
  cases m <;> cases s <;>
    simp [levelOp, blocksOf_sortLevel, blocksOf_mergeLevel]

/-- **Merged only with equal key; relative order inside a block.**  Every block `b` of a merged
level has the attributes, ABI and unsafety of an input block `f` of that level, and its items are
exactly the items of the input blocks whose key equals `f`'s, concatenated in input order. -/
theorem C18_merge_same_key_only (fields) (s : Bool) (l : List (Item α)) :
    ∀ b ∈ blocksOf (levelOp fields ⟨true, s⟩ l), ∃ f ∈ blocksOf l, SameHead b f ∧
      b.items = itemsOf ((blocksOf l).filter (keyEq fields f)) := by
  rw [C18_blocks_of_level]
  exact mergeBlocks_spec fields (blocksOf l)

/-- after merging no two blocks of a level have equal keys -/
theorem C18_merge_keys_distinct (fields) (s : Bool) (l : List (Item α)) :
    (blocksOf (levelOp fields ⟨true, s⟩ l)).Pairwise (fun a b => keyEq fields a b = false) := by
  rw [C18_blocks_of_level]
  exact mergeBlocks_pairwise fields (blocksOf l)

/-- without merging the blocks are untouched (sorting keeps them, in order) -/
theorem C18_blocks_untouched_without_merge (fields) (s : Bool) (l : List (Item α)) :
    blocksOf (levelOp fields ⟨false, s⟩ l) = blocksOf l := by
  rw [C18_blocks_of_level]; rfl

/-! ## sorting: sorted, permutation, stable -/

theorem C18_sort_perm (l : List (Item α)) : (sortLevel l).Perm l := stableSort_perm _ l

theorem C18_sort_sorted (l : List (Item α)) : (sortLevel l).Pairwise (fun a b => a.rank ≤ b.rank) :=
  stableSort_sorted _ l

/-- items of one rank keep their relative order -/
theorem C18_sort_stable (l : List (Item α)) (k : Nat) :
    (sortLevel l).filter (fun a => a.rank == k) = l.filter (fun a => a.rank == k) :=
  stableSort_filter _ l k

/-- every stable sort by rank (sorted, per-rank order kept) returns the model's list: modelling
`sort_by_key` by insertion sort loses nothing -/
theorem C18_stable_sort_unique (l l' : List (Item α)) (hs : l'.Pairwise (fun a b => a.rank ≤ b.rank))
    (hst : ∀ k, l'.filter (fun a => a.rank == k) = l.filter (fun a => a.rank == k)) : l' = sortLevel l :=
  stableSort_unique _ l l' hs hst

/-- **Relative order within a kind.**  For every configuration: the non-foreign items selected by
any predicate that fixes the rank (all plain items of one `syn::Item` variant; all inline modules)
appear in the processed level exactly as in the unprocessed one. -/
theorem C18_level_order_within_kind (fields) (c : Config) (q : Item α → Bool) (r : Nat)
    (hq : ∀ x, q x = true → x.rank = r ∧ x.isForeign = false) (l : List (Item α)) :
    (levelOp fields c l).filter q = l.filter q := by
  have hm : (mergeLevel fields l).filter q = l.filter q := by
    have e : ∀ l : List (Item α), l.filter q = (others l).filter q := by
      intro l
      rw [others, List.filter_filter]
      apply List.filter_congr
      intro x _
      by_cases hx : q x = true
      · simp [hx, (hq x hx).2]
      · simp [hx]
    rw [e (mergeLevel fields l), others_mergeLevel, ← e]
  have hs : ∀ l : List (Item α), (sortLevel l).filter q = l.filter q :=
    stableSort_filter_of_rank Item.rank q r (fun x hx => (hq x hx).1)
  obtain ⟨m, s⟩ := c
  cases m <;> cases s <;> simp [levelOp, hm, hs]

def isPlainOfKind (k : ItemKind) : Item α → Bool
  | .plain k' _ => k' == k
  | _ => false

/-- plain items of one `syn::Item` variant keep their relative order -/
theorem C18_sort_stable_within_kind (fields) (c : Config) (k : ItemKind) (l : List (Item α)) :
    (levelOp fields c l).filter (isPlainOfKind k) = l.filter (isPlainOfKind k) := by
  apply C18_level_order_within_kind fields c _ (sortRank k)
  intro x hx
  cases x <;> simp_all [isPlainOfKind, Item.rank, Item.isForeign]

/-! ## idempotence -/

theorem C18_merge_idem (fields) (l : List (Item α)) :
    mergeLevel fields (mergeLevel fields l) = mergeLevel fields l := mergeLevel_idem fields l

theorem C18_sort_idem (l : List (Item α)) : sortLevel (sortLevel l) = sortLevel l := stableSort_idem _ l

/-- **A level that is already in rank order is left exactly as it is** (not only "sorted again gives
the same": any hand-ordered or previously processed level) -/
theorem C18_sort_of_sorted (l : List (Item α)) (h : l.Pairwise (fun a b => a.rank ≤ b.rank)) :
    sortLevel l = l := stableSort_of_sorted _ l h

/-- the sort neither drops nor duplicates: same length, same membership -/
theorem C18_sort_length_mem (l : List (Item α)) :
    (sortLevel l).length = l.length ∧ ∀ x, x ∈ sortLevel l ↔ x ∈ l :=
  ⟨(C18_sort_perm l).length_eq, fun _ => (C18_sort_perm l).mem_iff⟩

theorem filter_rank_others (k : Nat) (l : List (Item α)) :
    (others l).filter (fun a => a.rank == k) = others (l.filter (fun a => a.rank == k)) := by
  simp only [others, List.filter_filter]
  apply List.filter_congr
  intro x _
  exact Bool.and_comm _ _

theorem filter_rank_foreign (k : Nat) (l : List (Item α)) :
    (l.filter Item.isForeign).filter (fun a => a.rank == k) = (l.filter (fun a => a.rank == k)).filter Item.isForeign := by
  simp only [List.filter_filter]
  apply List.filter_congr
  intro x _
  exact Bool.and_comm _ _

/-- merge ∘ sort ∘ merge: once the blocks have distinct keys and come last, sorting and merging
again only moves the blocks to the end again, and the next sort puts them back -/
theorem sort_merge_idem (fields) (l : List (Item α)) :
    sortLevel (mergeLevel fields (sortLevel (mergeLevel fields l))) = sortLevel (mergeLevel fields l) := by
  -- y = merged level, s = sorted y
  have hy : mergeLevel fields l = others (mergeLevel fields l) ++ (mergeLevel fields l).filter Item.isForeign := by
    conv => lhs; rw [mergeLevel_eq]
    rw [others_mergeLevel, ← foreign_filter_eq, blocksOf_mergeLevel]
  have hms : mergeLevel fields (sortLevel (mergeLevel fields l))
      = others (sortLevel (mergeLevel fields l)) ++ (sortLevel (mergeLevel fields l)).filter Item.isForeign := by
    rw [mergeLevel_eq, blocksOf_sortLevel, blocksOf_mergeLevel, mergeBlocks_idem, ← blocksOf_mergeLevel,
      ← blocksOf_sortLevel (mergeLevel fields l), foreign_filter_eq]
  rw [hms]
  symm
  apply stableSort_unique
  · exact stableSort_sorted _ _
  · intro k
    rw [List.filter_append, filter_rank_others, filter_rank_foreign]
    have hst := stableSort_filter Item.rank (mergeLevel fields l) k
    unfold sortLevel
    rw [hst]
    rw [← filter_rank_others, ← filter_rank_foreign, ← List.filter_append, ← hy]

theorem levelOp_idem (fields) (c : Config) (l : List (Item α)) :
    levelOp fields c (levelOp fields c l) = levelOp fields c l := by
  obtain ⟨m, s⟩ := c
  cases m <;> cases s <;> simp only [levelOp, Function.comp, if_true, if_false, Bool.false_eq_true]
  · exact C18_sort_idem l
  · exact C18_merge_idem fields l
  · exact sort_merge_idem fields l

/-- **Idempotence.**  Applying the selected passes to already processed bindings changes nothing
(every module tree, all four configurations). -/
theorem C18_post_idem (c : Config) (items : List (Item α)) :
    postprocess c (postprocess c items) = postprocess c items := by
  rw [C18_postprocess_eq_levelOp, C18_postprocess_eq_levelOp]
  exact treeFile_idem (levelOp_natural _ c) (levelOp_idem _ c) items

/-- with both passes off the bindings are returned unchanged -/
theorem C18_off_is_identity (items : List (Item α)) : postprocess ⟨false, false⟩ items = items := by
  rw [C18_postprocess_eq_levelOp]
  exact treeFile_id items

/-! ## the full statement and its status -/

/-- FULL statement of C18 on the model, as a function of the compared fields: for every module tree,
configuration and path — inventory with unsafety preserved, idempotence. (Order within a kind, merge
only with equal key and order inside blocks are `C18_level_order_within_kind`,
`C18_merge_same_key_only`, which hold for every `fields`.) -/
def C18_statement_for (fields : List MergeField) : Prop :=
  ∀ (c : Config) (items : List (Item Nat)) (path : List Nat),
    (invList id path (postprocessWith fields [.mergeExternBlocks, .sortSemantically] c items)).Perm
      (invList id path items) ∧
    postprocessWith fields [.mergeExternBlocks, .sortSemantically] c
      (postprocessWith fields [.mergeExternBlocks, .sortSemantically] c items)
      = postprocessWith fields [.mergeExternBlocks, .sortSemantically] c items

theorem C18_statement_of_unsafety_key : C18_statement_for [.attrs, .abi, .unsafety] := by
  intro c items path
  refine ⟨C18_inventory_perm_of_unsafety_key _ (by decide) (by decide) (by decide) c items path, ?_⟩
  rw [postprocessWith_eq_levelOp, postprocessWith_eq_levelOp]
  exact treeFile_idem (levelOp_natural _ c) (levelOp_idem _ c) items

theorem C18_statement_fails_today : ¬ C18_statement_for [.attrs, .abi] :=
  fun h => C18_fails_on_mixed_unsafety (h ⟨true, false⟩ witnessMixed []).1

/-! ## non-vacuity -/

/-- a level with two ABIs, a block attribute, interleaved plain items and a nested module -/
def sampleLevel : List (Item Nat) :=
  [.foreign ⟨0, 1, true, [10]⟩, .plain .fn 20, .plain .type 21, .foreign ⟨0, 2, true, [11]⟩,
   .module 30 [.foreign ⟨5, 1, true, [12]⟩, .plain .const 22, .foreign ⟨5, 1, true, [13]⟩],
   .foreign ⟨0, 1, true, [14, 15]⟩, .plain .struct 23, .plain .fn 24]

example : mixedUnsafety sampleLevel = false := by decide
example : postprocess ⟨true, true⟩ sampleLevel =
    [.plain .type 21, .plain .struct 23, .plain .fn 20, .plain .fn 24,
     .module 30 [.plain .const 22, .foreign ⟨5, 1, true, [12, 13]⟩],
     .foreign ⟨0, 1, true, [10, 14, 15]⟩, .foreign ⟨0, 2, true, [11]⟩] := by rfl
example : invList id [] (postprocess ⟨true, true⟩ sampleLevel) ≠ invList id [] sampleLevel := by decide
example : (invList id [] (postprocess ⟨true, true⟩ sampleLevel)).Perm (invList id [] sampleLevel) :=
  C18_inventory_perm_partial _ _ _ (by decide)
example : postprocessWith [.attrs, .abi] [.mergeExternBlocks, .sortSemantically] ⟨true, false⟩ witnessMixed
    = [.module 9 [.foreign ⟨0, 0, false, [1, 2]⟩]] := by rfl

end BindgenModel.Post
