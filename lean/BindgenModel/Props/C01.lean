import BindgenModel.Model.Names
/-! # C01 — generated bindings compile for every accepted header and option set (partial)

Compilation by rustc is outside any model.  What is logic is proved here: identifiers produced by
`rust_mangle` are never keywords and never contain the characters the function replaces; the
keyword table regenerated from the source covers Rust's strict and reserved keywords of every
edition; `rust_mangle` is injective only on a region (witness otherwise); the overload numbering of
`CodegenResult` yields unique names only on a region (witness otherwise). -/
namespace BindgenModel.Names
open BindgenModel.Generated

/-- FULL statement on the model (identifier half): distinct C names give distinct, legal Rust
identifiers.  FALSE in general — see the `_fails_` lemmas. -/
def C01_names_statement : Prop :=
  (∀ n : Ident, isKeyword (rustMangle n) = false) ∧
  (∀ a b : Ident, rustMangle a = rustMangle b → a = b) ∧
  (∀ cs : List Ident, (assignNames cs).Nodup)

/-! ## table obligations (break when the source table changes) -/

/-- no listed keyword other than the one-character suffix itself ends with the suffix -/
theorem C01_kw_table_suffix : ∀ k ∈ keywords, k.getLast? = some mangleSuffix → k.length = 1 := by decide

theorem C01_kw_table_suffix_not_trigger : isTrigger mangleSuffix = false := by decide

/-- Rust's strict and reserved keywords (reference: The Rust Reference, "Keywords") per edition;
`_` is the reserved identifier. -/
def rustKeywords2015 : List Ident := [
  ['a','s'], ['b','r','e','a','k'], ['c','o','n','s','t'], ['c','o','n','t','i','n','u','e'], ['c','r','a','t','e'],
  ['e','l','s','e'], ['e','n','u','m'], ['e','x','t','e','r','n'], ['f','a','l','s','e'], ['f','n'], ['f','o','r'],
  ['i','f'], ['i','m','p','l'], ['i','n'], ['l','e','t'], ['l','o','o','p'], ['m','a','t','c','h'], ['m','o','d'],
  ['m','o','v','e'], ['m','u','t'], ['p','u','b'], ['r','e','f'], ['r','e','t','u','r','n'], ['s','e','l','f'],
  ['S','e','l','f'], ['s','t','a','t','i','c'], ['s','t','r','u','c','t'], ['s','u','p','e','r'], ['t','r','a','i','t'],
  ['t','r','u','e'], ['t','y','p','e'], ['u','n','s','a','f','e'], ['u','s','e'], ['w','h','e','r','e'], ['w','h','i','l','e'],
  -- reserved
  ['a','b','s','t','r','a','c','t'], ['b','e','c','o','m','e'], ['b','o','x'], ['d','o'], ['f','i','n','a','l'],
  ['m','a','c','r','o'], ['o','v','e','r','r','i','d','e'], ['p','r','i','v'], ['t','y','p','e','o','f'],
  ['u','n','s','i','z','e','d'], ['v','i','r','t','u','a','l'], ['y','i','e','l','d'], ['_']]

def rustKeywords2018 : List Ident := rustKeywords2015 ++ [['a','s','y','n','c'], ['a','w','a','i','t'], ['d','y','n'], ['t','r','y']]
def rustKeywords2021 : List Ident := rustKeywords2018
def rustKeywords2024 : List Ident := rustKeywords2021 ++ [['g','e','n']]

/-- the regenerated keyword list COVERS the keywords of every edition (dropping one breaks this) -/
theorem C01_kw_table_covers_2018 : ∀ k ∈ rustKeywords2018, isKeyword k = true := by decide
theorem C01_kw_table_covers_2021 : ∀ k ∈ rustKeywords2021, isKeyword k = true := by decide
theorem C01_kw_table_covers_2024 : ∀ k ∈ rustKeywords2024, isKeyword k = true := by decide

/-! ## `rust_mangle` -/

theorem rustMangle_of_clean {n : Ident} (h : (hasTrigger n || isKeyword n) = false) : rustMangle n = n := by
  simp [rustMangle, h]

theorem rustMangle_of_dirty {n : Ident} (h : (hasTrigger n || isKeyword n) = true) :
    rustMangle n = n.map applyRepl ++ [mangleSuffix] := by
  simp [rustMangle, h]

theorem ne_nil_of_dirty {n : Ident} (h : (hasTrigger n || isKeyword n) = true) : n ≠ [] := by
  intro hn
  subst hn
  revert h
  decide

/-- `mangle_not_keyword`: for EVERY string, the result is not in the keyword list. -/
theorem C01_mangle_not_keyword (n : Ident) : isKeyword (rustMangle n) = false := by
  cases h : (hasTrigger n || isKeyword n) with
  | false =>
    rw [rustMangle_of_clean h]
    simp only [Bool.or_eq_false_iff] at h
    exact h.2
  | true =>
    rw [rustMangle_of_dirty h]
    cases hk : isKeyword (n.map applyRepl ++ [mangleSuffix]) with
    | false => rfl
    | true =>
      have hmem : (n.map applyRepl ++ [mangleSuffix]) ∈ keywords := by
        simpa [isKeyword] using hk
      have hl := C01_kw_table_suffix _ hmem (by simp)
      have hne := ne_nil_of_dirty h
      cases n with
      | nil => exact absurd rfl hne
      | cons x t => simp at hl

theorem applyRepl_not_trigger (x : Char) : isTrigger (applyRepl x) = false := by
  by_cases h1 : x = '@'
  · subst h1; decide
  · by_cases h2 : x = '?'
    · subst h2; decide
    · by_cases h3 : x = '$'
      · subst h3; decide
      · simp [applyRepl, replacements, isTrigger, triggerChars, h1, h2, h3]

theorem applyRepl_of_not_trigger (x : Char) (h : isTrigger x = false) : applyRepl x = x := by
  have h' : x ≠ '@' ∧ x ≠ '?' ∧ x ≠ '$' := by
    simpa [isTrigger, triggerChars] using h
  simp [applyRepl, replacements, h'.1, h'.2.1, h'.2.2]

/-- `mangle_no_illegal_char`: none of `@ ? $` occurs in the result. -/
theorem C01_mangle_no_illegal_char (n : Ident) : hasTrigger (rustMangle n) = false := by
  cases h : (hasTrigger n || isKeyword n) with
  | false =>
    rw [rustMangle_of_clean h]
    simp only [Bool.or_eq_false_iff] at h
    exact h.1
  | true =>
    rw [rustMangle_of_dirty h]
    simp only [hasTrigger, List.any_append, List.any_map, List.any_cons, List.any_nil, Bool.or_false,
      C01_kw_table_suffix_not_trigger]
    rw [List.any_eq_false]
    intro x _
    simp [applyRepl_not_trigger]

/-- mangling is idempotent: the identifier used at the definition (`rust_ident(canonical_name)`)
equals the canonical name -/
theorem C01_mangle_idempotent (n : Ident) : rustMangle (rustMangle n) = rustMangle n := by
  apply rustMangle_of_clean
  simp [C01_mangle_no_illegal_char, C01_mangle_not_keyword]

/-- non-injectivity witnesses: `match` / `match_`, and `a$` / `a__` -/
theorem C01_mangle_fails_injective_keyword :
    rustMangle ['m','a','t','c','h'] = rustMangle ['m','a','t','c','h','_'] ∧
      (['m','a','t','c','h'] : Ident) ≠ ['m','a','t','c','h','_'] := by decide

theorem C01_mangle_fails_injective_dollar :
    rustMangle ['a','$'] = rustMangle ['a','_','_'] ∧ (['a','$'] : Ident) ≠ ['a','_','_'] := by decide

theorem C01_mangleCollision_witness : mangleCollision ['m','a','t','c','h'] ['m','a','t','c','h','_'] = true := by decide

theorem map_applyRepl_clean (n : Ident) (h : hasTrigger n = false) : n.map applyRepl = n := by
  induction n with
  | nil => rfl
  | cons x t ih =>
    simp only [hasTrigger, List.any_cons, Bool.or_eq_false_iff] at h
    simp only [List.map_cons]
    rw [applyRepl_of_not_trigger x h.1, ih (by simpa [hasTrigger] using h.2)]

/-- `mangle_injective_partial`: injective on names without `@ ? $` that do not end in `_`. -/
theorem C01_mangle_injective_partial (a b : Ident)
    (ha : hasTrigger a = false) (hb : hasTrigger b = false)
    (ea : a.getLast? ≠ some mangleSuffix) (eb : b.getLast? ≠ some mangleSuffix)
    (h : rustMangle a = rustMangle b) : a = b := by
  cases hka : isKeyword a <;> cases hkb : isKeyword b
  · rwa [rustMangle_of_clean (by simp [ha, hka]), rustMangle_of_clean (by simp [hb, hkb])] at h
  · rw [rustMangle_of_clean (by simp [ha, hka]), rustMangle_of_dirty (by simp [hkb]), map_applyRepl_clean b hb] at h
    exact absurd (by rw [h]; simp) ea
  · rw [rustMangle_of_dirty (by simp [hka]), rustMangle_of_clean (by simp [hb, hkb]), map_applyRepl_clean a ha] at h
    exact absurd (by rw [← h]; simp) eb
  · rw [rustMangle_of_dirty (by simp [hka]), rustMangle_of_dirty (by simp [hkb]),
      map_applyRepl_clean a ha, map_applyRepl_clean b hb] at h
    exact List.append_cancel_right h

/-! ## overload numbering -/

/-- the uniqueness statement is FALSE: C++ `void foo(int); void foo(char); void foo1();` -/
theorem C01_names_unique_fails_on_suffix_clash :
    assignNames [['f','o','o'], ['f','o','o'], ['f','o','o','1']] = [['f','o','o'], ['f','o','o','1'], ['f','o','o','1']] ∧
      ¬ (assignNames [['f','o','o'], ['f','o','o'], ['f','o','o','1']]).Nodup ∧
      suffixClashRegion [['f','o','o'], ['f','o','o'], ['f','o','o','1']] = true := by decide

theorem C01_names_statement_false : ¬ C01_names_statement := by
  intro h
  exact C01_mangle_fails_injective_keyword.2 (h.2.1 _ _ C01_mangle_fails_injective_keyword.1)

theorem decimal_ne_nil (n : Nat) : decimal n ≠ [] := Nat.toDigits_ne_nil

theorem decimal_all_digits (n : Nat) : (decimal n).all Char.isDigit = true := by
  rw [List.all_eq_true]
  intro c hc
  exact Nat.isDigit_of_mem_toDigits (by decide) (by decide) hc

theorem decimal_inj {a b : Nat} (h : decimal a = decimal b) : a = b := by
  have ha := @Nat.ofDigitChars_ten_toDigits a
  have hb := @Nat.ofDigitChars_ten_toDigits b
  unfold decimal at h
  rw [h] at ha
  omega

/-- the suffix appended for overload number `k` -/
def suf (k : Nat) : Ident := if k = 0 then [] else decimal k

theorem suf_all_digits (k : Nat) : (suf k).all Char.isDigit = true := by
  unfold suf; split
  · rfl
  · exact decimal_all_digits k

theorem suf_inj {a b : Nat} (h : suf a = suf b) : a = b := by
  unfold suf at h
  split at h <;> split at h
  · omega
  · exact absurd h.symm (decimal_ne_nil b)
  · exact absurd h (decimal_ne_nil a)
  · exact decimal_inj h

theorem digitExtends_of_append {c a : Ident} (hne : a ≠ []) (hd : a.all Char.isDigit = true) :
    digitExtends c (c ++ a) = true := by
  unfold digitExtends
  have hl : 0 < a.length := List.length_pos_iff.mpr hne
  simp [hd, hl]

/-- two names extended by digit strings coincide only if they are equal or one digit-extends the other -/
theorem append_digits_eq {c c' d d' : Ident} (hd : d.all Char.isDigit = true) (hd' : d'.all Char.isDigit = true)
    (h : c ++ d = c' ++ d') (hne : c ≠ c') : digitExtends c c' = true ∨ digitExtends c' c = true := by
  rcases List.append_eq_append_iff.mp h with ⟨a, hc', hd2⟩ | ⟨a, hc, hd2⟩
  · left
    have hane : a ≠ [] := by
      intro ha; subst ha; simp at hc'; exact hne hc'.symm
    have hall : a.all Char.isDigit = true := by
      rw [hd2] at hd
      simp only [List.all_append, Bool.and_eq_true] at hd
      exact hd.1
    rw [hc']
    exact digitExtends_of_append hane hall
  · right
    have hane : a ≠ [] := by
      intro ha; subst ha; simp at hc; exact hne hc
    have hall : a.all Char.isDigit = true := by
      rw [hd2] at hd'
      simp only [List.all_append, Bool.and_eq_true] at hd'
      exact hd'.1
    rw [hc]
    exact digitExtends_of_append hane hall

theorem countOf_cons_self (xs : List Ident) (x : Ident) : countOf (x :: xs) x = countOf xs x + 1 := by
  simp [countOf]

theorem countOf_cons_le (xs : List Ident) (x y : Ident) : countOf xs y ≤ countOf (x :: xs) y := by
  simp only [countOf, List.filter_cons]
  split <;> simp

/-- shape of every output element -/
theorem assignNamesAux_shape (cs counted : List Ident) :
    ∀ e ∈ assignNamesAux cs counted, ∃ c ∈ cs, ∃ k, countOf counted c ≤ k ∧ e = c ++ suf k := by
  induction cs generalizing counted with
  | nil => simp [assignNamesAux]
  | cons c rest ih =>
    intro e he
    simp only [assignNamesAux, List.mem_cons] at he
    rcases he with he | he
    · refine ⟨c, by simp, countOf counted c, Nat.le_refl _, ?_⟩
      rw [he]; unfold suf; split <;> simp_all
    · obtain ⟨c', hc', k, hk, hek⟩ := ih (c :: counted) e he
      exact ⟨c', List.mem_cons_of_mem _ hc', k, Nat.le_trans (countOf_cons_le counted c c') hk, hek⟩

theorem assignNamesAux_nodup (cs counted : List Ident)
    (hreg : ∀ a ∈ cs, ∀ b ∈ cs, digitExtends a b = false) : (assignNamesAux cs counted).Nodup := by
  induction cs generalizing counted with
  | nil => simp [assignNamesAux]
  | cons c rest ih =>
    simp only [assignNamesAux, List.nodup_cons]
    refine ⟨?_, ih (c :: counted) (fun a ha b hb => hreg a (List.mem_cons_of_mem _ ha) b (List.mem_cons_of_mem _ hb))⟩
    intro hmem
    obtain ⟨c', hc', k', hk', he⟩ := assignNamesAux_shape rest (c :: counted) _ hmem
    have hhead : (if countOf counted c = 0 then c else c ++ decimal (countOf counted c)) = c ++ suf (countOf counted c) := by
      unfold suf; split <;> simp_all
    rw [hhead] at he
    by_cases hcc : c = c'
    · subst hcc
      have := suf_inj (List.append_cancel_left he)
      rw [countOf_cons_self] at hk'
      omega
    · rcases append_digits_eq (suf_all_digits _) (suf_all_digits _) he hcc with h | h
      · rw [hreg c (by simp) c' (List.mem_cons_of_mem _ hc')] at h; exact absurd h (by decide)
      · rw [hreg c' (List.mem_cons_of_mem _ hc') c (by simp)] at h; exact absurd h (by decide)

/-- `names_unique_partial`: outside the region "some canonical name is another canonical name
followed by decimal digits", the names `Function::codegen` assigns within one module are pairwise
distinct, whatever the number of overloads. -/
theorem C01_names_unique_partial (cs : List Ident) (h : suffixClashRegion cs = false) :
    (assignNames cs).Nodup := by
  apply assignNamesAux_nodup
  intro a ha b hb
  unfold suffixClashRegion at h
  rw [List.any_eq_false] at h
  have := h a ha
  simp only [Bool.not_eq_true] at this
  rw [List.any_eq_false] at this
  simpa using this b hb

/-- non-vacuity: three overloads and an unrelated function -/
example : suffixClashRegion [['f'], ['f'], ['f'], ['g']] = false ∧
    assignNames [['f'], ['f'], ['f'], ['g']] = [['f'], ['f','1'], ['f','2'], ['g']] := by decide

example : rustMangle ['g','e','n'] = ['g','e','n','_'] ∧ rustMangle ['x','@','?'] = ['x','_','_','_'] ∧
    rustMangle ['f','o','o'] = ['f','o','o'] := by decide

end BindgenModel.Names
