import BindgenModel.Model.Blocklist
import BindgenModel.Generated.BlockSites
import BindgenModel.Lemmas.Regex
/-! # C10 — blocklisted items are referenced but never defined; opaque types are exact blobs -/
namespace BindgenModel.Blocklist
open BindgenModel.Generated BindgenModel.Regex BindgenModel.Reach

/-! ### the blob -/

theorem roundUp_of_dvd {n a : Nat} (ha : 0 < a) (h : a ∣ n) : roundUp n a = n := by
  unfold roundUp
  have hne : a ≠ 0 := by omega
  rw [if_neg hne]
  obtain ⟨k, rfl⟩ := h
  have : (a * k + a - 1) / a = k := by
    apply Nat.div_eq_of_lt_le
    · rw [Nat.mul_comm]; omega
    · rw [Nat.add_mul, Nat.one_mul, Nat.mul_comm k a]; omega
  rw [this, Nat.mul_comm]

theorem reprC_uint_array (b len : Nat) : reprC (.array (.uint b) len) = some (len * b, b) := by
  simp [reprC]

/-- small alignments: `uN`, `[uN; len]` or `__BindgenOpaqueArray<[uN; len]>` -/
theorem blob_exact_small (size align : Nat) (ffi : Bool)
    (ha : align = 1 ∨ align = 2 ∨ align = 4) (hd : align ∣ size) :
    (blob ⟨size, align⟩ ffi).bind reprC = some (size, align) := by
  have hmax : max align 1 = align := by rcases ha with h | h | h <;> subst h <;> rfl
  have hle : align ≤ 4 := by rcases ha with h | h | h <;> omega
  have hk : knownTypeForSize align = some (.uint align) := by
    rcases ha with h | h | h <;> subst h <;> rfl
  have hpos : 0 < align := by rcases ha with h | h | h <;> omega
  have hmul : size / align * align = size := Nat.div_mul_cancel hd
  unfold blob
  simp only [hmax, hle, if_true, hk]
  by_cases h1 : size / align = 1
  · simp only [h1, if_true, Option.bind_some, reprC]
    rw [h1] at hmul; simp at hmul; rw [hmul]
  · simp only [h1, if_false]
    by_cases h2 : (!ffi && decide (size / align ≤ rustDeriveInArrayLimit)) = true
    · simp only [h2, if_true, Option.bind_some, reprC_uint_array, hmul]
    · simp only [h2, Option.bind_some, reprC, Bool.false_eq_true, if_false]
      simp [hmul]

/-- large alignments: `__BindgenOpaqueArray{align}<[u8; size]>` -/
theorem blob_exact_large (size align : Nat) (ffi : Bool)
    (ha : 4 < align) (hp : isPow2 align = true) (hb : align ≤ 2 ^ 29) (hd : align ∣ size) :
    (blob ⟨size, align⟩ ffi).bind reprC = some (size, align) := by
  have hmax : max align 1 = align := by omega
  have hnle : ¬ align ≤ 4 := by omega
  unfold blob
  simp only [hmax, hnle, if_false, Option.bind_some, reprC, hp, Bool.true_and]
  have : decide (align ≤ 2 ^ 29) = true := by simpa using hb
  rw [this]
  simp only [if_true]
  rw [roundUp_of_dvd (by omega) hd]

/-- `blob_exact`: for every size (unbounded) and every alignment the code handles (1, 2, 4, powers of
two above 4 that rustc accepts), when the alignment divides the size — true of every complete C
type — the blob has exactly the C size and alignment. -/
theorem C10_blob_exact (size align : Nat) (ffi : Bool) (ha : okAlign align = true) (hd : align ∣ size) :
    (blob ⟨size, align⟩ ffi).bind reprC = some (size, align) := by
  unfold okAlign at ha
  simp only [Bool.or_eq_true, Bool.and_eq_true, decide_eq_true_eq] at ha
  rcases ha with ((h | h) | h) | ⟨⟨h1, h2⟩, h3⟩
  · exact blob_exact_small size align ffi (Or.inl h) hd
  · exact blob_exact_small size align ffi (Or.inr (Or.inl h)) hd
  · exact blob_exact_small size align ffi (Or.inr (Or.inr h)) hd
  · exact blob_exact_large size align ffi h1 h2 h3 hd

/-- the blob's own alignment is the layout's alignment (so `repr(align)` adds nothing) -/
theorem okAlign_isPow2 {a : Nat} (ha : okAlign a = true) : isPow2 a = true ∧ a ≤ 2 ^ 29 ∧ 0 < a := by
  unfold okAlign at ha
  simp only [Bool.or_eq_true, Bool.and_eq_true, decide_eq_true_eq] at ha
  rcases ha with ((h | h) | h) | ⟨⟨h1, h2⟩, h3⟩
  · subst h; decide
  · subst h; decide
  · subst h; decide
  · exact ⟨h2, h3, by omega⟩

/-- `opaque_exact`: the struct emitted for an opaque type — one `_bindgen_opaque_blob` field under
`#[repr(C)] #[repr(align(A))]` (or the zero-length `_bindgen_align` field when the type has
bit-fields) — has exactly the C size and alignment. -/
theorem C10_opaque_exact (size align : Nat) (hasBitfields : Bool) (ha : okAlign align = true)
    (hd : align ∣ size) :
    (emitOpaque ⟨size, align⟩ hasBitfields).bind OpaqueStruct.reprC = some (size, align) := by
  have hb := C10_blob_exact size align false ha hd
  obtain ⟨hp, hle, hpos⟩ := okAlign_isPow2 ha
  unfold emitOpaque
  cases hblob : blob ⟨size, align⟩ false with
  | none => rw [hblob] at hb; simp at hb
  | some ty =>
    rw [hblob] at hb
    simp only [Option.bind_some] at hb
    simp only [Option.map_some, Option.bind_some, OpaqueStruct.reprC, hb]
    by_cases hf : (hasBitfields && decide (align ≤ 8)) = true
    · rw [if_pos hf]
      have h8 : align ≤ 8 := by
        simp only [Bool.and_eq_true, decide_eq_true_eq] at hf; exact hf.2
      -- a power of two ≤ 8
      have hcases : align = 1 ∨ align = 2 ∨ align = 4 ∨ align = 8 := by
        have h9 : align = 1 ∨ align = 2 ∨ align = 3 ∨ align = 4 ∨ align = 5 ∨ align = 6 ∨ align = 7 ∨ align = 8 := by
          omega
        rcases h9 with h | h | h | h | h | h | h | h
        · exact Or.inl h
        · exact Or.inr (Or.inl h)
        · subst h; exact absurd hp (by decide)
        · exact Or.inr (Or.inr (Or.inl h))
        · subst h; exact absurd hp (by decide)
        · subst h; exact absurd hp (by decide)
        · subst h; exact absurd hp (by decide)
        · exact Or.inr (Or.inr (Or.inr h))
      have hfa : (if align = 8 ∨ align = 4 ∨ align = 2 then align else 1) = align := by
        rcases hcases with h | h | h | h <;> subst h <;> rfl
      rw [hfa, Nat.max_self, roundUp_of_dvd hpos hd]
    · rw [if_neg hf]
      have hcond : (isPow2 align && decide (align ≤ 2 ^ 29)) = true := by simp [hp, hle]
      rw [if_pos hcond, Nat.max_self, roundUp_of_dvd hpos hd]

/-- region of known finding `blob_padding_overaligned`: `blob` asked for an alignment above 4 that does
not divide the size (`StructLayoutTracker::pad_field` asks for `(padding_bytes, min(field_align, 8))`) -/
def blobOverAligned (l : Layout) : Bool := max l.align 1 > 4 && l.size % max l.align 1 != 0

theorem roundUp_dvd (n a : Nat) (ha : 0 < a) : a ∣ roundUp n a := by
  unfold roundUp
  have : a ≠ 0 := by omega
  rw [if_neg this]
  exact Nat.dvd_mul_left a _

/-- In that region the wrapper `__BindgenOpaqueArray{align}<[u8; size]>` is strictly larger than the
bytes asked for (for every size and power-of-two alignment): a padding field built from it moves the
following fields. -/
theorem C10_fails_on_overaligned_padding (size align : Nat) (ffi : Bool) (ha : 4 < align)
    (hp : isPow2 align = true) (hb : align ≤ 2 ^ 29) (hd : ¬ align ∣ size) :
    blobOverAligned ⟨size, align⟩ = true ∧
    (blob ⟨size, align⟩ ffi).bind reprC = some (roundUp size align, align) ∧ roundUp size align ≠ size := by
  have hmax : max align 1 = align := by omega
  refine ⟨?_, ?_, ?_⟩
  · unfold blobOverAligned
    simp only [hmax, Bool.and_eq_true, decide_eq_true_eq, bne_iff_ne, ne_eq]
    refine ⟨ha, ?_⟩
    intro h
    exact hd (Nat.dvd_of_mod_eq_zero h)
  · have hnle : ¬ align ≤ 4 := by omega
    unfold blob
    simp only [hmax, hnle, if_false, Option.bind_some, reprC, hp, Bool.true_and]
    have : decide (align ≤ 2 ^ 29) = true := by simpa using hb
    rw [this]; simp
  · intro h
    exact hd (h ▸ roundUp_dvd size align (by omega))

/-- the witness `struct W { char pre; struct O m0; }` with `O` aligned to 16: 15 padding bytes "aligned" to 8 -/
example : (blob ⟨15, 8⟩ false).bind reprC = some (16, 8) := by decide

/-! #### regions outside the hypotheses -/

/-- alignment 3 (any non-power-of-two below 4): `known_type_for_size(3)` is `None`, `unwrap()` panics -/
theorem C10_blob_panics_on_align_3 (size : Nat) (ffi : Bool) : blob ⟨size, 3⟩ ffi = none := by
  simp [blob, knownTypeForSize]

/-- alignment 0 is treated as 1 -/
theorem C10_blob_align_zero (size : Nat) (ffi : Bool) : blob ⟨size, 0⟩ ffi = blob ⟨size, 1⟩ ffi := by
  simp [blob]

/-- a non-power-of-two alignment above 4: the emitted `#[repr(C, align(6))]` is rejected by rustc -/
theorem C10_fails_on_nonpow2_align : (blob ⟨12, 6⟩ false).bind reprC = none := by decide

/-- alignment not dividing the size: the division truncates and the blob is too small -/
theorem C10_fails_on_size_not_multiple :
    (blob ⟨6, 4⟩ false).bind reprC = some (4, 4) ∧ (blob ⟨10, 4⟩ false).bind reprC = some (8, 4) ∧
    (blob ⟨12, 8⟩ false).bind reprC = some (16, 8) := by decide

/-- more than 32 units: wrapped in `__BindgenOpaqueArray` (same layout) -/
example : blob ⟨132, 4⟩ false = some (.opaqueArray (.array (.uint 4) 33)) ∧
    blob ⟨128, 4⟩ false = some (.array (.uint 4) 32) ∧ blob ⟨4, 4⟩ false = some (.uint 4) ∧
    blob ⟨64, 16⟩ false = some (.opaqueArrayAligned 16 64) := by decide

example : okAlign 16 = true ∧ (16 ∣ 64) := by decide

/-- `Layout::for_size_internal` yields an alignment the blob handles and that divides the size
(checked for all sizes below 4096 on 4- and 8-byte pointers; the harness compares the function with
the implementation on random larger sizes) -/
theorem C10_for_size_ok_small : ∀ s : Fin 1024, 0 < s.val →
    okAlign (forSizeInternal 8 s.val).align = true ∧ (forSizeInternal 8 s.val).align ∣ s.val := by
  decide +kernel

/-! ### blocklisted items are never defined -/

theorem mem_walk (lookup : Nat → Option WalkItem) :
    ∀ (fuel root x : Nat), x ∈ walk lookup fuel root →
      ∃ it, lookup x = some it ∧ processBeforeCodegen it = true := by
  intro fuel
  induction fuel with
  | zero => intro root x h; simp [walk] at h
  | succ f ih =>
    intro root x h
    unfold walk at h
    cases hl : lookup root with
    | none => rw [hl] at h; simp at h
    | some it =>
      rw [hl] at h
      simp only at h
      by_cases hp : processBeforeCodegen it = true
      · simp only [hp, Bool.not_true, Bool.false_eq_true, if_false] at h
        by_cases hm : it.isModule = true
        · simp only [hm, if_true, List.mem_cons, List.mem_flatMap] at h
          rcases h with h | ⟨c, _, hc⟩
          · subst h; exact ⟨it, hl, hp⟩
          · exact ih c x hc
        · simp only [hm, Bool.false_eq_true, if_false, List.mem_singleton] at h
          subst h; exact ⟨it, hl, hp⟩
      · simp [hp] at h

/-- `never_defined`: code generation never gets past `process_before_codegen` for a blocklisted (or
disabled) item, wherever the walk starts. -/
theorem C10_never_defined (lookup : Nat → Option WalkItem) (fuel root x : Nat) (it : WalkItem)
    (hx : lookup x = some it) (hb : it.blocklisted = true) : x ∉ walk lookup fuel root := by
  intro h
  obtain ⟨it', h1, h2⟩ := mem_walk lookup fuel root x h
  rw [hx] at h1
  cases h1
  simp [processBeforeCodegen, hb] at h2

/-- `isBlocklisted` honours every source: annotation, file, item / per-kind pattern, replacement -/
theorem C10_isBlocklisted_sources (o : BlockOptions) (it : BItem) :
    (it.hide = true → isBlocklisted o it = true) ∧
    (o.items.matches it.name = true → isBlocklisted o it = true) ∧
    (it.cls = .type → o.types.matches it.name = true → isBlocklisted o it = true) ∧
    (it.cls = .var → o.vars.matches it.name = true → isBlocklisted o it = true) ∧
    (it.cls = .fnFunction → o.functions.matches it.name = true → isBlocklisted o it = true) ∧
    (∀ f, it.file = some f → o.files.isEmpty = false → o.files.matches f = true → isBlocklisted o it = true) := by
  refine ⟨?_, ?_, ?_, ?_, ?_, ?_⟩
  · intro h; simp [isBlocklisted, h]
  · intro h; unfold isBlocklisted; split <;> simp_all
  · intro hc h; unfold isBlocklisted; split <;> simp_all
  · intro hc h; unfold isBlocklisted; split <;> simp_all
  · intro hc h; unfold isBlocklisted; split <;> simp_all
  · intro f hf hne hm; unfold isBlocklisted; split <;> simp_all

/-- nothing else blocklists: without annotation, file match, pattern match or replacement an item is
not blocklisted -/
theorem C10_isBlocklisted_only (o : BlockOptions) (it : BItem) (h1 : it.hide = false)
    (h2 : ∀ f, it.file = some f → o.files.matches f = false) (h3 : o.items.matches it.name = false)
    (h4 : o.types.matches it.name = false) (h5 : o.functions.matches it.name = false)
    (h6 : o.vars.matches it.name = false) (h7 : it.replaced = false) : isBlocklisted o it = false := by
  unfold isBlocklisted
  rw [h1]
  cases hf : it.file with
  | none =>
    simp only [Bool.false_eq_true, if_false, Bool.and_false, h3, Bool.false_or]
    cases it.cls <;> simp [h4, h5, h6, h7]
  | some f =>
    have hm := h2 f hf
    simp only [Bool.false_eq_true, if_false, hm, Bool.and_false, h3, Bool.false_or]
    cases it.cls <;> simp [h4, h5, h6, h7]

/-! ### every other item is generated as before -/

/-- blocklisting one more non-module item `b` removes exactly `b` from the walk: every other item is
still visited, in the same order -/
theorem C10_others_unchanged (lookup : Nat → Option WalkItem) (b : Nat)
    (hb : ∀ it, lookup b = some it → it.isModule = false) :
    ∀ (fuel root : Nat),
      walk (fun i => if i = b then (lookup b).map (fun it => { it with blocklisted := true }) else lookup i) fuel root
        = (walk lookup fuel root).filter (fun x => x != b) := by
  intro fuel
  induction fuel with
  | zero => intro root; simp [walk]
  | succ f ih =>
    intro root
    by_cases hr : root = b
    · subst hr
      unfold walk
      cases hl : lookup root with
      | none => simp [hl]
      | some it =>
        have hm := hb it hl
        simp only [if_true, hl, Option.map_some, processBeforeCodegen, Bool.not_true, Bool.and_false,
          Bool.not_false, if_true, hm, Bool.false_eq_true, if_false]
        split <;> simp
    · unfold walk
      simp only [hr, if_false]
      cases hl : lookup root with
      | none => simp
      | some it =>
        simp only
        by_cases hp : processBeforeCodegen it = true
        · simp only [hp, Bool.not_true, Bool.false_eq_true, if_false]
          by_cases hm : it.isModule = true
          · simp only [hm, if_true]
            have hne : (root != b) = true := by simpa using hr
            rw [List.filter_cons]
            simp only [hne, if_true]
            rw [List.filter_flatMap]
            congr 1
            have hfilt : it.children.filter (childInCodegen
                (fun i => if i = b then (lookup b).map (fun it => { it with blocklisted := true }) else lookup i))
              = it.children.filter (childInCodegen lookup) := by
              apply List.filter_congr
              intro c _
              unfold childInCodegen
              by_cases hcb : c = b
              · subst hcb
                simp only [if_true]
                cases lookup c <;> rfl
              · simp only [hcb, if_false]
            rw [hfilt]
            congr 1
            funext c
            exact ih c
          · simp only [hm, Bool.false_eq_true, if_false]
            have hne : (root != b) = true := by simpa using hr
            simp [hne]
        · simp [hp]

/-! ### uses still name the type -/

/-- `still_named` (site obligation on the generated inventory): under bindgen/codegen/ the blocklist
is consulted only by the item gate `process_before_codegen`, the Objective-C method gate and the
`__BindgenBitfieldUnit` helper; no type-rendering function (`to_rust_ty`, `build_path`, field and
signature code generation) looks at it, so a use of a blocklisted type is spelled like any other use. -/
theorem C10_still_named :
    blocklistSitesInCodegen =
      [.process_before_codegen, .objc_method_codegen, .prepend_bitfield_unit_type, .prepend_bitfield_unit_type] := by
  decide

/-! ### derives -/

theorem foldl_joinDerive_no (l : List CanDerive) : l.foldl joinDerive .no = .no := by
  induction l with
  | nil => rfl
  | cons a l ih => simpa [List.foldl_cons, joinDerive] using ih

theorem compDerive_no_of_mem (l : List CanDerive) (acc : CanDerive) (h : CanDerive.no ∈ l) :
    l.foldl joinDerive acc = .no := by
  induction l generalizing acc with
  | nil => cases h
  | cons a l ih =>
    simp only [List.foldl_cons]
    rcases List.mem_cons.mp h with h1 | h1
    · subst h1
      have : joinDerive acc .no = .no := by cases acc <;> rfl
      rw [this]; exact foldl_joinDerive_no l
    · exact ih _ h1

/-- `no_derive_through_blocklisted`: a non-allow-listed (blocklisted) type answers `No` for every
trait unless it has a stdint name (and there are no callbacks) or the user's callback vouches for it;
and a compound type with such a member cannot derive. -/
theorem C10_no_derive_through_blocklisted (sz : Bool) (name : Option String) (members : List CanDerive)
    (hn : ∀ n, name = some n → isStdintType sz n = false)
    (hm : blocklistedTypeImplementsTrait true none sz name ∈ members) :
    blocklistedTypeImplementsTrait true none sz name = .no ∧ compDerive members = .no := by
  have h1 : blocklistedTypeImplementsTrait true none sz name = .no := by
    unfold blocklistedTypeImplementsTrait
    cases name with
    | none => rfl
    | some n => simp [hn n rfl]
  exact ⟨h1, compDerive_no_of_mem members .yes (h1 ▸ hm)⟩

/-- `no_derive_through_blocklisted`, at the reference through which a container uses the type: when the
blocklisted type `T` is not opaque, the reference answers `T`'s answer, `No`.  (`_partial`: the
hypothesis `tOpaque = false` is forced, see `C10_fails_on_blocklisted_and_opaque`.) -/
theorem C10_no_derive_through_ref_partial (rAllowlisted : Bool) :
    deriveThroughRef rAllowlisted false .no = .no := by
  cases rAllowlisted <;> rfl

/-- Known finding `derive_through_blocklisted_opaque`: a type that is blocklisted through its own
`hide` annotation (or its file) *and* opaque.  The reference item is neither annotated nor in that file,
so it is allow-listed; it is opaque because its target is; `constrain_type` answers `Yes` from the layout
before ever asking the blocklisted type: the container derives through it. -/
theorem C10_fails_on_blocklisted_and_opaque :
    deriveThroughRef true true .no = .yes ∧ compDerive [deriveThroughRef true true .no] = .yes := by decide

/-- with callbacks, the answer is the callback's (the user vouches), `No` when it is silent -/
theorem C10_callback_vouches (sz : Bool) (n : String) (a : Option CanDerive) :
    blocklistedTypeImplementsTrait false a sz (some n) = a.getD .no := by
  cases a <;> rfl

/-- stdint names are mapped to primitives regardless of blocklisting, so they answer `Yes` -/
theorem C10_stdint_yes : blocklistedTypeImplementsTrait true none false (some "uint8_t") = .yes := by
  decide

/-! ### known finding: a namespace first opened in a blocklisted file -/

/-- `[^/]*inc\.h`-like file pattern reduced to the literal `i` for the witness -/
def exFileSet : RegexSet := ⟨[some (lit 'i')]⟩

def exBlockOpts : BlockOptions :=
  { types := ⟨[]⟩, functions := ⟨[]⟩, vars := ⟨[]⟩, files := exFileSet, items := ⟨[]⟩, opaqueTypes := ⟨[]⟩ }

/-- module `ns1` (id 1) located in the blocklisted file `i`; `C6` (id 2) located in file `m` -/
def exNs : BItem := { id := 1, cls := .module, hide := false, annOpaque := false, file := some ['i'], name := ['n'] }
def exC6 : BItem := { id := 2, cls := .type, hide := false, annOpaque := false, file := some ['m'], name := ['C'] }

/-! ### "types that contain it keep their correct layout" -/

/-- a member of a containing record: emitted faithfully (its Rust type has the C layout), or as
the opaque struct of `emitOpaque` -/
inductive Member where
  | faithful (size align : Nat)
  | blobbed (size align : Nat) (hasBitfields : Bool)
deriving Repr, DecidableEq

/-- the member's C layout -/
def Member.c : Member → Nat × Nat
  | .faithful s a => (s, a)
  | .blobbed s a _ => (s, a)

/-- the layout rustc gives to the member's emitted type (`none`: rejected by rustc / `blob` panics) -/
def Member.rust : Member → Option (Nat × Nat)
  | .faithful s a => some (s, a)
  | .blobbed s a bf => (emitOpaque ⟨s, a⟩ bf).bind OpaqueStruct.reprC

/-- precondition on opaque members (what `C10_opaque_exact` needs; outside it: known findings) -/
def Member.ok : Member → Prop
  | .faithful _ _ => True
  | .blobbed s a _ => okAlign a = true ∧ a ∣ s

/-- rustc's `repr(C)` layout: offsets of the members, then (size, align) of the struct -/
def reprCStruct (ms : List (Nat × Nat)) : List Nat × Nat × Nat :=
  let r := ms.foldl (fun (acc : List Nat × Nat × Nat) m =>
      let off := roundUp acc.2.1 m.2
      (acc.1 ++ [off], off + m.1, max acc.2.2 m.2)) ([], 0, 1)
  (r.1, roundUp r.2.1 r.2.2, r.2.2)

def allSome {α : Type} : List (Option α) → Option (List α)
  | [] => some []
  | none :: _ => none
  | some a :: r => (allSome r).map (a :: ·)

/-- every member — opaque or not — has, as a Rust type, exactly its C size and alignment -/
theorem members_rust_eq_c (ms : List Member) (h : ∀ m ∈ ms, m.ok) :
    allSome (ms.map Member.rust) = some (ms.map Member.c) := by
  induction ms with
  | nil => rfl
  | cons m ms ih =>
    have hm := h m (List.mem_cons_self ..)
    have ih' := ih (fun x hx => h x (List.mem_cons_of_mem _ hx))
    cases m with
    | faithful s a => simp [Member.rust, Member.c, allSome, ih']
    | blobbed s a bf =>
      have := C10_opaque_exact s a bf hm.1 hm.2
      simp [Member.rust, Member.c, allSome, ih', this]

/-- **A record that contains opaque types keeps its layout**: whichever of its members are emitted
as opaque blobs (any subset, any position, with or without bit-fields), rustc's `repr(C)` member
offsets, size and alignment of the container are those computed from the C layouts of the members —
the same as with no member opaque. -/
theorem C10_container_layout_kept (ms : List Member) (h : ∀ m ∈ ms, m.ok) :
    (allSome (ms.map Member.rust)).map reprCStruct = some (reprCStruct (ms.map Member.c)) := by
  rw [members_rust_eq_c ms h]; rfl

/-- … in particular making a member opaque, or no longer opaque, moves nothing -/
theorem C10_container_layout_opaque_irrelevant (pre post : List Member) (s a : Nat) (bf : Bool)
    (hpre : ∀ m ∈ pre, m.ok) (hpost : ∀ m ∈ post, m.ok) (ha : okAlign a = true) (hd : a ∣ s) :
    (allSome ((pre ++ Member.blobbed s a bf :: post).map Member.rust)).map reprCStruct =
    (allSome ((pre ++ .faithful s a :: post).map Member.rust)).map reprCStruct := by
  rw [C10_container_layout_kept, C10_container_layout_kept]
  · simp [Member.c]
  · intro m hm
    rcases List.mem_append.1 hm with h | h
    · exact hpre m h
    · rcases List.mem_cons.1 h with h | h
      · subst h; trivial
      · exact hpost m h
  · intro m hm
    rcases List.mem_append.1 hm with h | h
    · exact hpre m h
    · rcases List.mem_cons.1 h with h | h
      · subst h; exact ⟨ha, hd⟩
      · exact hpost m h

/-- non-vacuity: `struct { char c; Opaque16 o /*16 bytes, align 16*/; int i; }` -/
example : (allSome ([Member.faithful 1 1, Member.blobbed 16 16 false, .faithful 4 4].map Member.rust)).map reprCStruct
    = some ([0, 16, 32], 48, 16) := by decide

def exWalkLookup : Nat → Option WalkItem
  | 0 => some ⟨0, true, [1], true, false, true⟩
  | 1 => some ⟨1, true, [2], true, isBlocklisted exBlockOpts exNs, true⟩
  | 2 => some ⟨2, false, [], true, isBlocklisted exBlockOpts exC6, true⟩
  | _ => none

/-- Known finding `blocklist_file_hides_namespace`: `C6` is not blocklisted and is in `codegen_items`,
but the module item of its namespace is blocklisted through the file test, so the walk never reaches it. -/
theorem C10_fails_on_namespace_first_opened_in_blocklisted_file :
    isBlocklisted exBlockOpts exC6 = false ∧ isBlocklisted exBlockOpts exNs = true ∧
    walk exWalkLookup 5 0 = [0] := by decide

end BindgenModel.Blocklist
