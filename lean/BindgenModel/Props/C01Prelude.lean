import BindgenModel.Model.Prelude
/-!
# C01 — a helper type that any module uses is defined by the prelude

`C01_prelude_flag_reaches_root`: with the `|=` merge the root's flag is set iff some module of the tree
(any depth, any order) uses the helper type.  `C01_prelude_merges_in_source` is the source obligation
(regenerated `Generated/PreludeFlags.lean`): every `saw_*` flag of `CodegenResult` is merged with `|=`
in `CodegenResult::inner`.  Witnesses: with `=` a later sibling without the type resets the flag, with a
dropped line a nested module's use never reaches the root (seeded changes C01-4 and C01-7).
-/
namespace BindgenModel.Prelude
open BindgenModel.Generated

theorem flagList_or (acc : Bool) (cs : List Mod)
    (ih : ∀ c ∈ cs, c.flag .or = c.uses) :
    Mod.flag.flagList .or acc cs = (acc || Mod.uses.usesList cs) := by
  induction cs generalizing acc with
  | nil => simp [Mod.flag.flagList, Mod.uses.usesList]
  | cons c cs ihc =>
    simp only [Mod.flag.flagList, Mod.uses.usesList, merge]
    rw [ihc _ (fun d hd => ih d (List.mem_cons_of_mem _ hd)), ih c (List.mem_cons_self ..)]
    simp [Bool.or_assoc]

/-- **the `|=` merge carries every use to the root** -/
theorem C01_prelude_flag_reaches_root : ∀ t : Mod, t.flag .or = t.uses
  | .node own cs => by
    have ih : ∀ c ∈ cs, c.flag .or = c.uses := fun c _ => C01_prelude_flag_reaches_root c
    simp only [Mod.flag, Mod.uses]
    exact flagList_or own cs ih

/-- source obligation: every prelude flag of `CodegenResult` is `|=`-merged by `inner` -/
theorem C01_prelude_merges_in_source : preludeFlags.all (fun f => preludeFlagMerge f == .or) = true := by decide

/-- hence, for the code as it is, every flag reaches the root -/
theorem C01_prelude_now (f : String) (hf : f ∈ preludeFlags) (t : Mod) : t.flag (preludeFlagMerge f) = t.uses := by
  have h := C01_prelude_merges_in_source
  rw [List.all_eq_true] at h
  have := h f hf
  have e : preludeFlagMerge f = .or := by simpa using this
  rw [e]; exact C01_prelude_flag_reaches_root t

/-- witness (seeded change C01-4): with `=` a bit-field namespace followed by a plain sibling loses the helper type -/
theorem C01_prelude_overwrite_loses :
    (Mod.node false [.node true [], .node false []]).flag .overwrite = false ∧
    (Mod.node false [.node true [], .node false []]).uses = true := by decide

/-- witness (seeded change C01-7): with the merge line dropped a nested module's use never reaches the root -/
theorem C01_prelude_dropped_loses :
    (Mod.node false [.node true []]).flag .dropped = false ∧ (Mod.node false [.node true []]).uses = true := by decide

/-- non-vacuity of `C01_prelude_now` -/
example : "saw_bitfield_unit" ∈ preludeFlags := by decide

end BindgenModel.Prelude
