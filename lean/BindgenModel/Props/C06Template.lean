import BindgenModel.Model.LayoutTests
import BindgenModel.Model.Analyses
import BindgenModel.Generated.TemplateGate
/-!
# C06 — the gate of the per-instantiation assertion (`uses_any_template_parameters`)

`TemplateInstantiation::codegen` drops the size/alignment assertion when
`ctx.uses_any_template_parameters(item.id())`.  With `--no-recursive-allowlist` the map behind that
question is not computed by the analysis but filled with every allowlisted item's *own* template
parameters (`find_used_template_parameters`, ir/context.rs; `Analyses.templateNonRecursive`).  An
instantiation has no parameters of its own, so on that path the gate never closes: every concrete,
non-opaque instantiation with a known layout that is code-generated gets its assertion, wherever it
is declared (for instance as a member of a class template).
-/
namespace BindgenModel.C06
open BindgenModel.LayoutTests BindgenModel.Analyses BindgenModel.IR BindgenModel.Generated

/-- `selfParams` answers `[]` for everything that is not a record, a template alias or a reference
to one — in particular for an instantiation -/
theorem selfParams_inst (g : IR) (k n : Nat) (h : (g.get n).tk = .templateInstantiation) :
    selfParams g k n = [] := by
  cases k with
  | zero => rfl
  | succ k => simp [selfParams, h]

/-- what the map of the non-recursive path holds: exactly the allowlisted type items with own
parameters, each with those parameters -/
theorem mem_templateNonRecursive (g : IR) (e : Nat × List Nat) (h : e ∈ templateNonRecursive g) :
    (g.get e.1).allowlisted = true ∧ (g.get e.1).kind = .type ∧ e.2 = selfParams g g.size e.1 ∧ e.2 ≠ [] := by
  unfold templateNonRecursive at h
  rw [List.mem_filterMap] at h
  obtain ⟨n, _, hn⟩ := h
  by_cases ha : (g.get n).allowlisted = true
  · simp only [ha, if_true] at hn
    by_cases hk : (g.get n).kind = .type
    · have hk' : ((g.get n).kind == ItemKind.type) = true := by simp [hk]
      simp only [hk', if_true] at hn
      by_cases he : (selfParams g g.size n).isEmpty = true
      · simp [he] at hn
      · simp only [he] at hn
        have : e = (n, selfParams g g.size n) := by simpa using hn.symm
        subst this
        refine ⟨ha, hk, rfl, ?_⟩
        intro h0
        apply he
        have h1 : selfParams g g.size n = [] := h0
        simp [h1]
    · have hk' : ((g.get n).kind == ItemKind.type) = false := by simp [hk]
      simp [hk'] at hn
  · have : (g.get n).allowlisted = false := by simpa using ha
    simp [this] at hn

/-- **the gate never closes for an instantiation on the non-recursive path** -/
theorem C06_nonrecursive_inst_not_gated (g : IR) (n : Nat) (h : (g.get n).tk = .templateInstantiation) :
    usesAny (templateNonRecursive g) n = false := by
  unfold usesAny
  cases hf : (templateNonRecursive g).find? (·.1 == n) with
  | none => rfl
  | some e =>
    have hm := List.mem_of_find?_eq_some hf
    have hp := List.find?_some hf
    have he : e.1 = n := by simpa using hp
    obtain ⟨_, _, h2, h3⟩ := mem_templateNonRecursive g e hm
    rw [he, selfParams_inst g g.size n h] at h2
    exact absurd h2 h3

/-- hence, with layout tests on, every non-opaque instantiation with a known layout is asserted on
that path -/
theorem C06_nonrecursive_inst_asserted (g : IR) (n : Nat) (o : LayoutTests.Opts) (size align : Nat)
    (h : (g.get n).tk = .templateInstantiation) (ht : o.layoutTests = true) (hop : (g.get n).isOpaque = false)
    (hl : (g.get n).layout = some (size, align)) :
    instAsserts o { isOpaque := (g.get n).isOpaque, usesTemplateParams := usesAny (templateNonRecursive g) n,
                    layout := (g.get n).layout } =
      some { form := formOf o, asserts := [.size size, .align align] } := by
  simp [instAsserts, ht, hop, hl, C06_nonrecursive_inst_not_gated g n h]

/-- what goes wrong when the map is filled with *all* parameters in scope instead (own and
ancestors'): an instantiation declared inside a class template inherits the template's parameter and
loses its assertion although its arguments are concrete -/
def allParamsMap (g : IR) : List (Nat × List Nat) :=
  (List.range g.size).filterMap fun n =>
    let i := g.get n
    if i.allowlisted && !i.allTparams.isEmpty then some (n, i.allTparams) else none

/-- `template<class T> struct Holder { Box<bool> flags; }`: item 3 is `Box<bool>`, declared in
`Holder` (item 2) whose parameter is item 1 -/
def nestedInst : IR :=
  { items := #[{}, { id := 1, kind := .type, tk := .typeParam, allowlisted := true },
               { id := 2, kind := .type, tk := .comp, allowlisted := true, selfTparams := [1], allTparams := [1] },
               { id := 3, kind := .type, tk := .templateInstantiation, allowlisted := true, parent := 2,
                 allTparams := [1], layout := some (2, 1) }] }

theorem C06_ancestor_params_would_gate :
    usesAny (allParamsMap nestedInst) 3 = true ∧ usesAny (templateNonRecursive nestedInst) 3 = false := by
  decide

/-- **source obligation**: the non-recursive branch of `find_used_template_parameters` fills the map
with each allowlisted item's own parameters (`templateNonRecursive` models exactly that) -/
theorem C06_nonrecursive_map_in_source : nonRecursiveParamSource = "self" := by decide

/-- **source obligation**: `TemplateInstantiation::codegen` gates the assertion by exactly the two
early returns of `instAsserts`, in that order, before the layout is looked up -/
theorem C06_inst_gates_in_source :
    instAssertGates = ["layoutTestsOrOpaque", "usesAny", "layout"] ∧ instAssertReturns = 2 := by decide

end BindgenModel.C06
