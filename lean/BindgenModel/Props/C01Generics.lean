import BindgenModel.Props.C07Instances
/-!
# C01 — every type parameter the fields of a record can mention is one of the record's generics

A record `struct S<T, U>` is emitted with the generics `used_template_params(S)`; its field types are
rendered by walking the same edges the usage analysis considers (`consider_edge` of
`UsedTemplateParameters`: fields, inner types of pointers / arrays / aliases, function signatures, base
members, …).  If a rendered field type named a parameter that is not among the generics, rustc would
answer E0412 ("cannot find type `T` in this scope").

The analysis is the least solution of Horn clauses (`Analyses.templateRule`): fact `(n, j)` = "item `n`
uses the `j`-th parameter".  What C01 needs from it is *closure*: the facts are closed under every clause,
so a parameter reachable from `n` along considered edges is a generic of `n`.  Closure follows from
stability (`C07_instance_stable`), for every graph and every schedule.
-/
namespace BindgenModel.C01
open BindgenModel.IR BindgenModel.Analyses BindgenModel.Generated BindgenModel.Worklist

/-- a satisfied clause forces the fact: if the state is stable at `k` and some clause of `k`'s rule has
all its atoms non-⊥, then `k` is non-⊥ -/
theorem horn_closed (I : Instance) (s : Nat → V) (k : Nat) (hst : Stable I.framework s k)
    (c : List Nat) (hc : c ∈ (I.rules.getD k {}).conj) (hall : ∀ a ∈ c, s a ≠ 0) : s k ≠ 0 := by
  unfold Stable at hst
  simp only [Instance.framework, decide_eq_true_eq] at hst
  -- eval ≥ joinList (conj.map clauseVal) ≥ clauseVal s c = 1
  unfold NodeRule.eval at hst
  rw [vmax_le_iff] at hst
  have h2 := hst.2
  rw [joinList_le] at h2
  have h3 := h2 (clauseVal s c) (List.mem_map.mpr ⟨c, hc, rfl⟩)
  have h1 : clauseVal s c = 1 := by
    unfold clauseVal
    have : c.all (fun a => s a != 0) = true := by
      rw [List.all_eq_true]
      intro a ha
      simpa using hall a ha
    rw [if_pos this]
  rw [h1] at h3
  intro h0
  rw [h0] at h3
  exact absurd h3 (by decide)

/-- a chain of single-atom clauses: `k₀` has the clause `[k₁]`, `k₁` has `[k₂]`, … -/
def Chain (I : Instance) : List Nat → Prop
  | [] => True
  | [_] => True
  | a :: b :: rest => [b] ∈ (I.rules.getD a {}).conj ∧ Chain I (b :: rest)

/-- facts travel backwards along a chain: if the last fact holds, so does the first -/
theorem chain_closed (I : Instance) (s : Nat → V) (l : List Nat) (hne : l ≠ [])
    (hst : ∀ k ∈ l, Stable I.framework s k) (hch : Chain I l) (hlast : s (l.getLast hne) ≠ 0) :
    s (l.head hne) ≠ 0 := by
  induction l with
  | nil => exact absurd rfl hne
  | cons a rest ih =>
    cases rest with
    | nil => simpa using hlast
    | cons b rest' =>
      simp only [List.head_cons]
      have hb : s b ≠ 0 := by
        have := ih (by simp) (fun k hk => hst k (List.mem_cons_of_mem _ hk)) hch.2
          (by simpa [List.getLast_cons] using hlast)
        simpa using this
      exact horn_closed I s a (hst a (by simp)) [b] hch.1 (by intro x hx; simp at hx; rw [hx]; exact hb)

/-- the clause an ordinary item (not a parameter, not an instantiation) has for each considered edge:
"`n` uses parameter `j` if the edge's target does" -/
theorem templateRule_edge_clause (g : IR) (ts : TemplateSetup) (n j : Nat) (e : Nat × EdgeKind)
    (hn : ¬ ((g.get n).kind == .type && (g.get n).tk == .typeParam) = true)
    (hi : ¬ ((g.get n).kind == .type && (g.get n).tk == .templateInstantiation) = true)
    (he : e ∈ (g.get n).edges) (hself : e.1 ≠ n) (hcons : considerEdge .usedTemplateParams e.2 = true) :
    [e.1 * ts.tps.length + j] ∈ (templateRule g ts n j).conj := by
  unfold templateRule
  simp only [hn, hi, if_false, Bool.false_eq_true]
  rw [List.mem_map]
  refine ⟨e, ?_, rfl⟩
  rw [List.mem_filter]
  refine ⟨he, ?_⟩
  simp [hself, hcons]

/-- a parameter uses itself: the rule of the parameter's own item is the constant 1 -/
theorem templateRule_param_const (g : IR) (ts : TemplateSetup) (n j : Nat)
    (hn : ((g.get n).kind == .type && (g.get n).tk == .typeParam) = true) (hp : ts.tps.getD j 0 = n) :
    (templateRule g ts n j).const = 1 := by
  unfold templateRule
  simp only [hn, if_true]
  subst hp
  simp

/-- the base fact: a stable state makes every parameter use itself -/
theorem param_fact (I : Instance) (s : Nat → V) (k : Nat) (hst : Stable I.framework s k)
    (hc : (I.rules.getD k {}).const = 1) : s k ≠ 0 := by
  unfold Stable at hst
  simp only [Instance.framework, decide_eq_true_eq] at hst
  unfold NodeRule.eval at hst
  rw [vmax_le_iff, vmax_le_iff] at hst
  have h := hst.1.1
  rw [hc] at h
  intro h0
  rw [h0] at h
  exact absurd h (by decide)

/-- **capstone**: in the solution of the usage analysis of any graph, a fact reachable backwards along
single-atom clauses from a parameter's own fact holds — for `templateInstance g` these clauses are the
considered edges of ordinary items (`templateRule_edge_clause`) and the parameter's own fact is the constant
(`templateRule_param_const`).  Hence every parameter a record's fields can mention along considered edges is
among the record's generics.  The two side conditions are decidable facts about the dependency table the
instance builds (`generate_dependencies`); the driver evaluates them on every dumped graph (`irchk`). -/
theorem C01_generics_closed (g : IR)
    (hcov : (templateInstance g).1.readsCovered = true) (hclosed : (templateInstance g).1.depsClosed = true)
    (l : List Nat) (hne : l ≠ []) (hmem : ∀ k ∈ l, k ∈ (templateInstance g).1.nodes)
    (hch : Chain (templateInstance g).1 l)
    (hparam : (((templateInstance g).1.rules.getD (l.getLast hne) {}).const = 1)) :
    analyze (templateInstance g).1.framework (templateInstance g).1.initWl (l.head hne) ≠ 0 := by
  have hI : (templateInstance g).1.initWl = (templateInstance g).1.nodes.reverse := by
    simp [templateInstance]
  have hst := C07_instance_stable (templateInstance g).1 hcov hclosed
    (by intro n hn; rw [hI] at hn; simpa using hn) (by intro n hn; rw [hI]; simpa using hn)
  apply chain_closed (templateInstance g).1 _ l hne (fun k hk => hst k (hmem k hk)) hch
  exact param_fact (templateInstance g).1 _ _ (hst _ (hmem _ (List.getLast_mem hne))) hparam

/-- non-vacuity: `template<class T> struct S { T *p; }` — item 1 = `T`, 2 = `T *`, 3 = `S` with a field
edge to 2; the chain `S → T* → T` carries the fact "uses `T`" to `S` -/
example : (templateSolve
    { items := #[{}, { id := 1, kind := .type, tk := .typeParam, allowlisted := true },
                 { id := 2, kind := .type, tk := .pointer, allowlisted := true, inner := some 1, edges := [(1, .typeReference)] },
                 { id := 3, kind := .type, tk := .comp, allowlisted := true, selfTparams := [1], allTparams := [1],
                   edges := [(2, .field), (1, .templateParameterDefinition)] }] }).lookup 3 = some [1] := by
  decide

end BindgenModel.C01

namespace BindgenModel.C01
open BindgenModel.IR BindgenModel.Analyses BindgenModel.Generated BindgenModel.Worklist

/-! ## the analysis computes exactly the Horn closure

`chain_closed` says the solution contains what single-atom chains derive.  The full statement: for an
instance whose rules are Horn rules only (a 0/1 constant and clauses — the shape of every rule of
`templateInstance`), a fact holds in the solution **iff** it has a derivation.  "If" is what keeps rustc
from E0412 (a generic that is needed is declared); "only if" is what keeps it from E0392 on account of the
analysis (no generic is declared that no derivation needs). -/

/-- derivations: a constant, or a clause all of whose atoms are derived; only facts of the instance -/
inductive Derivable (I : Instance) : Nat → Prop
  | const (k : Nat) (hk : k ∈ I.nodes) (h : (I.rules.getD k {}).const ≠ 0) : Derivable I k
  | clause (k : Nat) (hk : k ∈ I.nodes) (c : List Nat) (hc : c ∈ (I.rules.getD k {}).conj)
      (h : ∀ a ∈ c, Derivable I a) : Derivable I k

theorem hornOnly_spec (I : Instance) (h : I.hornOnly = true) (k : Nat) :
    (I.rules.getD k {}).terms = [] ∧ (I.rules.getD k {}).const ≤ 1 ∧
    (k ∉ I.nodes → (I.rules.getD k {}).const = 0 ∧ (I.rules.getD k {}).conj = []) := by
  by_cases hk : k < I.rules.size
  · simp only [Instance.hornOnly, List.all_eq_true, List.mem_range] at h
    have := h k hk
    simp only [Bool.and_eq_true, Bool.or_eq_true, decide_eq_true_eq, List.isEmpty_iff, beq_iff_eq,
      List.contains_eq_mem, decide_eq_true_eq] at this
    refine ⟨this.1.1, this.1.2, ?_⟩
    intro hn
    rcases this.2 with h1 | h1
    · exact absurd h1 hn
    · exact h1
  · have : I.rules.getD k {} = {} := by
      simp [Array.getD, hk]
    rw [this]
    exact ⟨rfl, by decide, fun _ => ⟨rfl, rfl⟩⟩

/-- **soundness of derivations**: whatever has a derivation holds in every state that is stable on the
instance's facts -/
theorem derivable_holds (I : Instance) (s : Nat → V) (hst : ∀ k ∈ I.nodes, Stable I.framework s k)
    (k : Nat) (hd : Derivable I k) : s k ≠ 0 := by
  induction hd with
  | const k hk h =>
    have hs := hst k hk
    unfold Stable at hs
    simp only [Instance.framework, decide_eq_true_eq] at hs
    unfold NodeRule.eval at hs
    rw [vmax_le_iff, vmax_le_iff] at hs
    intro h0
    rw [h0] at hs
    have : (I.rules.getD k {}).const = 0 := by
      have := hs.1.1
      exact Fin.le_zero_iff.mp this
    exact h this
  | clause k hk c hc _ ih => exact horn_closed I s k (hst k hk) c hc ih

theorem clauseVal_le_one (s : Nat → V) (c : List Nat) : clauseVal s c ≤ 1 := by
  unfold clauseVal
  split <;> decide

open Classical in
/-- the state "1 on what is derivable" -/
noncomputable def derivState (I : Instance) : Nat → V := fun k => if Derivable I k then 1 else 0

/-- … is closed under the rules of a Horn instance -/
theorem derivState_stable (I : Instance) (hh : I.hornOnly = true) (k : Nat) :
    Stable I.framework (derivState I) k := by
  obtain ⟨ht, hc1, hout⟩ := hornOnly_spec I hh k
  unfold Stable
  simp only [Instance.framework, decide_eq_true_eq]
  unfold NodeRule.eval
  rw [ht]
  simp only [List.map_nil, joinList, List.foldl_nil]
  by_cases hd : Derivable I k
  · -- the right-hand side is 1
    have hp : derivState I k = 1 := by simp [derivState, hd]
    rw [hp, vmax_le_iff, vmax_le_iff]
    refine ⟨⟨hc1, by decide⟩, ?_⟩
    have := (joinList_le ((I.rules.getD k {}).conj.map (clauseVal (derivState I))) 1).mpr
    apply this
    intro x hx
    obtain ⟨c, _, rfl⟩ := List.mem_map.mp hx
    exact clauseVal_le_one _ c
  · have hp : derivState I k = 0 := by simp [derivState, hd]
    rw [hp, vmax_le_iff, vmax_le_iff]
    by_cases hk : k ∈ I.nodes
    · refine ⟨⟨?_, by decide⟩, ?_⟩
      · -- a non-zero constant would be a derivation
        by_cases h0 : (I.rules.getD k {}).const = 0
        · rw [h0]; decide
        · exact absurd (Derivable.const k hk h0) hd
      · have := (joinList_le ((I.rules.getD k {}).conj.map (clauseVal (derivState I))) 0).mpr
        apply this
        intro x hx
        obtain ⟨c, hc, rfl⟩ := List.mem_map.mp hx
        unfold clauseVal
        split
        · rename_i hall
          rw [List.all_eq_true] at hall
          have : ∀ a ∈ c, Derivable I a := by
            intro a ha
            have := hall a ha
            by_cases hda : Derivable I a
            · exact hda
            · simp [derivState, hda] at this
          exact absurd (Derivable.clause k hk c hc this) hd
        · decide
    · obtain ⟨h0, hnil⟩ := hout hk
      rw [h0, hnil]
      simp [joinList]

/-- **the solution of a Horn instance is exactly the set of derivable facts** -/
theorem solution_iff_derivable (I : Instance) (hh : I.hornOnly = true) (hcov : I.readsCovered = true)
    (hclosed : I.depsClosed = true) (hwl : ∀ n ∈ I.initWl, n ∈ I.nodes) (hall : ∀ n ∈ I.nodes, n ∈ I.initWl)
    (k : Nat) (hk : k ∈ I.nodes) :
    analyze I.framework I.initWl k ≠ 0 ↔ Derivable I k := by
  constructor
  · intro hne
    have hle := C07_least I.framework (instance_lawful I hcov)
      (by intro a; simp [Instance.framework]) I.initWl (derivState I) (derivState_stable I hh) k
    simp only [Instance.framework, decide_eq_true_eq] at hle
    by_cases hd : Derivable I k
    · exact hd
    · have hp : derivState I k = 0 := by simp [derivState, hd]
      rw [hp] at hle
      exact absurd (Fin.le_zero_iff.mp hle) hne
  · intro hd
    exact derivable_holds I _ (C07_instance_stable I hcov hclosed hwl hall) k hd

/-- for the template-parameter usage analysis of any dumped graph -/
theorem C01_used_params_exact (g : IR) (hh : (templateInstance g).1.hornOnly = true)
    (hcov : (templateInstance g).1.readsCovered = true) (hclosed : (templateInstance g).1.depsClosed = true)
    (k : Nat) (hk : k ∈ (templateInstance g).1.nodes) :
    analyze (templateInstance g).1.framework (templateInstance g).1.initWl k ≠ 0 ↔
      Derivable (templateInstance g).1 k := by
  have hI : (templateInstance g).1.initWl = (templateInstance g).1.nodes.reverse := by
    simp [templateInstance]
  exact solution_iff_derivable _ hh hcov hclosed
    (by intro n hn; rw [hI] at hn; simpa using hn) (by intro n hn; rw [hI]; simpa using hn) k hk

end BindgenModel.C01
