import BindgenModel.Props.C07Instances
/-!
# C01 — every type parameter the fields of a record can mention is one of the record's generics

A record `struct S<T, U>` is emitted with the generics `used_template_params(S)`; its field types are
rendered by walking the same edges the usage analysis considers (`consider_edge` of
`UsedTemplateParameters`: fields, inner types of pointers / arrays / aliases, function signatures, base
members, …).  If a rendered field type named a parameter that is not among the generics, rustc would
answer E0412 ("cannot find type `T` in this scope").

The analysis is the least solution of Horn clauses (`Analyses.templateRule`): fact `(n, j)` = "item `n`
uses the `j`-th parameter".  What C01 needs from it is *closure*: the facts are closed under every clause,
so a parameter reachable from `n` along considered edges is a generic of `n`.  Closure follows from
stability (`C07_instance_stable`), for every graph and every schedule.
-/
namespace BindgenModel.C01
open BindgenModel.IR BindgenModel.Analyses BindgenModel.Generated BindgenModel.Worklist

/-- a satisfied clause forces the fact: if the state is stable at `k` and some clause of `k`'s rule has
all its atoms non-⊥, then `k` is non-⊥ -/
theorem horn_closed (I : Instance) (s : Nat → V) (k : Nat) (hst : Stable I.framework s k)
    (c : List Nat) (hc : c ∈ (I.rules.getD k {}).conj) (hall : ∀ a ∈ c, s a ≠ 0) : s k ≠ 0 := by
  unfold Stable at hst
  simp only [Instance.framework, decide_eq_true_eq] at hst
  -- eval ≥ joinList (conj.map clauseVal) ≥ clauseVal s c = 1
  unfold NodeRule.eval at hst
  rw [vmax_le_iff] at hst
  have h2 := hst.2
  rw [joinList_le] at h2
  have h3 := h2 (clauseVal s c) (List.mem_map.mpr ⟨c, hc, rfl⟩)
  have h1 : clauseVal s c = 1 := by
    unfold clauseVal
    have : c.all (fun a => s a != 0) = true := by
      rw [List.all_eq_true]
      intro a ha
      simpa using hall a ha
    rw [if_pos this]
  rw [h1] at h3
  intro h0
  rw [h0] at h3
  exact absurd h3 (by decide)

/-- a chain of single-atom clauses: `k₀` has the clause `[k₁]`, `k₁` has `[k₂]`, … -/
def Chain (I : Instance) : List Nat → Prop
  | [] => True
  | [_] => True
  | a :: b :: rest => [b] ∈ (I.rules.getD a {}).conj ∧ Chain I (b :: rest)

/-- facts travel backwards along a chain: if the last fact holds, so does the first -/
theorem chain_closed (I : Instance) (s : Nat → V) (l : List Nat) (hne : l ≠ [])
    (hst : ∀ k ∈ l, Stable I.framework s k) (hch : Chain I l) (hlast : s (l.getLast hne) ≠ 0) :
    s (l.head hne) ≠ 0 := by
  induction l with
  | nil => exact absurd rfl hne
  | cons a rest ih =>
    cases rest with
    | nil => simpa using hlast
    | cons b rest' =>
      simp only [List.head_cons]
      have hb : s b ≠ 0 := by
        have := ih (by simp) (fun k hk => hst k (List.mem_cons_of_mem _ hk)) hch.2
          (by simpa [List.getLast_cons] using hlast)
        simpa using this
      exact horn_closed I s a (hst a (by simp)) [b] hch.1 (by intro x hx; simp at hx; rw [hx]; exact hb)

/-- the clause an ordinary item (not a parameter, not an instantiation) has for each considered edge:
"`n` uses parameter `j` if the edge's target does" -/
theorem templateRule_edge_clause (g : IR) (ts : TemplateSetup) (n j : Nat) (e : Nat × EdgeKind)
    (hn : ¬ ((g.get n).kind == .type && (g.get n).tk == .typeParam) = true)
    (hi : ¬ ((g.get n).kind == .type && (g.get n).tk == .templateInstantiation) = true)
    (he : e ∈ (g.get n).edges) (hself : e.1 ≠ n) (hcons : considerEdge .usedTemplateParams e.2 = true) :
    [e.1 * ts.tps.length + j] ∈ (templateRule g ts n j).conj := by
  unfold templateRule
  simp only [hn, hi, if_false, Bool.false_eq_true]
  rw [List.mem_map]
  refine ⟨e, ?_, rfl⟩
  rw [List.mem_filter]
  refine ⟨he, ?_⟩
  simp [hself, hcons]

/-- a parameter uses itself: the rule of the parameter's own item is the constant 1 -/
theorem templateRule_param_const (g : IR) (ts : TemplateSetup) (n j : Nat)
    (hn : ((g.get n).kind == .type && (g.get n).tk == .typeParam) = true) (hp : ts.tps.getD j 0 = n) :
    (templateRule g ts n j).const = 1 := by
  unfold templateRule
  simp only [hn, if_true]
  subst hp
  simp

/-- the base fact: a stable state makes every parameter use itself -/
theorem param_fact (I : Instance) (s : Nat → V) (k : Nat) (hst : Stable I.framework s k)
    (hc : (I.rules.getD k {}).const = 1) : s k ≠ 0 := by
  unfold Stable at hst
  simp only [Instance.framework, decide_eq_true_eq] at hst
  unfold NodeRule.eval at hst
  rw [vmax_le_iff, vmax_le_iff] at hst
  have h := hst.1.1
  rw [hc] at h
  intro h0
  rw [h0] at h
  exact absurd h (by decide)

/-- **capstone**: in the solution of the usage analysis of any graph, a fact reachable backwards along
single-atom clauses from a parameter's own fact holds — for `templateInstance g` these clauses are the
considered edges of ordinary items (`templateRule_edge_clause`) and the parameter's own fact is the constant
(`templateRule_param_const`).  Hence every parameter a record's fields can mention along considered edges is
among the record's generics.  The two side conditions are decidable facts about the dependency table the
instance builds (`generate_dependencies`); the driver evaluates them on every dumped graph (`irchk`). -/
theorem C01_generics_closed (g : IR)
    (hcov : (templateInstance g).1.readsCovered = true) (hclosed : (templateInstance g).1.depsClosed = true)
    (l : List Nat) (hne : l ≠ []) (hmem : ∀ k ∈ l, k ∈ (templateInstance g).1.nodes)
    (hch : Chain (templateInstance g).1 l)
    (hparam : (((templateInstance g).1.rules.getD (l.getLast hne) {}).const = 1)) :
    analyze (templateInstance g).1.framework (templateInstance g).1.initWl (l.head hne) ≠ 0 := by
  have hI : (templateInstance g).1.initWl = (templateInstance g).1.nodes.reverse := by
    simp [templateInstance]
  have hst := C07_instance_stable (templateInstance g).1 hcov hclosed
    (by intro n hn; rw [hI] at hn; simpa using hn) (by intro n hn; rw [hI]; simpa using hn)
  apply chain_closed (templateInstance g).1 _ l hne (fun k hk => hst k (hmem k hk)) hch
  exact param_fact (templateInstance g).1 _ _ (hst _ (hmem _ (List.getLast_mem hne))) hparam

/-- non-vacuity: `template<class T> struct S { T *p; }` — item 1 = `T`, 2 = `T *`, 3 = `S` with a field
edge to 2; the chain `S → T* → T` carries the fact "uses `T`" to `S` -/
example : (templateSolve
    { items := #[{}, { id := 1, kind := .type, tk := .typeParam, allowlisted := true },
                 { id := 2, kind := .type, tk := .pointer, allowlisted := true, inner := some 1, edges := [(1, .typeReference)] },
                 { id := 3, kind := .type, tk := .comp, allowlisted := true, selfTparams := [1], allTparams := [1],
                   edges := [(2, .field), (1, .templateParameterDefinition)] }] }).lookup 3 = some [1] := by
  decide

end BindgenModel.C01
