import BindgenModel.Lemmas.Link
import BindgenModel.Generated.CodegenOrder
/-!
# C04 — the link-name decision is taken on the name the item is emitted under

`FnIn.canonical` of `Model/Link.lean` is the canonical name *after* the overload suffix; the theorems about
`fnLinkAttr` (`C04_fn_attr_omitted_iff`, `C04_link_symbol_correct_partial`, …) speak about the source only if
`Function::codegen` decides `link_name_attr` after it appended the suffix.  `C04_link_decided_on_suffixed_name`
is that source obligation (regenerated `Generated/CodegenOrder.lean`); `C04_decision_before_suffix_binds_wrong_symbol`
is the witness of what the other order does (seeded changes C04-1 and C04-5): the second member `foo` of an overload
set whose symbol is `foo` is emitted as `foo1` without attribute and references the symbol `foo1`.
-/
namespace BindgenModel.Link
open BindgenModel.Generated

theorem C04_link_decided_on_suffixed_name : linkDecisionAfterOverloadSuffix = true := by decide

/-- `foo` -/
def nmFoo : Name := [102, 111, 111]

/-- the decision taken on the un-suffixed name (`foo` vs symbol `foo`: identical, no attribute) applied to the
item emitted as `foo1`: the object file references `foo1`, the declaration's symbol is `foo` -/
theorem C04_decision_before_suffix_binds_wrong_symbol :
    let decidedOn : FnIn := { name := nmFoo, canonical := nmFoo, mangled := some nmFoo, linkOverride := none, cc := .known .C }
    let emittedAs : Name := nmFoo ++ decimal 1
    fnLinkAttr decidedOn = .none ∧
    symbolReferenced .elf (.known .C) emittedAs (fnLinkAttr decidedOn) 0 ≠ nmFoo := by decide

/-- … while the decision on the suffixed name keeps the symbol -/
theorem C04_decision_after_suffix_keeps_symbol :
    let f : FnIn := { name := nmFoo, canonical := nmFoo ++ decimal 1, mangled := some nmFoo, linkOverride := none, cc := .known .C }
    symbolReferenced .elf (.known .C) f.canonical (fnLinkAttr f) 0 = nmFoo := by decide

end BindgenModel.Link
