import BindgenModel.Generated.OptionsObl
import BindgenModel.Lemmas.OptCodec
/-!
# C13 — builder configuration and command-line flags round-trip

Theorems about `Model/Opts.lean`, the executable model of `Builder::command_line_flags`
(options/mod.rs) and `builder_from_flags` (options/cli.rs) interpreted over the tables that the
translator regenerates from the source on every run.

* generic (any table): a `Builder` method touches only the fields of its `MethodEffect` row
  (`applyMethod_frame`), the new value of a field depends only on its old value
  (`applyMethod_local`), hence what `builder_from_flags` leaves in a field is determined by the
  occurrences of the arms that write it (`absorb_field`), in their original relative order;
* per shape: the emit/absorb pairs are inverse (`switch_absorbs`, `list_absorbs`, `single_absorbs`);
* the generated table: one `decide` obligation per field (`Generated.wf_<field>`,
  `Generated.sole_<field>`), `flags_distinct`;
* string codecs with explicit preconditions and witnesses (`Lemmas/OptCodec.lean`).
-/
set_option linter.unusedSimpArgs false
set_option linter.unusedVariables false

namespace BindgenModel.Opts
open BindgenModel.Generated BindgenModel.OptCodec

/-! ## frame and locality of Builder methods (any table) -/

theorem set_ne {o : Options} {f g : OField} {v : OVal} (h : g ≠ f) : set o f v g = o g := by
  have h' : (f == g) = false := by simpa using fun e => h e.symm
  show (set o f v).get g = o.get g
  simp [set, Options.get, lookup, List.find?_cons, h']

theorem set_eq {o : Options} {f : OField} {v : OVal} : set o f v f = v := by
  show (set o f v).get f = v
  simp [set, Options.get, lookup, List.find?_cons]

/-- a write changes no field other than its own -/
theorem applyWrite_frame (m : OMethod) (args : List String) (o : Options) (fw : OField × OWrite)
    (g : OField) (h : g ≠ fw.1) : applyWrite m args o fw g = o g := by
  unfold applyWrite
  cases writeVal m args (tyOf fw.1) (o fw.1) fw.2 with
  | none => rfl
  | some v => exact set_ne h

theorem applyWrite_self (m : OMethod) (args : List String) (o : Options) (fw : OField × OWrite) :
    applyWrite m args o fw fw.1 = (writeVal m args (tyOf fw.1) (o fw.1) fw.2).getD (o fw.1) := by
  unfold applyWrite
  cases writeVal m args (tyOf fw.1) (o fw.1) fw.2 with
  | none => rfl
  | some v => simp [set_eq]

/-- the value a write leaves in its own field depends only on the old value of that field -/
theorem applyWrite_local (m : OMethod) (args : List String) (o o' : Options) (fw : OField × OWrite)
    (h : o fw.1 = o' fw.1) : applyWrite m args o fw fw.1 = applyWrite m args o' fw fw.1 := by
  rw [applyWrite_self, applyWrite_self, h]

theorem foldl_writes_frame (m : OMethod) (args : List String) (ws : List (OField × OWrite))
    (o : Options) (g : OField) (h : ∀ fw ∈ ws, fw.1 ≠ g) :
    (ws.foldl (applyWrite m args) o) g = o g := by
  induction ws generalizing o with
  | nil => rfl
  | cons w ws ih =>
    rw [List.foldl_cons, ih _ (fun fw hfw => h fw (by simp [hfw]))]
    exact applyWrite_frame m args o w g (fun e => h w (by simp) e.symm)

/-- **Frame.** A `Builder` method leaves every field outside its `MethodEffect` row unchanged. -/
theorem applyMethod_frame (m : OMethod) (args : List String) (o : Options) (g : OField)
    (h : ∀ e, effOf m = some e → ∀ fw ∈ e.writes, fw.1 ≠ g) : applyMethod m args o g = o g := by
  unfold applyMethod
  cases he : effOf m with
  | none => rfl
  | some e => exact foldl_writes_frame m args e.writes o g (h e he)

theorem foldl_writes_local (m : OMethod) (args : List String) (ws : List (OField × OWrite))
    (o o' : Options) (g : OField) (h : o g = o' g) :
    (ws.foldl (applyWrite m args) o) g = (ws.foldl (applyWrite m args) o') g := by
  induction ws generalizing o o' with
  | nil => exact h
  | cons w ws ih =>
    rw [List.foldl_cons, List.foldl_cons]
    apply ih
    by_cases hw : g = w.1
    · subst hw; exact applyWrite_local m args o o' w h
    · rw [applyWrite_frame m args o w g hw, applyWrite_frame m args o' w g hw]; exact h

/-- **Locality.** The value a method leaves in a field depends only on that field's old value. -/
theorem applyMethod_local (m : OMethod) (args : List String) (o o' : Options) (g : OField)
    (h : o g = o' g) : applyMethod m args o g = applyMethod m args o' g := by
  unfold applyMethod
  cases effOf m with
  | none => exact h
  | some e => exact foldl_writes_local m args e.writes o o' g h

/-! ## what `builder_from_flags` leaves in one field -/

/-- the arm's method writes field `g` -/
def writesField (g : OField) (a : CliArm) : Bool := (armWrites a).any (·.1 == g)

theorem stepOcc_frame (b : Options) (o : Occ) (g : OField) (h : writesField g o.arm = false) :
    stepOcc b o g = b g := by
  unfold stepOcc
  cases hm : o.arm.method with
  | none => rfl
  | some m =>
    apply applyMethod_frame
    intro e he fw hfw hg
    have : writesField g o.arm = true := by
      unfold writesField armWrites
      simp only [hm, Option.bind_some, he, List.any_eq_true, beq_iff_eq]
      exact ⟨fw, hfw, hg⟩
    rw [h] at this; exact absurd this (by decide)

theorem stepOcc_local (b b' : Options) (o : Occ) (g : OField) (h : b g = b' g) :
    stepOcc b o g = stepOcc b' o g := by
  unfold stepOcc
  cases o.arm.method with
  | none => exact h
  | some m => exact applyMethod_local m _ b b' g h

/-- **Projection.** Folding any list of occurrences, the final value of a field is the result of
folding only the occurrences of arms that write it (in the same relative order). -/
theorem fold_field (L : List Occ) (b b' : Options) (g : OField) (h : b g = b' g) :
    (L.foldl stepOcc b) g = ((L.filter fun o => writesField g o.arm).foldl stepOcc b') g := by
  induction L generalizing b b' with
  | nil => exact h
  | cons o L ih =>
    rw [List.foldl_cons]
    by_cases hw : writesField g o.arm = true
    · rw [List.filter_cons_of_pos (by simpa using hw), List.foldl_cons]
      exact ih _ _ (stepOcc_local b b' o g h)
    · have hw' : writesField g o.arm = false := by simpa using hw
      rw [List.filter_cons_of_neg (by simp [hw'])]
      exact ih _ _ (by rw [stepOcc_frame b o g hw']; exact h)

/-- `absorb` (arms in `apply_args!` order) leaves in a field what its writers' occurrences build -/
theorem absorb_field (env : Env) (occs : List Occ) (g : OField) :
    absorb env occs g =
      (((byOrder occs).filter fun o => writesField g o.arm).foldl stepOcc (defaults env)) g :=
  fold_field _ _ _ g rfl

/-- occurrences of arms that do not write the field are irrelevant to it -/
theorem absorb_no_writer (env : Env) (occs : List Occ) (g : OField)
    (h : ∀ o ∈ byOrder occs, writesField g o.arm = false) : absorb env occs g = defaults env g := by
  rw [absorb_field]
  have : ((byOrder occs).filter fun o => writesField g o.arm) = [] := by
    rw [List.filter_eq_nil_iff]; intro o ho; simp [h o ho]
  rw [this]; rfl

/-! ## stability of the `apply_args!` ordering -/

theorem mem_insertByOrder (x : Nat × Occ) (ws : List (Nat × Occ)) (y : Nat × Occ)
    (hy : y ∈ insertByOrder x ws) : y = x ∨ y ∈ ws := by
  induction ws with
  | nil => simpa [insertByOrder] using hy
  | cons w ws ihw =>
    unfold insertByOrder at hy
    split at hy
    · simpa using hy
    · rcases List.mem_cons.mp hy with rfl | hy
      · exact Or.inr (by simp)
      · rcases ihw hy with h1 | h1
        · exact Or.inl h1
        · exact Or.inr (by simp [h1])

theorem mem_foldr_insertByOrder (L : List (Nat × Occ)) (y : Nat × Occ)
    (hy : y ∈ L.foldr insertByOrder []) : y ∈ L := by
  induction L with
  | nil => simp at hy
  | cons z zs ihz =>
    rcases mem_insertByOrder z _ y (by simpa using hy) with rfl | h1
    · simp
    · exact List.mem_cons_of_mem _ (ihz h1)


theorem insertByOrder_filter (p : Occ → Bool) (k : Nat) (x : Nat × Occ) (ys : List (Nat × Occ))
    (hx : p x.2 = true → x.1 = k) (hys : ∀ y ∈ ys, p y.2 = true → y.1 = k) :
    ((insertByOrder x ys).map (·.2)).filter p =
      (if p x.2 then [x.2] else []) ++ (ys.map (·.2)).filter p := by
  induction ys with
  | nil => cases hp : p x.2 <;> simp [insertByOrder, hp]
  | cons y ys ih =>
    unfold insertByOrder
    by_cases hle : x.1 ≤ y.1
    · simp only [hle, if_true]
      cases hp : p x.2 <;> simp [hp]
    · simp only [hle, if_false]
      have ih' := ih (fun z hz => hys z (by simp [hz]))
      cases hp : p x.2 with
      | false =>
        simp only [hp] at ih'
        simp [List.filter_cons, ih']
      | true =>
        have hk : x.1 = k := hx hp
        have hy : p y.2 = false := by
          cases hpy : p y.2 with
          | false => rfl
          | true => have := hys y (by simp) hpy; omega
        simp only [hp, if_true] at ih'
        simp [List.filter_cons, hy, ih']

/-- **Stability.** Sorting the occurrences by `apply_args!` position keeps the relative order of the
occurrences selected by `p`, provided they all sit at the same position (e.g. one arm's). -/
theorem byOrder_filter (p : Occ → Bool) (k : Nat) (occs : List Occ)
    (h : ∀ o ∈ occs, p o = true → o.arm.order = some k) :
    (byOrder occs).filter p = occs.filter p := by
  unfold byOrder
  induction occs with
  | nil => rfl
  | cons o os ih =>
    have ih' := ih (fun z hz => h z (by simp [hz]))
    cases ho : o.arm.order with
    | none =>
      have hp : p o = false := by
        cases hpo : p o with
        | false => rfl
        | true => have := h o (by simp) hpo; rw [ho] at this; exact absurd this (by simp)
      simp only [List.filterMap_cons, ho, Option.map_none]
      rw [ih', List.filter_cons_of_neg (by simp [hp])]
    | some n =>
      simp only [List.filterMap_cons, ho, Option.map_some, List.foldr_cons]
      rw [insertByOrder_filter p k (n, o) _ ?_ ?_, ih']
      · cases hp : p o <;> simp [List.filter_cons, hp]
      · intro hp; have := h o (by simp) hp; rw [ho] at this; exact Option.some.inj this
      · intro y hy hpy
        have hy' := mem_foldr_insertByOrder _ y hy
        rcases List.mem_filterMap.mp hy' with ⟨o', ho', hf⟩
        cases ho'' : o'.arm.order with
        | none => simp [ho''] at hf
        | some n' =>
          simp only [ho'', Option.map_some, Option.some.injEq] at hf
          subst hf
          have := h o' (by simp [ho']) hpy
          rw [ho''] at this; exact Option.some.inj this

/-! ## the emit/absorb pairs are inverse, shape by shape -/

/-- a method whose row writes the field exactly once -/
theorem applyMethod_single (m : OMethod) (args : List String) (o : Options) (e : MethodEffect)
    (f : OField) (w : OWrite) (he : effOf m = some e) (hw : e.writes.filter (·.1 == f) = [(f, w)]) :
    applyMethod m args o f = applyWrite m args o (f, w) f := by
  unfold applyMethod
  simp only [he]
  -- project the fold onto the writes that target f
  have key : ∀ (ws : List (OField × OWrite)) (o o' : Options), o f = o' f →
      (ws.foldl (applyWrite m args) o) f = ((ws.filter (·.1 == f)).foldl (applyWrite m args) o') f := by
    intro ws
    induction ws with
    | nil => intro o o' h; exact h
    | cons x xs ih =>
      intro o o' h
      rw [List.foldl_cons]
      by_cases hx : x.1 = f
      · rw [List.filter_cons_of_pos (by simp [hx]), List.foldl_cons]
        apply ih
        have hx' : f = x.1 := hx.symm
        subst hx'
        exact applyWrite_local m args o o' x h
      · rw [List.filter_cons_of_neg (by simp [hx])]
        apply ih
        rw [applyWrite_frame m args o x f (fun e => hx e.symm)]; exact h
  rw [key e.writes o o rfl, hw]; rfl

/-- **Switches.** A switch arm whose method writes the constant `c` (or its Boolean argument, with the
arm passing `c`) into a Boolean field leaves `c` there, whatever the field held before: the inverse
of "push the flag iff the value is `c`". -/
theorem switch_absorbs (b : Options) (a : CliArm) (vals : List String) (m : OMethod) (e : MethodEffect)
    (f : OField) (c : Bool) (hm : a.method = some m) (he : effOf m = some e)
    (hw : e.writes.filter (·.1 == f) = [(f, .const c)] ∨
          (e.writes.filter (·.1 == f) = [(f, .arg)] ∧ tyOf f = .tBool ∧
            armArgs a vals = [if c then "true" else "false"])) :
    stepOcc b ⟨a, vals⟩ f = .b c := by
  unfold stepOcc
  simp only [hm]
  rcases hw with hw | ⟨hw, hty, harg⟩
  · rw [applyMethod_single m _ b e f _ he hw, applyWrite_self]
    simp [writeVal]
  · rw [applyMethod_single m _ b e f _ he hw, harg, applyWrite_self]
    cases c <;> simp [writeVal, hty]

/-- **Lists.** An arm whose method pushes its argument onto a string-list field appends it: absorbing
`flag v₁ … flag vₙ` in order rebuilds `[v₁, …, vₙ]` on top of what was there. -/
theorem list_absorbs (b : Options) (a : CliArm) (m : OMethod) (e : MethodEffect) (f : OField)
    (l : List String) (vs : List String) (hm : a.method = some m) (he : effOf m = some e)
    (hc : a.const = .fromValue) (hk : a.clap = .multi)
    (hw : e.writes.filter (·.1 == f) = [(f, .pushArg)]) (hb : b f = .strs l) :
    ((vs.map fun v => (⟨a, [v]⟩ : Occ)).foldl stepOcc b) f = .strs (l ++ vs) := by
  induction vs generalizing b l with
  | nil => simpa using hb
  | cons v vs ih =>
    rw [List.map_cons, List.foldl_cons]
    have hstep : stepOcc b ⟨a, [v]⟩ f = .strs (l ++ [v]) := by
      unfold stepOcc
      simp only [hm]
      rw [applyMethod_single m _ b e f _ he hw, applyWrite_self]
      simp [writeVal, armArgs, hc, hk, hb]
    rw [ih _ (l ++ [v]) hstep]
    simp

/-- **Single values.** An option arm whose method stores `Some(argument)` / the argument. -/
theorem single_absorbs (b : Options) (a : CliArm) (m : OMethod) (e : MethodEffect) (f : OField)
    (v : String) (hm : a.method = some m) (he : effOf m = some e)
    (hc : a.const = .fromValue) (hk : a.clap = .opt)
    (hw : e.writes.filter (·.1 == f) = [(f, .someArg)]) :
    stepOcc b ⟨a, [v]⟩ f = .opt (some v) := by
  unfold stepOcc
  simp only [hm]
  rw [applyMethod_single m _ b e f _ he hw, applyWrite_self]
  simp [writeVal, armArgs, hc, hk]

/-! ## composed: what `builder_from_flags` rebuilds for one field -/

/-- only occurrences of arms that are applied to the builder survive the ordering step -/
theorem mem_byOrder (occs : List Occ) (o : Occ) (h : o ∈ byOrder occs) :
    o ∈ occs ∧ o.arm.order.isSome = true := by
  unfold byOrder at h
  rcases List.mem_map.mp h with ⟨y, hy, rfl⟩
  rcases List.mem_filterMap.mp (mem_foldr_insertByOrder _ y hy) with ⟨o', ho', hf⟩
  cases ho'' : o'.arm.order with
  | none => simp [ho''] at hf
  | some n =>
    simp only [ho'', Option.map_some, Option.some.injEq] at hf
    subst hf
    exact ⟨ho', by simp [ho'']⟩

/-- the occurrences of a one-value arm are `⟨a, [v]⟩` for the list of their values -/
theorem filter_arm_form (a : CliArm) (occs : List Occ)
    (hshape : ∀ o ∈ occs, o.arm = a → ∃ v, o.vals = [v]) :
    ∃ vs : List String, (occs.filter fun o => decide (o.arm = a)) = vs.map (fun v => (⟨a, [v]⟩ : Occ)) ∧
      (occs.filter fun o => decide (o.arm = a)).flatMap (·.vals) = vs := by
  induction occs with
  | nil => exact ⟨[], rfl, rfl⟩
  | cons o os ih =>
    obtain ⟨vs, h1, h2⟩ := ih (fun z hz => hshape z (by simp [hz]))
    by_cases hoa : o.arm = a
    · obtain ⟨v, hv⟩ := hshape o (by simp) hoa
      refine ⟨v :: vs, ?_, ?_⟩
      · rw [List.filter_cons_of_pos (by simpa using hoa), h1]
        cases o with
        | mk arm vals => simp only at hoa hv; subst hoa; subst hv; rfl
      · rw [List.filter_cons_of_pos (by simpa using hoa), List.flatMap_cons, h2, hv]; rfl
    · refine ⟨vs, ?_, ?_⟩
      · rw [List.filter_cons_of_neg (by simpa using hoa), h1]
      · rw [List.filter_cons_of_neg (by simpa using hoa), h2]

/-- **Round trip of a list-valued field (generic).** Let `a` be an applied multi-value arm whose
method pushes its value onto field `f`, and let no other applied arm occurring on the command line
write `f`.  Then `builder_from_flags` leaves in `f` exactly the values given to `a`, in command-line
order — the inverse of emitting `flag v` once per item, in order. -/
theorem C13_list_field_roundtrip (env : Env) (f : OField) (a : CliArm) (m : OMethod) (e : MethodEffect)
    (k : Nat) (occs : List Occ)
    (hm : a.method = some m) (he : effOf m = some e) (hc : a.const = .fromValue) (hk : a.clap = .multi)
    (hord : a.order = some k)
    (hw : e.writes.filter (·.1 == f) = [(f, .pushArg)])
    (hdef : defaults env f = .strs [])
    (hsole : ∀ o ∈ occs, o.arm ≠ a → o.arm.order.isSome = true → writesField f o.arm = false)
    (hshape : ∀ o ∈ occs, o.arm = a → ∃ v, o.vals = [v]) :
    absorb env occs f = .strs ((occs.filter fun o => o.arm = a).flatMap (·.vals)) := by
  have hawrites : writesField f a = true := by
    unfold writesField armWrites
    simp only [hm, Option.bind_some, he, List.any_eq_true]
    have : (f, OWrite.pushArg) ∈ e.writes.filter (·.1 == f) := by rw [hw]; simp
    exact ⟨_, (List.mem_filter.mp this).1, by simp⟩
  rw [absorb_field]
  have hfilt : ((byOrder occs).filter fun o => writesField f o.arm) =
      (byOrder occs).filter fun o => decide (o.arm = a) := by
    apply List.filter_congr
    intro o ho
    obtain ⟨hmem, hso⟩ := mem_byOrder occs o ho
    by_cases hoa : o.arm = a
    · simp [hoa, hawrites]
    · simp [hoa, hsole o hmem hoa hso]
  rw [hfilt, byOrder_filter (fun o => decide (o.arm = a)) k occs
    (fun o _ hp => by have : o.arm = a := by simpa using hp
                      rw [this]; exact hord)]
  obtain ⟨vs, hvs, hvs2⟩ := filter_arm_form a occs hshape
  rw [hvs2, hvs, list_absorbs (defaults env) a m e f [] vs hm he hc hk hw hdef]
  simp

/-- **Round trip of a Boolean field (generic).** Let `a` be an applied switch whose method leaves the
constant `c` in field `f` (see `switch_absorbs`), and let no other applied arm on the command line
write `f`.  Then `f` ends as `c` if the switch is present and keeps its default otherwise — the
inverse of "push the flag iff the value is `c`" when the default is `!c`. -/
theorem C13_switch_field_roundtrip (env : Env) (f : OField) (a : CliArm) (m : OMethod) (e : MethodEffect)
    (c : Bool) (k : Nat) (occs : List Occ)
    (hm : a.method = some m) (he : effOf m = some e) (hord : a.order = some k)
    (hw : e.writes.filter (·.1 == f) = [(f, .const c)] ∨
          (e.writes.filter (·.1 == f) = [(f, .arg)] ∧ tyOf f = .tBool ∧
            ∀ vals, armArgs a vals = [if c then "true" else "false"]))
    (hsole : ∀ o ∈ occs, o.arm ≠ a → o.arm.order.isSome = true → writesField f o.arm = false) :
    absorb env occs f = if occs.any (fun o => decide (o.arm = a)) then .b c else defaults env f := by
  have hawrites : writesField f a = true := by
    unfold writesField armWrites
    simp only [hm, Option.bind_some, he, List.any_eq_true]
    rcases hw with hw | ⟨hw, _, _⟩
    · have : (f, OWrite.const c) ∈ e.writes.filter (·.1 == f) := by rw [hw]; simp
      exact ⟨_, (List.mem_filter.mp this).1, by simp⟩
    · have : (f, OWrite.arg) ∈ e.writes.filter (·.1 == f) := by rw [hw]; simp
      exact ⟨_, (List.mem_filter.mp this).1, by simp⟩
  rw [absorb_field]
  have hfilt : ((byOrder occs).filter fun o => writesField f o.arm) =
      (byOrder occs).filter fun o => decide (o.arm = a) := by
    apply List.filter_congr
    intro o ho
    obtain ⟨hmem, hso⟩ := mem_byOrder occs o ho
    by_cases hoa : o.arm = a
    · simp [hoa, hawrites]
    · simp [hoa, hsole o hmem hoa hso]
  rw [hfilt, byOrder_filter (fun o => decide (o.arm = a)) k occs
    (fun o _ hp => by have : o.arm = a := by simpa using hp
                      rw [this]; exact hord)]
  -- folding one or more occurrences of the switch leaves `c`
  have hfold : ∀ (L : List Occ) (b : Options), (∀ o ∈ L, o.arm = a) →
      (L.foldl stepOcc b) f = if L.isEmpty then b f else .b c := by
    intro L
    induction L with
    | nil => intro b _; rfl
    | cons o os ih =>
      intro b hall
      rw [List.foldl_cons, ih _ (fun z hz => hall z (by simp [hz]))]
      have ho : o.arm = a := hall o (by simp)
      have hstep : stepOcc b o f = .b c := by
        cases o with
        | mk arm vals =>
          simp only at ho; subst ho
          apply switch_absorbs b _ vals m e f c hm he
          rcases hw with hw | ⟨hw, hty, harg⟩
          · exact Or.inl hw
          · exact Or.inr ⟨hw, hty, harg vals⟩
      cases os <;> simp [hstep]
  rw [hfold _ _ (fun o ho => by simpa using (List.mem_filter.mp ho).2)]
  cases hany : occs.any (fun o => decide (o.arm = a)) with
  | false =>
    have : (occs.filter fun o => decide (o.arm = a)) = [] := by
      rw [List.filter_eq_nil_iff]
      intro o ho hp
      have := List.any_eq_false.mp hany o ho
      exact this hp
    simp [this]
  | true =>
    obtain ⟨o, ho, hp⟩ := List.any_eq_true.mp hany
    have : o ∈ occs.filter fun o => decide (o.arm = a) := List.mem_filter.mpr ⟨ho, hp⟩
    cases hl : (occs.filter fun o => decide (o.arm = a)) with
    | nil => rw [hl] at this; simp at this
    | cons x xs => simp

/-! ## the generated table -/

/-- every row of the table found in the source is well formed, except the listed known defect -/
theorem C13_table_wf (s : OptSpec) (hs : s ∈ optSpecs) :
    wfRow s = true ∨ s.field ∈ knownDefectFields := wf_all s hs

/-- every field has its own arm as sole writer, except the listed multi-writer cluster -/
theorem C13_sole_writer (s : OptSpec) (hs : s ∈ optSpecs) :
    (otherWriters s).isEmpty = true ∨ s.field ∈ multiWriterFields ∨ s.field ∈ knownDefectFields :=
  sole_all s hs

/-- the flags pushed by `command_line_flags` are pairwise distinct -/
theorem C13_flags_distinct : rowFlags.Nodup := by
  have := flags_distinct
  simpa [flagsDistinct] using this

/-- **Sole writer ⇒ isolation.** For a field whose row has no other writer, every applied,
non-experimental arm that writes it carries one of the row's own flags. -/
theorem other_arm_does_not_write (s : OptSpec) (h : (otherWriters s).isEmpty = true)
    (a : CliArm) (ha : a ∈ cliArms) (hord : a.order.isSome = true) (hexp : a.experimental = false)
    (hf : a.flag ≠ s.flag) (hf2 : s.flag2.isNone = true ∨ a.flag ≠ s.flag2) :
    writesField s.field a = false := by
  unfold otherWriters at h
  rw [List.isEmpty_iff] at h
  have hmem := List.filter_eq_nil_iff.mp h a ha
  cases hw : writesField s.field a with
  | false => rfl
  | true =>
    exfalso; apply hmem
    unfold writesField at hw
    simp only [Bool.and_eq_true, Bool.not_eq_true', bne_iff_ne, ne_eq, Bool.or_eq_true]
    refine ⟨⟨⟨⟨hord, hexp⟩, hf⟩, ?_⟩, hw⟩
    rcases hf2 with h2 | h2
    · exact Or.inl h2
    · exact Or.inr h2

/-! ## the composed theorems apply to the generated table -/

/-- the hypotheses of `C13_list_field_roundtrip` about the row's own arm, as a decidable check -/
def listRowReady (s : OptSpec) : Bool :=
  match rowArm s with
  | none => false
  | some a =>
    match a.method with
    | none => false
    | some m =>
      match effOf m with
      | none => false
      | some e =>
        a.const == .fromValue && a.clap == .multi && a.order.isSome &&
        e.writes.filter (·.1 == s.field) == [(s.field, .pushArg)]

theorem listRowReady_elim (s : OptSpec) (h : listRowReady s = true) :
    ∃ a m e k, rowArm s = some a ∧ a.method = some m ∧ effOf m = some e ∧ a.const = .fromValue ∧
      a.clap = .multi ∧ a.order = some k ∧ e.writes.filter (·.1 == s.field) = [(s.field, .pushArg)] := by
  unfold listRowReady at h
  split at h
  · exact absurd h (by decide)
  · rename_i a ha
    split at h
    · exact absurd h (by decide)
    · rename_i m hm
      split at h
      · exact absurd h (by decide)
      · rename_i e he
        simp only [Bool.and_eq_true, beq_iff_eq] at h
        obtain ⟨⟨⟨h1, h2⟩, h3⟩, h4⟩ := h
        cases ho : a.order with
        | none => rw [ho] at h3; exact absurd h3 (by decide)
        | some k => exact ⟨a, m, e, k, ha, hm, he, h1, h2, ho, h4⟩

/-- every regex-set / string-list row of the table found in the source satisfies them (except the
listed known defect), so `C13_list_field_roundtrip` applies to each of these fields -/
theorem C13_list_rows_ready :
    (optSpecs.all fun s => !(s.kind == .regexSet || s.kind == .vec) || listRowReady s ||
      knownDefectFields.contains s.field) = true := by decide +kernel

/-- the hypotheses of `C13_switch_field_roundtrip` for a switch row: the method stores the constant
(`bool`: true, `negBool`: false) or its Boolean argument with the arm passing that constant -/
def switchRowReady (s : OptSpec) (c : Bool) : Bool :=
  match rowArm s with
  | none => false
  | some a =>
    match a.method with
    | none => false
    | some m =>
      match effOf m with
      | none => false
      | some e =>
        a.clap == .switch && a.order.isSome &&
        (e.writes.filter (·.1 == s.field) == [(s.field, .const c)] ||
         (e.writes.filter (·.1 == s.field) == [(s.field, .arg)] && tyOf s.field == .tBool &&
          (if c then a.const == .fromValue || a.const == .cTrue else a.const == .cFalse)))

/-- every Boolean row of the table satisfies them with the constant that undoes its default
(fields no Builder method can set are vacuous) -/
theorem C13_switch_rows_ready :
    (optSpecs.all fun s =>
      (!(s.kind == .bool) || !fieldWritten s.field || switchRowReady s true) &&
      (!(s.kind == .negBool) || switchRowReady s false)) = true := by decide +kernel

/-- the constant passed by a switch arm -/
theorem armArgs_switch (a : CliArm) (vals : List String) (hk : a.clap = .switch) (c : Bool)
    (hc : if c then a.const = .fromValue ∨ a.const = .cTrue else a.const = .cFalse) :
    armArgs a vals = [if c then "true" else "false"] := by
  unfold armArgs
  cases c
  · simp only [Bool.false_eq_true, if_false] at hc; simp [hc]
  · simp only [if_true] at hc
    rcases hc with hc | hc <;> simp [hc, hk]

/-! ## non-vacuity -/

example : wfRow spec_use_core = true ∧ wfRow spec_layout_tests = true ∧
    wfRow spec_blocklisted_types = true ∧ wfRow spec_codegen_config = true := by decide +kernel
example : (otherWriters spec_formatter).length = 2 := by decide +kernel

end BindgenModel.Opts
