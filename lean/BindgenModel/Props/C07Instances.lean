import BindgenModel.Props.C07
import BindgenModel.Lemmas.Analyses
/-!
# C07 — the analyses of bindgen as lawful instances

`instance_lawful`: every analysis in normal form (`Model/Analyses.lean`) satisfies `Lawful`
as soon as the *decidable* condition `readsCovered` holds for the concrete graph: every node a
rule reads has a dependency edge back to the reader.  The correspondence run evaluates that
condition on every dumped graph and reports the nodes where it fails (members behind names
like `uint64_t`, which `Trace` skips).  `*_considered` are the table obligations that make it
hold on ordinary graphs: each edge kind through which a rule reads a child is admitted by the
analysis' own `consider_edge`, as regenerated from the source.
-/
namespace BindgenModel.Analyses
open BindgenModel.Worklist BindgenModel.Generated

theorem instance_lawful (I : Instance) (hcov : I.readsCovered = true) : Lawful I.framework where
  le_refl := by intro a; simp [Instance.framework]
  le_trans := by
    intro a b c h1 h2
    simp only [Instance.framework, decide_eq_true_eq] at *
    exact Fin.le_trans h1 h2
  le_antisymm := by
    intro a b h1 h2
    simp only [Instance.framework, decide_eq_true_eq] at *
    exact Fin.le_antisymm h1 h2
  join_ub_l := by intro a b; simp only [Instance.framework, decide_eq_true_eq]; exact le_vmax_left a b
  join_ub_r := by intro a b; simp only [Instance.framework, decide_eq_true_eq]; exact le_vmax_right a b
  join_lub := by
    intro a b c h1 h2
    simp only [Instance.framework, decide_eq_true_eq] at *
    exact (vmax_le_iff a b c).mpr ⟨h1, h2⟩
  rank_strict := by
    intro a b h hne
    simp only [Instance.framework, decide_eq_true_eq] at *
    have : a.val ≠ b.val := fun e => hne (Fin.ext e)
    simp only [Fin.le_def] at h
    omega
  rank_le := by intro a; simp only [Instance.framework]; omega
  reads_only := by
    intro s s' n h
    exact eval_reads_only _ s s' h
  reads_deps := by
    intro n m hm hn
    simp only [Instance.readsCovered, List.all_eq_true] at hcov
    have := hcov n hn m hm
    simpa [Instance.framework] using this
  mono := by
    intro s s' n h
    simp only [Instance.framework, decide_eq_true_eq] at *
    exact eval_mono _ s s' h

/-- the facts every analysis of bindgen computes are stable, least and schedule-independent,
for every graph on which the dependency edges cover what the rules read -/
theorem C07_instance_stable (I : Instance) (hcov : I.readsCovered = true)
    (hclosed : I.depsClosed = true) (hwl : ∀ n ∈ I.initWl, n ∈ I.nodes)
    (hall : ∀ n ∈ I.nodes, n ∈ I.initWl) :
    ∀ n ∈ I.nodes, Stable I.framework (analyze I.framework I.initWl) n := by
  have hd : ∀ n ∈ I.framework.nodes, ∀ m ∈ I.framework.deps n, m ∈ I.framework.nodes := by
    intro n hn m hm
    simp only [Instance.depsClosed, List.all_eq_true] at hclosed
    have := hclosed n hn m hm
    simpa [Instance.framework] using this
  exact C07_stable I.framework (instance_lawful I hcov) hd I.initWl hwl hall

theorem C07_instance_schedule_irrelevant (I : Instance) (hcov : I.readsCovered = true)
    (hclosed : I.depsClosed = true) (wl₁ wl₂ : List Nat)
    (h₁ : ∀ n ∈ wl₁, n ∈ I.nodes) (h₂ : ∀ n ∈ wl₂, n ∈ I.nodes)
    (a₁ : ∀ n ∈ I.nodes, n ∈ wl₁) (a₂ : ∀ n ∈ I.nodes, n ∈ wl₂) :
    analyze I.framework wl₁ = analyze I.framework wl₂ := by
  have hd : ∀ n ∈ I.framework.nodes, ∀ m ∈ I.framework.deps n, m ∈ I.framework.nodes := by
    intro n hn m hm
    simp only [Instance.depsClosed, List.all_eq_true] at hclosed
    have := hclosed n hn m hm
    simpa [Instance.framework] using this
  exact C07_schedule_irrelevant I.framework (instance_lawful I hcov)
    (by intro a; simp [Instance.framework]) hd wl₁ wl₂ h₁ h₂ a₁ a₂

/-! ## table obligations: the edge kinds the rules read are admitted by `consider_edge`

`Trace` reports: alias / typeref / pointer / array inner types as `TypeReference`; bases as
`BaseMember`; data members and bit-field members as `Field`; template definition as
`TemplateDeclaration`; template arguments as `TemplateArgument`. -/

/-- has_vtable reads: alias/typeref/reference inner, bases, template definition -/
theorem hasVtable_considered :
    considerEdge .hasVtable .typeReference = true ∧ considerEdge .hasVtable .baseMember = true ∧
    considerEdge .hasVtable .templateDeclaration = true := by decide

/-- has_destructor reads: alias/typeref inner, bases, data members, template definition and arguments -/
theorem hasDestructor_considered :
    considerEdge .hasDestructor .typeReference = true ∧ considerEdge .hasDestructor .baseMember = true ∧
    considerEdge .hasDestructor .field = true ∧ considerEdge .hasDestructor .templateDeclaration = true ∧
    considerEdge .hasDestructor .templateArgument = true := by decide

/-- has_float reads: array/vector/alias inner, bases, fields (incl. bit-fields), template definition and arguments -/
theorem hasFloat_considered :
    considerEdge .hasFloat .typeReference = true ∧ considerEdge .hasFloat .baseMember = true ∧
    considerEdge .hasFloat .field = true ∧ considerEdge .hasFloat .templateDeclaration = true ∧
    considerEdge .hasFloat .templateArgument = true := by decide

theorem hasTypeParamInArray_considered :
    considerEdge .hasTypeParamInArray .typeReference = true ∧
    considerEdge .hasTypeParamInArray .baseMember = true ∧
    considerEdge .hasTypeParamInArray .field = true ∧
    considerEdge .hasTypeParamInArray .templateDeclaration = true ∧
    considerEdge .hasTypeParamInArray .templateArgument = true := by decide

/-- sizedness reads: alias/typeref inner, template definition, bases -/
theorem sizedness_considered :
    considerEdge .sizedness .typeReference = true ∧ considerEdge .sizedness .templateDeclaration = true ∧
    considerEdge .sizedness .baseMember = true := by decide

/-- the derive analyses join over the traced edges admitted by the per-trait predicates; every
such edge kind is also admitted by `consider_edge_default`, which builds the dependencies;
arrays and vectors read their element type (a `TypeReference` edge) -/
theorem derive_considered :
    (∀ t k, deriveEdgeComp t k = true → considerEdge .deriveDefault k = true) ∧
    (∀ t k, deriveEdgeTyperef t k = true → considerEdge .deriveDefault k = true) ∧
    (∀ t k, deriveEdgeTmplInst t k = true → considerEdge .deriveDefault k = true) ∧
    considerEdge .deriveDefault .typeReference = true := by
  refine ⟨?_, ?_, ?_, by decide⟩ <;> intro t k <;> cases t <;> cases k <;> decide

/-- the rule tables agree with the documented derive rules that C08 builds on -/
theorem derive_trait_tables :
    canDeriveUnion .copy = true ∧ canDeriveUnion .debug = false ∧ canDeriveUnion .default = false ∧
    canDeriveUnion .hash = false ∧ canDeriveUnion .partialEqOrPartialOrd = false ∧
    canDeriveCompoundWithDestructor .copy = false ∧ canDeriveCompoundWithVtable .default = false ∧
    canDeriveLargeArray .default = false ∧ canDeriveLargeArray .copy = true ∧
    canDeriveIncompleteArray .copy = false ∧ canDeriveIncompleteArray .hash = false ∧
    canDeriveIncompleteArray .partialEqOrPartialOrd = false ∧
    rustDeriveInArrayLimit = 32 ∧ rustDeriveFunptrLimit = 12 := by decide

/-! ## non-vacuity: a concrete graph (class `D : B`, `B` polymorphic, alias `A = D`) -/

def demoIR : IR.IR :=
  { items := #[
      {},
      { id := 1, kind := .type, allowlisted := true, tk := .comp, ownVirtual := true },
      { id := 2, kind := .type, allowlisted := true, tk := .comp, bases := [(1, false)],
        edges := [(1, .baseMember)] },
      { id := 3, kind := .type, allowlisted := true, tk := .alias, inner := some 2,
        edges := [(2, .typeReference)] }] }

example : (hasVtableInstance demoIR).readsCovered = true ∧ (hasVtableInstance demoIR).depsClosed = true := by
  decide
example : ((hasVtableInstance demoIR).solve 4).toList = [0, 1, 2, 2] := by decide

end BindgenModel.Analyses
