import BindgenModel.Model.Derives
import BindgenModel.Props.C07Instances
/-!
# C08 — traits derived exactly when the rules allow; hand-written impls act like derives

* `lfp_eq_fixpoint_of_wf`: on a graph whose reads are well-founded (by-value containment is
  acyclic) the work-list result **is** the unique solution of the recursive rule equations — the
  analyses are sound *and* complete w.r.t. the recursive specification "a type can derive T iff
  its own kind allows it and every member can".
* decision theorems about `derives_of_item` / `CompInfo::codegen` for every option record and
  every analysis answer;
* rule theorems: what the per-type rule of the derive analysis answers for the constituents the
  property names (floats, pointers, enums, large arrays, unions, destructors, vtables, …).
-/
namespace BindgenModel.Worklist

variable {N L : Type} [DecidableEq N] [DecidableEq L]

/-- **sound and complete w.r.t. the recursive specification** -/
theorem lfp_eq_fixpoint_of_wf (F : Framework N L) (h : Lawful F) (hbot : ∀ a, F.le F.bot a = true)
    (hd : ∀ n ∈ F.nodes, ∀ m ∈ F.deps n, m ∈ F.nodes) (wl : List N)
    (hwl : ∀ n ∈ wl, n ∈ F.nodes) (hall : ∀ n ∈ F.nodes, n ∈ wl)
    (depth : N → Nat) (hdepth : ∀ n ∈ F.nodes, ∀ m ∈ F.reads n, m ∈ F.nodes ∧ depth m < depth n)
    (p : N → L) (hp : ∀ n ∈ F.nodes, p n = F.rule p n) :
    ∀ n ∈ F.nodes, analyze F wl n = p n := by
  have hstab := C07_stable F h hd wl hwl hall
  have hle : ∀ n, F.le (analyze F wl n) (p n) = true := by
    apply run_le_nodes F h hd p _ _ _ wl hwl (fun m => hbot _)
    intro n hn
    unfold Stable
    rw [← hp n hn]
    exact h.le_refl _
  have hge : ∀ k n, depth n < k → n ∈ F.nodes → F.le (p n) (analyze F wl n) = true := by
    intro k
    induction k with
    | zero => intro n hlt; omega
    | succ k ih =>
      intro n hlt hn
      have heq : F.rule p n = F.rule (analyze F wl) n := by
        apply h.reads_only
        intro m hm
        obtain ⟨hmn, hdm⟩ := hdepth n hn m hm
        exact (h.le_antisymm _ _ (hle m) (ih m (by omega) hmn)).symm
      rw [hp n hn, heq]
      exact hstab n hn
  intro n hn
  exact h.le_antisymm _ _ (hle n) (hge (depth n + 1) n (by omega) hn)

end BindgenModel.Worklist

namespace BindgenModel.Derives
open BindgenModel.IR BindgenModel.Analyses BindgenModel.Generated

/-! ## `derives_of_item`: sound and complete w.r.t. the gates, for every configuration -/

theorem mem_derivesOfItem (o : Opts) (L : Lookups) (a : Ann) (packed : Bool) (n : Nat) (t : Trait) :
    t ∈ derivesOfItem o L a packed n ↔
      (¬ ((gate o L n .copy && !a.noCopy) = false ∧ packed = true)) ∧
      (match t with
       | .copy | .clone => (gate o L n .copy && !a.noCopy) = true
       | .debug => (gate o L n .debug && !a.noDebug) = true
       | .default => (gate o L n .default && !a.noDefault) = true
       | t => gate o L n t = true) := by
  unfold derivesOfItem
  cases hc : (gate o L n .copy && !a.noCopy) <;> cases packed <;> cases t <;>
    simp [hc] <;> (try (cases gate o L n .debug <;> cases a.noDebug <;> simp)) <;>
    (try (cases gate o L n .default <;> cases a.noDefault <;> simp))

/-- **never** with the option off -/
theorem derive_requires_option (o : Opts) (L : Lookups) (a : Ann) (packed : Bool) (n : Nat) (t : Trait)
    (h : t ∈ derivesOfItem o L a packed n) :
    (match t with
     | .copy | .clone => o.deriveCopy | .debug => o.deriveDebug | .default => o.deriveDefault
     | .hash => o.deriveHash | .partialOrd => o.derivePartialord | .ord => o.deriveOrd
     | .partialEq => o.derivePartialeq | .eq => o.deriveEq) = true := by
  have := (mem_derivesOfItem o L a packed n t).mp h
  cases t <;> simp_all [gate] <;> (try exact this.2.1.1) <;> (try exact this.2.1)

/-- **never** when the analysis says a constituent cannot support it -/
theorem derive_requires_analysis (o : Opts) (L : Lookups) (a : Ann) (packed : Bool) (n : Nat) :
    (Trait.copy ∈ derivesOfItem o L a packed n → L.canCopy n = true ∧ a.noCopy = false) ∧
    (Trait.debug ∈ derivesOfItem o L a packed n → L.canDebug n = true ∧ a.noDebug = false) ∧
    (Trait.default ∈ derivesOfItem o L a packed n → L.canDefault n = true ∧ a.noDefault = false) ∧
    (Trait.hash ∈ derivesOfItem o L a packed n → L.canHash n = true) ∧
    (Trait.partialEq ∈ derivesOfItem o L a packed n → L.partialEq n = 0) ∧
    (Trait.partialOrd ∈ derivesOfItem o L a packed n → L.partialEq n = 0) ∧
    (Trait.eq ∈ derivesOfItem o L a packed n → L.partialEq n = 0 ∧ L.hasFloat n = false) ∧
    (Trait.ord ∈ derivesOfItem o L a packed n → L.partialEq n = 0 ∧ L.hasFloat n = false) := by
  refine ⟨?_, ?_, ?_, ?_, ?_, ?_, ?_, ?_⟩ <;> intro h <;>
    have := (mem_derivesOfItem o L a packed n _).mp h <;> simp_all [gate]

/-- a packed type that cannot be `Copy` derives nothing at all -/
theorem packed_requires_copy (o : Opts) (L : Lookups) (a : Ann) (n : Nat)
    (h : (gate o L n .copy && !a.noCopy) = false) : derivesOfItem o L a true n = [] := by
  unfold derivesOfItem; simp [h]

/-- **never withheld**: option on, analysis yes, not excluded, and (Copy or not packed) ⇒ derived -/
theorem derive_complete (o : Opts) (L : Lookups) (a : Ann) (packed : Bool) (n : Nat) (t : Trait)
    (hpk : packed = false ∨ (gate o L n .copy && !a.noCopy) = true)
    (hg : gate o L n t = true)
    (ha : (match t with
           | .copy | .clone => a.noCopy | .debug => a.noDebug | .default => a.noDefault
           | _ => false) = false) :
    t ∈ derivesOfItem o L a packed n := by
  rw [mem_derivesOfItem]
  refine ⟨by rcases hpk with h | h <;> simp [h], ?_⟩
  cases t <;> simp only [gate] at hg ⊢ <;> simp_all

/-- a trait is listed at most once (a repeated trait in `#[derive(..)]` is a rustc error) -/
theorem derives_nodup (o : Opts) (L : Lookups) (a : Ann) (packed : Bool) (n : Nat) :
    (derivesOfItem o L a packed n).Nodup := by
  unfold derivesOfItem
  cases (gate o L n .copy && !a.noCopy) <;> cases packed <;>
    cases (gate o L n .debug && !a.noDebug) <;> cases (gate o L n .default && !a.noDefault) <;>
    cases gate o L n .hash <;> cases gate o L n .partialOrd <;> cases gate o L n .ord <;>
    cases gate o L n .partialEq <;> cases gate o L n .eq <;> decide

/-- **supertraits are present** whenever their option is on: `Eq` comes with `PartialEq`, `Ord` with
`PartialOrd`, `Eq` and `PartialEq` (rustc rejects `#[derive(Eq)]` without `PartialEq`); the builder
turns the supertrait options on together with `derive_eq` / `derive_ord` -/
theorem supertraits_present (o : Opts) (L : Lookups) (a : Ann) (packed : Bool) (n : Nat) :
    (Trait.eq ∈ derivesOfItem o L a packed n → o.derivePartialeq = true →
      Trait.partialEq ∈ derivesOfItem o L a packed n) ∧
    (Trait.ord ∈ derivesOfItem o L a packed n → o.derivePartialord = true →
      Trait.partialOrd ∈ derivesOfItem o L a packed n) ∧
    (Trait.ord ∈ derivesOfItem o L a packed n → o.deriveEq = true →
      Trait.eq ∈ derivesOfItem o L a packed n) := by
  refine ⟨?_, ?_, ?_⟩ <;> intro h ho <;>
    have := (mem_derivesOfItem o L a packed n _).mp h <;>
    rw [mem_derivesOfItem] <;> simp_all [gate]

/-- `Copy` and `Debug`/`Default` exclusions by annotation remove exactly that trait (and `Clone`
with `Copy`) from a type that is not packed: every other trait is decided as without the annotation -/
theorem annotation_removes_only_its_trait (o : Opts) (L : Lookups) (a : Ann) (n : Nat) (t : Trait)
    (ht : t ≠ .copy ∧ t ≠ .clone ∧ t ≠ .debug ∧ t ≠ .default) :
    t ∈ derivesOfItem o L a false n ↔ t ∈ derivesOfItem o L {} false n := by
  rw [mem_derivesOfItem, mem_derivesOfItem]
  obtain ⟨h1, h2, h3, h4⟩ := ht
  cases t <;> simp_all

theorem clone_iff_copy (o : Opts) (L : Lookups) (a : Ann) (packed : Bool) (n : Nat) :
    Trait.clone ∈ derivesOfItem o L a packed n ↔ Trait.copy ∈ derivesOfItem o L a packed n := by
  rw [mem_derivesOfItem, mem_derivesOfItem]

/-- forward declarations derive at most `Debug` -/
theorem fwd_only_debug (o : Opts) (L : Lookups) (a : Ann) (packed : Bool) (n : Nat) (t : Trait)
    (h : t ∈ compDerives o L a packed true n) : t = .debug := by
  unfold compDerives at h
  simp only [if_true] at h
  split at h <;> simp_all

/-- a hand-written impl is emitted only when the derive is absent, the option asks for it, and
(for PartialEq) the analysis answered `Manually` -/
theorem manual_impls_only_when_not_derived (o : Opts) (L : Lookups) (a : Ann) (packed fwd : Bool)
    (nd nf : Bool) (n : Nat) :
    let m := manualImpls o L a packed fwd nd nf n
    (m.debug = true → Trait.debug ∉ compDerives o L a packed fwd n ∧ o.deriveDebug = true ∧ o.implDebug = true) ∧
    (m.default = true → Trait.default ∉ compDerives o L a packed fwd n ∧ o.deriveDefault = true ∧ fwd = false) ∧
    (m.partialEq = true → Trait.partialEq ∉ compDerives o L a packed fwd n ∧ o.implPartialeq = true ∧ L.partialEq n = 1) := by
  simp only [manualImpls]
  refine ⟨?_, ?_, ?_⟩
  · intro h; simp_all
  · intro h
    simp only [Bool.and_eq_true, Bool.not_eq_true', decide_eq_true_eq, List.contains_eq_mem,
      decide_eq_false_iff_not] at h
    obtain ⟨h1, ⟨⟨h2, h3⟩, _⟩, _⟩ := h
    exact ⟨h1, h2, by simpa using h3⟩
  · intro h; simp_all

/-! ## the per-type rule of the derive analysis on the constituents the property names

`(ruleDeriveType g cx t inNodes n).const = 2` means `No` regardless of the members. -/

section rules
variable (g : IR) (cx : DeriveCtx) (inNodes : Nat → Bool) (n : Nat)

/-- shared preamble: an allow-listed, not excluded, non-opaque type -/
def Plain (t : DeriveTrait) : Prop :=
  (g.get n).allowlisted = true ∧ (g.get n).nbn.getD (nbnIndex t) false = false ∧ (g.get n).isOpaque = false

theorem float_blocks_hash (hp : Plain g n .hash) (hk : (g.get n).tk = .float ∨ (g.get n).tk = .complex) :
    (ruleDeriveType g cx .hash inNodes n).const = 2 := by
  obtain ⟨h1, h2, h3⟩ := hp
  unfold ruleDeriveType
  rcases hk with hk | hk <;> simp [h1, h2, h3, hk, canDeriveSimple]

theorem pointer_blocks_default (hp : Plain g n .default) (hk : (g.get n).tk = .pointer)
    (hnf : ∀ p, (g.get n).inner = some p → (g.get (g.canon p)).tk ≠ .function) :
    (ruleDeriveType g cx .default inNodes n).const = 2 := by
  obtain ⟨h1, h2, h3⟩ := hp
  unfold ruleDeriveType
  simp only [h1, h2, h3, hk]
  cases hi : (g.get n).inner with
  | none => simp [canDerivePointer]
  | some p => simp [hnf p hi, canDerivePointer]

theorem enum_blocks_default (hp : Plain g n .default) (hk : (g.get n).tk = .enum) :
    (ruleDeriveType g cx .default inNodes n).const = 2 := by
  obtain ⟨h1, h2, h3⟩ := hp
  unfold ruleDeriveType
  simp [h1, h2, h3, hk, canDeriveSimple]

/-- arrays beyond the 32-element limit: `Default` is `Manually` at best (never plain `Yes`) -/
theorem large_array_not_default (hp : Plain g n .default) (hk : (g.get n).tk = .array)
    (hlen : (g.get n).len > 32) : (ruleDeriveType g cx .default inNodes n).const ≥ 1 := by
  obtain ⟨h1, h2, h3⟩ := hp
  unfold ruleDeriveType
  have hl0 : ¬ (g.get n).len = 0 := by omega
  simp only [h1, h2, h3, hk]
  cases (g.get n).inner with
  | none => simp [hl0, canDeriveLargeArray, rustDeriveInArrayLimit, hlen]
  | some e =>
    by_cases ha : (g.get e).allowlisted = true
    · simp [ha, hl0, canDeriveLargeArray, rustDeriveInArrayLimit, hlen]
    · simp only [ha]
      simp [hl0, canDeriveLargeArray, rustDeriveInArrayLimit, hlen, vmax]
      split <;> simp_all

/-- a Rust union (untagged unions enabled) derives nothing but `Copy` -/
theorem union_only_copy (t : DeriveTrait) (ht : t ≠ .copy) (hp : Plain g n t)
    (hk : (g.get n).tk = .comp) (hu : (g.get n).isUnion = true) (hopt : g.opts.untaggedUnion = true)
    (hf : ¬ (!canDeriveCompoundForwardDecl t && (g.get n).fwd) = true)
    (hdt : ¬ (!canDeriveCompoundWithDestructor t && cx.hasDestructor n) = true) :
    (ruleDeriveType g cx t inNodes n).const = 2 := by
  obtain ⟨h1, h2, h3⟩ := hp
  unfold ruleDeriveType
  have hcu : canDeriveUnion t = false := by cases t <;> simp_all [canDeriveUnion]
  simp [h1, h2, h3, hk, hu, hopt, hf, hdt, hcu]

/-- a type with a destructor is never `Copy` -/
theorem destructor_blocks_copy (hp : Plain g n .copy) (hk : (g.get n).tk = .comp)
    (hfw : (g.get n).fwd = false) (hd : cx.hasDestructor n = true) :
    (ruleDeriveType g cx .copy inNodes n).const = 2 := by
  obtain ⟨h1, h2, h3⟩ := hp
  unfold ruleDeriveType
  simp [h1, h2, h3, hk, hfw, hd, canDeriveCompoundForwardDecl, canDeriveCompoundWithDestructor]

/-- a type with a vtable is never `Default` -/
theorem vtable_blocks_default (hp : Plain g n .default) (hk : (g.get n).tk = .comp)
    (hfw : (g.get n).fwd = false) (hu : (g.get n).isUnion = false) (hv : cx.hasVtable n = true) :
    (ruleDeriveType g cx .default inNodes n).const = 2 := by
  obtain ⟨h1, h2, h3⟩ := hp
  unfold ruleDeriveType
  simp [h1, h2, h3, hk, hfw, hu, hv, canDeriveCompoundForwardDecl, canDeriveCompoundWithDestructor,
    canDeriveCompoundWithVtable]

/-- user-excluded types (`--no-copy`, `--no-debug`, …) never derive -/
theorem excluded_by_name (t : DeriveTrait) (ha : (g.get n).allowlisted = true)
    (hx : (g.get n).nbn.getD (nbnIndex t) false = true) :
    (ruleDeriveType g cx t inNodes n).const = 2 := by
  simp only [List.getD_eq_getElem?_getD] at hx
  unfold ruleDeriveType; simp [ha, hx]

/-- a blocklisted type is assumed not to implement anything (unless its name is a stdint name) -/
theorem blocklisted_no_derive (t : DeriveTrait) (ha : (g.get n).allowlisted = false)
    (hs : ((g.get n).hasName && (g.get n).stdint) = false) :
    (ruleDeriveType g cx t inNodes n).const = 2 := by
  unfold ruleDeriveType; simp [ha, blocklistedImpl, hs]

end rules

/-- `No` on a member propagates: the join of a rule with a `No` constant is `No` -/
theorem const_two_eval (r : NodeRule) (s : Nat → V) (h : r.const = 2) : r.eval s = 2 := by
  unfold NodeRule.eval
  rw [h]
  apply Fin.le_antisymm
  · exact Fin.le_last _
  · exact Fin.le_trans (le_vmax_left (2 : V) _) (le_vmax_left _ _)

/-! ## non-vacuity -/
example : derivesOfItem { deriveDefault := true } ⟨fun _ => true, fun _ => true, fun _ => true,
    fun _ => true, fun _ => 0, fun _ => false, fun _ => false⟩ {} false 1
    = [.copy, .clone, .debug, .default] := by decide

end BindgenModel.Derives
