import BindgenModel.Model.Mangling
import BindgenModel.Generated.ManglingFilters
/-!
# C04 — C++ methods and destructors reach the right one of their symbols
-/
namespace BindgenModel.C04
open BindgenModel.Mangling BindgenModel.Generated

/-- whatever is picked is one of libclang's manglings and passes the filters -/
theorem pick_spec (f : Filters) (ms : List String) (m : String) (h : pick f ms = some m) :
    m ∈ ms ∧ f.admits m = true := by
  unfold pick at h
  exact ⟨by simpa using List.mem_of_find?_eq_some h, List.find?_some h⟩

/-- **never a thunk**: with the filter in place, an Itanium binding never names a thunk -/
theorem C04_never_a_thunk (f : Filters) (ms : List String) (m : String) (hs : f.skipThunks = true)
    (hi : f.itanium = true) (h : pick f ms = some m) : f.isThunk m = false := by
  have := (pick_spec f ms m h).2
  simp only [Filters.admits, hs, hi, Bool.true_and, Bool.and_eq_true, Bool.not_eq_true'] at this
  exact this.2

/-- **complete-object destructor**: an Itanium destructor binding names the `D1` symbol -/
theorem C04_destructor_is_D1 (f : Filters) (ms : List String) (m : String) (hi : f.itanium = true)
    (hd : f.destructor = true) (h : pick f ms = some m) : f.isD1 m = true := by
  have := (pick_spec f ms m h).2
  simp only [Filters.admits, hi, hd, Bool.true_and, Bool.and_eq_true, Bool.not_eq_true', Bool.not_eq_false'] at this
  exact this.1

/-- **something is picked whenever something admissible is listed** (no binding silently falls back to
`cursor.mangling()` while an admissible symbol exists) -/
theorem C04_pick_complete (f : Filters) (ms : List String) (m : String) (hm : m ∈ ms) (ha : f.admits m = true) :
    ∃ m', pick f ms = some m' := by
  unfold pick
  cases h : ms.reverse.find? f.admits with
  | some m' => exact ⟨m', rfl⟩
  | none =>
    rw [List.find?_eq_none] at h
    have := h m (by simpa using hm)
    simp [ha] at this

/-- the list is popped from the back: the last admissible entry wins, whatever comes before it -/
theorem C04_pick_last (f : Filters) (ms : List String) (m : String) (ha : f.admits m = true) :
    pick f (ms ++ [m]) = some m := by
  unfold pick
  simp [List.reverse_append, List.find?_cons, ha]

/-- an inadmissible last entry is skipped -/
theorem C04_pick_skips (f : Filters) (ms : List String) (m : String) (ha : f.admits m = false) :
    pick f (ms ++ [m]) = pick f ms := by
  unfold pick
  simp [List.reverse_append, List.find?_cons, ha]

/-- the defect repaired in /repo 7bacfa8d: `struct C : A, B { int fb(int) override; }` — libclang lists
the method and then its thunk; without the filter the thunk is bound -/
theorem C04_unfiltered_binds_thunk :
    pick { itanium := true, destructor := false, skipThunks := false, isThunk := isThunkName, isD1 := isD1Name }
      ["_ZN1C2fbEi", "_ZThn16_N1C2fbEi"] = some "_ZThn16_N1C2fbEi" ∧
    pick { itanium := true, destructor := false, skipThunks := true, isThunk := isThunkName, isD1 := isD1Name }
      ["_ZN1C2fbEi", "_ZThn16_N1C2fbEi"] = some "_ZN1C2fbEi" ∧
    pick { itanium := true, destructor := true, skipThunks := true, isThunk := isThunkName, isD1 := isD1Name }
      ["_ZN1CD2Ev", "_ZN1CD1Ev", "_ZN1CD0Ev", "_ZThn16_N1CD1Ev", "_ZThn16_N1CD0Ev"] = some "_ZN1CD1Ev" := by
  decide

/-- **source obligation**: both filters are in `cursor_mangling` -/
theorem C04_mangling_filters_in_source : thunksSkipped = true ∧ destructorGroupFiltered = true := by decide

end BindgenModel.C04
