import BindgenModel.Lemmas.BitfieldUnit
import BindgenModel.Model.BitfieldAlloc
/-!
# C03 — bit-field getters, setters and constructors agree bit-for-bit with C

Property theorems about `Model/BitfieldUnit.lean` (the model of
`bindgen/codegen/bitfield_unit.rs` and of the accessor cast chain).  They quantify over
**every** storage length, bit offset, width ≤ 64 and value; nothing is bounded.

The proofs force the hypothesis `w + off % 8 ≤ 64` (`Fits`): outside it (a field whose
shifted extent exceeds 64 bits, e.g. a 64-bit field at bit 4 of a packed struct) the real
code shifts a `u64` by 64; `C03_fails_on_shift_gt_64_*` exhibit the failure by a concrete
witness and `C03_dbgPanics_iff` says a checked build panics exactly there.
-/
namespace BindgenModel.BitfieldUnit

/-- the region in which the accessor arithmetic is correct -/
def Fits (off w : Nat) : Prop := w + off % 8 ≤ 64
instance (off w : Nat) : Decidable (Fits off w) := by unfold Fits; infer_instance

/-! ## specification lemmas -/

theorem specGetNat_lt (s : List Byte) (off w : Nat) : specGetNat s off w < 2 ^ w := by
  induction w with
  | zero => simp [specGetNat]
  | succ w ih =>
    simp only [specGetNat]
    have : 2 ^ (w + 1) = 2 ^ w + 2 ^ w := by rw [Nat.pow_succ]; omega
    split <;> omega

theorem specGetNat_testBit (s : List Byte) (off w i : Nat) :
    (specGetNat s off w).testBit i = (decide (i < w) && bitAt s (off + i)) := by
  induction w with
  | zero => simp [specGetNat]
  | succ w ih =>
    simp only [specGetNat]
    have hlt := specGetNat_lt s off w
    by_cases hi : i < w
    · have h1 : i < w + 1 := by omega
      split
      · rw [Nat.add_comm, Nat.testBit_two_pow_add_gt hi, ih]; simp [hi, h1]
      · rw [Nat.add_zero, ih]; simp [hi, h1]
    · by_cases hiw : i = w
      · subst hiw
        split
        · rename_i hb
          rw [Nat.add_comm, Nat.testBit_two_pow_add_eq, Nat.testBit_lt_two_pow hlt]
          simp [hb]
        · rename_i hb
          rw [Nat.add_zero, Nat.testBit_lt_two_pow hlt]
          simp [hb]
      · have h1 : ¬ i < w + 1 := by omega
        have hbig : specGetNat s off w + (if bitAt s (off + w) then 2 ^ w else 0) < 2 ^ i := by
          have : 2 ^ (w + 1) ≤ 2 ^ i := Nat.pow_le_pow_right (by omega) (by omega)
          have : 2 ^ (w + 1) = 2 ^ w + 2 ^ w := by rw [Nat.pow_succ]; omega
          split <;> omega
        rw [Nat.testBit_lt_two_pow hbig]; simp [h1]

theorem specGet_bit (s : List Byte) (off w i : Nat) (hw : w ≤ 64) (hi : i < 64) :
    (specGet s off w).getLsbD i = (decide (i < w) && bitAt s (off + i)) := by
  unfold specGet
  rw [BitVec.getLsbD_ofNat, specGetNat_testBit]; simp [hi]

/-! ## getters -/

/-- **C03 (get).** The getter returns exactly the field's bits, zero-extended. -/
theorem C03_get_eq_spec (s : List Byte) (off w : Nat) (hw : w ≤ 64) (hfit : Fits off w) :
    get s off w = specGet s off w := by
  apply BitVec.eq_of_getLsbD_eq
  intro i hi
  rw [specGet_bit s off w i hw hi]
  exact getW_bit 64 (by decide) s off w hfit i hi

/-- bit form of the same statement -/
theorem C03_get_bit (s : List Byte) (off w i : Nat) (hfit : Fits off w) (hi : i < 64) :
    (get s off w).getLsbD i = (decide (i < w) && bitAt s (off + i)) :=
  getW_bit 64 (by decide) s off w hfit i hi

/-! ## setters -/

/-- **C03 (set).** The setter stores the value truncated to the width and leaves every other
bit of the object unchanged (frame), and never changes the object's size. -/
theorem C03_set_eq_spec (s : List Byte) (off w : Nat) (v : BitVec 64) (hfit : Fits off w)
    (hin : (off + w + 7) / 8 ≤ s.length) :
    (set s off w v).length = s.length ∧ ∀ j, bitAt (set s off w v) j = specSetBit s off w v j := by
  refine ⟨setW_length 64 s off w v, fun j => ?_⟩
  unfold specSetBit
  exact setW_bit 64 (by decide) s off w v hfit hin j

/-- frame: bits outside `[off, off+w)` are untouched -/
theorem C03_set_frame (s : List Byte) (off w : Nat) (v : BitVec 64) (hfit : Fits off w)
    (hin : (off + w + 7) / 8 ≤ s.length) (j : Nat) (hj : j < off ∨ off + w ≤ j) :
    bitAt (set s off w v) j = bitAt s j := by
  rw [(C03_set_eq_spec s off w v hfit hin).2 j]
  unfold specSetBit
  have : ¬ (off ≤ j ∧ j < off + w) := by omega
  rw [if_neg this]

/-- reading back what was stored yields the value truncated to `w` bits -/
theorem C03_get_set (s : List Byte) (off w : Nat) (v : BitVec 64) (hfit : Fits off w)
    (hin : (off + w + 7) / 8 ≤ s.length) (i : Nat) (hi : i < 64) :
    (get (set s off w v) off w).getLsbD i = (decide (i < w) && v.getLsbD i) := by
  rw [C03_get_bit _ off w i hfit hi, (C03_set_eq_spec s off w v hfit hin).2]
  unfold specSetBit
  by_cases h : i < w
  · have : off ≤ off + i ∧ off + i < off + w := by omega
    have e : off + i - off = i := by omega
    simp [h, this, e]
  · simp [h]

/-- two disjoint fields do not disturb each other -/
theorem C03_get_set_other (s : List Byte) (off w off' w' : Nat) (v : BitVec 64)
    (hfit : Fits off w) (hfit' : Fits off' w') (hin : (off + w + 7) / 8 ≤ s.length)
    (hdis : off' + w' ≤ off ∨ off + w ≤ off') :
    get (set s off w v) off' w' = get s off' w' := by
  apply BitVec.eq_of_getLsbD_eq
  intro i hi
  rw [C03_get_bit _ off' w' i hfit' hi, C03_get_bit _ off' w' i hfit' hi]
  by_cases h : i < w'
  · rw [C03_set_frame s off w v hfit hin (off' + i) (by omega)]
  · simp [h]

/-! ## algebraic laws of the setter (all bitwise over the whole object) -/

/-- **Only the low `w` bits of the argument matter** (C's truncating assignment): two values that
agree below `w` store the same object -/
theorem C03_set_truncates (s : List Byte) (off w : Nat) (v v' : BitVec 64) (hfit : Fits off w)
    (hin : (off + w + 7) / 8 ≤ s.length) (hv : ∀ i, i < w → v.getLsbD i = v'.getLsbD i) (j : Nat) :
    bitAt (set s off w v) j = bitAt (set s off w v') j := by
  rw [(C03_set_eq_spec s off w v hfit hin).2, (C03_set_eq_spec s off w v' hfit hin).2]
  unfold specSetBit
  split
  · exact hv _ (by omega)
  · rfl

/-- **Last write wins**: a second store to the same field overwrites the first completely -/
theorem C03_set_set (s : List Byte) (off w : Nat) (v₁ v₂ : BitVec 64) (hfit : Fits off w)
    (hin : (off + w + 7) / 8 ≤ s.length) (j : Nat) :
    bitAt (set (set s off w v₁) off w v₂) j = bitAt (set s off w v₂) j := by
  have hlen := (C03_set_eq_spec s off w v₁ hfit hin).1
  rw [(C03_set_eq_spec _ off w v₂ hfit (by rw [hlen]; exact hin)).2, (C03_set_eq_spec s off w v₂ hfit hin).2]
  unfold specSetBit
  split
  · rfl
  · rename_i h
    rw [(C03_set_eq_spec s off w v₁ hfit hin).2]
    unfold specSetBit
    rw [if_neg h]

/-- **Storing what was read changes nothing** -/
theorem C03_set_get_id (s : List Byte) (off w : Nat) (hfit : Fits off w)
    (hin : (off + w + 7) / 8 ≤ s.length) (j : Nat) :
    bitAt (set s off w (get s off w)) j = bitAt s j := by
  rw [(C03_set_eq_spec s off w _ hfit hin).2]
  unfold specSetBit
  split
  · rename_i h
    have hlt : j - off < 64 := by unfold Fits at hfit; omega
    rw [C03_get_bit s off w _ hfit hlt]
    have e : off + (j - off) = j := by omega
    have hw : j - off < w := by omega
    simp [hw, e]
  · rfl

/-- **Stores to disjoint fields commute** -/
theorem C03_set_comm (s : List Byte) (off w off' w' : Nat) (v v' : BitVec 64)
    (hfit : Fits off w) (hfit' : Fits off' w') (hin : (off + w + 7) / 8 ≤ s.length)
    (hin' : (off' + w' + 7) / 8 ≤ s.length) (hdis : off' + w' ≤ off ∨ off + w ≤ off') (j : Nat) :
    bitAt (set (set s off w v) off' w' v') j = bitAt (set (set s off' w' v') off w v) j := by
  have hlen := (C03_set_eq_spec s off w v hfit hin).1
  have hlen' := (C03_set_eq_spec s off' w' v' hfit' hin').1
  rw [(C03_set_eq_spec _ off' w' v' hfit' (by rw [hlen]; exact hin')).2,
    (C03_set_eq_spec _ off w v hfit (by rw [hlen']; exact hin)).2]
  unfold specSetBit
  rw [(C03_set_eq_spec s off w v hfit hin).2, (C03_set_eq_spec s off' w' v' hfit' hin').2]
  unfold specSetBit
  by_cases h1 : off ≤ j ∧ j < off + w <;> by_cases h2 : off' ≤ j ∧ j < off' + w' <;> simp [h1, h2]
  omega

/-! ## const-generic forms (`get_const`, `set_const`, `raw_*_const`), 32- and 64-bit `usize` -/

theorem C03_getConst_eq_get (wb : Nat) (hwb : wb = 32 ∨ wb = 64) (s : List Byte) (off w : Nat)
    (hfit : Fits off w) : getConst wb s off w = get s off w := by
  unfold getConst
  split
  · rename_i h; subst h; simp [get, getW]
  · split
    · rename_i hw hle
      apply BitVec.eq_of_getLsbD_eq
      intro i hi
      rw [C03_get_bit s off w i hfit hi, BitVec.getLsbD_setWidth]
      by_cases hiw : i < wb
      · rw [getW_bit wb (by omega) s off w hle i hiw]; simp [hi]
      · have : ¬ i < w := by omega
        rw [BitVec.getLsbD_of_ge _ _ (by omega)]; simp [this]
    · rfl

theorem C03_setConst_eq_set (wb : Nat) (hwb : wb = 32 ∨ wb = 64) (s : List Byte) (off w : Nat)
    (v : BitVec 64) (hfit : Fits off w) (hin : (off + w + 7) / 8 ≤ s.length) :
    (setConst wb s off w v).length = (set s off w v).length ∧
    ∀ j, bitAt (setConst wb s off w v) j = bitAt (set s off w v) j := by
  unfold setConst
  split
  · rename_i h; subst h; simp [set, setW]
  · split
    · rename_i hw hle
      refine ⟨by rw [setW_length, set, setW_length], fun j => ?_⟩
      rw [setW_bit wb (by omega) s off w _ hle hin j, (C03_set_eq_spec s off w v hfit hin).2]
      unfold specSetBit
      split
      · rename_i hj
        rw [BitVec.getLsbD_setWidth]
        have : j - off < wb := by omega
        simp [this]
      · rfl
    · exact ⟨rfl, fun _ => rfl⟩

/-! ## allocation-unit constructor -/

def covers (j : Nat) (fv : Field × BitVec 64) : Bool :=
  decide (fv.1.off ≤ j ∧ j < fv.1.off + fv.1.width)

def disjoint (a b : Field) : Prop := a.off + a.width ≤ b.off ∨ b.off + b.width ≤ a.off

theorem foldl_set_length (fs : List (Field × BitVec 64)) (s : List Byte) :
    (fs.foldl (fun s fv => set s fv.1.off fv.1.width fv.2) s).length = s.length := by
  induction fs generalizing s with
  | nil => rfl
  | cons x xs ih => simp only [List.foldl_cons]; rw [ih]; exact setW_length 64 _ _ _ _

theorem foldl_set_bit (fs : List (Field × BitVec 64)) (s : List Byte)
    (hfit : ∀ fv ∈ fs, Fits fv.1.off fv.1.width)
    (hin : ∀ fv ∈ fs, (fv.1.off + fv.1.width + 7) / 8 ≤ s.length)
    (hdis : fs.Pairwise (fun a b => disjoint a.1 b.1)) (j : Nat) :
    bitAt (fs.foldl (fun s fv => set s fv.1.off fv.1.width fv.2) s) j =
      match fs.find? (covers j) with
      | some fv => fv.2.getLsbD (j - fv.1.off)
      | none => bitAt s j := by
  induction fs generalizing s with
  | nil => simp
  | cons x xs ih =>
    simp only [List.foldl_cons]
    have hx := hfit x (by simp)
    have hxin := hin x (by simp)
    have hlen : (set s x.1.off x.1.width x.2).length = s.length := setW_length 64 _ _ _ _
    rw [ih _ (fun fv h => hfit fv (by simp [h])) (fun fv h => by rw [hlen]; exact hin fv (by simp [h]))
      (List.Pairwise.of_cons hdis)]
    rw [List.find?_cons]
    by_cases hc : covers j x = true
    · rw [hc]
      have hnone : xs.find? (covers j) = none := by
        rw [List.find?_eq_none]
        intro y hy hcy
        have := List.rel_of_pairwise_cons hdis hy
        simp only [covers, decide_eq_true_eq] at hc hcy
        unfold disjoint at this
        omega
      rw [hnone]
      simp only [covers, decide_eq_true_eq] at hc
      rw [(C03_set_eq_spec s _ _ _ hx hxin).2]
      unfold specSetBit
      rw [if_pos hc]
    · have hc' : covers j x = false := by simpa using hc
      rw [hc']
      have hj : ¬ (x.1.off ≤ j ∧ j < x.1.off + x.1.width) := by
        simpa [covers] using hc
      cases hf : xs.find? (covers j) with
      | some fv => rfl
      | none =>
        simp only
        rw [(C03_set_eq_spec s _ _ _ hx hxin).2]
        unfold specSetBit
        rw [if_neg hj]

theorem pairwise_mem_ne {α : Type} {R : α → α → Prop} (hsym : ∀ a b, R a b → R b a) :
    ∀ {l : List α}, l.Pairwise R → ∀ {a b : α}, a ∈ l → b ∈ l → a ≠ b → R a b := by
  intro l
  induction l with
  | nil => intro _ a b ha; cases ha
  | cons x xs ih =>
    intro hp a b ha hb hne
    have hx : ∀ y ∈ xs, R x y := fun y hy => List.rel_of_pairwise_cons hp hy
    have hp' := List.Pairwise.of_cons hp
    simp only [List.mem_cons] at ha hb
    rcases ha with rfl | ha <;> rcases hb with rfl | hb
    · exact absurd rfl hne
    · exact hx _ hb
    · exact hsym _ _ (hx _ ha)
    · exact ih hp' ha hb hne

/-- **C03 (ctor).** The constructor assembles a unit in which every field's getter returns its
argument truncated to the field width, and every bit not covered by a field is zero. -/
theorem C03_ctor (n : Nat) (fs : List (Field × BitVec 64))
    (hfit : ∀ fv ∈ fs, Fits fv.1.off fv.1.width)
    (hin : ∀ fv ∈ fs, (fv.1.off + fv.1.width + 7) / 8 ≤ n)
    (hdis : fs.Pairwise (fun a b => disjoint a.1 b.1)) :
    (ctor n fs).length = n ∧
    (∀ fv ∈ fs, ∀ i, i < 64 →
      (get (ctor n fs) fv.1.off fv.1.width).getLsbD i = (decide (i < fv.1.width) && fv.2.getLsbD i)) ∧
    (∀ j, (∀ fv ∈ fs, covers j fv = false) → bitAt (ctor n fs) j = false) := by
  have hzero : ∀ j, bitAt (List.replicate n (0 : Byte)) j = false := by
    intro j; unfold bitAt
    rw [List.getD_eq_getElem?_getD, List.getElem?_replicate]
    split <;> simp
  have hin' : ∀ fv ∈ fs, (fv.1.off + fv.1.width + 7) / 8 ≤ (List.replicate n (0 : Byte)).length := by
    simpa using hin
  refine ⟨by unfold ctor; rw [foldl_set_length]; simp, ?_, ?_⟩
  · intro fv hfv i hi
    rw [C03_get_bit _ _ _ i (hfit fv hfv) hi]
    by_cases h : i < fv.1.width
    · unfold ctor
      rw [foldl_set_bit fs _ hfit hin' hdis]
      have hcov : covers (fv.1.off + i) fv = true := by simp [covers]; omega
      -- the unique covering field is `fv`
      cases hf : fs.find? (covers (fv.1.off + i)) with
      | none =>
        rw [List.find?_eq_none] at hf
        exact absurd hcov (hf fv hfv)
      | some gv =>
        have hg := List.find?_some hf
        have hgm := List.mem_of_find?_eq_some hf
        simp only
        by_cases hEq : gv = fv
        · subst hEq
          have : gv.1.off + i - gv.1.off = i := by omega
          simp [h, this]
        · -- two distinct covering fields contradict pairwise disjointness
          exfalso
          have hsym : ∀ a b : Field × BitVec 64, disjoint a.1 b.1 → disjoint b.1 a.1 := by
            intro a b h; unfold disjoint at *; omega
          have hd : disjoint gv.1 fv.1 := pairwise_mem_ne hsym hdis hgm hfv hEq
          simp only [covers, decide_eq_true_eq] at hg hcov
          unfold disjoint at hd
          omega
    · simp [h]
  · intro j hj
    unfold ctor
    rw [foldl_set_bit fs _ hfit hin' hdis]
    have : fs.find? (covers j) = none := by
      rw [List.find?_eq_none]; intro x hx; simp [hj x hx]
    rw [this]; exact hzero j

/-! ## accessor cast chain vs. the C semantics of a bit-field read -/

/-- **C03 (getter = C read, unsigned declared type).** -/
theorem C03_getter_eq_C_unsigned (tsz : Nat) (s : List Byte) (off w : Nat) (hw : w ≤ 64)
    (hfit : Fits off w) : rustGetter tsz s off w = cRead false tsz s off w := by
  unfold rustGetter cRead
  rw [C03_get_eq_spec s off w hw hfit]; simp

/-- **C03 (getter = C read, any signedness, full-width field `w = 8·sizeof(T)`).** -/
theorem C03_getter_eq_C_fullwidth (signed : Bool) (tsz : Nat) (s : List Byte) (off : Nat)
    (hw : 8 * tsz ≤ 64) (hfit : Fits off (8 * tsz)) :
    rustGetter tsz s off (8 * tsz) = cRead signed tsz s off (8 * tsz) := by
  unfold rustGetter cRead
  rw [C03_get_eq_spec s off _ hw hfit]
  simp only
  split
  · simp
  · rfl

/-- **Negation (region R2, `bf_signed_narrow`).** A signed declared type with a field narrower
than the type: the Rust getter zero-extends, C sign-extends.  `struct { int x:3; }`, `x = -1`:
Rust reads 7, C reads 0xFFFFFFFF. -/
theorem C03_fails_on_signed_narrow :
    rustGetter 4 [0x07#8, 0, 0, 0] 0 3 = 7 ∧ cRead true 4 [0x07#8, 0, 0, 0] 0 3 = 4294967295 := by
  decide

/-- the region predicate of known finding `bf_signed_narrow` -/
def regionSignedNarrow (signed : Bool) (tsz w : Nat) : Bool := signed && decide (0 < w) && decide (w < 8 * tsz)

/-! ## region R1 (`bf_shift_gt_64`): `off % 8 + w > 64` -/

/-- a build with overflow checks panics exactly outside `Fits` (for non-empty fields) -/
theorem C03_dbgPanics_iff (off w : Nat) (hw : 0 < w) : dbgPanics off w = true ↔ ¬ Fits off w := by
  unfold dbgPanics Fits; simp; omega

/-- **Negation (get).** 9-byte unit, 64-bit field at bit 4, wrapping (release) arithmetic:
the ninth byte is OR-ed into the *low* bits and the top nibble is lost. -/
theorem C03_fails_on_shift_gt_64_get :
    get [0xF0#8, 0xFF, 0xFF, 0xFF, 0xFF, 0xFF, 0xFF, 0xFF, 0x05] 4 64
      ≠ specGet [0xF0#8, 0xFF, 0xFF, 0xFF, 0xFF, 0xFF, 0xFF, 0xFF, 0x05] 4 64 := by
  decide

/-- **Negation (set).** Storing all-ones in that field does not set the low nibble of the last
byte (C stores `…0f`), and the frame is violated on other inputs. -/
theorem C03_fails_on_shift_gt_64_set :
    set [0#8, 0, 0, 0, 0, 0, 0, 0, 0] 4 64 (BitVec.allOnes 64)
      ≠ specSet [0#8, 0, 0, 0, 0, 0, 0, 0, 0] 4 64 (BitVec.allOnes 64) := by
  decide

/-- the region predicate of known finding `bf_shift_gt_64` -/
def regionShiftGt64 (off w : Nat) : Bool := decide (0 < w) && decide (w + off % 8 > 64)

theorem regionShiftGt64_iff (off w : Nat) : regionShiftGt64 off w = true ↔ (0 < w ∧ ¬ Fits off w) := by
  unfold regionShiftGt64 Fits; simp

/-! ## non-vacuity: the hypotheses are satisfiable on non-trivial states -/

example : Fits 13 51 ∧ (13 + 51 + 7) / 8 ≤ [0xAB#8, 0xCD, 0xEF, 1, 2, 3, 4, 5].length := by decide
example : get (set [0xAB#8, 0xCD, 0xEF, 1, 2, 3, 4, 5] 13 51 0x123456789ABCD#64) 13 51
    = 0x123456789ABCD#64 := by decide
example : ctor 2 [(⟨0, 3⟩, 5#64), (⟨3, 9⟩, 0x1FF#64)] = [0xFD#8, 0x0F] := by decide
example : [(⟨0, 3⟩, 5#64), (⟨3, 9⟩, 0x1FF#64)].Pairwise
    (fun (a b : Field × BitVec 64) => disjoint a.1 b.1) := by
  simp [disjoint]

end BindgenModel.BitfieldUnit

/-! ## big-endian branches -/
namespace BindgenModel.BitfieldUnit

theorem reverse_reverse8 (b : Byte) : b.reverse.reverse = b := by
  apply BitVec.eq_of_getLsbD_eq
  intro i hi
  simp only [BitVec.getLsbD_reverse, BitVec.getMsbD_eq_getLsbD]
  have h1 : 8 - 1 - i < 8 := by omega
  have h2 : 8 - 1 - (8 - 1 - i) = i := by omega
  simp [hi, h1, h2]

theorem bitAt_map_reverse (s : List Byte) (j : Nat) : bitAt (s.map BitVec.reverse) j = bitAtBE s j := by
  unfold bitAt bitAtBE
  have hr : j % 8 < 8 := Nat.mod_lt _ (by omega)
  have e : (s.map BitVec.reverse).getD (j / 8) 0 = (s.getD (j / 8) 0).reverse := by
    simp only [List.getD_eq_getElem?_getD, List.getElem?_map]
    cases s[j / 8]? with
    | none => decide
    | some b => rfl
  rw [e, BitVec.getLsbD_reverse, BitVec.getMsbD_eq_getLsbD]
  have : 8 - 1 - j % 8 = 7 - j % 8 := by omega
  simp [hr, this]

/-- **C03 (get, big endian).** bit `i` of the value is storage bit `off + (w-1-i)`. -/
theorem C03_getBE_bit (s : List Byte) (off w i : Nat) (hw : w ≤ 64) (hfit : Fits off w) (hi : i < 64) :
    (getBE s off w).getLsbD i = (decide (i < w) && bitAtBE s (off + (w - 1 - i))) := by
  unfold getBE
  split
  · rename_i h; subst h; simp
  · rename_i hw0
    rw [BitVec.getLsbD_ushiftRight, BitVec.getLsbD_reverse, BitVec.getMsbD_eq_getLsbD]
    by_cases hiw : i < w
    · have h1 : 64 - w + i < 64 := by omega
      have h2 : 64 - 1 - (64 - w + i) = w - 1 - i := by omega
      rw [h2, C03_get_bit _ off w (w - 1 - i) hfit (by omega), bitAt_map_reverse]
      have : w - 1 - i < w := by omega
      simp [hiw, h1, this]
    · have h1 : ¬ (64 - w + i < 64) := by omega
      simp [hiw, h1]

theorem map_reverse_length (s : List Byte) : (s.map BitVec.reverse).length = s.length := by simp

/-- **C03 (set, big endian).** exactly the field's bits are written, most significant first. -/
theorem C03_setBE_bit (s : List Byte) (off w : Nat) (v : BitVec 64) (hw : w ≤ 64) (hfit : Fits off w)
    (hin : (off + w + 7) / 8 ≤ s.length) (j : Nat) :
    bitAtBE (setBE s off w v) j =
      if off ≤ j ∧ j < off + w then v.getLsbD (w - 1 - (j - off)) else bitAtBE s j := by
  unfold setBE
  split
  · rename_i h; subst h
    have : ¬ (off ≤ j ∧ j < off + 0) := by omega
    rw [if_neg this]
  · rename_i hw0
    rw [← bitAt_map_reverse]
    have hmm : ∀ l : List Byte, (l.map BitVec.reverse).map BitVec.reverse = l := by
      intro l; simp [List.map_map, Function.comp_def, reverse_reverse8]
    rw [hmm]
    rw [(C03_set_eq_spec (s.map BitVec.reverse) off w _ hfit (by simpa using hin)).2 j]
    unfold specSetBit
    split
    · rename_i hj
      rw [BitVec.getLsbD_ushiftRight, BitVec.getLsbD_reverse, BitVec.getMsbD_eq_getLsbD,
        BitVec.getLsbD_and]
      have h1 : 64 - w + (j - off) < 64 := by omega
      have h2 : 64 - 1 - (64 - w + (j - off)) = w - 1 - (j - off) := by omega
      have h3 : w - 1 - (j - off) < 64 := by omega
      have h4 : w - 1 - (j - off) < w := by omega
      rw [h2, lowMask_bit 64 w _ h3]
      simp [h1, h4]
    · exact bitAt_map_reverse s j

end BindgenModel.BitfieldUnit

/-! ## allocation units: `offset_into_unit` against clang's offsets -/
namespace BindgenModel.BitfieldAlloc

/-- invariant of the allocation fold (clang offsets known) -/
theorem foldl_offs (packed : Bool) (bfs : List RawBf) (s : St) (first : Nat) (offOf : RawBf → Nat)
    (hoff : ∀ b ∈ bfs, b.off = some (offOf b))
    (hs : s.unitBits ≠ 0 → s.start = first)
    (hfirst : s.unitBits = 0 → ∀ b, bfs.head? = some b → offOf b = first)
    (hw : ∀ b ∈ bfs, 0 < b.width) (hge : ∀ b ∈ bfs, first ≤ offOf b)
    (hadj : ∀ b ∈ bfs, adjusts packed b = false) :
    (bfs.foldl (stepBf packed) s).offs = s.offs ++ bfs.map (fun b => offOf b - first) := by
  induction bfs generalizing s with
  | nil => simp
  | cons b bs ih =>
    simp only [List.foldl_cons, List.map_cons]
    have hob := hoff b (by simp)
    have hb : adjustsAt packed b (offOf b) = false := by
      have := hadj b (by simp); simpa [adjusts, hob] using this
    have hwb := hw b (by simp)
    have hstart : (if s.unitBits = 0 then offOf b else s.start) = first := by
      split
      · rename_i h0; exact hfirst h0 b rfl
      · rename_i h0; exact hs h0
    have hstep : stepBf packed s b =
        { start := first, unitBits := offOf b - first + b.width, offs := s.offs ++ [offOf b - first] } := by
      simp only [stepBf, effOff, hob, Option.getD_some, hb, hstart]; simp
    rw [hstep]
    rw [ih]
    · simp
    · intro x hx; exact hoff x (by simp [hx])
    · intro _; rfl
    · intro h0; simp only at h0; omega
    · intro x hx; exact hw x (by simp [hx])
    · intro x hx; exact hge x (by simp [hx])
    · intro x hx; exact hadj x (by simp [hx])

/-- **C03 (allocation, partial).** In a run of non-empty bit-fields whose clang offsets are known
and non-decreasing and where the code never re-aligns a field itself, every bit-field sits at
`start_of_unit + offset_into_unit = clang's offset`. -/
theorem C03_alloc_offsets_match_clang_partial (packed : Bool) (b0 : RawBf) (bs : List RawBf)
    (offOf : RawBf → Nat) (hoff : ∀ b ∈ b0 :: bs, b.off = some (offOf b))
    (hw : ∀ b ∈ b0 :: bs, 0 < b.width) (hge : ∀ b ∈ b0 :: bs, offOf b0 ≤ offOf b)
    (hadj : ∀ b ∈ b0 :: bs, adjusts packed b = false) :
    (allocRun packed (b0 :: bs)).offs = (b0 :: bs).map (fun b => offOf b - offOf b0) ∧
    ∀ b ∈ b0 :: bs, offOf b0 + (offOf b - offOf b0) = offOf b := by
  refine ⟨?_, fun b hb => by have := hge b hb; omega⟩
  unfold allocRun
  have := foldl_offs packed (b0 :: bs) {} (offOf b0) offOf hoff (by intro h; exact absurd rfl h)
    (by intro _ b hb; simp at hb; rw [← hb]) hw hge hadj
  simpa using this

/-- **Negation (region `bf_offset_overridden`).** `#pragma pack(8)`, `unsigned long long b1:1` at
bit 16 followed by `unsigned long b2:64`, which clang puts at bit 17: the code moves it to bit 64. -/
theorem C03_fails_on_offset_overridden :
    (allocRun false [⟨1, some 16, 8, 8, true⟩, ⟨64, some 17, 8, 8, true⟩]).offs = [0, 48] ∧
    16 + 48 ≠ 17 := by decide

/-- inside a class template (no clang offsets) the code lays the run out itself, Itanium style:
`unsigned lo:20, mid:12, hi:4` share one 32-bit storage unit and `hi` starts the next -/
theorem C03_alloc_template_example :
    (allocRun false [⟨20, none, 4, 4, true⟩, ⟨12, none, 4, 4, true⟩, ⟨4, none, 4, 4, true⟩]).offs
      = [0, 20, 32] := by decide

/-- the region predicate of known finding `bf_offset_overridden` (per run of bit-fields) -/
def regionOffsetOverridden (packed : Bool) (bfs : List RawBf) : Bool := bfs.any (adjusts packed)

example : adjusts false ⟨3, some 5, 4, 4, true⟩ = false ∧ adjusts false ⟨64, some 17, 8, 8, true⟩ = true := by decide

end BindgenModel.BitfieldAlloc
