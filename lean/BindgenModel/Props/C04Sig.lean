import BindgenModel.Model.FnSig
import BindgenModel.Generated.FnSigGuards
/-!
# C04 — every function type gets the parameters and the convention of its own prototype

Theorems about `Model/FnSig.lean`; `Generated/FnSigGuards.lean` says that the guards the model calls
`guarded = true` are in the source.
-/
namespace BindgenModel.C04
open BindgenModel.FnSig BindgenModel.Generated

theorem zipLongest_length (cs : List Param) (ts : List Nat) :
    (zipLongest cs ts).length = max cs.length ts.length := by
  induction cs generalizing ts with
  | nil => simp [zipLongest]
  | cons c cs ih =>
    cases ts with
    | nil => simp [zipLongest]
    | cons t ts =>
      obtain ⟨n, x⟩ := c
      simp [zipLongest, ih ts]

/-- with as many names as types, the types of the result are the prototype's -/
theorem zipLongest_types (cs : List Param) (ts : List Nat) (h : cs.length ≤ ts.length) :
    (zipLongest cs ts).map (·.2) = ts := by
  induction cs generalizing ts with
  | nil =>
    simp only [zipLongest, List.map_map]
    clear h
    induction ts with
    | nil => rfl
    | cons t ts ih => simp [ih]
  | cons c cs ih =>
    cases ts with
    | nil => simp at h
    | cons t ts =>
      obtain ⟨n, x⟩ := c
      simp only [zipLongest, List.map_cons, List.cons.injEq, true_and]
      exact ih ts (by simpa using h)

theorem fromTyAndCursor_types (t : List Nat) (cur : List Param) :
    (fromTyAndCursor true (some t) cur).map (·.2) = t := by
  unfold fromTyAndCursor
  simp only [Bool.true_and, Option.getD_some]
  by_cases h : t.length = cur.length
  · simp only [h, bne_self_eq_false, Bool.false_eq_true, if_false]
    exact zipLongest_types cur t (by omega)
  · have : (t.length != cur.length) = true := by simp [h]
    simp only [this, if_true]
    exact zipLongest_types [] t (by simp)

/-- **arity**: whenever the type has a prototype, the signature has exactly as many parameters —
whatever the cursor offers (a declaration that nests function types offers the parameters of other
levels) -/
theorem C04_arity_is_prototype (s : Site) (t : List Nat) (h : s.typeArgs = some t) :
    (args true s).length = t.length := by
  unfold args
  by_cases hd : s.declLike = true
  · rw [if_pos hd, h]
    have := congrArg List.length (fromTyAndCursor_types t s.cursorArgs)
    simpa using this
  · rw [if_neg hd]
    simp only [h, Bool.not_true, Bool.false_or]
    by_cases hc : (s.parmChildren.isEmpty || !(t.length == s.parmChildren.length)) = true
    · rw [if_pos hc]
      have := congrArg List.length (fromTyAndCursor_types t [])
      simpa using this
    · rw [if_neg hc]
      have hc' : (s.parmChildren.isEmpty || !(t.length == s.parmChildren.length)) = false := by simpa using hc
      rw [Bool.or_eq_false_iff] at hc'
      have : (t.length == s.parmChildren.length) = true := by simpa using hc'.2
      exact (by simpa using this : t.length = s.parmChildren.length).symm

/-- **types**: on a declaration-like cursor, and whenever the children are not used, the parameter
types are the prototype's, in order -/
theorem C04_decl_types_are_prototype (s : Site) (t : List Nat) (h : s.typeArgs = some t)
    (hd : s.declLike = true) : (args true s).map (·.2) = t := by
  unfold args
  rw [if_pos hd, h]
  exact fromTyAndCursor_types t s.cursorArgs

theorem C04_fallback_types_are_prototype (s : Site) (t : List Nat) (h : s.typeArgs = some t)
    (hd : s.declLike = false) (hne : t.length ≠ s.parmChildren.length) : (args true s).map (·.2) = t := by
  unfold args
  simp only [hd, Bool.false_eq_true, if_false, h, Bool.not_true, Bool.false_or]
  have : (t.length == s.parmChildren.length) = false := by simp [hne]
  simp only [this, Bool.not_false, Bool.or_true, if_true]
  exact fromTyAndCursor_types t []

theorem zipLongest_names (cs : List Param) (ts : List Nat) (h : cs.length = ts.length) :
    (zipLongest cs ts).map (·.1) = cs.map (·.1) := by
  induction cs generalizing ts with
  | nil => cases ts with
    | nil => rfl
    | cons t ts => simp at h
  | cons c cs ih =>
    cases ts with
    | nil => simp at h
    | cons t ts =>
      obtain ⟨n, x⟩ := c
      simp only [zipLongest, List.map_cons, List.cons.injEq, true_and]
      exact ih ts (by simpa using h)

/-- **names**: when the declaration's parameters agree in number with the prototype (the level the cursor declares),
the parameter names of the declaration are kept, in order — the guard drops names only where they would be
another level's -/
theorem C04_decl_names_kept (s : Site) (t : List Nat) (h : s.typeArgs = some t) (hd : s.declLike = true)
    (hl : s.cursorArgs.length = t.length) : (args true s).map (·.1) = s.cursorArgs.map (·.1) := by
  unfold args
  rw [if_pos hd, h]
  unfold fromTyAndCursor
  have : (t.length != s.cursorArgs.length) = false := by simp [hl]
  simp only [Bool.true_and, this, Bool.false_eq_true, if_false, Option.getD_some]
  exact zipLongest_names s.cursorArgs t hl

/-- the returned pointer of `long (*get(int, int, int))(char)` (types: `int` = 1, `char` = 2): parsed
with the cursor of `get`, prototype `(char)` -/
def returnedPointerSite : Site :=
  { typeArgs := some [2], declLike := true,
    cursorArgs := [(some "a", 1), (some "b", 1), (some "c", 1)], parmChildren := [] }

/-- the outer level of `typedef long (*(*td)(int, int, int))(char)`: the typedef's children are the
parameters of both levels -/
def typedefOuterSite : Site :=
  { typeArgs := some [1, 1, 1], declLike := false, cursorArgs := [],
    parmChildren := [(none, 2), (none, 1), (none, 1), (none, 1)] }

/-- what the rule without the guards answered (the defect repaired in /repo e1559044) -/
theorem C04_unguarded_wrong_arity :
    (args false returnedPointerSite).map (·.2) = [2, 1, 1] ∧
    (args false typedefOuterSite).map (·.2) = [2, 1, 1, 1] := by decide

theorem C04_guarded_now :
    (args true returnedPointerSite).map (·.2) = [2] ∧ (args true typedefOuterSite).map (·.2) = [1, 1, 1] := by decide

/-- **convention**: a level the declaration does not point to keeps the convention of its own type -/
theorem C04_nested_level_keeps_its_convention (invalid tyCC cc : Nat) :
    callConv true invalid tyCC (some (cc, false)) = tyCC := by
  simp [callConv]

/-- the level the declaration points to takes the declaration's convention (the #549 work-around) -/
theorem C04_declared_level_takes_declaration_convention (invalid tyCC cc : Nat) (h : cc ≠ invalid) :
    callConv true invalid tyCC (some (cc, true)) = cc := by
  simp [callConv, h]

/-- without the `same_level` test an `ms_abi` (say 2) returned pointer inside a "C" (1) declaration became "C" -/
theorem C04_unguarded_convention_leaks : callConv false 100 2 (some (1, false)) = 1 := by decide

/-- **source obligation**: both guards are in `ir/function.rs` in the modelled form -/
theorem C04_signature_guards_in_source :
    fnSigCursorArgsGuard = true ∧ fnSigChildrenGuard = true ∧ fnSigSameLevelGuard = true := by decide

end BindgenModel.C04
