import BindgenModel.Props.C07
/-! # C09 — `analysis_restriction`

The logical half of "each emitted item is textually identical to the same item in the
un-allow-listed bindings": an analysis (`analysis::analyze`, model `Model/Worklist.lean`) run on a
sub-graph that is closed under the edges the analysis reads computes, on that sub-graph, exactly the
facts it computes on the full graph.  With recursive allow-listing the allow-listed items are closed
under every admitted edge (`C09_closure`), so derives, vtable / destructor / float facts of an item are
the same in both runs. -/
namespace BindgenModel.Worklist

variable {N L : Type} [DecidableEq N] [DecidableEq L]

theorem C09_analysis_restriction (F G : Framework N L) (hF : Lawful F) (hG : Lawful G)
    (hbot : ∀ a, F.le F.bot a = true)
    (hsame : G.bot = F.bot ∧ G.le = F.le ∧ G.rule = F.rule)
    (hsub : ∀ n ∈ G.nodes, n ∈ F.nodes)
    (hclosed : ∀ n ∈ G.nodes, ∀ m ∈ F.reads n, m ∈ G.nodes)
    (hdF : ∀ n ∈ F.nodes, ∀ m ∈ F.deps n, m ∈ F.nodes)
    (hdG : ∀ n ∈ G.nodes, ∀ m ∈ G.deps n, m ∈ G.nodes)
    (wlF wlG : List N)
    (hwlF : ∀ n ∈ wlF, n ∈ F.nodes) (hallF : ∀ n ∈ F.nodes, n ∈ wlF)
    (hwlG : ∀ n ∈ wlG, n ∈ G.nodes) (hallG : ∀ n ∈ G.nodes, n ∈ wlG) :
    ∀ n ∈ G.nodes, analyze G wlG n = analyze F wlF n := by
  obtain ⟨hb, hl, hr⟩ := hsame
  have hstabF := C07_stable F hF hdF wlF hwlF hallF
  have hstabG := C07_stable G hG hdG wlG hwlG hallG
  -- step 1: the restricted result is below the full one
  have h1 : ∀ n, F.le (analyze G wlG n) (analyze F wlF n) = true := by
    have hp : ∀ n ∈ G.nodes, Stable G (analyze F wlF) n := by
      intro n hn
      have := hstabF n (hsub n hn)
      unfold Stable at this ⊢
      rw [hl, hr]; exact this
    have := run_le_nodes G hG hdG (analyze F wlF) hp (fuel G (fun _ => G.bot) wlG) (fun _ => G.bot) wlG hwlG
      (by intro n; rw [hl, hb]; exact hbot _)
    intro n
    have h := this n
    rw [hl] at h
    exact h
  -- step 2: the full result is below the state that is the restricted result on the sub-graph
  let p : N → L := fun n => if n ∈ G.nodes then analyze G wlG n else analyze F wlF n
  have hp_le : ∀ m, F.le (p m) (analyze F wlF m) = true := by
    intro m
    show F.le (if m ∈ G.nodes then analyze G wlG m else analyze F wlF m) (analyze F wlF m) = true
    split
    · exact h1 m
    · exact hF.le_refl _
  have hpst : ∀ n ∈ F.nodes, Stable F p n := by
    intro n hn
    unfold Stable
    by_cases hg : n ∈ G.nodes
    · have hrule : F.rule p n = F.rule (analyze G wlG) n := by
        apply hF.reads_only
        intro m hm
        show (if m ∈ G.nodes then analyze G wlG m else analyze F wlF m) = analyze G wlG m
        rw [if_pos (hclosed n hg m hm)]
      have hs := hstabG n hg
      unfold Stable at hs
      rw [hl, hr] at hs
      show F.le (F.rule p n) (if n ∈ G.nodes then analyze G wlG n else analyze F wlF n) = true
      rw [if_pos hg, hrule]; exact hs
    · show F.le (F.rule p n) (if n ∈ G.nodes then analyze G wlG n else analyze F wlF n) = true
      rw [if_neg hg]
      exact hF.le_trans _ _ _ (hF.mono p (analyze F wlF) n hp_le) (hstabF n hn)
  have h2 : ∀ n, F.le (analyze F wlF n) (p n) = true :=
    run_le_nodes F hF hdF p hpst (fuel F (fun _ => F.bot) wlF) (fun _ => F.bot) wlF hwlF (fun n => hbot _)
  intro n hn
  have h3 := h2 n
  have hpn : p n = analyze G wlG n := by
    show (if n ∈ G.nodes then analyze G wlG n else analyze F wlF n) = analyze G wlG n
    rw [if_pos hn]
  rw [hpn] at h3
  exact hF.le_antisymm _ _ (h1 n) h3

end BindgenModel.Worklist
