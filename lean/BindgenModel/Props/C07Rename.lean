import BindgenModel.Props.C07
/-!
# C07 — renumbering the declarations transports the facts

`ItemId`s are handed out in the order libclang visits the declarations, so "declaration order is
irrelevant" means: if the same item graph is numbered differently, every item gets the same facts.
For the generic model: let `π` be any bijection on node ids (inverse `ρ`) and `rename π ρ F` the
framework whose nodes, dependency lists, read sets and rules are those of `F` under the new
numbering.  Then `analyze (rename π ρ F) wl' (π n) = analyze F wl n` for all work-lists that cover
the nodes (`C07_rename_equivariant`) — whatever the two work-list orders are.

What is *not* covered: that bindgen's IR construction itself yields graphs that are renamings of each
other when declarations are permuted (the harness compares that on generated programs).
-/
namespace BindgenModel.Worklist

variable {N L : Type} [DecidableEq N] [DecidableEq L]

/-- `F` under the renumbering `π` (with inverse `ρ`): a state `s'` of the renamed analysis reads item
`π m` where the original reads `m` -/
def rename (π ρ : N → N) (F : Framework N L) : Framework N L where
  nodes := F.nodes.map π
  bot := F.bot
  join := F.join
  le := F.le
  rank := F.rank
  height := F.height
  rule := fun s' n' => F.rule (fun m => s' (π m)) (ρ n')
  deps := fun n' => (F.deps (ρ n')).map π
  reads := fun n' => (F.reads (ρ n')).map π

theorem rename_lawful (π ρ : N → N) (hρπ : ∀ n, ρ (π n) = n) (_hπρ : ∀ n, π (ρ n) = n)
    (F : Framework N L) (h : Lawful F) : Lawful (rename π ρ F) where
  le_refl := h.le_refl
  le_trans := h.le_trans
  le_antisymm := h.le_antisymm
  join_ub_l := h.join_ub_l
  join_ub_r := h.join_ub_r
  join_lub := h.join_lub
  rank_strict := h.rank_strict
  rank_le := h.rank_le
  reads_only := by
    intro s s' n' hs
    show F.rule (fun m => s (π m)) (ρ n') = F.rule (fun m => s' (π m)) (ρ n')
    apply h.reads_only
    intro m hm
    exact hs (π m) (List.mem_map.mpr ⟨m, hm, rfl⟩)
  reads_deps := by
    intro n' m' hm hn
    obtain ⟨m, hmr, rfl⟩ := List.mem_map.mp hm
    obtain ⟨k, hk, rfl⟩ := List.mem_map.mp hn
    show π k ∈ (F.deps (ρ (π m))).map π
    rw [hρπ]
    rw [hρπ] at hmr
    exact List.mem_map.mpr ⟨k, h.reads_deps k m hmr hk, rfl⟩
  mono := by
    intro s s' n' hs
    exact h.mono (fun m => s (π m)) (fun m => s' (π m)) (ρ n') (fun m => hs (π m))

/-- **equivariance**: the facts of the renumbered graph are the facts of the original graph, item by item -/
theorem C07_rename_equivariant (π ρ : N → N) (hρπ : ∀ n, ρ (π n) = n) (hπρ : ∀ n, π (ρ n) = n)
    (F : Framework N L) (h : Lawful F) (hbot : ∀ a, F.le F.bot a = true)
    (hd : ∀ n ∈ F.nodes, ∀ m ∈ F.deps n, m ∈ F.nodes)
    (wl wl' : List N)
    (hwl : ∀ n ∈ wl, n ∈ F.nodes) (hall : ∀ n ∈ F.nodes, n ∈ wl)
    (hwl' : ∀ n' ∈ wl', n' ∈ (rename π ρ F).nodes) (hall' : ∀ n' ∈ (rename π ρ F).nodes, n' ∈ wl')
    (n : N) : analyze (rename π ρ F) wl' (π n) = analyze F wl n := by
  have hG := rename_lawful π ρ hρπ hπρ F h
  have hdG : ∀ n' ∈ (rename π ρ F).nodes, ∀ m' ∈ (rename π ρ F).deps n', m' ∈ (rename π ρ F).nodes := by
    intro n' hn' m' hm'
    obtain ⟨k, hk, rfl⟩ := List.mem_map.mp hn'
    obtain ⟨m, hm, rfl⟩ := List.mem_map.mp hm'
    rw [hρπ] at hm
    exact List.mem_map.mpr ⟨m, hd k hk m hm, rfl⟩
  have hsF := C07_stable F h hd wl hwl hall
  have hsG := C07_stable (rename π ρ F) hG hdG wl' hwl' hall'
  apply h.le_antisymm
  · -- the original facts, renumbered, are closed under the renamed rules
    have hp : ∀ n' ∈ (rename π ρ F).nodes, Stable (rename π ρ F) (fun m' => analyze F wl (ρ m')) n' := by
      intro n' hn'
      obtain ⟨k, hk, rfl⟩ := List.mem_map.mp hn'
      have := hsF k hk
      unfold Stable at *
      show F.le (F.rule (fun m => analyze F wl (ρ (π m))) (ρ (π k))) (analyze F wl (ρ (π k))) = true
      simp only [hρπ]
      exact this
    have := run_le_nodes (rename π ρ F) hG hdG _ hp (fuel (rename π ρ F) (fun _ => (rename π ρ F).bot) wl')
      (fun _ => (rename π ρ F).bot) wl' hwl' (fun m => hbot _) (π n)
    simp only [hρπ] at this
    exact this
  · -- the renamed facts, read through π, are closed under the original rules
    have hp : ∀ k ∈ F.nodes, Stable F (fun m => analyze (rename π ρ F) wl' (π m)) k := by
      intro k hk
      have := hsG (π k) (List.mem_map.mpr ⟨k, hk, rfl⟩)
      unfold Stable at *
      have e : (rename π ρ F).rule (analyze (rename π ρ F) wl') (π k)
          = F.rule (fun m => analyze (rename π ρ F) wl' (π m)) k := by
        show F.rule (fun m => analyze (rename π ρ F) wl' (π m)) (ρ (π k)) = _
        rw [hρπ]
      rw [e] at this
      exact this
    exact run_le_nodes F h hd _ hp _ _ wl hwl (fun m => hbot _) n

/-- non-vacuity: the demo analysis of `Props/C07.lean` under the swap of nodes 0 and 2 -/
example : analyze (rename (fun n => if n = 0 then 2 else if n = 2 then 0 else n)
      (fun n => if n = 0 then 2 else if n = 2 then 0 else n) demo) [0, 1, 2, 3] 2
    = analyze demo [3, 2, 1, 0] 0 := by decide

end BindgenModel.Worklist
