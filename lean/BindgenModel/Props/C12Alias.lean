import BindgenModel.Model.AliasChain
/-!
# C12 — typedef chains stay acyclic (no stack overflow in `safe_canonical_type`)

`C12_alias_step_acyclic`: one construction by the Typedef arm keeps the alias / type-reference
edges acyclic, for every context and every pair of ids — provided the typedef under construction has
no outgoing edge yet (it is not in the context: `resolve_item_fallible` answers `None`) and the
chain leading back to it, if there is one, is shorter than the number of items the walk looks at.
`C12_alias_history_acyclic` lifts it to every history of constructions.  The hypotheses are exactly
what the proof forced: `C12_alias_unguarded_ring_cycles` shows the direct self-reference test alone
lets the history of corpus/C12/alias_ring.hpp close a cycle (the defect repaired in /repo fe19af74),
`C12_alias_bound_needed` shows a walk that looks at too few items misses a long chain.
`C12_canonical_walk_ends`: on an acyclic context whose edges stay inside `n` items, following the edges
from any item stops after at most `n` steps (the recursion depth of `safe_canonical_type`).
Edges closed later by `resolve_typerefs` (an `UnresolvedTypeRef` becoming `ResolvedTypeRef`) are NOT
covered: the theorems speak about the edges present when each typedef is built (partial).
-/
namespace BindgenModel.AliasChain
open BindgenModel.Generated

theorem iter_add (c : Ctx) (a b n : Nat) : iter c (a + b) n = (iter c a n).bind (iter c b) := by
  induction a generalizing n with
  | zero => simp [iter]
  | succ a ih =>
    have : a + 1 + b = (a + b) + 1 := by omega
    rw [this]
    simp only [iter]
    cases c n with
    | none => simp
    | some m => simpa using ih m

/-- a chain that reaches `t` in fewer steps than the walk looks at is seen by the walk -/
theorem reachesWithin_of_iter (c : Ctx) (t : Nat) : ∀ (k b n : Nat), iter c k n = some t → k < b →
    reachesWithin c t b n = true := by
  intro k
  induction k with
  | zero =>
    intro b n h hb
    cases b with
    | zero => omega
    | succ b => simp [iter] at h; simp [reachesWithin, h]
  | succ k ih =>
    intro b n h hb
    cases b with
    | zero => omega
    | succ b =>
      simp only [reachesWithin]
      by_cases hn : n = t
      · simp [hn]
      · simp only [hn, if_false]
        simp only [iter] at h
        cases hc : c n with
        | none => simp [hc] at h
        | some m =>
          simp only [hc] at h
          simpa using ih b m h (by omega)

section step
variable (c : Ctx) (id inner : Nat)

/-- the context after the edge `id → inner` was added -/
def withEdge : Ctx := fun n => if n = id then some inner else c n

/-- a chain of the new context that ends in `id` already existed (up to its first visit of `id`) -/
theorem old_chain_of_new (k m : Nat) (h : iter (withEdge c id inner) k m = some id) :
    ∃ k', k' ≤ k ∧ iter c k' m = some id := by
  induction k generalizing m with
  | zero => simp [iter] at h; exact ⟨0, Nat.le_refl _, by simp [iter, h]⟩
  | succ k ih =>
    by_cases hm : m = id
    · exact ⟨0, Nat.zero_le _, by simp [iter, hm]⟩
    · simp only [iter, withEdge, hm, if_false] at h
      cases hc : c m with
      | none => simp [hc] at h
      | some m' =>
        simp only [hc] at h
        obtain ⟨k', hk', hi⟩ := ih m' h
        exact ⟨k' + 1, by omega, by simp [iter, hc, hi]⟩

/-- a chain of the new context that never visits `id` is a chain of the old one -/
theorem new_chain_avoiding (k n : Nat) (h : ∀ j, j < k → iter (withEdge c id inner) j n ≠ some id) :
    iter (withEdge c id inner) k n = iter c k n := by
  induction k generalizing n with
  | zero => rfl
  | succ k ih =>
    have hn : n ≠ id := by
      intro e; exact h 0 (by omega) (by simp [iter, e])
    simp only [iter, withEdge, hn, if_false]
    cases hc : c n with
    | none => rfl
    | some m =>
      apply ih
      intro j hj
      have := h (j + 1) (by omega)
      simpa [iter, withEdge, hn, hc] using this

theorem withEdge_acyclic (hac : Acyclic c) (_hfresh : c id = none)
    (hno : ∀ k, iter c k inner ≠ some id) : Acyclic (withEdge c id inner) := by
  intro n k hk hcyc
  -- the cycle visits `id` …
  have hvisit : ∃ j, j < k ∧ iter (withEdge c id inner) j n = some id := by
    apply Classical.byContradiction
    intro hnot
    have hav : ∀ j, j < k → iter (withEdge c id inner) j n ≠ some id := by
      intro j hj e; exact hnot ⟨j, hj, e⟩
    rw [new_chain_avoiding c id inner k n hav] at hcyc
    exact hac n k hk hcyc
  obtain ⟨j, hj, hid⟩ := hvisit
  -- … so `id` lies on it: k steps from `id` lead back to `id`
  have hrot : iter (withEdge c id inner) k id = some id := by
    have h1 : iter (withEdge c id inner) (k + j) n = some id := by
      rw [iter_add, hcyc]; simpa using hid
    have h2 : iter (withEdge c id inner) (j + k) n = iter (withEdge c id inner) k id := by
      rw [iter_add, hid]; rfl
    have : k + j = j + k := by omega
    rw [this, h2] at h1
    exact h1
  -- first step: id → inner
  obtain ⟨k', rfl⟩ : ∃ k', k = k' + 1 := ⟨k - 1, by omega⟩
  have hstep : iter (withEdge c id inner) k' inner = some id := by
    simpa [iter, withEdge] using hrot
  obtain ⟨k'', _, hold⟩ := old_chain_of_new c id inner k' inner hstep
  exact hno k'' hold

end step

/-- **one construction keeps the chains acyclic** (guarded arm, any bound) -/
theorem C12_alias_step_acyclic (bound : Nat) (c : Ctx) (id inner : Nat) (hac : Acyclic c)
    (hfresh : c id = none) (hshort : ∀ k, iter c k inner = some id → k < bound) :
    Acyclic (addTypedef true bound c id inner) := by
  unfold addTypedef
  simp only [if_true]
  by_cases hr : reachesWithin c id bound inner = true
  · simp [hr]; exact hac
  · simp only [hr]
    have hno : ∀ k, iter c k inner ≠ some id := by
      intro k hk
      exact hr (reachesWithin_of_iter c id k bound inner hk (hshort k hk))
    have := withEdge_acyclic c id inner hac hfresh hno
    unfold withEdge at this
    exact this

/-- side conditions of a history: every typedef is new when it is built and no chain back to it is
longer than the walk -/
def HistoryOk (bound : Nat) : List (Nat × Nat) → Ctx → Prop
  | [], _ => True
  | (id, inner) :: rest, c =>
    c id = none ∧ (∀ k, iter c k inner = some id → k < bound) ∧ HistoryOk bound rest (addTypedef true bound c id inner)

/-- **every history of typedef constructions keeps the chains acyclic** -/
theorem C12_alias_history_acyclic (bound : Nat) (h : List (Nat × Nat)) (c : Ctx) (hac : Acyclic c)
    (hok : HistoryOk bound h c) : Acyclic (build true bound h c) := by
  induction h generalizing c with
  | nil => simpa [build] using hac
  | cons p rest ih =>
    obtain ⟨id, inner⟩ := p
    obtain ⟨hf, hs, hrest⟩ := hok
    simp only [build]
    exact ih _ (C12_alias_step_acyclic bound c id inner hac hf hs) hrest

theorem acyclic_empty : Acyclic (fun _ => none) := by
  intro n k hk
  cases k with
  | zero => omega
  | succ k => simp [iter]

/-- source obligation (regenerated `Generated/AliasGuard.lean`): the arm walks the chain -/
theorem C12_alias_guard_in_source : aliasGuardPresent = true ∧ 0 < aliasGuardBound := by decide

/-- the code as it is keeps the ring of corpus/C12/alias_ring.hpp acyclic: `Outer` falls back to opaque -/
theorem C12_alias_ring_now :
    (build aliasGuardPresent aliasGuardBound ringHistory (fun _ => none)) 12 = none ∧
    (build aliasGuardPresent aliasGuardBound ringHistory (fun _ => none)) 13 = some 12 := by decide

/-- hypotheses satisfiable: the ring history meets `HistoryOk` for the extracted bound -/
example : HistoryOk aliasGuardBound ringHistory (fun _ => none) := by
  have hc : addTypedef true aliasGuardBound (fun _ => none) 13 12 = (fun n => if n = 13 then some 12 else none) := by
    have hr : reachesWithin (fun _ => none) 13 aliasGuardBound 12 = false := by decide
    unfold addTypedef
    simp [hr]
  have hb : 1 < aliasGuardBound := by decide
  refine ⟨rfl, ?_, ?_, ?_, trivial⟩
  · intro k hk
    cases k with
    | zero => simp [iter] at hk
    | succ k => simp [iter] at hk
  · rw [hc]; simp
  · rw [hc]
    intro k hk
    cases k with
    | zero => simp [iter] at hk
    | succ k =>
      cases k with
      | zero => exact hb
      | succ k => simp [iter] at hk

/-- **negation (the repaired defect)**: with only the direct `inner_id == potential_id` test the same
history closes the cycle 12 → 13 → 12 -/
theorem C12_alias_unguarded_ring_cycles :
    iter (build false 0 ringHistory (fun _ => none)) 2 12 = some 12 := by decide

/-- **the bound is needed**: a walk that looks at a single item does not see the chain 13 → 12 -/
theorem C12_alias_bound_needed :
    iter (build true 1 ringHistory (fun _ => none)) 2 12 = some 12 := by decide

/-! ## the consumer: how deep `safe_canonical_type` recurses -/

/-- follow the edges from `n`; `fuel` bounds the depth; `none` = still going when the fuel ran out -/
def walkEnd (c : Ctx) : Nat → Nat → Option Nat
  | 0, _ => none
  | fuel + 1, n => match c n with
    | none => some n
    | some m => walkEnd c fuel m

/-- the items visited by the first `k` steps from `n` (while the chain goes on) -/
def visited (c : Ctx) : Nat → Nat → List Nat
  | 0, _ => []
  | k + 1, n => n :: (match c n with | none => [] | some m => visited c k m)

theorem walkEnd_none_iter (c : Ctx) : ∀ (fuel n : Nat), walkEnd c fuel n = none → ∃ m, iter c fuel n = some m := by
  intro fuel
  induction fuel with
  | zero => intro n _; exact ⟨n, rfl⟩
  | succ fuel ih =>
    intro n h
    simp only [walkEnd] at h
    cases hc : c n with
    | none => simp [hc] at h
    | some m =>
      simp only [hc] at h
      obtain ⟨m', hm'⟩ := ih m h
      exact ⟨m', by simp [iter, hc, hm']⟩

/-- on an acyclic context two different step counts of a live chain lead to different items -/
theorem iter_injective_of_acyclic (c : Ctx) (hac : Acyclic c) (n a b x : Nat) (hab : a < b)
    (ha : iter c a n = some x) (hb : iter c b n = some x) : False := by
  have : b = a + (b - a) := by omega
  rw [this, iter_add, ha] at hb
  exact hac x (b - a) (by omega) (by simpa using hb)

/-- pigeonhole over `Fin`-bounded ids: `k + 1` pairwise different numbers below `k` do not exist -/
theorem no_injection (k : Nat) (f : Nat → Nat) (hlt : ∀ i, i ≤ k → f i < k)
    (hinj : ∀ i j, i < j → j ≤ k → f i ≠ f j) : False := by
  induction k generalizing f with
  | zero => exact absurd (hlt 0 (Nat.le_refl _)) (by omega)
  | succ k ih =>
    -- remove the value f (k+1) by swapping it to the top
    let v := f (k + 1)
    let g : Nat → Nat := fun i => if f i = k then v else f i
    apply ih g
    · intro i hi
      show (if f i = k then v else f i) < k
      by_cases h : f i = k
      · simp only [h, if_true]
        have hv : v < k + 1 := hlt (k + 1) (Nat.le_refl _)
        have hne : f i ≠ f (k + 1) := hinj i (k + 1) (by omega) (Nat.le_refl _)
        have : v ≠ k := by intro e; apply hne; rw [h]; exact e.symm
        omega
      · simp only [h, if_false]
        have := hlt i (by omega)
        omega
    · intro i j hij hj
      show (if f i = k then v else f i) ≠ (if f j = k then v else f j)
      have hne := hinj i j hij (by omega)
      have hiv : f i ≠ v := hinj i (k + 1) (by omega) (Nat.le_refl _)
      have hjv : f j ≠ v := hinj j (k + 1) (by omega) (Nat.le_refl _)
      by_cases hi : f i = k <;> by_cases hjk : f j = k
      · exact absurd (hi.trans hjk.symm) hne
      · simp only [hi, hjk, if_true, if_false]; exact fun e => hjv e.symm
      · simp only [hi, hjk, if_true, if_false]; exact hiv
      · simp only [hi, hjk, if_false]; exact hne

/-- **the canonical-type walk ends**: acyclic context, every edge between items below `n` ⇒ from any
item below `n` the walk stops within `n + 1` steps (the recursion depth of `safe_canonical_type`
is bounded by the number of items) -/
theorem C12_canonical_walk_ends (c : Ctx) (n : Nat) (hac : Acyclic c)
    (hclosed : ∀ a b, c a = some b → b < n) (s : Nat) (hs : s < n) :
    walkEnd c (n + 1) s ≠ none := by
  intro hnone
  obtain ⟨m, hm⟩ := walkEnd_none_iter c (n + 1) s hnone
  -- every prefix of the chain is live
  have hlive : ∀ i, i ≤ n + 1 → ∃ x, iter c i s = some x := by
    intro i hi
    have : n + 1 = i + (n + 1 - i) := by omega
    rw [this, iter_add] at hm
    cases h : iter c i s with
    | none => simp [h] at hm
    | some x => exact ⟨x, rfl⟩
  -- and stays below n
  have hbelow : ∀ i x, iter c i s = some x → x < n := by
    intro i
    induction i with
    | zero => intro x h; simp [iter] at h; omega
    | succ i ih =>
      intro x h
      have : i + 1 = i + 1 := rfl
      rw [iter_add c i 1 s] at h
      cases hi : iter c i s with
      | none => simp [hi] at h
      | some y =>
        simp only [hi, Option.bind_some, iter] at h
        cases hc : c y with
        | none => simp [hc] at h
        | some z =>
          simp only [hc] at h
          have := hclosed y z hc
          simp at h; omega
  let f : Nat → Nat := fun i => (iter c i s).getD 0
  apply no_injection n f
  · intro i hi
    obtain ⟨x, hx⟩ := hlive i (by omega)
    show (iter c i s).getD 0 < n
    simp [hx]; exact hbelow i x hx
  · intro i j hij hj e
    obtain ⟨x, hx⟩ := hlive i (by omega)
    obtain ⟨y, hy⟩ := hlive j (by omega)
    have : x = y := by
      have : (iter c i s).getD 0 = (iter c j s).getD 0 := e
      simpa [hx, hy] using this
    subst this
    exact iter_injective_of_acyclic c hac s i j x hij hx hy

/-- non-vacuity: the repaired ring context is acyclic and closed below 14; the walk from `Inner` ends at `Outer` -/
example : walkEnd (build aliasGuardPresent aliasGuardBound ringHistory (fun _ => none)) 15 13 = some 12 := by decide

end BindgenModel.AliasChain
