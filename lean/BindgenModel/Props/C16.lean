import BindgenModel.Model.CDecl
import BindgenModel.Model.CDeclVariadic
import BindgenModel.Lemmas.CDecl
/-! # C16 — static-function wrappers compile and behave like the wrapped functions

Model: `Model/CDecl.lean` (`serP` = `impl CSerialize for Type`, `renderWrapper` = `impl CSerialize
for Function`, `codegenFn` = the static-function part of `Function::codegen`), parameterised by the
generated table `Generated/SerializeArms.lean`.

FULL statement on the model (never weakened; what is proved of it is below):

  for every function `f` bindgen emits a binding for, with `f` static:
  (1) the wrapper file contains exactly one definition named `f.name ++ suffix`, the binding links to
      that name, the definition forwards all arguments in order and returns the result iff non-void;
  (2) every parameter declaration `serP t [name]` (and the return type) read by the C declarator
      grammar declares `name` with the type the header gave it;
  (3) variadic static functions get no binding.

Proved: (1) `C16_wrapper_shape`, `C16_one_definition_per_wrapped_function`,
`C16_link_matches_wrapper_partial` (hypothesis canonical name = name), `C16_static_wrapped_partial`
(hypothesis: symbol name = Rust name); (2) `C16_decl_roundtrip_partial` / `C16_ret_roundtrip_partial`
for both forms of the `Array` arm, under `defect a ctx t = none`; (3) `C16_variadic_gets_no_binding`.
Every excluded region has a `C16_fails_on_…` lemma with a concrete witness.

The `wrap_as_variadic` path (`Model/CDeclVariadic.lean`; last section of this file), unbounded over
parameter lists: the call forwards argument k as parameter k with `ap` at the index of the pruned
`va_list` (`C16_va_forwarded_positions`, `C16_va_forwarded_in_order`, `C16_va_forwarded_named`), the
wrapper's own parameters are the original ones minus the `va_list`, order kept
(`C16_va_params_pruned`), `va_start` names the last of them (`C16_va_start_names_last`); the code
panics exactly when none remains (`C16_va_panics_iff`), which `wrap_as_variadic_fn` never lets happen
(`C16_va_codegen_guards_unwrap`); without a callback answer nothing changes (`C16_va_none_unchanged`,
`C16_va_codegen_without_callback_unchanged`).  Excluded regions with witnesses: a remaining parameter
called `ap` / `ret` (`C16_va_fails_on_name_clash`), no `<stdarg.h>` (`C16_va_fails_without_stdarg`). -/
namespace BindgenModel.CDecl
open BindgenModel.Generated.SerializeArms

/-! ## (2) declarations round-trip through the C declarator grammar -/

/-- A named parameter: the tokens written for type `t` with the stack `[name]`, read by the reference
    parser, declare `name` with the denoted type — for either form of the `Array` arm (`a`), for every
    type in which `defect` finds nothing. -/
theorem C16_decl_roundtrip_partial (a : Bool) (t : CType) (name : Name)
    (h : defect a .direct t = none) :
    parseDecl (toks (serP a t [[pId name]])) = some (den t, some name) := by
  have := goalT a t .direct (nameStack (some name)) (.nm (some name)) [] _ h (rel_name a _)
    (inv_name (some name)) (by simp [RestOK]) (Nat.le_refl _)
  simp only [List.append_nil, nameStack] at this
  simp [parseDecl, this, applied, denD, Decl.apply]

/-- The return type (written with an empty stack). -/
theorem C16_ret_roundtrip_partial (a : Bool) (r : CType) (h : retDefect a r = none) :
    parseDecl (toks (serP a r [])) = some (den r, none) := by
  have hd : defect a .empty r = none := by
    simp only [retDefect] at h
    split at h
    · simp at h
    · exact h
  have := goalT a r .empty (nameStack none) (.nm none) [] _ hd (rel_name a _)
    (inv_name none) (by simp [RestOK]) (Nat.le_refl _)
  simp only [List.append_nil, nameStack] at this
  simp [parseDecl, this, applied, denD, Decl.apply]

/-- The code as it is in /repo now (the generated table decides which form of the Array arm). -/
theorem C16_decl_roundtrip_now_partial (t : CType) (name : Name)
    (h : defect arrayInDeclarator .direct t = none) :
    parseDecl (toks (serP arrayInDeclarator t [[pId name]])) = some (den t, some name) :=
  C16_decl_roundtrip_partial _ t name h

/-- A whole parameter list of a function type parses back. -/
theorem C16_params_roundtrip_partial (a : Bool) (ps : Params) (h : defectPs a ps = none) :
    ParsesBack a ps :=
  goalPs_parsesBack a ps (goalPs a ps) h

mutual
/-- Nothing found by `defect` ⇒ the serializer does not return `Err`. -/
theorem C16_no_defect_supported (a : Bool) : ∀ (ctx : Ctx) (t : CType), defect a ctx t = none → supported t = true
  | _, .base _ b, h => by
    simp only [defect] at h
    split at h
    · simpa [supported]
    · simp at h
  | _, .ptr _ t, h => by simpa [supported] using C16_no_defect_supported a .ptr t (by simpa [defect] using h)
  | ctx, .array t n, h => by
    cases a
    · have := (defect_array_false h).2.2
      simpa [supported] using C16_no_defect_supported false ctx t this
    · simpa [supported] using C16_no_defect_supported true ctx.afterArr t (by simpa [defect] using h)
  | ctx, .func c v r ps, h => by
    obtain ⟨_, _, _, _, _, hr, hps⟩ := defect_func h
    simp [supported, C16_no_defect_supported a .empty r hr, C16_no_defect_supportedPs a ps hps]
  | ctx, .tref c t, h => by
    simp only [defect] at h
    split at h
    · simp at h
    · simpa [supported] using C16_no_defect_supported a ctx t h
  | _, .other, h => by simp [defect] at h
theorem C16_no_defect_supportedPs (a : Bool) : ∀ (ps : Params), defectPs a ps = none → supportedPs ps = true
  | .nil, _ => rfl
  | .cons n t r, h => by
    obtain ⟨ht, hr⟩ := defectPs_cons h
    simp [supportedPs, C16_no_defect_supported a _ t ht, C16_no_defect_supportedPs a r hr]
end

/-! ### the excluded regions, each with a concrete witness

`wInt` = `int`; identifiers as character lists. -/

def wInt : CType := .base false (.int .Int)
def nP : Name := ['p']
def nA : Name := ['a']
def nF : Name := ['f']
def nQ : Name := ['q']

/-- `int (*p)[3]` -/
def wPtrToArray : CType := .ptr false (.array wInt 3)

/-- DESIGN §7 row 5: with the suffix-after form of the Array arm `int (*p)[3]` is written `int *p [3]`,
    which declares an array of 3 pointers. -/
theorem C16_fails_on_ptr_to_array :
    defect false .direct wPtrToArray = some .arrayUnderPtr ∧
    textOf (serP false wPtrToArray [[pId nP]]) = ['i', 'n', 't', ' ', '*', 'p', ' ', '[', '3', ']'] ∧
    parseDecl (toks (serP false wPtrToArray [[pId nP]])) = some (.array (.ptr false wInt) 3, some nP) ∧
    CType.array (.ptr false wInt) 3 ≠ den wPtrToArray := by
  refine ⟨by decide, by decide, by rfl, ?_⟩
  intro h; cases h

/-- the same declaration with the in-declarator form of the Array arm (fixes/C16-ptr-to-array.diff) -/
theorem C16_ptr_to_array_ok_in_declarator_form :
    textOf (serP true wPtrToArray [[pId nP]]) = ['i', 'n', 't', ' ', '(', '*', 'p', ')', ' ', '[', '3', ']'] ∧
    parseDecl (toks (serP true wPtrToArray [[pId nP]])) = some (den wPtrToArray, some nP) :=
  ⟨by decide, C16_decl_roundtrip_partial true wPtrToArray nP (by decide)⟩

/-- `int a[2][3]` is written `int a [3] [2]` -/
theorem C16_fails_on_array_of_array :
    defect false .direct (.array (.array wInt 3) 2) = some .arrayElem ∧
    parseDecl (toks (serP false (.array (.array wInt 3) 2) [[pId nA]])) = some (.array (.array wInt 2) 3, some nA) ∧
    CType.array (.array wInt 2) 3 ≠ den (.array (.array wInt 3) 2) := by
  refine ⟨by decide, by rfl, ?_⟩
  intro h; cases h

/-- `int (*(*f)(void))(int)` (pointer to function returning pointer to function) is written
    `int (*) (int) (*f) (void)`, which is not a declaration -/
theorem C16_fails_on_fn_returning_fnptr :
    let t : CType := .ptr false (.func false false (.ptr false (.func false false wInt (.cons none wInt .nil))) .nil)
    defect false .direct t = some .fnRet ∧ defect true .direct t = some .fnRet ∧
    parseDecl (toks (serP false t [[pId nF]])) = none := by
  refine ⟨by decide, by decide, by rfl⟩

/-- a function's own return type of that shape: `int (*) (int) name(…)` -/
theorem C16_fails_on_returning_fnptr :
    retDefect false (.ptr false (.func false false wInt (.cons none wInt .nil))) = some .fnRet := by decide

/-- `int *const q` arrives as a const `ResolvedTypeRef` to a const pointer and is written
    `const int *const q`: the const moves to the pointee -/
theorem C16_fails_on_const_ptr_param :
    let t : CType := .tref true (.ptr true wInt)
    defect false .direct t = some .constRefPtr ∧
    parseDecl (toks (serP false t [[pId nQ]])) = some (.ptr true (.base true (.int .Int)), some nQ) ∧
    CType.ptr true (.base true (.int .Int)) ≠ CType.ptr true wInt := by
  refine ⟨by decide, by rfl, ?_⟩
  intro h; cases h

/-- `int (*g)(int, ...)`: the `...` is not written -/
theorem C16_fails_on_variadic_fnptr :
    let t : CType := .ptr false (.func false true wInt (.cons none wInt .nil))
    defect false .direct t = some .fnVariadic ∧
    parseDecl (toks (serP false t [[pId nF]])) = some (.ptr false (.func false false wInt (.cons none wInt .nil)), some nF) := by
  refine ⟨by decide, by rfl⟩

/-- the hypotheses are satisfiable on non-trivial types (both forms of the Array arm):
    `const char *const *a[4]`, `int (*f)(struct S *x, int [2])` -/
example : defect false .direct (.array (.ptr false (.ptr true (.base true (.int .Char)))) 4) = none := by decide
example : defect false .direct
    (.ptr false (.func false false (.ptr false wInt)
      (.cons (some ['x']) (.ptr false (.base false (.struct ['S']))) (.cons none (.array wInt 2) .nil)))) = none := by decide
example : defect true .direct (.ptr false (.array (.array (.ptr false (.func false false wInt .nil)) 3) 2)) = none := by decide

/-! ## (1) shape of a wrapper and of the wrapper file -/

def paramNames : Params → List (Option Name)
  | .nil => []
  | .cons n _ r => n :: paramNames r

theorem argNames_length : ∀ (ps : Params) (k : Nat), (argNames ps k).length = (paramTypes ps).length
  | .nil, _ => rfl
  | .cons (some _) _ r, k => by simp [argNames, paramTypes, argNames_length r k]
  | .cons none _ r, k => by simp [argNames, paramTypes, argNames_length r (k + 1)]

/-- named parameters keep their names, position by position -/
theorem argNames_named : ∀ (ps : Params) (k i : Nat) (n : Name),
    (paramNames ps)[i]? = some (some n) → (argNames ps k)[i]? = some n
  | .nil, _, _, _, h => by simp [paramNames] at h
  | .cons (some m) _ r, k, 0, n, h => by simpa [paramNames, argNames] using h
  | .cons none _ r, k, 0, n, h => by simp [paramNames] at h
  | .cons (some m) _ r, k, i + 1, n, h => by
    simpa [argNames] using argNames_named r k i n (by simpa [paramNames] using h)
  | .cons none _ r, k, i + 1, n, h => by
    simpa [argNames] using argNames_named r (k + 1) i n (by simpa [paramNames] using h)

/-- One wrapper: it is named `name ++ suffix`, calls `name`, declares one parameter per parameter of
    the wrapped function with the same types in the same order, forwards exactly the declared
    parameter names in order, keeps given names, and returns the result iff the return type is not void. -/
theorem C16_wrapper_shape (suffix : Name) (f : Fn) :
    (wrapperDef suffix f).defName = f.name ++ suffix ∧
    (wrapperDef suffix f).callee = f.name ∧
    (wrapperDef suffix f).forwarded = (wrapperDef suffix f).params.map (·.1) ∧
    (wrapperDef suffix f).params.map (·.2) = paramTypes f.params ∧
    (∀ (i : Nat) (n : Name), (paramNames f.params)[i]? = some (some n) → (wrapperDef suffix f).forwarded[i]? = some n) ∧
    (wrapperDef suffix f).returns = !isVoid f.ret := by
  have hl := argNames_length f.params 0
  refine ⟨rfl, rfl, ?_, ?_, fun i n h => argNames_named f.params 0 i n h, rfl⟩
  · simp only [wrapperDef]
    rw [List.map_fst_zip (by omega)]
  · simp only [wrapperDef]
    rw [List.map_snd_zip (by omega)]

/-- every parameter of a wrapper is declared by `serP t [name]`, so for the types without defect the
    wrapper declares its parameters with the header's types (this is what makes the forwarded call
    type-correct) -/
theorem C16_wrapper_params_declared_partial (a : Bool) (suffix : Name) (f : Fn) (n : Name) (t : CType)
    (_hm : (n, t) ∈ (wrapperDef suffix f).params) (hd : defect a .direct t = none) :
    parseDecl (toks (serP a t [[pId n]])) = some (den t, some n) :=
  C16_decl_roundtrip_partial a t n hd

/-- the functions of a header set that end up on `items_to_serialize` -/
def wrappedFns (wrap : Bool) (suffix : Name) (fs : List (FnInfo × Fn)) : List (FnInfo × Fn) :=
  fs.filter fun p => match codegenFn wrap suffix p.1 with
    | some b => b.wrapped
    | none => false

/-- the definitions of the wrapper file, in order -/
def fileDefs (wrap : Bool) (suffix : Name) (fs : List (FnInfo × Fn)) : List WrapperDef :=
  (wrappedFns wrap suffix fs).map fun p => wrapperDef suffix p.2

/-- exactly one definition per wrapped function, named `name ++ suffix`, in order -/
theorem C16_one_definition_per_wrapped_function (wrap : Bool) (suffix : Name) (fs : List (FnInfo × Fn)) :
    (fileDefs wrap suffix fs).map (·.defName) = (wrappedFns wrap suffix fs).map (fun p => p.2.name ++ suffix) := by
  simp [fileDefs, wrapperDef, List.map_map, Function.comp_def]

/-- distinct functions give distinct definitions -/
theorem C16_definitions_distinct (wrap : Bool) (suffix : Name) (fs : List (FnInfo × Fn))
    (h : ((wrappedFns wrap suffix fs).map (·.2.name)).Nodup) :
    ((fileDefs wrap suffix fs).map (·.defName)).Nodup := by
  rw [C16_one_definition_per_wrapped_function]
  have : (wrappedFns wrap suffix fs).map (fun p => p.2.name ++ suffix)
      = ((wrappedFns wrap suffix fs).map (·.2.name)).map (· ++ suffix) := by
    simp [List.map_map, Function.comp_def]
  rw [this]
  exact List.Pairwise.map (· ++ suffix) (fun x y hne heq => hne (List.append_cancel_right heq)) h

/-! ## (1)/(3) the binding decision of `Function::codegen` -/

/-- variadic static functions get no binding, whatever the options -/
theorem C16_variadic_gets_no_binding (wrap : Bool) (suffix : Name) (f : FnInfo)
    (hi : f.internal = true) (hv : f.variadic = true) : codegenFn wrap suffix f = none := by
  cases wrap <;> simp [codegenFn, hi, hv]

/-- without `--wrap-static-fns` a static function gets no binding -/
theorem C16_static_without_option_gets_no_binding (suffix : Name) (f : FnInfo) (hi : f.internal = true) :
    codegenFn false suffix f = none := by
  simp [codegenFn, hi]

/-- only static functions are wrapped, and only with the option -/
theorem C16_wrapped_only_if_static (wrap : Bool) (suffix : Name) (f : FnInfo) (b : Binding)
    (h : codegenFn wrap suffix f = some b) (hw : b.wrapped = true) : f.internal = true ∧ wrap = true := by
  simp only [codegenFn] at h
  split at h
  · simp at h
  · split at h
    · simp at h
    · injection h with h
      subst h
      simp only [shouldWrap, Bool.and_eq_true] at hw
      exact ⟨hw.1.1, hw.1.2⟩

/-- The C text uses `Function::name()` + suffix, the `link_name` uses the canonical name + suffix:
    they agree when the canonical name is the name. -/
theorem C16_link_matches_wrapper_partial (wrap : Bool) (suffix : Name) (f : FnInfo) (b : Binding)
    (h : codegenFn wrap suffix f = some b) (hw : b.wrapped = true) (hc : f.canonical = f.name) :
    b.link = some (wrapperSymbol suffix f) := by
  simp only [codegenFn] at h
  split at h
  · simp at h
  · split at h
    · simp at h
    · injection h with h
      subst h
      simp only at hw
      simp [hw, wrapperSymbol, hc]

/-- witness for the excluded region: a renaming callback maps `_foo` to `foo`; the names still count
    as identical after mangling, the function is wrapped, the binding links to `foo__x`, the C file
    defines `_foo__x` -/
theorem C16_link_fails_on_renamed :
    let f : FnInfo := { name := ['_', 'f', 'o', 'o'], canonical := ['f', 'o', 'o'], mangled := some ['_', 'f', 'o', 'o'],
                        linkAttr := none, internal := true, variadic := false }
    codegenFn true ['_', '_', 'x'] f
      = some { ident := ['f', 'o', 'o'], link := some ['f', 'o', 'o', '_', '_', 'x'], wrapped := true } ∧
    wrapperSymbol ['_', '_', 'x'] f = ['_', 'f', 'o', 'o', '_', '_', 'x'] := by
  decide

/-- A static, non-variadic function whose symbol name is its Rust name is wrapped and linked to
    `canonical ++ suffix`. -/
theorem C16_static_wrapped_partial (suffix : Name) (f : FnInfo)
    (hi : f.internal = true) (hv : f.variadic = false) (hl : f.linkAttr = none)
    (hn : namesIdentical f.canonical (f.mangled.getD f.name) = true) :
    codegenFn true suffix f = some { ident := f.canonical, link := some (f.canonical ++ suffix), wrapped := true } := by
  simp [codegenFn, hi, hv, shouldWrap, linkNameAttr, hl, hn]

/-- witness (C++ mode): `static int f1(int)` has the mangled name `_ZL2f1i`; it gets a binding linked to
    that internal symbol and no wrapper -/
theorem C16_fails_on_mangled_static :
    let f : FnInfo := { name := ['f', '1'], canonical := ['f', '1'], mangled := some ['_', 'Z', 'L', '2', 'f', '1', 'i'],
                        linkAttr := none, internal := true, variadic := false }
    codegenFn true ['_', '_', 'x'] f
      = some { ident := ['f', '1'], link := some ['_', 'Z', 'L', '2', 'f', '1', 'i'], wrapped := false } := by
  decide

/-- witness (C): a function named like a Rust keyword (`match` → `match_`) -/
theorem C16_fails_on_keyword_name :
    let f : FnInfo := { name := ['m', 'a', 't', 'c', 'h'], canonical := ['m', 'a', 't', 'c', 'h', '_'],
                        mangled := some ['m', 'a', 't', 'c', 'h'], linkAttr := none, internal := true, variadic := false }
    codegenFn true ['_', '_', 'x'] f
      = some { ident := ['m', 'a', 't', 'c', 'h', '_'], link := some ['m', 'a', 't', 'c', 'h'], wrapped := false } := by
  decide

example : namesIdentical ['f'] (Option.getD (some ['f']) ['f']) = true := by decide

/-! ## obligations on the generated table (`Generated/SerializeArms.lean`)

A change of serialize.rs that flips one of these entries breaks the named theorem. -/

/-- the model has a case for every arm of `match self.kind()`, and no arm is new -/
theorem C16_table_arms :
    arms = [.Void, .NullPtr, .Int, .Float, .Complex, .Alias, .Array, .Function, .ResolvedTypeRef, .Pointer, .Comp, .Enum] := by
  decide

/-- which arms write the const prefix themselves (the model's `constP`): all but Array / Function / Pointer -/
theorem C16_table_const_prefix_arms :
    constPrefixArms = [.Void, .NullPtr, .Int, .Float, .Complex, .Alias, .ResolvedTypeRef, .Comp, .Enum] := by
  decide

/-- every structural fragment, read by the character lexer, is the C token the model's `Piece` says it is -/
theorem C16_table_fragments_lex :
    lex [] fragConst = [.kconst] ∧ lex [] fragFnConst = [.kconst] ∧
    lex [] fragPtr = [.star false] ∧ lex [] fragPtrConst = [.star true] ∧
    lex [] fragFnOpen = [.lpar] ∧ lex [] fragFnClose = [.rpar] ∧ lex [] fragFnVoid = [.voidp] ∧
    lex [] fragFnArgsOpen = [.lpar] ∧ lex [] fragFnArgsClose = [.rpar] ∧ lex [] fragSep = [.comma] ∧
    lex [] fragStackSep = [] ∧ lex [] fragParOpen = [.lpar] ∧ lex [] fragParClose = [.rpar] ∧
    lex [] (fragArrOpen ++ natText 37 ++ fragArrClose) = [.arr 37] ∧
    lex [] (fragArrOpenTight ++ natText 4 ++ fragArrClose) = [.arr 4] ∧
    lex [] fragVoid = [.ty .void] ∧
    lex [] (fragStruct ++ ['S']) = [.ty (.struct ['S'])] ∧ lex [] (fragUnion ++ ['U']) = [.ty (.union ['U'])] ∧
    lex [] (fragEnum ++ ['E']) = [.ty (.enum ['E'])] := by
  decide

/-- every builtin kind with a text lexes back to itself: the texts are made of type-specifier words and
    are pairwise distinct -/
theorem C16_table_builtin_texts_lex :
    (allIntK.all fun k => match intText k with
      | some tx => lex [] tx == [.ty (.int k)]
      | none => true) = true ∧
    (allFloatK.all fun k => match floatText k with
      | some tx => lex [] tx == [.ty (.float k)]
      | none => true) = true ∧
    (allFloatK.all fun k => match complexText k with
      | some tx => lex [] tx == [.ty (.complex k)]
      | none => true) = true := by
  decide

/-- type-specifier keywords of C17 (6.7.2) plus the GNU floating types clang accepts without a header -/
def cTypeKeywords : List (List Char) :=
  [['v', 'o', 'i', 'd'], ['c', 'h', 'a', 'r'], ['s', 'h', 'o', 'r', 't'], ['i', 'n', 't'], ['l', 'o', 'n', 'g'],
   ['f', 'l', 'o', 'a', 't'], ['d', 'o', 'u', 'b', 'l', 'e'], ['s', 'i', 'g', 'n', 'e', 'd'],
   ['u', 'n', 's', 'i', 'g', 'n', 'e', 'd'], ['_', 'B', 'o', 'o', 'l'], ['_', 'C', 'o', 'm', 'p', 'l', 'e', 'x'],
   ['_', 'F', 'l', 'o', 'a', 't', '1', '6'], ['_', '_', 'f', 'l', 'o', 'a', 't', '1', '2', '8']]

def splitSp : List Char → List Char → List (List Char)
  | [], cur => [cur.reverse]
  | c :: r, cur => if c == ' ' then cur.reverse :: splitSp r [] else splitSp r (c :: cur)

def wordsOf (s : List Char) : List (List Char) :=
  (splitSp s []).filter (!·.isEmpty)

/-- every integer kind except `Bool` and `WChar`, and every float kind, is spelled with keywords only -/
theorem C16_table_spelling_keywords :
    (allIntK.all fun k => k == .Bool || k == .WChar || match intText k with
      | some tx => (wordsOf tx).all cTypeKeywords.contains
      | none => true) = true ∧
    (allFloatK.all fun k => match floatText k with
      | some tx => (wordsOf tx).all cTypeKeywords.contains
      | none => true) = true := by
  decide

/-- `_Bool` is written `bool` and `_Complex` is written `complex`: macros of <stdbool.h> / <complex.h>,
    not keywords — the wrapper only compiles if the input header happens to include them -/
theorem C16_fails_on_bool_and_complex_spelling :
    intText .Bool = some ['b', 'o', 'o', 'l'] ∧ cTypeKeywords.contains ['b', 'o', 'o', 'l'] = false ∧
    complexText .Double = some ['d', 'o', 'u', 'b', 'l', 'e', ' ', 'c', 'o', 'm', 'p', 'l', 'e', 'x'] ∧
    cTypeKeywords.contains ['c', 'o', 'm', 'p', 'l', 'e', 'x'] = false := by
  decide

/-- 128-bit integers (and the fixed-width / custom kinds) have no text: the serializer returns `Err` -/
theorem C16_table_int128_unsupported :
    intText .I128 = none ∧ intText .U128 = none ∧
    supported (.ptr false (.base false (.int .U128))) = false := by
  decide

/-- fragments of the wrapper assembly (`impl CSerialize for Function`, `serialize_args`) -/
theorem C16_table_wrapper_fragments :
    fragArgPrefix = ['a', 'r', 'g', '_'] ∧ fragWrapPre = [' '] ∧ fragWrapOpen = ['('] ∧
    fragArgsVoid = ['v', 'o', 'i', 'd'] ∧ fragArgsSep = [',', ' '] ∧
    fragBodyVoidPre = [')', ' ', '{', ' '] ∧ fragBodyVoidPost = ['('] ∧
    fragBodyRetPre = [')', ' ', '{', ' ', 'r', 'e', 't', 'u', 'r', 'n', ' '] ∧ fragBodyRetPost = ['('] ∧
    fragCallSep = [',', ' '] ∧ fragCallClose = [')', ';', ' '] ∧ fragEnd = ['}', '\n'] := by
  decide

/-- the golden wrappers of the test-suite, as text (two lines of
    bindgen-tests/tests/expectations/tests/generated/wrap_static_fns.c), for either form of the Array arm -/
theorem C16_golden_lines (a : Bool) :
    wrapperText a ['_', '_', 'e', 'x', 't', 'e', 'r', 'n']
      { name := ['f', 'o', 'o'], ret := wInt, params := .nil }
      = some ("int foo__extern(void) { return foo(); }\n".toList) ∧
    wrapperText a ['_', '_', 'e', 'x', 't', 'e', 'r', 'n']
      { name := ['t', 'q'], ret := wInt,
        params := .cons (some ['a', 'r', 'g']) (.tref false (.ptr false (.ptr true (.base true (.int .Int))))) .nil }
      = some ("int tq__extern(const int *const *arg) { return tq(arg); }\n".toList) := by
  cases a <;> exact ⟨by rfl, by rfl⟩

/-! ## the `wrap_as_variadic` path (`Model/CDeclVariadic.lean`) -/

theorem paramTypes_prune : ∀ (ps : Params) (i : Nat), paramTypes (pruneParams ps i) = (paramTypes ps).eraseIdx i
  | .nil, _ => by simp [pruneParams, paramTypes]
  | .cons _ _ r, 0 => by simp [pruneParams, paramTypes]
  | .cons n t r, i + 1 => by simp [pruneParams, paramTypes, paramTypes_prune r i]

theorem paramNames_prune : ∀ (ps : Params) (i : Nat), paramNames (pruneParams ps i) = (paramNames ps).eraseIdx i
  | .nil, _ => by simp [pruneParams, paramNames]
  | .cons _ _ r, 0 => by simp [pruneParams, paramNames]
  | .cons n t r, i + 1 => by simp [pruneParams, paramNames, paramNames_prune r i]

theorem insertAt_some : ∀ (l : List Name) (i : Nat) (x : Name), i ≤ l.length → insertAt l i x = some (l.insertIdx i x)
  | l, 0, x, _ => by simp [insertAt]
  | [], i + 1, x, h => by simp at h
  | y :: l, i + 1, x, h => by
    simp [insertAt, insertAt_some l i x (by simpa using h)]

theorem insertAt_none : ∀ (l : List Name) (i : Nat) (x : Name), l.length < i → insertAt l i x = none
  | l, 0, x, h => by simp at h
  | [], i + 1, x, _ => by simp [insertAt]
  | y :: l, i + 1, x, h => by
    simp [insertAt, insertAt_none l i x (by simpa using h)]

/-- when the pruned parameter has a name, the names of the remaining parameters are the original names
    minus that one (the `arg_N` numbering of unnamed parameters is not disturbed) -/
theorem argNames_prune_named : ∀ (ps : Params) (i k : Nat) (n : Name), (paramNames ps)[i]? = some (some n) →
    argNames (pruneParams ps i) k = (argNames ps k).eraseIdx i
  | .nil, _, _, _, h => by simp [paramNames] at h
  | .cons (some m) _ r, 0, k, n, _ => by simp [pruneParams, argNames]
  | .cons none _ r, 0, k, n, h => by simp [paramNames] at h
  | .cons (some m) _ r, i + 1, k, n, h => by
    simp [pruneParams, argNames, argNames_prune_named r i k n (by simpa [paramNames] using h)]
  | .cons none _ r, i + 1, k, n, h => by
    simp [pruneParams, argNames, argNames_prune_named r i (k + 1) n (by simpa [paramNames] using h)]

/-- a named parameter other than the pruned one keeps its name and moves down by one iff it came after -/
theorem argNames_prune_keeps : ∀ (ps : Params) (i k j : Nat) (n : Name), (paramNames ps)[j]? = some (some n) → j ≠ i →
    (argNames (pruneParams ps i) k)[if j < i then j else j - 1]? = some n
  | .nil, _, _, _, _, h, _ => by simp [paramNames] at h
  | .cons _ _ r, 0, k, 0, n, _, hne => by simp at hne
  | .cons m _ r, 0, k, j + 1, n, h, _ => by
    simpa [pruneParams] using argNames_named r k j n (by simpa [paramNames] using h)
  | .cons (some m) _ r, i + 1, k, 0, n, h, _ => by simpa [pruneParams, argNames, paramNames] using h
  | .cons none _ r, i + 1, k, 0, n, h, _ => by simp [paramNames] at h
  | .cons (some m) _ r, i + 1, k, j + 1, n, h, hne => by
    have ih := argNames_prune_keeps r i k j n (by simpa [paramNames] using h) (by omega)
    by_cases hj : j < i
    · simpa [pruneParams, argNames, hj] using ih
    · have : 0 < j := by omega
      have e : j + 1 - 1 = (j - 1) + 1 := by omega
      simp only [hj, if_false] at ih
      simp [pruneParams, argNames, hj, e, ih]
  | .cons none _ r, i + 1, k, j + 1, n, h, hne => by
    have ih := argNames_prune_keeps r i (k + 1) j n (by simpa [paramNames] using h) (by omega)
    by_cases hj : j < i
    · simpa [pruneParams, argNames, hj] using ih
    · have : 0 < j := by omega
      have e : j + 1 - 1 = (j - 1) + 1 := by omega
      simp only [hj, if_false] at ih
      simp [pruneParams, argNames, hj, e, ih]

/-- what `vaWrapperDef` returns, spelled out (the code as the table records it: `insert` at the index) -/
theorem vaWrapperDef_insert_some (suffix : Name) (f : Fn) (idx : Nat) (w : VaWrapperDef)
    (h : vaWrapperDef .insertAtVaListIdx suffix f idx = some w) :
    w.defName = f.name ++ suffix ∧ w.callee = f.name ∧ w.ret = f.ret ∧ w.returns = !isVoid f.ret ∧
    w.params = (argNames (pruneParams f.params idx) 0).zip (paramTypes (pruneParams f.params idx)) ∧
    (argNames (pruneParams f.params idx) 0).getLast? = some w.vaStartArg ∧
    insertAt (argNames (pruneParams f.params idx) 0) idx fragVaAp = some w.forwarded := by
  simp only [vaWrapperDef, placeAp] at h
  split at h
  · next last fwd hl hf =>
    injection h with h
    subst h
    exact ⟨rfl, rfl, rfl, rfl, rfl, hl, hf⟩
  · simp at h

/-- (b) The wrapper's own parameter list is the original one minus the `va_list` parameter, order
    preserved: types, given names, and the names the wrapper declares. -/
theorem C16_va_params_pruned (suffix : Name) (f : Fn) (idx : Nat) (w : VaWrapperDef)
    (h : vaWrapperDef .insertAtVaListIdx suffix f idx = some w) :
    w.params.map (·.2) = (paramTypes f.params).eraseIdx idx ∧
    w.params.map (·.1) = argNames (pruneParams f.params idx) 0 ∧
    paramNames (pruneParams f.params idx) = (paramNames f.params).eraseIdx idx ∧
    (∀ (j : Nat) (n : Name), (paramNames f.params)[j]? = some (some n) → j ≠ idx →
      (w.params.map (·.1))[if j < idx then j else j - 1]? = some n) := by
  obtain ⟨_, _, _, _, hp, _, _⟩ := vaWrapperDef_insert_some suffix f idx w h
  have hl := argNames_length (pruneParams f.params idx) 0
  have h1 : w.params.map (·.1) = argNames (pruneParams f.params idx) 0 := by
    rw [hp, List.map_fst_zip (by omega)]
  refine ⟨?_, h1, paramNames_prune _ _, fun j n hj hne => ?_⟩
  · rw [hp, List.map_snd_zip (by omega), paramTypes_prune]
  · rw [h1]
    exact argNames_prune_keeps f.params idx 0 j n hj hne

/-- (a) The forwarded argument list has one entry per parameter of the wrapped function, `ap` sits at
    the index the `va_list` parameter had, and the other entries are the wrapper's own parameters in
    order: argument k of the call is parameter k. -/
theorem C16_va_forwarded_positions (suffix : Name) (f : Fn) (idx : Nat) (w : VaWrapperDef)
    (h : vaWrapperDef .insertAtVaListIdx suffix f idx = some w) (hi : idx < (paramTypes f.params).length) :
    w.forwarded.length = (paramTypes f.params).length ∧
    w.forwarded[idx]? = some fragVaAp ∧
    w.forwarded.eraseIdx idx = w.params.map (·.1) := by
  obtain ⟨_, _, _, _, _, _, hf⟩ := vaWrapperDef_insert_some suffix f idx w h
  have h1 := (C16_va_params_pruned suffix f idx w h).2.1
  have hl : (argNames (pruneParams f.params idx) 0).length = (paramTypes f.params).length - 1 := by
    rw [argNames_length, paramTypes_prune, List.length_eraseIdx]
    simp [hi]
  have hle : idx ≤ (argNames (pruneParams f.params idx) 0).length := by omega
  rw [insertAt_some _ _ _ hle] at hf
  injection hf with hf
  rw [← hf]
  refine ⟨?_, ?_, ?_⟩
  · rw [List.length_insertIdx]
    simp [hle]
    omega
  · simp [List.getElem?_insertIdx_self, hle]
  · rw [h1, List.eraseIdx_insertIdx_self]

/-- (a) With `ap` replaced by the name of the pruned parameter, the forwarded list IS the wrapped
    function's own parameter-name list (what the plain wrapper forwards), in order. -/
theorem C16_va_forwarded_in_order (suffix : Name) (f : Fn) (idx : Nat) (w : VaWrapperDef) (n : Name)
    (h : vaWrapperDef .insertAtVaListIdx suffix f idx = some w)
    (hn : (paramNames f.params)[idx]? = some (some n)) :
    w.forwarded.set idx n = argNames f.params 0 ∧ argNames f.params 0 = (wrapperDef suffix f).forwarded := by
  obtain ⟨_, _, _, _, _, _, hf⟩ := vaWrapperDef_insert_some suffix f idx w h
  have hnm := argNames_named f.params 0 idx n hn
  have hlt : idx < (argNames f.params 0).length := by
    have := List.getElem?_eq_some_iff.mp hnm
    exact this.1
  rw [argNames_prune_named f.params idx 0 n hn] at hf
  have hle : idx ≤ ((argNames f.params 0).eraseIdx idx).length := by
    rw [List.length_eraseIdx]
    simp [hlt]
    omega
  rw [insertAt_some _ _ _ hle] at hf
  injection hf with hf
  rw [← hf]
  refine ⟨?_, rfl⟩
  apply List.ext_getElem?
  intro k
  by_cases hk : k = idx
  · subst hk
    rw [hnm]
    simp [List.getElem?_set, List.length_insertIdx, hle]
    omega
  · rw [List.getElem?_set_ne (Ne.symm hk)]
    rw [List.getElem?_insertIdx]
    by_cases hlt' : k < idx
    · simp [hlt', List.getElem?_eraseIdx]
    · have hgt : idx < k := by omega
      have e : k - 1 + 1 = k := by omega
      simp [hlt', hk, List.getElem?_eraseIdx, show ¬ (k - 1 < idx) by omega, e]

/-- (a) A named parameter other than the `va_list` is forwarded at its own position, whether or not
    the `va_list` parameter itself has a name. -/
theorem C16_va_forwarded_named (suffix : Name) (f : Fn) (idx : Nat) (w : VaWrapperDef) (j : Nat) (n : Name)
    (h : vaWrapperDef .insertAtVaListIdx suffix f idx = some w) (hi : idx < (paramTypes f.params).length)
    (hj : (paramNames f.params)[j]? = some (some n)) (hne : j ≠ idx) :
    w.forwarded[j]? = some n := by
  obtain ⟨_, _, hE⟩ := C16_va_forwarded_positions suffix f idx w h hi
  have hk := (C16_va_params_pruned suffix f idx w h).2.2.2 j n hj hne
  rw [← hE, List.getElem?_eraseIdx] at hk
  by_cases hlt : j < idx
  · simpa [hlt] using hk
  · have hgt : idx < j := by omega
    have e : j - 1 + 1 = j := by omega
    simpa [hlt, show ¬ (j - 1 < idx) by omega, e] using hk

/-- (c) `va_start` names the last remaining parameter of the wrapper. -/
theorem C16_va_start_names_last (suffix : Name) (f : Fn) (idx : Nat) (w : VaWrapperDef)
    (h : vaWrapperDef .insertAtVaListIdx suffix f idx = some w) :
    (w.params.map (·.1)).getLast? = some w.vaStartArg ∧ w.params ≠ [] := by
  obtain ⟨_, _, _, _, _, hl, _⟩ := vaWrapperDef_insert_some suffix f idx w h
  have h1 := (C16_va_params_pruned suffix f idx w h).2.1
  refine ⟨by rw [h1]; exact hl, ?_⟩
  intro he
  rw [he] at h1
  rw [← h1] at hl
  simp at hl

/-- (c) The explicit precondition: the code panics (`args.last().unwrap()` on an empty list, or
    `Vec::insert` past the end) exactly when no parameter remains or the index is past the remaining
    ones.  For an index inside the list that is: the `va_list` is the only parameter. -/
theorem C16_va_panics_iff (suffix : Name) (f : Fn) (idx : Nat) :
    vaWrapperDef .insertAtVaListIdx suffix f idx = none ↔
      (paramTypes (pruneParams f.params idx) = [] ∨ (paramTypes (pruneParams f.params idx)).length < idx) := by
  have hl := argNames_length (pruneParams f.params idx) 0
  simp only [vaWrapperDef, placeAp]
  constructor
  · intro h
    split at h
    · simp at h
    · next hno =>
      by_cases he : paramTypes (pruneParams f.params idx) = []
      · exact .inl he
      · right
        have hne : argNames (pruneParams f.params idx) 0 ≠ [] := by
          intro h0
          rw [h0] at hl
          exact he (List.eq_nil_of_length_eq_zero hl.symm)
        obtain ⟨last, hlast⟩ : ∃ x, (argNames (pruneParams f.params idx) 0).getLast? = some x := by
          cases hg : (argNames (pruneParams f.params idx) 0).getLast? with
          | none => exact absurd (List.getLast?_eq_none_iff.mp hg) hne
          | some x => exact ⟨x, rfl⟩
        by_cases hle : idx ≤ (argNames (pruneParams f.params idx) 0).length
        · exact absurd (insertAt_some _ _ fragVaAp hle) (by
            intro hs
            exact hno last _ hlast hs)
        · omega
  · intro h
    split
    · next last fwd hlast hf =>
      rcases h with he | hlt
      · have : argNames (pruneParams f.params idx) 0 = [] := by
          apply List.eq_nil_of_length_eq_zero
          rw [hl, he]
          rfl
        rw [this] at hlast
        simp at hlast
      · rw [insertAt_none _ _ _ (by omega)] at hf
        simp at hf
    · rfl

theorem trueIdxs_ge : ∀ (bs : List Bool) (i j : Nat), j ∈ trueIdxs bs i → i ≤ j ∧ j < i + bs.length ∧ bs[j - i]? = some true
  | [], _, _, h => by simp [trueIdxs] at h
  | b :: r, i, j, h => by
    simp only [trueIdxs] at h
    split at h
    · next hb =>
      rcases List.mem_cons.mp h with rfl | h
      · simp [hb]
      · obtain ⟨h1, h2, h3⟩ := trueIdxs_ge r (i + 1) j h
        have e : j - i = (j - (i + 1)) + 1 := by omega
        refine ⟨by omega, by simp; omega, ?_⟩
        rw [e]
        simpa using h3
    · obtain ⟨h1, h2, h3⟩ := trueIdxs_ge r (i + 1) j h
      have e : j - i = (j - (i + 1)) + 1 := by omega
      refine ⟨by omega, by simp; omega, ?_⟩
      rw [e]
      simpa using h3

theorem trueIdxs_complete : ∀ (bs : List Bool) (i k : Nat), bs[k]? = some true → (i + k) ∈ trueIdxs bs i
  | [], _, _, h => by simp at h
  | b :: r, i, 0, h => by
    have : b = true := by simpa using h
    simp [trueIdxs, this]
  | b :: r, i, k + 1, h => by
    have ih := trueIdxs_complete r (i + 1) k (by simpa using h)
    have e : i + (k + 1) = i + 1 + k := by omega
    simp only [trueIdxs]
    split
    · exact List.mem_cons_of_mem _ (e ▸ ih)
    · exact e ▸ ih

/-- `wrap_as_variadic_fn` answers only for signatures with more arguments than the bound of the
    table, of which exactly one walks to `__builtin_va_list`, and only with the callback's name. -/
theorem C16_va_decision (chains : List TyChain) (cb : Option Name) (w : WrapVa)
    (h : wrapAsVariadicFn chains cb = some w) :
    vaMaxArgsNeverWrapped < chains.length ∧ w.idx < chains.length ∧ cb = some w.newName ∧
    (∀ k, (chains[k]?.map reachesVaList) = some true ↔ k = w.idx) := by
  simp only [wrapAsVariadicFn] at h
  split at h
  · simp at h
  · next hlen =>
    split at h
    · next i hi =>
      cases cb with
      | none => simp at h
      | some n =>
        simp only [Option.map_some, Option.some.injEq] at h
        subst h
        have hmem : i ∈ trueIdxs (chains.map reachesVaList) 0 := by rw [hi]; simp
        obtain ⟨_, h2, h3⟩ := trueIdxs_ge _ 0 i hmem
        refine ⟨by omega, by simpa using h2, rfl, fun k => ⟨fun hk => ?_, fun hk => ?_⟩⟩
        · have := trueIdxs_complete (chains.map reachesVaList) 0 k (by simpa using hk)
          rw [hi] at this
          simpa using this
        · subst hk
          simpa using h3
    · simp at h

/-- (c) `Function::codegen` guards the `unwrap`: whenever `wrap_as_variadic_fn` answers for the
    argument list of `f`, at least one parameter remains and the index is in range, so
    `Function::serialize` does not panic.  (Uses the bound recorded in the generated table.) -/
theorem C16_va_codegen_guards_unwrap (suffix : Name) (f : Fn) (chains : List TyChain) (cb : Option Name) (w : WrapVa)
    (hlen : chains.length = (paramTypes f.params).length)
    (h : wrapAsVariadicFn chains cb = some w) :
    (vaWrapperDef .insertAtVaListIdx suffix f w.idx).isSome = true := by
  obtain ⟨h1, h2, _, _⟩ := C16_va_decision chains cb w h
  have hb : vaMaxArgsNeverWrapped = 1 := by decide
  cases hv : vaWrapperDef .insertAtVaListIdx suffix f w.idx with
  | some _ => rfl
  | none =>
    have := (C16_va_panics_iff suffix f w.idx).mp hv
    rw [paramTypes_prune] at this
    rcases this with he | hlt
    · have hl := congrArg List.length he
      rw [List.length_eraseIdx] at hl
      simp [← hlen, h2] at hl
      omega
    · rw [List.length_eraseIdx] at hlt
      simp [← hlen, h2] at hlt
      omega

/-- the only parameter being the `va_list` is where `Function::serialize` alone would panic -/
theorem C16_va_panics_on_sole_va_list :
    vaWrapperDef .insertAtVaListIdx ['_', '_', 'x'] { name := nF, ret := wInt, params := .cons (some ['v']) (.base false (.named vaBuiltinName)) .nil } 0 = none ∧
    wrapAsVariadicFn [[(some vaBuiltinName, true)]] (some ['g']) = none := by
  decide

/-- (d) Without a `WrapAsVariadic` the text is the plain wrapper's. -/
theorem C16_va_none_unchanged (a : Bool) (pl : ApPlacement) (suffix : Name) (f : Fn) :
    wrapperTextV a pl suffix f none = (match wrapperText a suffix f with
      | some t => .ok t
      | none => .error) := rfl

/-- (d) Without a callback answer (or with none / several `va_list`s) the binding is the one
    `codegenFn` decides: same identifier, link name and wrapping, every parameter kept. -/
theorem C16_va_codegen_without_callback_unchanged (wrap : Bool) (suffix : Name) (f : FnInfo) (chains : List TyChain) (cb : Option Name)
    (h : wrapAsVariadicFn chains cb = none) :
    codegenFnV wrap suffix f chains cb = (codegenFn wrap suffix f).map fun b =>
      { ident := b.ident, link := b.link, wrapped := b.wrapped, va := none, cVariadic := f.variadic,
        args := List.range chains.length } := by
  simp only [codegenFnV, h]
  cases codegenFn wrap suffix f with
  | none => rfl
  | some b => simp

/-- The binding of a function wrapped as variadic: called `new_name`, linked to `canonical ++ suffix`
    like any wrapped function, variadic, with every parameter but the `va_list` one. -/
theorem C16_va_binding (suffix : Name) (f : FnInfo) (chains : List TyChain) (cb : Option Name) (w : WrapVa) (b : Binding)
    (hb : codegenFn true suffix f = some b) (hw : b.wrapped = true) (hv : f.variadic = false)
    (h : wrapAsVariadicFn chains cb = some w) :
    codegenFnV true suffix f chains cb = some
      { ident := w.newName, link := some (f.canonical ++ suffix), wrapped := true, va := some w, cVariadic := true,
        args := (List.range chains.length).filter (· != w.idx) } := by
  have hl : b.link = some (f.canonical ++ suffix) := by
    simp only [codegenFn] at hb
    split at hb
    · simp at hb
    · split at hb
      · simp at hb
      · injection hb with hb
        subst hb
        simp only at hw
        simp [hw]
  simp only [codegenFnV, hb, hw, hv, h, hl]
  simp only [Bool.not_false, Bool.and_self, if_true, Option.isSome_some, Bool.or_false, Option.map_some]
  congr 2

/-- a variadic static function is never handed to `wrap_as_variadic_fn` (it gets no binding at all) -/
theorem C16_va_variadic_static_no_binding (wrap : Bool) (suffix : Name) (f : FnInfo) (chains : List TyChain) (cb : Option Name)
    (hi : f.internal = true) (hv : f.variadic = true) : codegenFnV wrap suffix f chains cb = none := by
  simp [codegenFnV, C16_variadic_gets_no_binding wrap suffix f hi hv]

/-! ### the code as it is in /repo now -/

/-- the generated table: `ap` is inserted at the index the `va_list` had -/
theorem C16_table_va_placement : vaApPlacement = .insertAtVaListIdx := by decide

/-- (a) for the code as it is now -/
theorem C16_va_forwarded_in_order_now (suffix : Name) (f : Fn) (idx : Nat) (w : VaWrapperDef) (n : Name)
    (h : vaWrapperDef vaApPlacement suffix f idx = some w)
    (hn : (paramNames f.params)[idx]? = some (some n)) :
    w.forwarded.set idx n = argNames f.params 0 :=
  (C16_va_forwarded_in_order suffix f idx w n (C16_table_va_placement ▸ h) hn).1

/-- witness for the other placement (`args.push("ap")`): `int f(int a, va_list v, void *p)` is called as
    `f(a, p, ap)` — `p` is passed as the `va_list` and `ap` as `p`; both are pointers, so C accepts it -/
theorem C16_va_push_misorders :
    let f : Fn := { name := nF, ret := wInt,
                    params := .cons (some nA) wInt (.cons (some ['v']) (.base false (.named ['v', 'a', '_', 'l', 'i', 's', 't']))
                      (.cons (some nP) (.ptr false (.base false .void)) .nil)) }
    (vaWrapperDef .pushLast ['_', '_', 'x'] f 1).map (·.forwarded) = some [nA, nP, fragVaAp] ∧
    (vaWrapperDef .insertAtVaListIdx ['_', '_', 'x'] f 1).map (·.forwarded) = some [nA, fragVaAp, nP] ∧
    argNames f.params 0 = [nA, ['v'], nP] := by
  decide

/-- fragments of the `wrap_as_variadic` path and the bound / name of `wrap_as_variadic_fn` -/
theorem C16_table_va_fragments :
    fragIndent = [' ', ' ', ' ', ' '] ∧ fragVaOpen = [',', ' ', '.', '.', '.', ')', ' ', '{', '\n'] ∧ fragVaRetDecl = [' ', 'r', 'e', 't', ';', '\n'] ∧
    fragVaListDecl = ['v', 'a', '_', 'l', 'i', 's', 't', ' ', 'a', 'p', ';', '\n', '\n'] ∧ fragVaStartPre = ['v', 'a', '_', 's', 't', 'a', 'r', 't', '(', 'a', 'p', ',', ' '] ∧
    fragVaStartPost = [')', ';', '\n'] ∧ fragVaAssign = ['r', 'e', 't', ' ', '=', ' '] ∧ fragVaCallOpen = ['('] ∧
    fragVaAp = ['a', 'p'] ∧ fragVaCallClose = [')', ';', '\n'] ∧ fragVaEnd = ['v', 'a', '_', 'e', 'n', 'd', '(', 'a', 'p', ')', ';', '\n'] ∧
    fragVaReturn = ['r', 'e', 't', 'u', 'r', 'n', ' ', 'r', 'e', 't', ';', '\n'] ∧
    vaMaxArgsNeverWrapped = 1 ∧ vaBuiltinName = ['_', '_', 'b', 'u', 'i', 'l', 't', 'i', 'n', '_', 'v', 'a', '_', 'l', 'i', 's', 't'] := by
  decide

/-- the two variadic golden wrappers of the test-suite
    (bindgen-tests/tests/expectations/tests/generated/wrap_static_fns.c) -/
theorem C16_va_golden_lines (a : Bool) :
    let ps : Params := .cons (some ['i']) wInt (.cons (some ['v', 'a']) (.base false (.named vaBuiltinName)) .nil)
    wrapperTextV a vaApPlacement ['_', '_', 'e', 'x', 't', 'e', 'r', 'n']
      { name := ['w', 'r', 'a', 'p', '_', 'a', 's', '_', 'v', 'a', 'r', 'i', 'a', 'd', 'i', 'c', '_', 'f', 'n', '1'], ret := wInt, params := ps } (some { newName := [], idx := 1 })
      = .ok ['i', 'n', 't', ' ', 'w', 'r', 'a', 'p', '_', 'a', 's', '_', 'v', 'a', 'r', 'i', 'a', 'd', 'i', 'c', '_', 'f', 'n', '1', '_', '_', 'e', 'x', 't', 'e', 'r', 'n', '(', 'i', 'n', 't', ' ', 'i', ',', ' ', '.', '.', '.', ')', ' ', '{', '\n', ' ', ' ', ' ', ' ', 'i', 'n', 't', ' ', 'r', 'e', 't', ';', '\n', ' ', ' ', ' ', ' ', 'v', 'a', '_', 'l', 'i', 's', 't', ' ', 'a', 'p', ';', '\n', '\n', ' ', ' ', ' ', ' ', 'v', 'a', '_', 's', 't', 'a', 'r', 't', '(', 'a', 'p', ',', ' ', 'i', ')', ';', '\n', ' ', ' ', ' ', ' ', 'r', 'e', 't', ' ', '=', ' ', 'w', 'r', 'a', 'p', '_', 'a', 's', '_', 'v', 'a', 'r', 'i', 'a', 'd', 'i', 'c', '_', 'f', 'n', '1', '(', 'i', ',', ' ', 'a', 'p', ')', ';', '\n', ' ', ' ', ' ', ' ', 'v', 'a', '_', 'e', 'n', 'd', '(', 'a', 'p', ')', ';', '\n', ' ', ' ', ' ', ' ', 'r', 'e', 't', 'u', 'r', 'n', ' ', 'r', 'e', 't', ';', '\n', '}', '\n'] ∧
    wrapperTextV a vaApPlacement ['_', '_', 'e', 'x', 't', 'e', 'r', 'n']
      { name := ['w', 'r', 'a', 'p', '_', 'a', 's', '_', 'v', 'a', 'r', 'i', 'a', 'd', 'i', 'c', '_', 'f', 'n', '2'], ret := .base false .void, params := ps } (some { newName := [], idx := 1 })
      = .ok ['v', 'o', 'i', 'd', ' ', 'w', 'r', 'a', 'p', '_', 'a', 's', '_', 'v', 'a', 'r', 'i', 'a', 'd', 'i', 'c', '_', 'f', 'n', '2', '_', '_', 'e', 'x', 't', 'e', 'r', 'n', '(', 'i', 'n', 't', ' ', 'i', ',', ' ', '.', '.', '.', ')', ' ', '{', '\n', ' ', ' ', ' ', ' ', 'v', 'a', '_', 'l', 'i', 's', 't', ' ', 'a', 'p', ';', '\n', '\n', ' ', ' ', ' ', ' ', 'v', 'a', '_', 's', 't', 'a', 'r', 't', '(', 'a', 'p', ',', ' ', 'i', ')', ';', '\n', ' ', ' ', ' ', ' ', 'w', 'r', 'a', 'p', '_', 'a', 's', '_', 'v', 'a', 'r', 'i', 'a', 'd', 'i', 'c', '_', 'f', 'n', '2', '(', 'i', ',', ' ', 'a', 'p', ')', ';', '\n', ' ', ' ', ' ', ' ', 'v', 'a', '_', 'e', 'n', 'd', '(', 'a', 'p', ')', ';', '\n', '}', '\n'] := by
  cases a <;> exact ⟨by rfl, by rfl⟩

/-! ### where the variadic wrapper does not compile -/

/-- outside the clash region the locals the wrapper declares (`ret`, `ap`) are different from every
    name its body uses from outside (its parameters and the wrapped function) -/
theorem C16_va_locals_fresh_partial (f : Fn) (idx : Nat) (h : vaNameClash f idx = false) (n : Name)
    (hn : n ∈ vaUsedNames f idx) : n ∉ vaLocals (!isVoid f.ret) := by
  intro hl
  simp only [vaNameClash, List.any_eq_false] at h
  exact h n hn (by simpa using hl)

/-- witness: `int f(int ret, va_list v)` — the wrapper declares `int ret;` next to its parameter `ret`
    (C11 6.2.1p4: same scope; clang: "redefinition of 'ret'"); same for a parameter called `ap` -/
theorem C16_va_fails_on_name_clash :
    let ps : Params := .cons (some ['r', 'e', 't']) wInt (.cons (some ['v']) (.base false (.named ['v', 'a', '_', 'l', 'i', 's', 't'])) .nil)
    vaNameClash { name := nF, ret := wInt, params := ps } 1 = true ∧
    wrapperTextV true .insertAtVaListIdx ['_', '_', 'x'] { name := nF, ret := wInt, params := ps } (some { newName := [], idx := 1 })
      = .ok ['i', 'n', 't', ' ', 'f', '_', '_', 'x', '(', 'i', 'n', 't', ' ', 'r', 'e', 't', ',', ' ', '.', '.', '.', ')', ' ', '{', '\n', ' ', ' ', ' ', ' ', 'i', 'n', 't', ' ', 'r', 'e', 't', ';', '\n', ' ', ' ', ' ', ' ', 'v', 'a', '_', 'l', 'i', 's', 't', ' ', 'a', 'p', ';', '\n', '\n', ' ', ' ', ' ', ' ', 'v', 'a', '_', 's', 't', 'a', 'r', 't', '(', 'a', 'p', ',', ' ', 'r', 'e', 't', ')', ';', '\n', ' ', ' ', ' ', ' ', 'r', 'e', 't', ' ', '=', ' ', 'f', '(', 'r', 'e', 't', ',', ' ', 'a', 'p', ')', ';', '\n', ' ', ' ', ' ', ' ', 'v', 'a', '_', 'e', 'n', 'd', '(', 'a', 'p', ')', ';', '\n', ' ', ' ', ' ', ' ', 'r', 'e', 't', 'u', 'r', 'n', ' ', 'r', 'e', 't', ';', '\n', '}', '\n'] ∧
    vaNameClash { name := nF, ret := .base false .void,
                  params := .cons (some ['v']) (.base false (.named ['v', 'a', '_', 'l', 'i', 's', 't'])) (.cons (some ['a', 'p']) wInt .nil) } 0 = true ∧
    vaNameClash { name := nF, ret := .base false .void, params := ps } 1 = false := by
  refine ⟨by decide, by rfl, by decide, by decide⟩

/-- `va_list`, `va_start`, `va_end` are a typedef and macros of <stdarg.h>, not keywords: a header that
    spells the parameter `__builtin_va_list` without including <stdarg.h> (as the test-suite's own
    wrap-static-fns.h does) gets a wrapper that does not compile -/
theorem C16_va_fails_without_stdarg :
    (wordsOf fragVaListDecl).head? = some ['v', 'a', '_', 'l', 'i', 's', 't'] ∧
    cTypeKeywords.contains ['v', 'a', '_', 'l', 'i', 's', 't'] = false ∧
    ['v', 'a', '_', 's', 't', 'a', 'r', 't'] <+: fragVaStartPre ∧ ['v', 'a', '_', 'e', 'n', 'd'] <+: fragVaEnd ∧
    vaBuiltinName ≠ ['v', 'a', '_', 'l', 'i', 's', 't'] := by
  refine ⟨by decide, by decide, by decide, by decide, by decide⟩

end BindgenModel.CDecl
