import BindgenModel.Model.CDecl
import BindgenModel.Lemmas.CDecl
/-! # C16 — static-function wrappers compile and behave like the wrapped functions

Model: `Model/CDecl.lean` (`serP` = `impl CSerialize for Type`, `renderWrapper` = `impl CSerialize
for Function`, `codegenFn` = the static-function part of `Function::codegen`), parameterised by the
generated table `Generated/SerializeArms.lean`.

FULL statement on the model (never weakened; what is proved of it is below):

  for every function `f` bindgen emits a binding for, with `f` static:
  (1) the wrapper file contains exactly one definition named `f.name ++ suffix`, the binding links to
      that name, the definition forwards all arguments in order and returns the result iff non-void;
  (2) every parameter declaration `serP t [name]` (and the return type) read by the C declarator
      grammar declares `name` with the type the header gave it;
  (3) variadic static functions get no binding.

Proved: (1) `C16_wrapper_shape`, `C16_one_definition_per_wrapped_function`,
`C16_link_matches_wrapper_partial` (hypothesis canonical name = name), `C16_static_wrapped_partial`
(hypothesis: symbol name = Rust name); (2) `C16_decl_roundtrip_partial` / `C16_ret_roundtrip_partial`
for both forms of the `Array` arm, under `defect a ctx t = none`; (3) `C16_variadic_gets_no_binding`.
Every excluded region has a `C16_fails_on_…` lemma with a concrete witness. -/
namespace BindgenModel.CDecl
open BindgenModel.Generated.SerializeArms

/-! ## (2) declarations round-trip through the C declarator grammar -/

/-- A named parameter: the tokens written for type `t` with the stack `[name]`, read by the reference
    parser, declare `name` with the denoted type — for either form of the `Array` arm (`a`), for every
    type in which `defect` finds nothing. -/
theorem C16_decl_roundtrip_partial (a : Bool) (t : CType) (name : Name)
    (h : defect a .direct t = none) :
    parseDecl (toks (serP a t [[pId name]])) = some (den t, some name) := by
  have := goalT a t .direct (nameStack (some name)) (.nm (some name)) [] _ h (rel_name a _)
    (inv_name (some name)) (by simp [RestOK]) (Nat.le_refl _)
  simp only [List.append_nil, nameStack] at this
  simp [parseDecl, this, applied, denD, Decl.apply]

/-- The return type (written with an empty stack). -/
theorem C16_ret_roundtrip_partial (a : Bool) (r : CType) (h : retDefect a r = none) :
    parseDecl (toks (serP a r [])) = some (den r, none) := by
  have hd : defect a .empty r = none := by
    simp only [retDefect] at h
    split at h
    · simp at h
    · exact h
  have := goalT a r .empty (nameStack none) (.nm none) [] _ hd (rel_name a _)
    (inv_name none) (by simp [RestOK]) (Nat.le_refl _)
  simp only [List.append_nil, nameStack] at this
  simp [parseDecl, this, applied, denD, Decl.apply]

/-- The code as it is in /repo now (the generated table decides which form of the Array arm). -/
theorem C16_decl_roundtrip_now_partial (t : CType) (name : Name)
    (h : defect arrayInDeclarator .direct t = none) :
    parseDecl (toks (serP arrayInDeclarator t [[pId name]])) = some (den t, some name) :=
  C16_decl_roundtrip_partial _ t name h

/-- A whole parameter list of a function type parses back. -/
theorem C16_params_roundtrip_partial (a : Bool) (ps : Params) (h : defectPs a ps = none) :
    ParsesBack a ps :=
  goalPs_parsesBack a ps (goalPs a ps) h

mutual
/-- Nothing found by `defect` ⇒ the serializer does not return `Err`. -/
theorem C16_no_defect_supported (a : Bool) : ∀ (ctx : Ctx) (t : CType), defect a ctx t = none → supported t = true
  | _, .base _ b, h => by
    simp only [defect] at h
    split at h
    · simpa [supported]
    · simp at h
  | _, .ptr _ t, h => by simpa [supported] using C16_no_defect_supported a .ptr t (by simpa [defect] using h)
  | ctx, .array t n, h => by
    cases a
    · have := (defect_array_false h).2.2
      simpa [supported] using C16_no_defect_supported false ctx t this
    · simpa [supported] using C16_no_defect_supported true ctx.afterArr t (by simpa [defect] using h)
  | ctx, .func c v r ps, h => by
    obtain ⟨_, _, _, _, _, hr, hps⟩ := defect_func h
    simp [supported, C16_no_defect_supported a .empty r hr, C16_no_defect_supportedPs a ps hps]
  | ctx, .tref c t, h => by
    simp only [defect] at h
    split at h
    · simp at h
    · simpa [supported] using C16_no_defect_supported a ctx t h
  | _, .other, h => by simp [defect] at h
theorem C16_no_defect_supportedPs (a : Bool) : ∀ (ps : Params), defectPs a ps = none → supportedPs ps = true
  | .nil, _ => rfl
  | .cons n t r, h => by
    obtain ⟨ht, hr⟩ := defectPs_cons h
    simp [supportedPs, C16_no_defect_supported a _ t ht, C16_no_defect_supportedPs a r hr]
end

/-! ### the excluded regions, each with a concrete witness

`wInt` = `int`; identifiers as character lists. -/

def wInt : CType := .base false (.int .Int)
def nP : Name := ['p']
def nA : Name := ['a']
def nF : Name := ['f']
def nQ : Name := ['q']

/-- `int (*p)[3]` -/
def wPtrToArray : CType := .ptr false (.array wInt 3)

/-- DESIGN §7 row 5: with the suffix-after form of the Array arm `int (*p)[3]` is written `int *p [3]`,
    which declares an array of 3 pointers. -/
theorem C16_fails_on_ptr_to_array :
    defect false .direct wPtrToArray = some .arrayUnderPtr ∧
    textOf (serP false wPtrToArray [[pId nP]]) = ['i', 'n', 't', ' ', '*', 'p', ' ', '[', '3', ']'] ∧
    parseDecl (toks (serP false wPtrToArray [[pId nP]])) = some (.array (.ptr false wInt) 3, some nP) ∧
    CType.array (.ptr false wInt) 3 ≠ den wPtrToArray := by
  refine ⟨by decide, by decide, by rfl, ?_⟩
  intro h; cases h

/-- the same declaration with the in-declarator form of the Array arm (fixes/C16-ptr-to-array.diff) -/
theorem C16_ptr_to_array_ok_in_declarator_form :
    textOf (serP true wPtrToArray [[pId nP]]) = ['i', 'n', 't', ' ', '(', '*', 'p', ')', ' ', '[', '3', ']'] ∧
    parseDecl (toks (serP true wPtrToArray [[pId nP]])) = some (den wPtrToArray, some nP) :=
  ⟨by decide, C16_decl_roundtrip_partial true wPtrToArray nP (by decide)⟩

/-- `int a[2][3]` is written `int a [3] [2]` -/
theorem C16_fails_on_array_of_array :
    defect false .direct (.array (.array wInt 3) 2) = some .arrayElem ∧
    parseDecl (toks (serP false (.array (.array wInt 3) 2) [[pId nA]])) = some (.array (.array wInt 2) 3, some nA) ∧
    CType.array (.array wInt 2) 3 ≠ den (.array (.array wInt 3) 2) := by
  refine ⟨by decide, by rfl, ?_⟩
  intro h; cases h

/-- `int (*(*f)(void))(int)` (pointer to function returning pointer to function) is written
    `int (*) (int) (*f) (void)`, which is not a declaration -/
theorem C16_fails_on_fn_returning_fnptr :
    let t : CType := .ptr false (.func false false (.ptr false (.func false false wInt (.cons none wInt .nil))) .nil)
    defect false .direct t = some .fnRet ∧ defect true .direct t = some .fnRet ∧
    parseDecl (toks (serP false t [[pId nF]])) = none := by
  refine ⟨by decide, by decide, by rfl⟩

/-- a function's own return type of that shape: `int (*) (int) name(…)` -/
theorem C16_fails_on_returning_fnptr :
    retDefect false (.ptr false (.func false false wInt (.cons none wInt .nil))) = some .fnRet := by decide

/-- `int *const q` arrives as a const `ResolvedTypeRef` to a const pointer and is written
    `const int *const q`: the const moves to the pointee -/
theorem C16_fails_on_const_ptr_param :
    let t : CType := .tref true (.ptr true wInt)
    defect false .direct t = some .constRefPtr ∧
    parseDecl (toks (serP false t [[pId nQ]])) = some (.ptr true (.base true (.int .Int)), some nQ) ∧
    CType.ptr true (.base true (.int .Int)) ≠ CType.ptr true wInt := by
  refine ⟨by decide, by rfl, ?_⟩
  intro h; cases h

/-- `int (*g)(int, ...)`: the `...` is not written -/
theorem C16_fails_on_variadic_fnptr :
    let t : CType := .ptr false (.func false true wInt (.cons none wInt .nil))
    defect false .direct t = some .fnVariadic ∧
    parseDecl (toks (serP false t [[pId nF]])) = some (.ptr false (.func false false wInt (.cons none wInt .nil)), some nF) := by
  refine ⟨by decide, by rfl⟩

/-- the hypotheses are satisfiable on non-trivial types (both forms of the Array arm):
    `const char *const *a[4]`, `int (*f)(struct S *x, int [2])` -/
example : defect false .direct (.array (.ptr false (.ptr true (.base true (.int .Char)))) 4) = none := by decide
example : defect false .direct
    (.ptr false (.func false false (.ptr false wInt)
      (.cons (some ['x']) (.ptr false (.base false (.struct ['S']))) (.cons none (.array wInt 2) .nil)))) = none := by decide
example : defect true .direct (.ptr false (.array (.array (.ptr false (.func false false wInt .nil)) 3) 2)) = none := by decide

/-! ## (1) shape of a wrapper and of the wrapper file -/

def paramNames : Params → List (Option Name)
  | .nil => []
  | .cons n _ r => n :: paramNames r

theorem argNames_length : ∀ (ps : Params) (k : Nat), (argNames ps k).length = (paramTypes ps).length
  | .nil, _ => rfl
  | .cons (some _) _ r, k => by simp [argNames, paramTypes, argNames_length r k]
  | .cons none _ r, k => by simp [argNames, paramTypes, argNames_length r (k + 1)]

/-- named parameters keep their names, position by position -/
theorem argNames_named : ∀ (ps : Params) (k i : Nat) (n : Name),
    (paramNames ps)[i]? = some (some n) → (argNames ps k)[i]? = some n
  | .nil, _, _, _, h => by simp [paramNames] at h
  | .cons (some m) _ r, k, 0, n, h => by simpa [paramNames, argNames] using h
  | .cons none _ r, k, 0, n, h => by simp [paramNames] at h
  | .cons (some m) _ r, k, i + 1, n, h => by
    simpa [argNames] using argNames_named r k i n (by simpa [paramNames] using h)
  | .cons none _ r, k, i + 1, n, h => by
    simpa [argNames] using argNames_named r (k + 1) i n (by simpa [paramNames] using h)

/-- One wrapper: it is named `name ++ suffix`, calls `name`, declares one parameter per parameter of
    the wrapped function with the same types in the same order, forwards exactly the declared
    parameter names in order, keeps given names, and returns the result iff the return type is not void. -/
theorem C16_wrapper_shape (suffix : Name) (f : Fn) :
    (wrapperDef suffix f).defName = f.name ++ suffix ∧
    (wrapperDef suffix f).callee = f.name ∧
    (wrapperDef suffix f).forwarded = (wrapperDef suffix f).params.map (·.1) ∧
    (wrapperDef suffix f).params.map (·.2) = paramTypes f.params ∧
    (∀ (i : Nat) (n : Name), (paramNames f.params)[i]? = some (some n) → (wrapperDef suffix f).forwarded[i]? = some n) ∧
    (wrapperDef suffix f).returns = !isVoid f.ret := by
  have hl := argNames_length f.params 0
  refine ⟨rfl, rfl, ?_, ?_, fun i n h => argNames_named f.params 0 i n h, rfl⟩
  · simp only [wrapperDef]
    rw [List.map_fst_zip (by omega)]
  · simp only [wrapperDef]
    rw [List.map_snd_zip (by omega)]

/-- every parameter of a wrapper is declared by `serP t [name]`, so for the types without defect the
    wrapper declares its parameters with the header's types (this is what makes the forwarded call
    type-correct) -/
theorem C16_wrapper_params_declared_partial (a : Bool) (suffix : Name) (f : Fn) (n : Name) (t : CType)
    (_hm : (n, t) ∈ (wrapperDef suffix f).params) (hd : defect a .direct t = none) :
    parseDecl (toks (serP a t [[pId n]])) = some (den t, some n) :=
  C16_decl_roundtrip_partial a t n hd

/-- the functions of a header set that end up on `items_to_serialize` -/
def wrappedFns (wrap : Bool) (suffix : Name) (fs : List (FnInfo × Fn)) : List (FnInfo × Fn) :=
  fs.filter fun p => match codegenFn wrap suffix p.1 with
    | some b => b.wrapped
    | none => false

/-- the definitions of the wrapper file, in order -/
def fileDefs (wrap : Bool) (suffix : Name) (fs : List (FnInfo × Fn)) : List WrapperDef :=
  (wrappedFns wrap suffix fs).map fun p => wrapperDef suffix p.2

/-- exactly one definition per wrapped function, named `name ++ suffix`, in order -/
theorem C16_one_definition_per_wrapped_function (wrap : Bool) (suffix : Name) (fs : List (FnInfo × Fn)) :
    (fileDefs wrap suffix fs).map (·.defName) = (wrappedFns wrap suffix fs).map (fun p => p.2.name ++ suffix) := by
  simp [fileDefs, wrapperDef, List.map_map, Function.comp_def]

/-- distinct functions give distinct definitions -/
theorem C16_definitions_distinct (wrap : Bool) (suffix : Name) (fs : List (FnInfo × Fn))
    (h : ((wrappedFns wrap suffix fs).map (·.2.name)).Nodup) :
    ((fileDefs wrap suffix fs).map (·.defName)).Nodup := by
  rw [C16_one_definition_per_wrapped_function]
  have : (wrappedFns wrap suffix fs).map (fun p => p.2.name ++ suffix)
      = ((wrappedFns wrap suffix fs).map (·.2.name)).map (· ++ suffix) := by
    simp [List.map_map, Function.comp_def]
  rw [this]
  exact List.Pairwise.map (· ++ suffix) (fun x y hne heq => hne (List.append_cancel_right heq)) h

/-! ## (1)/(3) the binding decision of `Function::codegen` -/

/-- variadic static functions get no binding, whatever the options -/
theorem C16_variadic_gets_no_binding (wrap : Bool) (suffix : Name) (f : FnInfo)
    (hi : f.internal = true) (hv : f.variadic = true) : codegenFn wrap suffix f = none := by
  cases wrap <;> simp [codegenFn, hi, hv]

/-- without `--wrap-static-fns` a static function gets no binding -/
theorem C16_static_without_option_gets_no_binding (suffix : Name) (f : FnInfo) (hi : f.internal = true) :
    codegenFn false suffix f = none := by
  simp [codegenFn, hi]

/-- only static functions are wrapped, and only with the option -/
theorem C16_wrapped_only_if_static (wrap : Bool) (suffix : Name) (f : FnInfo) (b : Binding)
    (h : codegenFn wrap suffix f = some b) (hw : b.wrapped = true) : f.internal = true ∧ wrap = true := by
  simp only [codegenFn] at h
  split at h
  · simp at h
  · split at h
    · simp at h
    · injection h with h
      subst h
      simp only [shouldWrap, Bool.and_eq_true] at hw
      exact ⟨hw.1.1, hw.1.2⟩

/-- The C text uses `Function::name()` + suffix, the `link_name` uses the canonical name + suffix:
    they agree when the canonical name is the name. -/
theorem C16_link_matches_wrapper_partial (wrap : Bool) (suffix : Name) (f : FnInfo) (b : Binding)
    (h : codegenFn wrap suffix f = some b) (hw : b.wrapped = true) (hc : f.canonical = f.name) :
    b.link = some (wrapperSymbol suffix f) := by
  simp only [codegenFn] at h
  split at h
  · simp at h
  · split at h
    · simp at h
    · injection h with h
      subst h
      simp only at hw
      simp [hw, wrapperSymbol, hc]

/-- witness for the excluded region: a renaming callback maps `_foo` to `foo`; the names still count
    as identical after mangling, the function is wrapped, the binding links to `foo__x`, the C file
    defines `_foo__x` -/
theorem C16_link_fails_on_renamed :
    let f : FnInfo := { name := ['_', 'f', 'o', 'o'], canonical := ['f', 'o', 'o'], mangled := some ['_', 'f', 'o', 'o'],
                        linkAttr := none, internal := true, variadic := false }
    codegenFn true ['_', '_', 'x'] f
      = some { ident := ['f', 'o', 'o'], link := some ['f', 'o', 'o', '_', '_', 'x'], wrapped := true } ∧
    wrapperSymbol ['_', '_', 'x'] f = ['_', 'f', 'o', 'o', '_', '_', 'x'] := by
  decide

/-- A static, non-variadic function whose symbol name is its Rust name is wrapped and linked to
    `canonical ++ suffix`. -/
theorem C16_static_wrapped_partial (suffix : Name) (f : FnInfo)
    (hi : f.internal = true) (hv : f.variadic = false) (hl : f.linkAttr = none)
    (hn : namesIdentical f.canonical (f.mangled.getD f.name) = true) :
    codegenFn true suffix f = some { ident := f.canonical, link := some (f.canonical ++ suffix), wrapped := true } := by
  simp [codegenFn, hi, hv, shouldWrap, linkNameAttr, hl, hn]

/-- witness (C++ mode): `static int f1(int)` has the mangled name `_ZL2f1i`; it gets a binding linked to
    that internal symbol and no wrapper -/
theorem C16_fails_on_mangled_static :
    let f : FnInfo := { name := ['f', '1'], canonical := ['f', '1'], mangled := some ['_', 'Z', 'L', '2', 'f', '1', 'i'],
                        linkAttr := none, internal := true, variadic := false }
    codegenFn true ['_', '_', 'x'] f
      = some { ident := ['f', '1'], link := some ['_', 'Z', 'L', '2', 'f', '1', 'i'], wrapped := false } := by
  decide

/-- witness (C): a function named like a Rust keyword (`match` → `match_`) -/
theorem C16_fails_on_keyword_name :
    let f : FnInfo := { name := ['m', 'a', 't', 'c', 'h'], canonical := ['m', 'a', 't', 'c', 'h', '_'],
                        mangled := some ['m', 'a', 't', 'c', 'h'], linkAttr := none, internal := true, variadic := false }
    codegenFn true ['_', '_', 'x'] f
      = some { ident := ['m', 'a', 't', 'c', 'h', '_'], link := some ['m', 'a', 't', 'c', 'h'], wrapped := false } := by
  decide

example : namesIdentical ['f'] (Option.getD (some ['f']) ['f']) = true := by decide

/-! ## obligations on the generated table (`Generated/SerializeArms.lean`)

A change of serialize.rs that flips one of these entries breaks the named theorem. -/

/-- the model has a case for every arm of `match self.kind()`, and no arm is new -/
theorem C16_table_arms :
    arms = [.Void, .NullPtr, .Int, .Float, .Complex, .Alias, .Array, .Function, .ResolvedTypeRef, .Pointer, .Comp, .Enum] := by
  decide

/-- which arms write the const prefix themselves (the model's `constP`): all but Array / Function / Pointer -/
theorem C16_table_const_prefix_arms :
    constPrefixArms = [.Void, .NullPtr, .Int, .Float, .Complex, .Alias, .ResolvedTypeRef, .Comp, .Enum] := by
  decide

/-- every structural fragment, read by the character lexer, is the C token the model's `Piece` says it is -/
theorem C16_table_fragments_lex :
    lex [] fragConst = [.kconst] ∧ lex [] fragFnConst = [.kconst] ∧
    lex [] fragPtr = [.star false] ∧ lex [] fragPtrConst = [.star true] ∧
    lex [] fragFnOpen = [.lpar] ∧ lex [] fragFnClose = [.rpar] ∧ lex [] fragFnVoid = [.voidp] ∧
    lex [] fragFnArgsOpen = [.lpar] ∧ lex [] fragFnArgsClose = [.rpar] ∧ lex [] fragSep = [.comma] ∧
    lex [] fragStackSep = [] ∧ lex [] fragParOpen = [.lpar] ∧ lex [] fragParClose = [.rpar] ∧
    lex [] (fragArrOpen ++ natText 37 ++ fragArrClose) = [.arr 37] ∧
    lex [] (fragArrOpenTight ++ natText 4 ++ fragArrClose) = [.arr 4] ∧
    lex [] fragVoid = [.ty .void] ∧
    lex [] (fragStruct ++ ['S']) = [.ty (.struct ['S'])] ∧ lex [] (fragUnion ++ ['U']) = [.ty (.union ['U'])] ∧
    lex [] (fragEnum ++ ['E']) = [.ty (.enum ['E'])] := by
  decide

/-- every builtin kind with a text lexes back to itself: the texts are made of type-specifier words and
    are pairwise distinct -/
theorem C16_table_builtin_texts_lex :
    (allIntK.all fun k => match intText k with
      | some tx => lex [] tx == [.ty (.int k)]
      | none => true) = true ∧
    (allFloatK.all fun k => match floatText k with
      | some tx => lex [] tx == [.ty (.float k)]
      | none => true) = true ∧
    (allFloatK.all fun k => match complexText k with
      | some tx => lex [] tx == [.ty (.complex k)]
      | none => true) = true := by
  decide

/-- type-specifier keywords of C17 (6.7.2) plus the GNU floating types clang accepts without a header -/
def cTypeKeywords : List (List Char) :=
  [['v', 'o', 'i', 'd'], ['c', 'h', 'a', 'r'], ['s', 'h', 'o', 'r', 't'], ['i', 'n', 't'], ['l', 'o', 'n', 'g'],
   ['f', 'l', 'o', 'a', 't'], ['d', 'o', 'u', 'b', 'l', 'e'], ['s', 'i', 'g', 'n', 'e', 'd'],
   ['u', 'n', 's', 'i', 'g', 'n', 'e', 'd'], ['_', 'B', 'o', 'o', 'l'], ['_', 'C', 'o', 'm', 'p', 'l', 'e', 'x'],
   ['_', 'F', 'l', 'o', 'a', 't', '1', '6'], ['_', '_', 'f', 'l', 'o', 'a', 't', '1', '2', '8']]

def splitSp : List Char → List Char → List (List Char)
  | [], cur => [cur.reverse]
  | c :: r, cur => if c == ' ' then cur.reverse :: splitSp r [] else splitSp r (c :: cur)

def wordsOf (s : List Char) : List (List Char) :=
  (splitSp s []).filter (!·.isEmpty)

/-- every integer kind except `Bool` and `WChar`, and every float kind, is spelled with keywords only -/
theorem C16_table_spelling_keywords :
    (allIntK.all fun k => k == .Bool || k == .WChar || match intText k with
      | some tx => (wordsOf tx).all cTypeKeywords.contains
      | none => true) = true ∧
    (allFloatK.all fun k => match floatText k with
      | some tx => (wordsOf tx).all cTypeKeywords.contains
      | none => true) = true := by
  decide

/-- `_Bool` is written `bool` and `_Complex` is written `complex`: macros of <stdbool.h> / <complex.h>,
    not keywords — the wrapper only compiles if the input header happens to include them -/
theorem C16_fails_on_bool_and_complex_spelling :
    intText .Bool = some ['b', 'o', 'o', 'l'] ∧ cTypeKeywords.contains ['b', 'o', 'o', 'l'] = false ∧
    complexText .Double = some ['d', 'o', 'u', 'b', 'l', 'e', ' ', 'c', 'o', 'm', 'p', 'l', 'e', 'x'] ∧
    cTypeKeywords.contains ['c', 'o', 'm', 'p', 'l', 'e', 'x'] = false := by
  decide

/-- 128-bit integers (and the fixed-width / custom kinds) have no text: the serializer returns `Err` -/
theorem C16_table_int128_unsupported :
    intText .I128 = none ∧ intText .U128 = none ∧
    supported (.ptr false (.base false (.int .U128))) = false := by
  decide

/-- fragments of the wrapper assembly (`impl CSerialize for Function`, `serialize_args`) -/
theorem C16_table_wrapper_fragments :
    fragArgPrefix = ['a', 'r', 'g', '_'] ∧ fragWrapPre = [' '] ∧ fragWrapOpen = ['('] ∧
    fragArgsVoid = ['v', 'o', 'i', 'd'] ∧ fragArgsSep = [',', ' '] ∧
    fragBodyVoidPre = [')', ' ', '{', ' '] ∧ fragBodyVoidPost = ['('] ∧
    fragBodyRetPre = [')', ' ', '{', ' ', 'r', 'e', 't', 'u', 'r', 'n', ' '] ∧ fragBodyRetPost = ['('] ∧
    fragCallSep = [',', ' '] ∧ fragCallClose = [')', ';', ' '] ∧ fragEnd = ['}', '\n'] := by
  decide

/-- the golden wrappers of the test-suite, as text (two lines of
    bindgen-tests/tests/expectations/tests/generated/wrap_static_fns.c), for either form of the Array arm -/
theorem C16_golden_lines (a : Bool) :
    wrapperText a ['_', '_', 'e', 'x', 't', 'e', 'r', 'n']
      { name := ['f', 'o', 'o'], ret := wInt, params := .nil }
      = some ("int foo__extern(void) { return foo(); }\n".toList) ∧
    wrapperText a ['_', '_', 'e', 'x', 't', 'e', 'r', 'n']
      { name := ['t', 'q'], ret := wInt,
        params := .cons (some ['a', 'r', 'g']) (.tref false (.ptr false (.ptr true (.base true (.int .Int))))) .nil }
      = some ("int tq__extern(const int *const *arg) { return tq(arg); }\n".toList) := by
  cases a <;> exact ⟨by rfl, by rfl⟩

end BindgenModel.CDecl
