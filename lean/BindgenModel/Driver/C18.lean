import BindgenModel.Model.Util
import BindgenModel.Model.Post
/-! Line protocol for the post-processing model.

`pp <merge:0|1><sort:0|1> <item>*` where texts are interned to natural numbers by the harness and
`<item>` is `P <SynItemVariant> <id>` | `F <attrs-id> <abi-id> <unsafe:0|1> <n> <id>{n}` |
`M <head-id> [ <item>* ]`.  Answer: the processed tree in the same syntax, then
`| mixed=<0|1>` (region predicate of known finding `merge_mixed_unsafety` on the *input*). -/
namespace BindgenModel.Driver.C18
open BindgenModel.Post BindgenModel.Generated

def parseGo : Nat → List String → List (Nat × List (Item Nat)) → List (Item Nat) → Option (List (Item Nat))
  | 0, _, _, _ => none
  | fuel + 1, toks, stack, cur =>
    match toks with
    | [] => if stack.isEmpty then some cur.reverse else none
    | "P" :: k :: id :: rest =>
      match id.toNat? with
      | some i => parseGo fuel rest stack (.plain (ItemKind.ofName k) i :: cur)
      | none => none
    | "F" :: a :: b :: u :: n :: rest =>
      match a.toNat?, b.toNat?, n.toNat? with
      | some a, some b, some n =>
        match (rest.take n).mapM String.toNat? with
        | some ids =>
          if ids.length = n then parseGo fuel (rest.drop n) stack (.foreign ⟨a, b, u == "1", ids⟩ :: cur) else none
        | none => none
      | _, _, _ => none
    | "M" :: id :: "[" :: rest =>
      match id.toNat? with
      | some i => parseGo fuel rest ((i, cur) :: stack) []
      | none => none
    | "]" :: rest =>
      match stack with
      | (i, parent) :: st => parseGo fuel rest st (.module i cur.reverse :: parent)
      | [] => none
    | _ => none

mutual
def showItem : Item Nat → List String
  | .plain k t => ["P", k.name, toString t]
  | .foreign f => ["F", toString f.attrs, toString f.abi, (if f.unsafety then "1" else "0"),
      toString f.items.length] ++ f.items.map toString
  | .module h is => ["M", toString h, "["] ++ showList is ++ ["]"]
def showList : List (Item Nat) → List String
  | [] => []
  | x :: xs => showItem x ++ showList xs
end

def handle (toks : List String) : String :=
  match toks with
  | cfg :: rest =>
    match cfg.toList with
    | [m, s] =>
      match parseGo (rest.length + 1) rest [] [] with
      | some items =>
        let out := postprocess ⟨m == '1', s == '1'⟩ items
        " ".intercalate (showList out) ++ " | mixed=" ++ (if mixedUnsafety items then "1" else "0")
      | none => "bad-op"
    | _ => "bad-op"
  | _ => "bad-op"

end BindgenModel.Driver.C18
