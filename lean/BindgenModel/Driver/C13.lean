import BindgenModel.Model.Util
import BindgenModel.Model.Opts
/-! Line protocol for the option round-trip model (`opts …`).  Strings are `x<hex of UTF-8>`;
lists are comma separated, the empty list is `-`.

* `opts run env=<field:xhex,…> [start=<xhex,…>] ops=<method~xhex~xhex;…>` —
  b1 = (builder_from_flags(start) | Builder::default()) with the ops applied;
  answer `flags=<…> rt=<ok|err:kind:detail> diff=<fields|-> flags2=<…|->`
  where `flags = command_line_flags(b1)`, `rt` = outcome of builder_from_flags(flags),
  `diff` = fields on which b2 differs from b1, `flags2 = command_line_flags(b2)`
* `opts table` — counts and the rows that are not well formed
-/
namespace BindgenModel.Driver.C13
open BindgenModel.Util BindgenModel.Opts BindgenModel.Generated

def decodeStr (s : String) : Option String :=
  if !s.startsWith "x" then none else
  let h := (s.drop 1).toString
  if h.isEmpty then some "" else
  (parseHexBytes h).bind fun bs => String.fromUTF8? (ByteArray.mk (bs.map (fun b => b.toNat.toUInt8)).toArray)

def encodeStr (s : String) : String :=
  "x" ++ String.join (s.toUTF8.toList.map fun b => hexByte (BitVec.ofNat 8 b.toNat))

def decodeList (s : String) : Option (List String) :=
  if s == "-" then some [] else (s.splitOn ",").mapM decodeStr

def encodeList (l : List String) : String :=
  if l.isEmpty then "-" else ",".intercalate (l.map encodeStr)

def fieldOfName (n : String) : Option OField := OField.all.find? (·.name == n)
def methodOfName (n : String) : Option OMethod := OMethod.all.find? (·.name == n)

def parseEnvPairs (s : String) : List (OField × String) :=
  (if s == "-" then [] else s.splitOn ",").filterMap fun kv =>
    match kv.splitOn ":" with
    | [k, v] => match fieldOfName k, decodeStr v with
      | some f, some v => some (f, v)
      | _, _ => none
    | _ => none

/-- (the pair list is computed once by the caller; a `let` inside a function-valued definition would
    be re-evaluated at every field lookup) -/
def envOf (pairs : List (OField × String)) : Env :=
  fun f => match pairs.find? (·.1 == f) with | some p => p.2 | none => ""

def parseOps (s : String) : Option (List (OMethod × List String)) :=
  if s == "-" then some [] else
  (s.splitOn ";").mapM fun op =>
    match op.splitOn "~" with
    | m :: args => match methodOfName m, args.mapM decodeStr with
      | some m, some a => some (m, a)
      | _, _ => none
    | [] => none

def errText : ParseError → String
  | .unknownFlag t => "unknownFlag:" ++ encodeStr t
  | .missingValue t => "missingValue:" ++ encodeStr t
  | .leadingDash f v => "leadingDash:" ++ encodeStr f ++ ":" ++ encodeStr v
  | .repeated t => "repeated:" ++ encodeStr t
  | .unexpectedValue t => "unexpectedValue:" ++ encodeStr t
  | .badValue f v => "badValue:" ++ encodeStr f ++ ":" ++ encodeStr v
  | .conflict a b => "conflict:" ++ encodeStr a ++ ":" ++ encodeStr b
  | .noHeader => "noHeader"

def handle (toks : List String) : String :=
  match toks with
  | "run" :: rest =>
    let pairs := parseEnvPairs ((kv rest "env").getD "-")
    let env := envOf pairs
    match parseOps ((kv rest "ops").getD "-") with
    | none => "bad-op"
    | some ops =>
      let start : Except ParseError Options := match kv rest "start" with
        | none => .ok (defaults env)
        | some s => match decodeList s with
          | some l => fromFlags env l
          | none => .ok (defaults env)
      match start with
      | .error e => "start-err:" ++ errText e
      | .ok b0 =>
        let b1 := ops.foldl (fun b op => applyMethod op.1 op.2 b) b0
        let flags := commandLineFlags env b1
        match fromFlags env flags with
        | .error e => s!"flags={encodeList flags} rt=err:{errText e} diff=- flags2=-"
        | .ok b2 =>
          let d := diffFields b1 b2
          s!"flags={encodeList flags} rt=ok diff={if d.isEmpty then "-" else ",".intercalate (d.map OField.name)} flags2={encodeList (commandLineFlags env b2)}"
  | ["table"] =>
    let bad := (optSpecs.filter fun s => !wfRow s).map (·.field.name)
    let multi := (optSpecs.filter fun s => !(otherWriters s).isEmpty && s.kind != .ignored).map (·.field.name)
    s!"fields={optSpecs.length} arms={cliArms.length} methods={methodEffects.length} flags_distinct={flagsDistinct} not_wf={",".intercalate bad} multi_writer={",".intercalate multi}"
  | _ => "bad-op"

end BindgenModel.Driver.C13
