import BindgenModel.Model.Util
import BindgenModel.Model.BitfieldUnit
import BindgenModel.Model.BitfieldAlloc
/-! Line protocol for the bit-field unit model.

`bf <entry> <mode> <off> <w> <store-hex> [<val-hex>]` with
`entry ∈ {get, raw_get, get_const, raw_get_const, set, raw_set, set_const, raw_set_const}`,
`mode ∈ {dbg, rel}` (overflow checks on / off; the host `usize` is 64 bits). -/
namespace BindgenModel.Driver.C03
open BindgenModel.Util BindgenModel.BitfieldUnit

/-- answer = `<what the model of the code computes> <what the specification demands>` -/
def handle (toks : List String) : String :=
  match toks with
  | entry :: mode :: off :: w :: store :: rest =>
    match off.toNat?, w.toNat?, parseHexBytes store with
    | some off, some w, some s =>
      if !(pre s.length off w) then "bad-pre" else
      let panics := mode == "dbg" && dbgPanics off w
      if mode == "be" then
        -- big-endian branches (the host word is 64 bits, so the const forms coincide)
        if entry.startsWith "get" || entry.startsWith "raw_get" then
          hexNat 16 (getBE s off w).toNat ++ " " ++ hexNat 16 (specGetBE s off w).toNat
        else match rest with
          | [v] => match parseHexNat v with
            | some v => hexBytes (setBE s off w (BitVec.ofNat 64 v)) ++ " " ++ hexBytes (specSetBE s off w (BitVec.ofNat 64 v))
            | none => "bad-op"
          | _ => "bad-op"
      else
      if entry == "get" || entry == "raw_get" then
        (if panics then "panic" else hexNat 16 (get s off w).toNat) ++ " " ++ hexNat 16 (specGet s off w).toNat
      else if entry == "get_const" || entry == "raw_get_const" then
        (if panics then "panic" else hexNat 16 (getConst 64 s off w).toNat) ++ " " ++ hexNat 16 (specGet s off w).toNat
      else match rest with
        | [v] => match parseHexNat v with
          | some v =>
            let v := BitVec.ofNat 64 v
            if entry == "set" || entry == "raw_set" then
              (if panics then "panic" else hexBytes (set s off w v)) ++ " " ++ hexBytes (specSet s off w v)
            else if entry == "set_const" || entry == "raw_set_const" then
              (if panics then "panic" else hexBytes (setConst 64 s off w v)) ++ " " ++ hexBytes (specSet s off w v)
            else "bad-op"
          | none => "bad-op"
        | _ => "bad-op"
    | _, _, _ => "bad-op"
  | _ => "bad-op"

/-- `bfalloc <packed:0|1> <w:off:tsize:talign,…>` → `unit=<bytes> offs=<…> overridden=<0|1>` -/
def handleAlloc (toks : List String) : String :=
  open BindgenModel.BitfieldAlloc in
  match toks with
  | [packed, fields] =>
    let bfs := (fields.splitOn ",").filterMap fun f =>
      match f.splitOn ":" with
      | [w, o, ts, ta] => match w.toNat?, ts.toNat?, ta.toNat? with
        | some w, some ts, some ta =>
          if o == "-" then some ({ width := w, off := none, tsize := ts, talign := ta } : RawBf)
          else o.toNat?.map fun o => ({ width := w, off := some o, tsize := ts, talign := ta } : RawBf)
        | _, _, _ => none
      | _ => none
    let st := allocRun (packed == "1") bfs
    let offs := ",".intercalate (st.offs.map toString)
    s!"unit={unitBytes st} offs={offs} overridden={if bfs.any (adjusts (packed == "1")) then 1 else 0}"
  | _ => "bad-op"

end BindgenModel.Driver.C03
