import BindgenModel.Model.Util
import BindgenModel.Model.CDecl
import BindgenModel.Model.CDeclVariadic
/-! Line protocol for the static-wrapper model (first token `cdecl`).

Type encoding (prefix, space separated): `b<c>:void|nullptr|int:<IntKind>|float:<FloatKind>|complex:<FloatKind>|`
`named:<s>|struct:<s>|union:<s>|enum:<s>`, `p<c> T`, `a<n> T`, `f<c><v> T ( {n:<name>|u} T … )`, `r<c> T`, `x`
(`<c>` = 0/1 constness).

* `cdecl arms` → `a=<0|1>` (form of the Array arm in the generated table)
* `cdecl wrap a=<0|1|gen> tds=<n1,n2|-> suffix=<s> name=<f> ret T params ( … )` →
  `error` | `ok ret=<defect|->:<rt>:<lex> p=<defect|->:<rt>:<lex>,… text=<wrapper text, newline as \n>`
  (rt: the printed declaration parses back to the denoted type and name; lex: the character lexer
  reads the text as the token list the theorems speak about)
* `cdecl codegen wrap=<0|1> suffix=<s> name= canon= mangled=<m|-> link=<l|-> internal=<0|1> variadic=<0|1>` →
  `none` | `ident=<i> link=<l|-> wrapped=<0|1> sym=<name++suffix>`
* `cdecl vatable` → `pl=<insert|push> max=<n> name=<s>` (the `wrap_as_variadic` entries of the generated table)
* `cdecl vawrap a=<0|1|gen> pl=<insert|push|gen> suffix=<s> name=<f> idx=<n|-> ret T params ( … )` →
  `error` | `panic` | `ok clash=<0|1> text=<wrapper text, newline as \n>` (`idx=-`: `wrap_as_variadic` is `None`)
* `cdecl vacodegen wrap= suffix= name= canon= mangled= link= internal= variadic= cb=<new name|-> chains=<c;c;…|->` →
  `none` | `ident=<i> link=<l|-> wrapped=<0|1> va=<idx|-> cvariadic=<0|1> args=<i,j,…|->`; one chain per argument,
  `name:<0|1>,…` = (`ty.name()` or `-`, kind is Alias/ResolvedTypeRef) along the walk of `wrap_as_variadic_fn` -/
namespace BindgenModel.Driver.C16
open BindgenModel.Util BindgenModel.CDecl BindgenModel.Generated.SerializeArms

def str (n : Name) : String := String.ofList n

def flag (s : String) : Option Bool := if s == "1" then some true else if s == "0" then some false else none

def decodeBase (parts : List String) : Option Base :=
  match parts with
  | ["void"] => some .void
  | ["nullptr"] => some .nullptr
  | ["int", k] => (allIntK.find? (·.name == k)).map .int
  | ["float", k] => (allFloatK.find? (·.name == k)).map .float
  | ["complex", k] => (allFloatK.find? (·.name == k)).map .complex
  | ["named", s] => some (.named s.toList)
  | ["struct", s] => some (.struct s.toList)
  | ["union", s] => some (.union s.toList)
  | ["enum", s] => some (.enum s.toList)
  | _ => none

mutual
def decodeType : Nat → List String → Option (CType × List String)
  | 0, _ => none
  | f + 1, t :: rest =>
    if t == "x" then some (.other, rest) else
    let c := flag ((t.drop 1).take 1).toString
    match t.take 1 |>.toString with
    | "b" => match c, decodeBase (((t.drop 3).toString).splitOn ":") with
      | some c, some b => some (.base c b, rest)
      | _, _ => none
    | "p" => match c, decodeType f rest with
      | some c, some (ty, r) => some (.ptr c ty, r)
      | _, _ => none
    | "r" => match c, decodeType f rest with
      | some c, some (ty, r) => some (.tref c ty, r)
      | _, _ => none
    | "a" => match (t.drop 1).toString.toNat?, decodeType f rest with
      | some n, some (ty, r) => some (.array ty n, r)
      | _, _ => none
    | "f" => match c, flag ((t.drop 2).take 1).toString, decodeType f rest with
      | some c, some v, some (ret, "(" :: r) => match decodeParams f r with
        | some (ps, r') => some (.func c v ret ps, r')
        | none => none
      | _, _, _ => none
    | _ => none
  | _, [] => none
def decodeParams : Nat → List String → Option (Params × List String)
  | 0, _ => none
  | _ + 1, ")" :: rest => some (.nil, rest)
  | f + 1, n :: rest =>
    let name : Option (Option Name) :=
      if n == "u" then some none else if n.startsWith "n:" then some (some (n.drop 2).toString.toList) else none
    match name, decodeType f rest with
    | some nm, some (ty, r) => match decodeParams f r with
      | some (ps, r') => some (.cons nm ty ps, r')
      | none => none
    | _, _ => none
  | _, [] => none
end

def encodeBase : Base → String
  | .void => "void" | .nullptr => "nullptr"
  | .int k => "int:" ++ k.name | .float k => "float:" ++ k.name | .complex k => "complex:" ++ k.name
  | .named s => "named:" ++ str s | .struct s => "struct:" ++ str s
  | .union s => "union:" ++ str s | .enum s => "enum:" ++ str s

def b01 (b : Bool) : String := if b then "1" else "0"

mutual
def encodeType : CType → String
  | .base c b => "b" ++ b01 c ++ ":" ++ encodeBase b
  | .ptr c t => "p" ++ b01 c ++ " " ++ encodeType t
  | .array t n => "a" ++ toString n ++ " " ++ encodeType t
  | .func c v r ps => "f" ++ b01 c ++ b01 v ++ " " ++ encodeType r ++ " (" ++ encodeParams ps
  | .tref c t => "r" ++ b01 c ++ " " ++ encodeType t
  | .other => "x"
def encodeParams : Params → String
  | .nil => " )"
  | .cons n t r => " " ++ (match n with | some s => "n:" ++ str s | none => "u") ++ " " ++ encodeType t ++ encodeParams r
end

def paramList : Params → List (Option Name × CType)
  | .nil => []
  | .cons n t r => (n, t) :: paramList r

def defectStr : Option Defect → String
  | none => "-"
  | some .arrayUnderPtr => "arrayUnderPtr" | some .arrayElem => "arrayElem" | some .fnRet => "fnRet"
  | some .fnNoDeclarator => "fnNoDeclarator" | some .fnConst => "fnConst" | some .fnVariadic => "fnVariadic" | some .constRefPtr => "constRefPtr"
  | some .unsupported => "unsupported"

/-- `<defect>:<roundtrip ok>:<lexer agrees>` for one declaration -/
def declStatus (a : Bool) (tds : List Name) (d : Option Defect) (t : CType) (n : Option Name) : String :=
  let ps := serP a t (nameStack n)
  let rt := match parseDecl (toks ps) with
    | some (t', n') => encodeType t' == encodeType (den t) && n' == n
    | none => false
  let lx := lex tds (textOf ps) == toks ps
  defectStr d ++ ":" ++ (if rt then "ok" else "fail") ++ ":" ++ (if lx then "ok" else "fail")

def escapeNl (s : List Char) : String :=
  String.ofList (s.flatMap fun c => if c == '\n' then ['\\', 'n'] else [c])

def variant (toks : List String) : Bool :=
  match kv toks "a" with
  | some "0" => false
  | some "1" => true
  | _ => arrayInDeclarator

def handleWrap (toks : List String) : String :=
  let a := variant toks
  let tds : List Name := match kv toks "tds" with
    | some "-" => [] | some s => (s.splitOn ",").map String.toList | none => []
  match kv toks "suffix", kv toks "name" with
  | some suffix, some name =>
    let rest := toks.dropWhile (· != "ret")
    match rest with
    | _ :: rest => match decodeType 200 rest with
      | some (ret, "params" :: "(" :: r) => match decodeParams 200 r with
        | some (ps, []) =>
          let f : Fn := { name := name.toList, ret := ret, params := ps }
          match wrapperText a suffix.toList f with
          | none => "error"
          | some txt =>
            let names := argNames ps 0
            let pst := (paramList ps).zip names |>.map fun ((_, t), n) =>
              declStatus a tds (defect a .direct t) t (some n)
            "ok ret=" ++ declStatus a tds (retDefect a ret) ret none ++
            " p=" ++ (if pst.isEmpty then "-" else ",".intercalate pst) ++ " text=" ++ escapeNl txt
        | _ => "bad-op"
      | _ => "bad-op"
    | [] => "bad-op"
  | _, _ => "bad-op"

def optName (s : Option String) : Option (Option Name) :=
  match s with
  | some "-" => some none
  | some x => some (some x.toList)
  | none => none

def handleCodegen (toks : List String) : String :=
  match (kv toks "wrap").bind flag, kv toks "suffix", kv toks "name", kv toks "canon",
        optName (kv toks "mangled"), optName (kv toks "link"), (kv toks "internal").bind flag,
        (kv toks "variadic").bind flag with
  | some wrap, some suffix, some name, some canon, some mangled, some link, some internal, some variadic =>
    let f : FnInfo := { name := name.toList, canonical := canon.toList, mangled := mangled, linkAttr := link,
                        internal := internal, variadic := variadic }
    match codegenFn wrap suffix.toList f with
    | none => "none"
    | some b => "ident=" ++ str b.ident ++ " link=" ++ (match b.link with | some l => str l | none => "-") ++
        " wrapped=" ++ b01 b.wrapped ++ " sym=" ++ str (wrapperSymbol suffix.toList f)
  | _, _, _, _, _, _, _, _ => "bad-op"

def placement (toks : List String) : ApPlacement :=
  match kv toks "pl" with
  | some "insert" => .insertAtVaListIdx
  | some "push" => .pushLast
  | _ => vaApPlacement

def handleVaWrap (toks : List String) : String :=
  let a := variant toks
  let pl := placement toks
  let idx : Option (Option Nat) := match kv toks "idx" with
    | some "-" => some none
    | some s => s.toNat?.map some
    | none => none
  match kv toks "suffix", kv toks "name", idx with
  | some suffix, some name, some idx =>
    match toks.dropWhile (· != "ret") with
    | _ :: rest => match decodeType 200 rest with
      | some (ret, "params" :: "(" :: r) => match decodeParams 200 r with
        | some (ps, []) =>
          let f : Fn := { name := name.toList, ret := ret, params := ps }
          let wv : Option WrapVa := idx.map fun i => { newName := [], idx := i }
          match wrapperTextV a pl suffix.toList f wv with
          | .error => "error"
          | .panic => "panic"
          | .ok txt =>
            let clash := match idx with
              | some i => vaNameClash f i
              | none => false
            "ok clash=" ++ b01 clash ++ " text=" ++ escapeNl txt
        | _ => "bad-op"
      | _ => "bad-op"
    | [] => "bad-op"
  | _, _, _ => "bad-op"

def decodeStep (s : String) : Option (Option Name × Bool) :=
  match (s.splitOn ":").reverse with
  | c :: n :: more =>
    let name := ":".intercalate (n :: more).reverse
    (flag c).map fun c => (if name == "-" then none else some name.toList, c)
  | _ => none

def decodeChains (s : String) : Option (List TyChain) :=
  if s == "-" then some [] else
  (s.splitOn ";").mapM fun c => if c == "" then some [] else (c.splitOn ",").mapM decodeStep

def handleVaCodegen (toks : List String) : String :=
  match (kv toks "wrap").bind flag, kv toks "suffix", kv toks "name", kv toks "canon",
        optName (kv toks "mangled"), optName (kv toks "link"), (kv toks "internal").bind flag,
        (kv toks "variadic").bind flag, optName (kv toks "cb"), (kv toks "chains").bind decodeChains with
  | some wrap, some suffix, some name, some canon, some mangled, some link, some internal, some variadic, some cb, some chains =>
    let f : FnInfo := { name := name.toList, canonical := canon.toList, mangled := mangled, linkAttr := link,
                        internal := internal, variadic := variadic }
    match codegenFnV wrap suffix.toList f chains cb with
    | none => "none"
    | some b => "ident=" ++ str b.ident ++ " link=" ++ (match b.link with | some l => str l | none => "-") ++
        " wrapped=" ++ b01 b.wrapped ++ " va=" ++ (match b.va with | some w => toString w.idx | none => "-") ++
        " cvariadic=" ++ b01 b.cVariadic ++
        " args=" ++ (if b.args.isEmpty then "-" else ",".intercalate (b.args.map toString))
  | _, _, _, _, _, _, _, _, _, _ => "bad-op"

def handle (toks : List String) : String :=
  match toks with
  | "vatable" :: _ => "pl=" ++ (match vaApPlacement with | .insertAtVaListIdx => "insert" | .pushLast => "push") ++
      " max=" ++ toString vaMaxArgsNeverWrapped ++ " name=" ++ str vaBuiltinName
  | "vawrap" :: rest => handleVaWrap rest
  | "vacodegen" :: rest => handleVaCodegen rest
  | "arms" :: _ => "a=" ++ b01 arrayInDeclarator
  | "wrap" :: rest => handleWrap rest
  | "codegen" :: rest => handleCodegen rest
  | _ => "bad-op"

end BindgenModel.Driver.C16
