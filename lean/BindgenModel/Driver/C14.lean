import BindgenModel.Model.Util
import BindgenModel.Model.FeaturesSpec
/-! Line protocol for the feature model (`feat …`).

* `feat parse <dbg|rel> <hex target string> <hex edition string>` — `bindgen::verif::rust_features`:
  `panic` | `err target:<kind>` | `err edition` | `ok available=<b> <flag>=<b> …`
* `feat new t=<stable:M:P|nightly> e=<year>` — `RustFeatures::new` + `is_available` on raw values
* `feat misc` — latest / earliest / default edition / decrement form found in the source
* `feat latest_edition t=…` — `<year>` | `panic`
* `feat resolve t=… e=<year|none> opts=<u?c?f?a?>` — `Builder::generate` + decision model of the gate
  sites: `rejected` | `ok edition=<year> emits=<constructs> region_cstr=<b>`
* `feat oracle t=… e=<year> seen=<constructs>` — ground truth: `ok` | `bad=<constructs>`
* `feat flag_oracle t=… e=<year> flags=<enabled RustFeatures flags>` — ground truth: `ok` | `bad=<flags>`
* `feat region_nightly <hex>` — `0|1`
-/
namespace BindgenModel.Driver.C14
open BindgenModel.Util BindgenModel.Features BindgenModel.Generated

def b01 (b : Bool) : String := if b then "1" else "0"

def hexToChars (s : String) : Option (List Char) :=
  if s == "-" then some [] else
  (parseHexBytes s).map fun bs => bs.map fun b => Char.ofNat b.toNat

def parseTarget (s : String) : Option Target :=
  if s == "nightly" then some .nightly else
  match s.splitOn ":" with
  | ["stable", m, p] => match m.toNat?, p.toNat? with
    | some m, some p => some (.stable m p)
    | _, _ => none
  | _ => none

def showTarget : Target → String
  | .nightly => "nightly"
  | .stable m p => s!"stable:{m}:{p}"

def errName : ParseErr → String
  | .form => "form" | .major => "major" | .minor => "minor" | .patch => "patch" | .tooEarly => "tooearly"

def flagsLine (fs : Feature → Bool) : String :=
  " ".intercalate (Feature.all.map fun f => f.name ++ "=" ++ b01 (fs f))

def editionOfString (cs : List Char) : Option Edition :=
  Edition.all.find? fun e => (toString e.year).toList == cs

def parseOpts (s : String) : EmitOpts :=
  ⟨s.contains 'u', s.contains 'c', s.contains 'f', s.contains 'a'⟩

def constructOfName (n : String) : Option Construct := Construct.all.find? fun c => c.name == n

def handle (toks : List String) : String :=
  match toks with
  | ["parse", mode, t, e] =>
    match hexToChars t, hexToChars e with
    | some tc, some ec =>
      match fromStrRepo (mode == "dbg") tc with
      | .panic => "panic"
      | .err k => "err target:" ++ errName k
      | .ok tg =>
        match editionOfString ec with
        | none => "err edition"
        | some ed => "ok target=" ++ showTarget tg ++ " available=" ++ b01 (isAvailable ed tg) ++ " " ++ flagsLine (featuresNew theTable tg ed)
    | _, _ => "bad-op"
  | ["misc"] =>
    let l := match latestStable theTable with | some t => showTarget t | none => "unreachable"
    let ea := match earliestStable theTable with | some t => showTarget t | none => "unreachable"
    let de := match (latestStable theTable).bind latestEdition with | some e => toString e.year | none => "panic"
    let dk := match nightlyDecr with | .checked => "checked" | .unchecked => "unchecked"
    s!"latest={l} earliest={ea} default_edition={de} decr={dk} cstr_gate={b01 cstrCoreGate} editions={",".intercalate (Edition.all.map fun e => toString e.year ++ ":" ++ toString e.firstMinor)}"
  | ["region_nightly", t] =>
    match hexToChars t with
    | some tc => b01 (regionNightlyMinorZero tc)
    | none => "bad-op"
  | op :: rest =>
    match (kv rest "t").bind parseTarget with
    | none => "bad-op"
    | some tg =>
      let ed? : Option (Option Edition) := match kv rest "e" with
        | some "none" => some none
        | some y => (y.toNat?.bind editionOfYear).map some
        | none => none
      if op == "latest_edition" then
        match latestEdition tg with | some e => toString e.year | none => "panic"
      else match ed? with
      | none => "bad-op"
      | some ed =>
        if op == "new" then
          match ed with
          | some ed => "available=" ++ b01 (isAvailable ed tg) ++ " " ++ flagsLine (featuresNew theTable tg ed)
          | none => "bad-op"
        else if op == "resolve" then
          let o := parseOpts ((kv rest "opts").getD "")
          match resolve theTable tg ed with
          | .unsupportedEdition _ _ => "rejected"
          | .panicNoEdition => "panic"
          | .ok e fs =>
            let em := Construct.all.filter (emits cstrCoreGate fs o)
            s!"ok edition={e.year} emits={",".intercalate (em.map Construct.name)} region_cstr={b01 (!cstrCoreGate && regionCoreCStr tg o)}"
        else if op == "oracle" then
          match ed with
          | none => "bad-op"
          | some ed =>
            let seen := (((kv rest "seen").getD "").splitOn ",").filter (· ≠ "")
            match seen.mapM constructOfName with
            | none => "bad-op"
            | some cs =>
              let bad := cs.filter fun c => !(c.requires.allows tg ed)
              if bad.isEmpty then "ok" else "bad=" ++ ",".intercalate (bad.map Construct.name)
        else if op == "flag_oracle" then
          match ed with
          | none => "bad-op"
          | some ed =>
            let on := (((kv rest "flags").getD "").splitOn ",").filter (· ≠ "")
            let bad := Feature.all.filter fun f => on.contains f.name && !((stabilised f).allows tg ed)
            if bad.isEmpty then "ok" else "bad=" ++ ",".intercalate (bad.map Feature.name)
        else "bad-op"
  | _ => "bad-op"

end BindgenModel.Driver.C14
