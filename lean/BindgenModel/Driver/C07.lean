import BindgenModel.Model.Analyses
/-! Driver for the analyses: recompute every analysis from a dumped IR graph.

`irchk` (after an `ir-begin … ir-end` block was loaded) answers one line:
`irchk <analysis>=<ok|DIFF(id:model:dumped,…)|skipped> … uncovered_<analysis>=<ids> sched=<ok|DIFF…>` -/
namespace BindgenModel.Driver.C07
open BindgenModel.IR BindgenModel.Analyses BindgenModel.Generated BindgenModel.Worklist

def valOfString (s : String) : Nat :=
  match s with
  | "SelfHasVtable" => 1 | "BaseHasVtable" => 2
  | "DependsOnTypeParam" => 1 | "NonZeroSized" => 2
  | "Manually" => 1 | "No" => 2 | "Yes" => 0 | "ZeroSized" => 0
  | "1" => 1
  | _ => 0

/-- dumped answers of one analysis as an array indexed by item id -/
def dumped (g : IR) (name : String) : Array Nat :=
  g.results.foldl (fun acc (r : String × Nat × String) =>
    if r.1 == name then acc.setIfInBounds r.2.1 (valOfString r.2.2) else acc) (Array.replicate g.size 0)

structure Solved where
  hasVtable : Array V
  hasDestructor : Array V

def solveBase (g : IR) : Solved :=
  { hasVtable := (hasVtableInstance g).solve g.size,
    hasDestructor := (hasDestructorInstance g).solve g.size }

def ctxOf (s : Solved) : DeriveCtx :=
  { hasDestructor := fun n => (s.hasDestructor.getD n 0) != 0,
    hasVtable := fun n => (s.hasVtable.getD n 0) != 0 }

def traitOfName (s : String) : Option DeriveTrait :=
  match s with
  | "derive_debug" => some .debug | "derive_default" => some .default | "derive_copy" => some .copy
  | "derive_hash" => some .hash | "derive_partialeqorpartialord" => some .partialEqOrPartialOrd
  | _ => none

def instanceOf (g : IR) (s : Solved) (name : String) : Option Instance :=
  match name with
  | "has_vtable" => some (hasVtableInstance g)
  | "has_destructor" => some (hasDestructorInstance g)
  | "has_float" => some (hasFloatInstance g)
  | "has_type_param_in_array" => some (hasTypeParamInArrayInstance g)
  | "sizedness" => some (sizednessInstance g fun n => s.hasVtable.getD n 0 == 1)
  | _ => (traitOfName name).map fun t => deriveInstance g (ctxOf s) t

/-- is the dumped map a *set* (value ≠ ⊥ means member) rather than a value map? -/
def isSetAnalysis (name : String) : Bool :=
  name != "has_vtable" && name != "sizedness" && name != "derive_partialeqorpartialord"

def diffs (name : String) (nodes : List Nat) (model : Array V) (dump : Array Nat) : List String :=
  nodes.filterMap fun n =>
    let m := (model.getD n 0).val
    let d := dump.getD n 0
    let same := if isSetAnalysis name then (m != 0) == (d != 0) else m == d
    if same then none else some s!"{n}:{m}:{d}"

def names : List String :=
  ["has_vtable", "sizedness", "has_destructor", "derive_debug", "derive_default", "derive_copy",
   "has_type_param_in_array", "has_float", "derive_hash", "derive_partialeqorpartialord"]

def idList (l : List Nat) : String :=
  if l.isEmpty then "-" else ",".intercalate (l.map toString)

def rotate (l : List Nat) (k : Nat) : List Nat :=
  if l.isEmpty then l else let k := k % l.length; l.drop k ++ l.take k

/-- dumped `used_template_params` sets: item ↦ sorted parameter ids -/
def dumpedTemplate (g : IR) : List (Nat × List Nat) :=
  g.results.filterMap fun (r : String × Nat × String) =>
    if r.1 == "used_template_params" then
      let ids := parseIds r.2.2
      if ids.isEmpty then none else some (r.2.1, ids)
    else none

def insertSorted (x : Nat) : List Nat → List Nat
  | [] => [x]
  | y :: ys => if x ≤ y then x :: y :: ys else y :: insertSorted x ys

def sortNat (l : List Nat) : List Nat := l.foldl (fun acc x => insertSorted x acc) []

def checkTemplate (g : IR) : String :=
  if !g.ran.contains "used_template_params" then "used_template_params=notrun"
  else
  let ts := templateSetup g
  if g.opts.allowlistRecursively && ts.tps.length * ts.nodes.length > 400000 then "used_template_params=skipped-large" else
  let model := if g.opts.allowlistRecursively then templateSolve g else templateNonRecursive g
  let dump := dumpedTemplate g
  let look := fun (l : List (Nat × List Nat)) (n : Nat) => sortNat ((l.find? (·.1 == n)).map (·.2) |>.getD [])
  let keys := (model.map (·.1) ++ dump.map (·.1)).eraseDups
  let bad := keys.filter fun n => look model n != look dump n
  -- side conditions of `C01_generics_closed` / `C07_instance_stable` on this graph (recursive path only)
  let side := if g.opts.allowlistRecursively then
      let I := (templateInstance g).1
      s!" sidecond_used_template_params={if I.readsCovered && I.depsClosed && I.hornOnly then 1 else 0}"
    else ""
  if bad.isEmpty then s!"used_template_params=ok" ++ side
  else ("used_template_params=DIFF(" ++ ",".intercalate ((bad.take 6).map fun n => s!"{n}:{look model n}:{look dump n}") ++ ")").replace " " "" ++ side

def check (g : IR) (seed : Nat) : String :=
  if g.opts.callbacks != 0 then "irchk skipped=callbacks" else
  let s := solveBase g
  let parts := names.map fun name =>
    if !g.ran.contains name then s!"{name}=notrun" else
    match instanceOf g s name with
    | none => s!"{name}=unmodelled"
    | some I =>
      let model := I.solve g.size
      let d := diffs name I.nodes model (dumped g name)
      let res := if d.isEmpty then "ok" else "DIFF(" ++ ",".intercalate (d.take 8) ++ ")"
      -- other schedules: FIFO and a rotation of the initial work-list
      let alt1 := analyzeA I.framework g.size I.initWl.reverse
      let alt2 := analyzeA I.framework g.size (rotate I.initWl (seed + 1))
      let sd := I.nodes.filter fun n => model.getD n 0 != alt1.getD n 0 || model.getD n 0 != alt2.getD n 0
      let unc := I.uncovered
      s!"{name}={res} sched_{name}={if sd.isEmpty then "ok" else "DIFF(" ++ idList (sd.take 8) ++ ")"} uncovered_{name}={idList (unc.take 40)} closed_{name}={if I.depsClosed then 1 else 0} nodes_{name}={I.nodes.length}"
  "irchk " ++ " ".intercalate parts ++ " " ++ checkTemplate g

end BindgenModel.Driver.C07
