import BindgenModel.Model.Util
import BindgenModel.Model.Determinism
/-! Line protocol of the determinism model.

* `det site iter|state <hash>`  →  class name of the site in the committed classification, or `unclassified`
* `det consume <class> k=<n> xs=<a,b,..>`  →  the consumer's value for the list in the GIVEN order
  (predicate `a % k == 0`, element map `a ↦ [a, a / 2]`)
* `det sched sys=sample|leaky inputs=<i,..> sched=<k,..>`  →  `out=<o|-,..> solo=<o,..>` (unfinished = `-`)
* `det hist sys=sample|leaky <i,..>`  →  `out=<o,..> solo=<o,..>` -/
namespace BindgenModel.Driver.C11
open BindgenModel.Util BindgenModel.Determinism

def natList (s : String) : Option (List Nat) :=
  if s.isEmpty || s == "-" then some [] else (splitOnChar s ',').mapM String.toNat?

def showList (l : List Nat) : String := if l.isEmpty then "-" else ",".intercalate (l.map toString)

def showVal : Val → String
  | .list l => "list:" ++ showList l
  | .flag b => "flag:" ++ (if b then "1" else "0")
  | .found none => "found:-"
  | .found (some a) => "found:" ++ toString a
  | .unit => "unit"

def sysOf (toks : List String) : Sys := if kv toks "sys" == some "leaky" then leakySys else sampleSys

def handle (toks : List String) : String :=
  match toks with
  | ["site", "iter", h] => match h.toNat? with
    | some h => match iterClassOf h with | some c => c.name | none => "unclassified"
    | none => "bad-op"
  | ["site", "state", h] => match h.toNat? with
    | some h => match stateClassOf h with | some c => c.name | none => "unclassified"
    | none => "bad-op"
  | "consume" :: cls :: rest =>
    match ConsumerClass.ofName? cls, kvNat rest "k", (kv rest "xs").bind natList with
    | some c, some k, some xs => showVal (consume c (fun a => a % (k + 1) == 0) (fun a => [a, a / 2]) xs)
    | _, _, _ => "bad-op"
  | "sched" :: rest =>
    match (kv rest "inputs").bind natList, (kv rest "sched").bind natList with
    | some inputs, some sched =>
      let S := sysOf rest
      let P := runSched S sched { cells := [], gens := inputs.map (freshGen S) }
      let outs := P.gens.map fun g => if g.pc = S.nsteps g.input then toString (S.out g.loc) else "-"
      "out=" ++ ",".intercalate outs ++ " solo=" ++ showList (inputs.map (soloOut S))
    | _, _ => "bad-op"
  | "hist" :: rest =>
    match rest.getLast?.bind natList with
    | some hist =>
      let S := sysOf rest
      "out=" ++ showList (runHistory S hist []) ++ " solo=" ++ showList (hist.map (soloOut S))
    | none => "bad-op"
  | _ => "bad-op"

end BindgenModel.Driver.C11
