import BindgenModel.Model.Util
import BindgenModel.Model.Entry
import BindgenModel.Model.PanicSites
import BindgenModel.Generated.Entry
/-! Line protocol of the entry-path model (C12).

* `entry rt dbg|rel <hex of the target string>` → `ok nightly` | `ok 1.<minor>.<patch>` | `err <kind>` | `panic`
* `entry triage none|err|dir|file:<mode decimal>` → `proceed` | `notExist` | `folderAsHeader` | `insufficientPermissions`
* `entry diag <sev,sev,..|->` → `ok` | `err <number of messages in ClangDiagnostic>`
* `entry edition <year|none> <minor|nightly>` → `proceed` | `unsupportedEdition` | `bad-edition`
* `entry resolve refs=0|1 aliases=0|1 id=<n> g=<r<n>|a<n>|o,..>` → `item <n>` | `noItem <n>` | `outOfFuel`
* `entry site <hash>` → class of the panic site or `unclassified` -/
namespace BindgenModel.Driver.C12
open BindgenModel.Util BindgenModel.Entry BindgenModel.PanicSites

def hexToChars (s : String) : Option (List Char) :=
  (parseHexBytes s).map (fun bs => bs.map (fun b => Char.ofNat b.toNat))

def showErr : FromStrErr → String
  | .form => "form" | .major => "major" | .minorNum => "minorNum" | .patchNum => "patchNum" | .tooEarly => "tooEarly"

def showOut : FromStrOut → String
  | .ok .nightly => "ok nightly"
  | .ok (.stable m p) => "ok 1." ++ toString m ++ "." ++ toString p
  | .err e => "err " ++ showErr e
  | .panic => "panic"

def parseNode (s : String) : Option Node :=
  if s == "o" then some .other
  else if s.startsWith "r" then ((s.drop 1).toString.toNat?).map Node.typeRef
  else if s.startsWith "a" then ((s.drop 1).toString.toNat?).map Node.alias
  else none

def handle (toks : List String) : String :=
  match toks with
  | ["rt", mode, hex] =>
    match hexToChars hex with
    | some cs => showOut (fromStr Generated.Entry.fromStrCheckedSub (mode == "dbg") Generated.Entry.earliestMinor cs)
    | none => "bad-op"
  | ["rt", mode] => showOut (fromStr Generated.Entry.fromStrCheckedSub (mode == "dbg") Generated.Entry.earliestMinor [])
  | ["triage", m] =>
    let md : Option (Option Meta) :=
      if m == "none" then some none else if m == "err" then some (some .err) else if m == "dir" then some (some .dir)
      else if m.startsWith "file:" then ((m.drop 5).toString.toNat?).map (fun k => some (.file k)) else none
    match md with
    | some md => match pathTriage Generated.Entry.canReadMask md with
      | .proceed => "proceed" | .notExist => "notExist" | .folderAsHeader => "folderAsHeader"
      | .insufficientPermissions => "insufficientPermissions"
    | none => "bad-op"
  | ["diag", sevs] =>
    let l := if sevs == "-" then some [] else (splitOnChar sevs ',').mapM String.toNat?
    match l with
    | some l =>
      let ds := l.map (fun s => ({ severity := s, msg := ['m'] } : Diag))
      match scanDiags Generated.Entry.diagErrorThreshold ds with
      | none => "ok"
      | some m => "err " ++ toString (m.filter (· == '\n')).length
    | none => "bad-op"
  | ["edition", ed, t] =>
    let tgt : Option Target := if t == "nightly" then some .nightly else t.toNat?.map (fun m => .stable m 0)
    let edm : Option (Option Nat) :=
      if ed == "none" then some none
      else match ed.toNat? with
        | some y => (Generated.Entry.editions.find? (fun r => r.1 == y)).map (fun r => some r.2)
        | none => none
    match tgt, edm with
    | some tgt, some edm => match editionCheck edm tgt with
      | .proceed => "proceed" | .unsupportedEdition => "unsupportedEdition"
    | _, none => "bad-edition"
    | none, _ => "bad-op"
  | "resolve" :: rest =>
    match kvNat rest "refs", kvNat rest "aliases", kvNat rest "id", (kv rest "g").bind (fun s => (splitOnChar s ',').mapM parseNode) with
    | some r, some a, some id, some g => match resolve g (r == 1) (a == 1) id with
      | .item n => "item " ++ toString n | .noItem n => "noItem " ++ toString n | .outOfFuel => "outOfFuel"
    | _, _, _, _ => "bad-op"
  | ["site", h] => match h.toNat? with
    | some h => match panicClassOf h with | some c => c.name | none => "unclassified"
    | none => "bad-op"
  | _ => "bad-op"

end BindgenModel.Driver.C12
