import BindgenModel.Model.Util
import BindgenModel.Model.LayoutTests
/-! Line protocol for the layout-assertion model (C06).

* `lt comp tests=0|1 offsetof=0|1 nontype=0|1 notp=0|1 fwd=0|1 opaque=0|1 layout=S,A|- fields=-|d:NAMED:OFF|-;u;…`
  → `none` | `<const|test> <size> <align> <idx:off,…|->`
* `lt inst tests=0|1 offsetof=0|1 opaque=0|1 unbound=0|1 layout=S,A|-` → `none` | `<const|test> <size> <align>`
* `lt names <base,base,…>` → the de-duplicated test-function names, comma separated
-/
namespace BindgenModel.Driver.C06
open BindgenModel.Util BindgenModel.LayoutTests

def bool (toks : List String) (k : String) : Bool := kv toks k == some "1"

def parseLayout (s : String) : Option (Option (Nat × Nat)) :=
  if s == "-" then some none else
  match s.splitOn "," with
  | [a, b] => match a.toNat?, b.toNat? with
    | some a, some b => some (some (a, b))
    | _, _ => none
  | _ => none

def parseField (s : String) : Option FieldDesc :=
  match s.splitOn ":" with
  | ["u"] => some .unit
  | ["d", n, off] => if off == "-" then some (.data (n == "1") none) else off.toNat?.map fun o => .data (n == "1") (some o)
  | _ => none

def renderItem (it : AssertItem) : String :=
  let form := match it.form with | .constBlock => "const" | .testFn => "test"
  let size := it.asserts.findSome? fun a => match a with | .size n => some n | _ => none
  let align := it.asserts.findSome? fun a => match a with | .align n => some n | _ => none
  let offs := it.asserts.filterMap fun a => match a with | .offset i n => some (toString i ++ ":" ++ toString n) | _ => none
  -- the order of the assertions matters: size, align, offsets
  let shape := it.asserts.map fun a => match a with | .size _ => "s" | .align _ => "a" | .offset _ _ => "o"
  form ++ " " ++ toString (size.getD 0) ++ " " ++ toString (align.getD 0) ++ " " ++
    (if offs.isEmpty then "-" else ",".intercalate offs) ++ " " ++ String.join shape

def handle (toks : List String) : String :=
  match toks with
  | "comp" :: rest =>
    match (kv rest "layout").bind parseLayout, (kv rest "fields").bind (fun s => if s == "-" then some [] else (s.splitOn ";").mapM parseField) with
    | some lay, some fields =>
      let o : Opts := { layoutTests := bool rest "tests", offsetOf := bool rest "offsetof" }
      let c : CompDesc := { nonTypeTParams := bool rest "nontype", noTemplateParams := bool rest "notp", forwardDecl := bool rest "fwd",
                            isOpaque := bool rest "opaque", layout := lay, fields := fields }
      match compAsserts o c with
      | none => "none"
      | some it => renderItem it
    | _, _ => "bad-op"
  | "inst" :: rest =>
    match (kv rest "layout").bind parseLayout with
    | some lay =>
      let o : Opts := { layoutTests := bool rest "tests", offsetOf := bool rest "offsetof" }
      match instAsserts o { isOpaque := bool rest "opaque", usesTemplateParams := bool rest "unbound", layout := lay } with
      | none => "none"
      | some it => renderItem it
    | none => "bad-op"
  | ["names", l] => ",".intercalate (dedupNames [] (l.splitOn ","))
  | _ => "bad-op"

end BindgenModel.Driver.C06
