import BindgenModel.Model.Util
import BindgenModel.Model.Names
/-! Line protocol for C01 (first token `c01` already removed).  Names travel as hex of UTF-8.

* `mangle <hex>` → hex of `rustMangle`
* `assign <hex,hex,…>` → `region=<0|1> names=<hex,…> dups=<hex,…>` (`assignNames` over the canonical
  names, i.e. after `rustMangle`; `region` = `suffixClashRegion`; `dups` = names assigned twice)
* `collide <hex> <hex>` → `1` iff `mangleCollision a b` -/
namespace BindgenModel.Driver.C01
open BindgenModel.Util BindgenModel.Names

def decode (s : String) : Option Ident :=
  if s == "-" then some [] else
  match parseHexBytes s with
  | some bs => (String.fromUTF8? (ByteArray.mk (bs.map fun b => UInt8.ofNat b.toNat).toArray)).map (·.toList)
  | none => none

def encode (n : Ident) : String :=
  if n.isEmpty then "-" else hexBytes ((String.ofList n).toUTF8.toList.map fun b => BitVec.ofNat 8 b.toNat)

def mangleCollision (a b : Ident) : Bool := a != b && rustMangle a == rustMangle b

def dupsOf : List Ident → List Ident
  | [] => []
  | x :: rest => if rest.contains x then x :: dupsOf (rest.filter (· != x)) else dupsOf rest

def handle (toks : List String) : String :=
  match toks with
  | ["mangle", n] => match decode n with
    | some n => encode (rustMangle n)
    | none => "bad-name"
  | ["assign", ns] =>
    match (splitOnChar ns ',').mapM decode with
    | some cs =>
      let canon := cs.map rustMangle
      let out := (assignNames canon).map rustMangle
      "region=" ++ (if suffixClashRegion canon then "1" else "0") ++
        " names=" ++ ",".intercalate (out.map encode) ++
        " dups=" ++ (let d := dupsOf out; if d.isEmpty then "-" else ",".intercalate (d.map encode))
    | none => "bad-names"
  | ["collide", a, b] => match decode a, decode b with
    | some a, some b => if mangleCollision a b then "1" else "0"
    | _, _ => "bad-name"
  | _ => "bad-op"

end BindgenModel.Driver.C01
