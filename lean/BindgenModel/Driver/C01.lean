import BindgenModel.Model.Util
import BindgenModel.Model.Names
import BindgenModel.Model.C01Regions
/-! Line protocol for C01 (first token `c01` already removed).  Names travel as hex of UTF-8.

* `mangle <hex>` → hex of `rustMangle`
* `assign <hex,hex,…>` → `region=<0|1> names=<hex,…> dups=<hex,…>` (`assignNames` over the canonical
  names, i.e. after `rustMangle`; `region` = `suffixClashRegion`; `dups` = names assigned twice)
* `collide <hex> <hex>` → `1` iff `mangleCollision a b`
* `region opts=<16 bits> facts=<12 bits> err=<class>` → finding id or `-` (`C01Regions.classify`) -/
namespace BindgenModel.Driver.C01
open BindgenModel.Util BindgenModel.Names

def decode (s : String) : Option Ident :=
  if s == "-" then some [] else
  match parseHexBytes s with
  | some bs => (String.fromUTF8? (ByteArray.mk (bs.map fun b => UInt8.ofNat b.toNat).toArray)).map (·.toList)
  | none => none

def encode (n : Ident) : String :=
  if n.isEmpty then "-" else hexBytes ((String.ofList n).toUTF8.toList.map fun b => BitVec.ofNat 8 b.toNat)

/-- names occurring more than once (each reported once, in order of first repetition) -/
def dupsAux : List Ident → List Ident → List Ident → List Ident
  | [], _, acc => acc.reverse
  | x :: rest, seen, acc =>
    if seen.contains x && !acc.contains x then dupsAux rest seen (x :: acc) else dupsAux rest (x :: seen) acc

def dupsOf (xs : List Ident) : List Ident := dupsAux xs [] []

def handle (toks : List String) : String :=
  match toks with
  | ["mangle", n] => match decode n with
    | some n => encode (rustMangle n)
    | none => "bad-name"
  | ["assign", ns] =>
    match (splitOnChar ns ',').mapM decode with
    | some cs =>
      let canon := cs.map rustMangle
      let out := (assignNames canon).map rustMangle
      "region=" ++ (if suffixClashRegion canon then "1" else "0") ++
        " names=" ++ ",".intercalate (out.map encode) ++
        " dups=" ++ (let d := dupsOf out; if d.isEmpty then "-" else ",".intercalate (d.map encode))
    | none => "bad-names"
  | ["collide", a, b] => match decode a, decode b with
    | some a, some b => if mangleCollision a b then "1" else "0"
    | _, _ => "bad-name"
  | "region" :: rest =>
    let bit (s : String) (i : Nat) : Bool := (s.toList.getD i '0') == '1'
    match kv rest "opts", kv rest "facts", kv rest "err" with
    | some o, some f, some e =>
      let opts : C01Regions.Opts := ⟨bit o 0, bit o 1, bit o 2, bit o 3, bit o 4, bit o 5, bit o 6, bit o 7, bit o 8, bit o 9, bit o 10, bit o 11, bit o 12, bit o 13, bit o 14, bit o 15⟩
      let facts : C01Regions.Facts := ⟨bit f 0, bit f 1, bit f 2, bit f 3, bit f 4, bit f 5, bit f 6, bit f 7, bit f 8, bit f 9, bit f 10, bit f 11⟩
      let err : C01Regions.Err :=
        if e == "cmp" then .cmp else if e == "e0423" then .e0423 else if e == "e0530" then .e0530 else if e == "e0530static" then .e0530static
        else if e == "e0588" then .e0588 else if e == "e0793" then .e0793 else if e == "emptyUnion" then .emptyUnion
        else if e == "layoutAssert" then .layoutAssert else if e == "layoutPanic" then .layoutPanic
        else if e == "missingDebug" then .missingDebug else if e == "e0133" then .e0133 else if e == "e0054" then .e0054 else if e == "unresolved" then .unresolved
        else if e == "missingTrait" then .missingTrait else if e == "e0587" then .e0587 else if e == "e0223" then .e0223 else if e == "e0432" then .e0432
        else if e == "e0308" then .e0308 else if e == "e0392" then .e0392 else if e == "dupName" then .dupName else if e == "identPanic" then .identPanic else .other
      match C01Regions.classify opts facts err with
      | some x => x.name
      | none => "-"
    | _, _, _ => "bad-region"
  | _ => "bad-op"

end BindgenModel.Driver.C01
