import BindgenModel.Model.Util
import BindgenModel.Model.Reach
/-! Line protocol for the allow-listing model.

`reach cfg=<CodegenConfig bits> rec=<0|1> stdsz=<0|1> at=<P> af=<P> av=<P> ai=<P> afile=<P> bl=<ids|-> items=<I;I;…> edges=<E;E;…>`

* `P` = `-` (empty set) or comma-separated patterns, each the hex of its UTF-8 text, or `!`+hex when
  the `regex` crate rejects `^(pattern)$`;
* `I` = `id:cls:uio:file:name:auto:pmod:enum` with `auto` = the `TypeKind` name (or `-`), `cls ∈ {m,t,v,ff,fm,fc,fd}`, `file` = `-` | hex | `%`
  (empty), `name` = hex | `%`, `enum` = `-` | `E`+variants separated by `/`, a variant being its path
  components (hex | `%`) separated by `.`;
* `E` = `from>to>KindName`.

Answer: `allow=<sorted ids> codegen=<sorted ids> roots=<n>`.

`reach rx <hex pattern> <hex name>` answers `<anchored 0|1> <search 0|1>`, or `unsupported`. -/
namespace BindgenModel.Driver.C09
open BindgenModel.Util BindgenModel.Reach BindgenModel.Regex BindgenModel.Generated

def hexToString? (s : String) : Option String :=
  if s == "%" then some "" else
  match parseHexBytes s with
  | none => none
  | some bs => String.fromUTF8? (ByteArray.mk (bs.map (fun b => b.toNat.toUInt8)).toArray)

def splitNonEmpty (s : String) (c : Char) : List String :=
  if s == "-" || s.isEmpty then [] else splitOnChar s c

inductive SetErr where
  | unsupported (pat : String)
  | bad (why : String)

def parseSet (field : String) : Except SetErr RegexSet := do
  let mut items : List (Option Re) := []
  for p in splitNonEmpty field ',' do
    if p.startsWith "!" then
      items := none :: items
    else
      match hexToString? p with
      | none => throw (.bad ("pattern-hex " ++ p))
      | some txt =>
        match Regex.parse txt.toList with
        | none => throw (.unsupported p)
        | some r => items := some r :: items
  return ⟨items.reverse⟩

def parseCls (s : String) : Option ItemClass :=
  match s with
  | "m" => some .module | "t" => some .type | "v" => some .var
  | "ff" => some .fnFunction | "fm" => some .fnMethod | "fc" => some .fnConstructor
  | "fd" => some .fnDestructor | _ => none

def parseItem (s : String) : Option ItemInfo :=
  match splitOnChar s ':' with
  | [id, cls, uio, file, name, auto, pmod, en] => do
    let id ← id.toNat?
    let cls ← parseCls cls
    let file ← (if file == "-" then some none else (hexToString? file).map (fun f => some f.toList))
    let name ← hexToString? name
    let enumVs ← (if en == "-" then some none else
      if en.startsWith "E" then
        let body := (en.drop 1).toString
        let vs := if body.isEmpty then [] else splitOnChar body '/'
        (vs.mapM fun v => (splitOnChar v '.').mapM hexToString?).map some
      else none)
    some { id := id, cls := cls, useInsteadOf := uio == "1", file := file, name := name.toList,
           autoKind := autoAllowlistedKind auto, syntheticKind := syntheticTypeKind auto, parentIsModule := pmod == "1", unnamedEnumVariants := enumVs }
  | _ => none

def parseEdge (s : String) : Option (Nat × Edge) :=
  match splitOnChar s '>' with
  | [f, t, k] => do
    let f ← f.toNat?
    let t ← t.toNat?
    let k ← EdgeKind.ofString? k
    some (f, ⟨t, k⟩)
  | _ => none

def idsToString (ids : List Nat) : String :=
  if ids.isEmpty then "-" else
  ",".intercalate ((ids.toArray.qsort (· < ·)).toList.map toString)

def handleReach (toks : List String) : String :=
  let get (k : String) : String := (kv toks k).getD "-"
  match kvNat toks "cfg" with
  | none => "bad-req cfg"
  | some cfg =>
  let sets := do
    let t ← parseSet (get "at")
    let f ← parseSet (get "af")
    let v ← parseSet (get "av")
    let i ← parseSet (get "ai")
    let fl ← parseSet (get "afile")
    pure (t, f, v, i, fl)
  match sets with
  | .error (.unsupported p) => "unsupported-pattern " ++ p
  | .error (.bad w) => "bad-req " ++ w
  | .ok (t, f, v, i, fl) =>
  let o : Options := { cfg := cfg, recursive := get "rec" == "1", sizeTIsUsize := get "stdsz" == "1",
                       types := t, functions := f, vars := v, files := fl, items := i }
  match (splitNonEmpty (get "items") ';').mapM parseItem with
  | none => "bad-req items"
  | some items =>
  match (splitNonEmpty (get "edges") ';').mapM parseEdge with
  | none => "bad-req edges"
  | some edges =>
  match (splitNonEmpty (get "bl") ',').mapM String.toNat? with
  | none => "bad-req bl"
  | some bl =>
  let maxId := (items.map (·.id) ++ edges.map (·.1) ++ edges.map (·.2.to)).foldl max 0
  -- adjacency in trace order
  let adj : Array (List Edge) := edges.reverse.foldl
    (fun a (fe : Nat × Edge) => a.modify fe.1 (fun l => fe.2 :: l)) (Array.replicate (maxId + 1) [])
  let blArr : Array Bool := bl.foldl (fun a b => if b < a.size then a.set! b true else a) (Array.replicate (maxId + 1) false)
  let enArr : Array Bool := items.foldl (fun a it => if it.id < a.size then a.set! it.id (it.enabled o) else a)
    (Array.replicate (maxId + 1) false)
  let g : Graph := { nodes := items.map (·.id), out := fun i => adj.getD i [] }
  -- every edge end must be an item (closedness, hypothesis of `C09_fuel_suffices`)
  let isItem : Array Bool := items.foldl (fun a it => a.set! it.id true) (Array.replicate (maxId + 1) false)
  if edges.any (fun fe => !(isItem.getD fe.1 false) || !(isItem.getD fe.2.to false)) then "bad-req dangling-edge" else
  match compute g o items (fun i => enArr.getD i false) (fun i => blArr.getD i false) with
  | none => "model-out-of-fuel"
  | some s => "allow=" ++ idsToString s.allowlisted.eraseDups ++ " codegen=" ++ idsToString s.codegen.eraseDups
      ++ " roots=" ++ toString (roots o items).length
      ++ " synthetic-roots=" ++ toString ((items.filter fun it => it.enabled o && rootFilter o it && syntheticRoot o it).length)

def handleRx (toks : List String) : String :=
  match toks with
  | [p, n] =>
    match hexToString? p, hexToString? n with
    | some p, some n =>
      match Regex.parse p.toList with
      | none => "unsupported"
      | some r => (if Regex.matches r n.toList then "1" else "0") ++ " " ++ (if searchMatches r n.toList then "1" else "0")
    | _, _ => "bad-req"
  | _ => "bad-req"

/-- `reach rx <pattern> <name>` or `reach <key=value …>` -/
def handle (toks : List String) : String :=
  match toks with
  | "rx" :: rest => handleRx rest
  | _ => handleReach toks

end BindgenModel.Driver.C09
