import BindgenModel.Model.Util
import BindgenModel.Model.Link
import BindgenModel.Model.Lower
import BindgenModel.Model.Names
import BindgenModel.Model.FnSig
import BindgenModel.Generated.FnSigGuards
/-! Line protocol for C04 (first token `c04` already removed).

* `ni <cc> <canon-hex> <mangled-hex>` → `1` / `0`                   (cc: `var`, `unknown`, or an ABI keyword)
* `lib tf=<elf|macho|win32|win64> wrap=<0|1> suffix=<hex> fns=<F;F;…> vars=<V;V;…>` with
  `F = name:cname:mangled:link:cc:internal:skip:argbytes`, `V = name:cname:mangled:link`
  (`-` = absent / empty; `cname` = the name after the renaming callbacks, before `rust_mangle`)
  → `F:<ident>:<attr>:<symbol>,…|V:<ident>:<attr>:<symbol>,…` (emission order; attr = `none`, `raw.<hex>`, `plain.<hex>`)
* `lower p<0|1> <term>` / `lower r<0|1> <term>` → shape of the emitted Rust type
* `sig decl=<0|1> targs=<n|-> cur=<m> kids=<k> tycc=<n> pcc=<n|-> same=<0|1>` → `types=<ids> cc=<n>`: parameter types of one
  function type (`1xx` = i-th prototype type, `2xx` = type of the i-th cursor argument, `3xx` = of the i-th `ParmDecl` child) and its
  calling convention (`100` = invalid), computed with the guards found in the source
* `abi ovs=<abi.0|1,…> clang=<abi|unknown> feats=<f,…> variadic=<0|1>` → ABI keyword, `unsupported` or `unknown`
-/
namespace BindgenModel.Driver.C04
open BindgenModel.Util BindgenModel.Link BindgenModel.Lower BindgenModel.Generated

def hexName (s : String) : Option Name :=
  if s == "-" then some [] else (parseHexBytes s).map (·.map fun b => UInt8.ofNat b.toNat)

def optHexName (s : String) : Option (Option Name) :=
  if s == "-" then some none else (hexName s).map some

def showName (n : Name) : String :=
  if n.isEmpty then "-" else hexBytes (n.map fun b => BitVec.ofNat 8 b.toNat)

def abiOfString (s : String) : Option Generated.Abi :=
  Abi.all.find? fun a => String.ofList (Abi.display a) == s

def ccOfString (s : String) : Option CallConv :=
  if s == "var" then some .var else if s == "unknown" then some .unknown else (abiOfString s).map .known

def tfOfString (s : String) : Option TargetFamily :=
  if s == "elf" then some .elf else if s == "macho" then some .machO
  else if s == "win32" then some .win32x86 else if s == "win64" then some .win64 else none

def showAttr : LinkAttr → String
  | .none => "none"
  | .raw n => "raw." ++ showName n
  | .plain n => "plain." ++ showName n

/-- `rust_mangle` on UTF-8 bytes (through the `List Char` model) -/
def mangleBytes (n : Name) : Name :=
  match String.fromUTF8? (ByteArray.mk n.toArray) with
  | some s => (String.ofList (Names.rustMangle s.toList)).toUTF8.toList
  | none => n

structure FnRow where
  name : Name
  cname : Name
  mangled : Option Name
  link : Option Name
  cc : CallConv
  internal : Bool
  skip : Bool
  argBytes : Nat

def parseFn (s : String) : Option FnRow :=
  match splitOnChar s ':' with
  | [n, c, m, l, cc, i, k, ab] =>
    match hexName n, hexName c, optHexName m, optHexName l, ccOfString cc, ab.toNat? with
    | some n, some c, some m, some l, some cc, some ab =>
      some { name := n, cname := c, mangled := m, link := l, cc := cc, internal := i == "1", skip := k == "1", argBytes := ab }
    | _, _, _, _, _, _ => none
  | _ => none

def parseList {α} (f : String → Option α) (s : String) : Option (List α) :=
  if s == "-" || s.isEmpty then some [] else (splitOnChar s ';').mapM f

def handleLib (toks : List String) : String :=
  match (kv toks "tf").bind tfOfString, (kv toks "suffix").bind hexName,
        (kv toks "fns").bind (parseList parseFn), kv toks "vars" with
  | some tf, some suffix, some fns, some varsS =>
    let wrap := kv toks "wrap" == some "1"
    let decls : List (FnRow × FnDecl) := fns.map fun r =>
      (r, { name := r.name, canonical := mangleBytes r.cname, mangled := r.mangled })
    -- emitFns works on FnDecl; recover the rows by position
    let skipKeys := (decls.filter (·.1.skip)).map (·.2.key)
    let emitted := emitFns (fun d => skipKeys.contains d.key) (decls.map (·.2))
    let outF := emitted.map fun (d, nm) =>
      match decls.find? (fun p => p.2.key == d.key) with
      | some (r, _) =>
        let f : FnIn := { name := r.name, canonical := nm, mangled := r.mangled, linkOverride := r.link,
                          cc := r.cc, internal := r.internal, wrapStatic := wrap, suffix := suffix }
        let a := fnLinkAttr f
        -- the identifier goes through `rust_ident` = `rust_mangle` once more
        "F:" ++ showName (mangleBytes nm) ++ ":" ++ showAttr a ++ ":" ++ showName (symbolReferenced tf r.cc (mangleBytes nm) a r.argBytes)
      | none => "F:?"
    let vars := if varsS == "-" || varsS.isEmpty then some [] else
      (splitOnChar varsS ';').mapM fun s =>
        match splitOnChar s ':' with
        | [n, c, m, l] =>
          match hexName n, hexName c, optHexName m, optHexName l with
          | some n, some c, some m, some l => some (n, c, m, l)
          | _, _, _, _ => none
        | _ => none
    match vars with
    | none => "bad-vars"
    | some vars =>
      let canon := vars.map fun (_, c, _, _) => mangleBytes c
      let keep := emitVars canon
      let outV := keep.map fun c =>
        match vars.find? (fun (_, c', _, _) => mangleBytes c' == c) with
        | some (n, _, m, l) =>
          let v : VarIn := { name := n, canonical := c, mangled := m, linkOverride := l }
          let a := varLinkAttr v
          "V:" ++ showName (mangleBytes c) ++ ":" ++ showAttr a ++ ":" ++ showName (symbolReferenced tf .var (mangleBytes c) a 0)
        | none => "V:?"
      ",".intercalate outF ++ "|" ++ ",".intercalate outV
  | _, _, _, _ => "bad-lib"

/-! type terms -/

def parseNat (cs : List Char) : Nat × List Char :=
  let ds := cs.takeWhile Char.isDigit
  (ds.foldl (fun a c => a * 10 + (c.toNat - 48)) 0, cs.drop ds.length)

mutual
partial def parseTy : List Char → Option (CTy × List Char)
  | 'v' :: r => some (.void, r)
  | 's' :: r => let (k, r) := parseNat r; some (.scalar k, r)
  | 'c' :: r => let (k, r) := parseNat r; some (.comp k, r)
  | 'a' :: r =>
    let (k, r) := parseNat r
    match r with
    | '(' :: r => match parseTy r with
      | some (t, ')' :: r) => some (.alias k t, r)
      | _ => none
    | _ => none
  | 'p' :: b :: '(' :: r => match parseTy r with
    | some (t, ')' :: r) => some (.ptr (b == '1') t, r)
    | _ => none
  | 'r' :: b :: ',' :: r =>
    let (n, r) := parseNat r
    match r with
    | '(' :: r => match parseTy r with
      | some (t, ')' :: r) => some (.array (b == '1') t n, r)
      | _ => none
    | _ => none
  | 'f' :: v :: d :: '(' :: r => match parseTy r with
    | some (ret, r) => match parseArgs r with
      | some (as, ')' :: r) => some (.func ret as (v == '1') (d == '1'), r)
      | _ => none
    | none => none
  | _ => none
partial def parseArgs : List Char → Option (CTys × List Char)
  | ';' :: c :: r => match parseTy r with
    | some (t, r) => match parseArgs r with
      | some (rest, r) => some (.cons (c == '1') t rest, r)
      | none => none
    | none => none
  | r => some (.nil, r)
end

mutual
partial def showR : RustTy → String
  | .cvoid => "V"
  | .unit => "U"
  | .never => "N"
  | .prim k => "P" ++ toString k
  | .path k => "C" ++ toString k
  | .alias k _ => "A" ++ toString k
  | .rptr c t => (if c then "*c(" else "*m(") ++ showR t ++ ")"
  | .rarray t n => "[" ++ showR t ++ ";" ++ toString n ++ "]"
  | .optFn r as v => "O" ++ (if v then "1" else "0") ++ "(" ++ showR r ++ showRs as ++ ")"
partial def showRs : RustTys → String
  | .nil => ""
  | .cons t rest => ";" ++ showR t ++ showRs rest
end

def handleLower (toks : List String) : String :=
  match toks with
  | [mode, term] =>
    match mode.toList, parseTy term.toList with
    | ['p', c], some (t, []) => showR (lowerParam (c == '1') t)
    | ['r', d], some (t, []) => showR (lowerRet (d == '1') t)
    | _, _ => "bad-term"
  | _ => "bad-lower"

def featOfString (s : String) : Option AbiFeature :=
  if s == "thiscall_abi" then some .thiscall_abi else if s == "vectorcall_abi" then some .vectorcall_abi
  else if s == "c_unwind_abi" then some .c_unwind_abi else if s == "abi_efiapi" then some .abi_efiapi else none

def handleAbi (toks : List String) : String :=
  let ovs : Option (List (Generated.Abi × Bool)) := match kv toks "ovs" with
    | none => some []
    | some s => if s == "-" then some [] else (splitOnChar s ',').mapM fun p =>
        match splitOnChar p '.' with
        | [a, b] => (abiOfString a).map fun a => (a, b == "1")
        | _ => none
  let clang : Option ClangAbi := match kv toks "clang" with
    | some "unknown" => some .unknown
    | some s => (abiOfString s).map .known
    | none => none
  let feats : List AbiFeature := match kv toks "feats" with
    | some s => (splitOnChar s ',').filterMap featOfString
    | none => []
  match ovs, clang with
  | some ovs, some clang =>
    match sigAbi ovs (fun f => feats.contains f) (kv toks "variadic" == some "1") clang with
    | none => "unsupported"
    | some .unknown => "unknown"
    | some (.known a) => String.ofList (Abi.display a)
  | _, _ => "bad-abi"

def natKV (toks : List String) (k : String) : Option Nat := (kv toks k).bind String.toNat?

def handleSig (toks : List String) : String :=
  let mk := fun (base n : Nat) => (List.range n).map fun i => ((none : Option String), base + i)
  let targs : Option (List Nat) := match kv toks "targs" with
    | some "-" => none
    | some s => s.toNat?.map fun n => (List.range n).map (100 + ·)
    | none => none
  match natKV toks "cur", natKV toks "kids", natKV toks "tycc" with
  | some cur, some kids, some tycc =>
    let site : FnSig.Site := { typeArgs := targs, declLike := kv toks "decl" == some "1", cursorArgs := mk 200 cur, parmChildren := mk 300 kids }
    let guardedArgs := fnSigCursorArgsGuard && fnSigChildrenGuard
    let tys := (FnSig.args guardedArgs site).map (·.2)
    let pointee : Option (Nat × Bool) := (natKV toks "pcc").map fun c => (c, kv toks "same" == some "1")
    let cc := FnSig.callConv fnSigSameLevelGuard 100 tycc pointee
    s!"types={",".intercalate (tys.map toString)} cc={cc}"
  | _, _, _ => "bad-sig"

def handle (toks : List String) : String :=
  match toks with
  | "sig" :: rest => handleSig rest
  | "ni" :: cc :: c :: m :: _ =>
    match ccOfString cc, hexName c, hexName m with
    | some cc, some c, some m => if namesIdentical c m cc then "1" else "0"
    | _, _, _ => "bad-ni"
  | "lib" :: rest => handleLib rest
  | "lower" :: rest => handleLower rest
  | "abi" :: rest => handleAbi rest
  | "mangle" :: n :: _ => match hexName n with
    | some n => showName (mangleBytes n)
    | none => "bad-mangle"
  | _ => "bad-op"

end BindgenModel.Driver.C04
