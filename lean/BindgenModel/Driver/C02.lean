import BindgenModel.Model.Util
import BindgenModel.Model.LayoutRegions
/-! Line protocol for the layout models (C02).

* `lay alignto <size> <align>` → `<n>`
* `lay forsize <ptr> <size>` → `<size>,<align>`
* `lay blob <size> <align> <ffi 0|1>` → `<type> <size> <align>`
* `lay comp union=0|1 layout=S,A|- pattr=0|1 ovirt=0|1 vptr=0|1 opaque=0|1 fwd=0|1 zs=0|1 copy=0|1
   force=0|1 ptr=N untagged=0|1 style=w|m u64a=N bases=-|S,A;-;…
   fields=-|d:S,A|-:OFF|-:ES,EA,LEN|-,LEN|-;u:NTH:S,A:BITSEND:STARTBITS|-;…`
  → `emit <struct|union> packed=-|N align=-|N fields=<name>:<size>:<align>:<blob|->,… ispacked=0|1 inexact=0|1 reprc <size> <align> offs=<idx>:<off>,…`
  or `emit panic` / `emit … reprc reject`.
-/
namespace BindgenModel.Driver.C02
open BindgenModel.Util BindgenModel.Layout BindgenModel.StructLayout BindgenModel.CompCodegen

def parseLayout (s : String) : Option (Option Layout) :=
  if s == "-" then some none else
  match s.splitOn "," with
  | [a, b] => match a.toNat?, b.toNat? with
    | some a, some b => some (some { size := a, align := b })
    | _, _ => none
  | _ => none

def parseOptNat (s : String) : Option (Option Nat) :=
  if s == "-" then some none else s.toNat?.map some

def parseArr (s : String) : Option (Option (Option Layout × Nat)) :=
  if s == "-" then some none else
  match s.splitOn "," with
  | [a, b, n] => match a.toNat?, b.toNat?, n.toNat? with
    | some a, some b, some n => some (some (some { size := a, align := b }, n))
    | _, _, _ => none
  | ["-", n] => n.toNat?.map fun n => some (none, n)
  | _ => none

def parseField (s : String) : Option CField :=
  match s.splitOn ":" with
  | ["d", lay, off, arr] =>
    match parseLayout lay, parseOptNat off, parseArr arr with
    | some l, some o, some a => some (.data { layout := l, array := a } o)
    | _, _, _ => none
  | ["d", lay, off, arr, ca] =>
    match parseLayout lay, parseOptNat off, parseArr arr with
    | some l, some o, some a => some (.data { layout := l, array := a, containsAlign := ca == "1" } o)
    | _, _, _ => none
  | ["u", nth, lay] =>
    match nth.toNat?, parseLayout lay with
    | some n, some (some l) => some (.unit n l (8 * l.size) none)
    | _, _ => none
  | ["u", nth, lay, e] =>
    match nth.toNat?, parseLayout lay, e.toNat? with
    | some n, some (some l), some e => some (.unit n l e none)
    | _, _, _ => none
  | ["u", nth, lay, e, st] =>
    match nth.toNat?, parseLayout lay, e.toNat?, parseOptNat st with
    | some n, some (some l), some e, some st => some (.unit n l e st)
    | _, _, _, _ => none
  | _ => none

def parseList {α} (f : String → Option α) (s : String) : Option (List α) :=
  if s == "-" then some [] else (s.splitOn ";").mapM f

def bool (toks : List String) (k : String) : Bool := kv toks k == some "1"

def optNatS : Option Nat → String
  | none => "-"
  | some n => toString n

def renderField (f : RField) : String :=
  f.name.render ++ ":" ++ toString f.size ++ ":" ++ toString f.align ++ ":" ++
    (match f.blob with | some b => b.render | none => "-")

def renderAgg (r : RustAgg) : String :=
  (if r.isUnion then "union" else "struct") ++ " packed=" ++ optNatS r.packed ++ " align=" ++ optNatS r.align ++
    " fields=" ++ (if r.fields.isEmpty then "-" else ",".intercalate (r.fields.map renderField))

def renderLayout (l : RLayout) : String :=
  toString l.size ++ " " ++ toString l.align ++ " offs=" ++
    (let u := l.userOffsets; if u.isEmpty then "-" else ",".intercalate (u.map fun (i, o) => toString i ++ ":" ++ toString o)) ++
    " uoffs=" ++
    (let u := l.offsets.filterMap fun (n, o) => match n with | .unit k => some (toString k ++ ":" ++ toString o) | _ => none
     if u.isEmpty then "-" else ",".intercalate u)

def handleComp (toks : List String) : String :=
  match (kv toks "layout").bind parseLayout, (kv toks "bases").bind (parseList parseLayout),
        (kv toks "fields").bind (parseList parseField) with
  | some lay, some bases, some fields =>
    let o : Opts := { forcePadding := bool toks "force", ptrSize := (kvNat toks "ptr").getD 8,
                      untaggedUnion := bool toks "untagged",
                      unionStyle := if kv toks "style" == some "m" then .manuallyDrop else .bindgenWrapper,
                      u64Align := (kvNat toks "u64a").getD 8 }
    let c : CAgg := { isUnion := bool toks "union", layout := lay, packedAttr := bool toks "pattr", fields := fields,
                      hasOwnVirtual := bool toks "ovirt", hasVtablePtr := bool toks "vptr", bases := bases,
                      isOpaque := bool toks "opaque", forwardDecl := bool toks "fwd", zeroSized := bool toks "zs",
                      allCanCopy := bool toks "copy" }
    match emit o c with
    | none => "emit panic"
    | some r => "emit " ++ renderAgg r ++ " ispacked=" ++ (if c.isPacked then "1" else "0") ++
        " inexact=" ++ (if hasInexactPad r then "1" else "0") ++
        " regions=" ++ (let rs := regionNames c r; if rs.isEmpty then "-" else "+".intercalate rs) ++ " reprc " ++ (match reprC r with | some l => renderLayout l | none => "reject")
  | _, _, _ => "bad-op"

def handle (toks : List String) : String :=
  match toks with
  | ["alignto", s, a] => match s.toNat?, a.toNat? with
    | some s, some a => toString (alignTo s a)
    | _, _ => "bad-op"
  | ["forsize", p, s] => match p.toNat?, s.toNat? with
    | some p, some s => let l := forSize p s; toString l.size ++ "," ++ toString l.align
    | _, _ => "bad-op"
  | ["blob", s, a, f] => match s.toNat?, a.toNat? with
    | some s, some a => let b := blob { size := s, align := a } (f == "1"); b.render ++ " " ++ toString b.size ++ " " ++ toString b.align
    | _, _ => "bad-op"
  | "comp" :: rest => handleComp rest
  | _ => "bad-op"

end BindgenModel.Driver.C02
