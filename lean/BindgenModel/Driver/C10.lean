import BindgenModel.Model.Util
import BindgenModel.Model.Blocklist
import BindgenModel.Driver.C09
/-! Line protocol for the blocklist / opaque model (first token `blk`).

* `blk blob <size> <align> <ffi_safe 0|1> <namespaces 0|1>` → `<type text> <size> <align>` |
  `<type text> rustc-rejects` | `panic`
* `blk struct <size> <align> <has_bitfields 0|1>` → `<repr(align) value> <align-by-field 0|1> <size> <align>` | `panic` | `… rustc-rejects`
* `blk forsize <ptr_size> <size>` → `<size> <align>`
* `blk items bt=<P> bf=<P> bv=<P> bi=<P> bfile=<P> ot=<P> items=<I;…>` with
  `I = id:cls:hide:ann_opaque:file:name:self_opaque:via:inst` (`via` = id or `-`, `inst` = hex or `-`)
  → `blocked=<ids> opaque=<ids>` -/
namespace BindgenModel.Driver.C10
open BindgenModel.Util BindgenModel.Blocklist BindgenModel.Regex BindgenModel.Generated
open BindgenModel.Driver.C09 (hexToString? splitNonEmpty parseSet parseCls idsToString SetErr)

def parseBItem (s : String) : Option BItem :=
  match splitOnChar s ':' with
  | [id, cls, hide, ann, file, name, selfop, via, inst] => do
    let id ← id.toNat?
    let cls ← parseCls cls
    let file ← (if file == "-" then some none else (hexToString? file).map (fun f => some f.toList))
    let name ← hexToString? name
    let via ← (if via == "-" then some none else via.toNat?.map some)
    let inst ← (if inst == "-" then some none else (hexToString? inst).map (fun f => some f.toList))
    some { id := id, cls := cls, hide := hide == "1", annOpaque := ann == "1", file := file,
           name := name.toList, selfOpaque := selfop == "1", via := via, instName := inst }
  | _ => none

def handleItems (toks : List String) : String :=
  let get (k : String) : String := (kv toks k).getD "-"
  let sets := do
    let t ← parseSet (get "bt")
    let f ← parseSet (get "bf")
    let v ← parseSet (get "bv")
    let i ← parseSet (get "bi")
    let fl ← parseSet (get "bfile")
    let ot ← parseSet (get "ot")
    pure (t, f, v, i, fl, ot)
  match sets with
  | .error (.unsupported p) => "unsupported-pattern " ++ p
  | .error (.bad w) => "bad-req " ++ w
  | .ok (t, f, v, i, fl, ot) =>
  let o : BlockOptions := { types := t, functions := f, vars := v, files := fl, items := i, opaqueTypes := ot }
  match (splitNonEmpty (get "items") ';').mapM parseBItem with
  | none => "bad-req items"
  | some items =>
  let maxId := (items.map (·.id)).foldl max 0
  let arr : Array (Option BItem) := items.foldl (fun a it => a.set! it.id (some it)) (Array.replicate (maxId + 1) none)
  let lookup : Nat → Option BItem := fun i => (arr.getD i none)
  let blocked := (items.filter (isBlocklisted o)).map (·.id)
  let opq := (items.filter (fun it => isOpaque o lookup items.length it)).map (·.id)
  "blocked=" ++ idsToString blocked ++ " opaque=" ++ idsToString opq

def handle (toks : List String) : String :=
  match toks with
  | ["blob", size, align, ffi, ns] =>
    match size.toNat?, align.toNat? with
    | some s, some a =>
      match blob ⟨s, a⟩ (ffi == "1") with
      | none => "panic"
      | some ty =>
        match reprC ty with
        | some (rs, ra) => ty.render (ns == "1") ++ " " ++ toString rs ++ " " ++ toString ra
        | none => ty.render (ns == "1") ++ " rustc-rejects"
    | _, _ => "bad-req"
  | ["struct", size, align, hb] =>
    match size.toNat?, align.toNat? with
    | some s, some a =>
      match emitOpaque ⟨s, a⟩ (hb == "1") with
      | none => "panic"
      | some st =>
        let head := toString st.explicitAlign ++ " " ++ (if st.alignByField then "1" else "0")
        match st.reprC with
        | some (rs, ra) => head ++ " " ++ toString rs ++ " " ++ toString ra
        | none => head ++ " rustc-rejects"
    | _, _ => "bad-req"
  | ["forsize", p, s] =>
    match p.toNat?, s.toNat? with
    | some p, some s => let l := forSizeInternal p s; toString l.size ++ " " ++ toString l.align
    | _, _ => "bad-req"
  | "items" :: rest => handleItems rest
  | _ => "bad-op"

end BindgenModel.Driver.C10
