import BindgenModel.Model.Derives
import BindgenModel.Driver.C07
/-! `irderives`: for every allow-listed compound type of the loaded IR, the derive list and the
hand-written impls `CompInfo::codegen` emits, for `packed = false | true`:
`irderives <id>:<derives,p=0>|<derives,p=1>:<impls,p=0>|<impls,p=1> …` -/
namespace BindgenModel.Driver.C08
open BindgenModel.IR BindgenModel.Analyses BindgenModel.Derives BindgenModel.Generated BindgenModel.Driver.C07

def lookups (g : IR) : Lookups :=
  let s := solveBase g
  let cx := ctxOf s
  let dv := fun (t : DeriveTrait) => (deriveInstance g cx t).solve g.size
  let dbg := if g.opts.deriveDebug then dv .debug else #[]
  let dfl := if g.opts.deriveDefault then dv .default else #[]
  let cpy := dv .copy
  let hsh := if g.opts.deriveHash then dv .hash else #[]
  let peq := if g.opts.derivePartialord || g.opts.derivePartialeq || g.opts.deriveEq then dv .partialEqOrPartialOrd else #[]
  let tpa := (hasTypeParamInArrayInstance g).solve g.size
  let flt := if g.opts.deriveEq || g.opts.deriveOrd then (hasFloatInstance g).solve g.size else #[]
  { canDebug := fun n => dbg.getD n 0 == 0, canDefault := fun n => dfl.getD n 0 == 0,
    canCopyRaw := fun n => cpy.getD n 0 == 0, canHash := fun n => hsh.getD n 0 == 0,
    partialEq := fun n => peq.getD n 0, hasTypeParamInArray := fun n => tpa.getD n 0 != 0,
    hasFloat := fun n => flt.getD n 0 != 0 }

def showDerives (l : List Trait) : String := if l.isEmpty then "-" else ",".intercalate (l.map Trait.name)

def showImpls (m : ManualImpls) : String :=
  let parts := (if m.debug then ["Debug"] else []) ++ (if m.default then ["Default"] else []) ++
    (if m.clone then ["Clone"] else []) ++ (if m.partialEq then ["PartialEq"] else [])
  if parts.isEmpty then "-" else ",".intercalate parts

def derives (g : IR) : String :=
  if g.opts.callbacks != 0 then "irderives skipped=callbacks" else
  let L := lookups g
  let comps := g.allowlisted.filter fun n => (g.get n).kind == .type && (g.get n).tk == .comp
  let parts := comps.map fun n =>
    let i := g.get n
    let a : Ann := { noCopy := i.annNoCopy, noDebug := i.annNoDebug, noDefault := i.annNoDefault }
    let d := fun p => showDerives (compDerives g.opts L a p i.fwd n)
    let m := fun p => showImpls (manualImpls g.opts L a p i.fwd (i.nbn.getD 1 false) (i.nbn.getD 2 false) n)
    s!"{n}:{d false}|{d true}:{m false}|{m true}"
  "irderives " ++ " ".intercalate parts

end BindgenModel.Driver.C08
