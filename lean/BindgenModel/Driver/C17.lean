import BindgenModel.Model.Util
import BindgenModel.Model.Depfile
import BindgenModel.Model.Includes
import BindgenModel.Generated.DepfileEscape
/-! Line protocol for C17 (first token `c17` is consumed by Main; the second selects the sub-model).

Strings travel as lower-case hex of their UTF-8 bytes (`-` = empty string); lists are
comma-separated (`.` = empty list).

* `dep table`                      → `current` | `fixed` | `other`
* `dep str <tgt> <deps>`           → hex of `DepfileSpec::to_string`
* `dep parse <text>`               → `none` | `T=<list> D=<list>`      (make's reading)
* `dep rt <tgt> <deps>`            → `text=<hex> <parse answer> ok=<0|1> rh=<0|1> rd=<0|1> rb=<0|1>`
* `inc fuel=N cwd=D q=<dirs> I=<dirs> S=<dirs> fs=<d:n:f,…> files=<dir:g:body;…> inputs=<ids> virt=<body;…>`
      → `error` | `entered=<ids> reported=<ids>`
* `cargo rerun=<0|1> target=<hex|none> set=<keys> inputs=<names> reported=<names>` → list of lines -/
namespace BindgenModel.Driver.C17
open BindgenModel.Util BindgenModel.Depfile BindgenModel.Includes

def tbl : List (Char × List Char) := BindgenModel.Generated.DepfileEscape.escapeTable

def hexToStr (s : String) : Option (List Char) :=
  if s == "-" then some [] else
  match parseHexBytes s with
  | some bs => (String.fromUTF8? (ByteArray.mk (bs.map (fun b => b.toNat.toUInt8)).toArray)).map String.toList
  | none => none

def strToHex (cs : List Char) : String :=
  if cs.isEmpty then "-" else
  String.join ((String.ofList cs).toUTF8.toList.map (fun b => hexByte (BitVec.ofNat 8 b.toNat)))

def hexList (s : String) : Option (List (List Char)) :=
  if s == "." then some [] else (splitOnChar s ',').mapM hexToStr

def listHex (l : List (List Char)) : String :=
  if l.isEmpty then "." else ",".intercalate (l.map strToHex)

def natList (s : String) : Option (List Nat) :=
  if s == "." || s == "" then some [] else (splitOnChar s ',').mapM String.toNat?

def natsOut (l : List Nat) : String :=
  if l.isEmpty then "." else ",".intercalate (l.map toString)

def parseAnswer : Option (List (List Char) × List (List Char)) → String
  | none => "none"
  | some (t, d) => "T=" ++ listHex t ++ " D=" ++ listHex d

def b01 (b : Bool) : String := if b then "1" else "0"

def handleDep (toks : List String) : String :=
  match toks with
  | ["table"] => if tbl = tblCurrent then "current" else if tbl = tblFixed then "fixed" else "other"
  | ["str", t, d] =>
    match hexToStr t, hexList d with
    | some t, some d => strToHex (toStringWith tbl t d)
    | _, _ => "bad-arg"
  | ["parse", x] =>
    match hexToStr x with
    | some x => parseAnswer (makeParse x)
    | none => "bad-arg"
  | ["rt", t, d] =>
    match hexToStr t, hexList d with
    | some t, some d =>
      let text := toStringWith tbl t d
      let all := t :: d
      "text=" ++ strToHex text ++ " " ++ parseAnswer (makeParse text) ++ " ok=" ++ b01 (roundTrips tbl t d) ++
        " rh=" ++ b01 (all.any (regionHash tbl)) ++ " rd=" ++ b01 (all.any (regionDollar tbl)) ++
        " rb=" ++ b01 (all.any regionBackslash)
    | _, _ => "bad-arg"
  | _ => "bad-op"

/-! include-DAG requests -/

def parseNatPrefix : List Char → Nat → Option (Nat × List Char)
  | c :: t, acc => if c.isDigit then
      match parseNatPrefix t (acc * 10 + (c.toNat - '0'.toNat)) with
      | some r => some r
      | none => some (acc * 10 + (c.toNat - '0'.toNat), t)
    else none
  | [], _ => none

/-- body := `-` | item (`,` item)* ; item := `q`N | `a`N | `T(` body `)` | `F(` body `)` -/
def parseItems : Nat → List Char → Option (List Dir × List Char)
  | 0, _ => none
  | fuel + 1, cs =>
    let item : Option (Dir × List Char) :=
      match cs with
      | 'q' :: t => (parseNatPrefix t 0).map (fun (n, r) => (Dir.incl false n, r))
      | 'a' :: t => (parseNatPrefix t 0).map (fun (n, r) => (Dir.incl true n, r))
      | 'T' :: '(' :: t =>
        match parseItems fuel t with
        | some (b, ')' :: r) => some (Dir.cond true b, r)
        | _ => none
      | 'F' :: '(' :: t =>
        match parseItems fuel t with
        | some (b, ')' :: r) => some (Dir.cond false b, r)
        | _ => none
      | _ => none
    match cs with
    | '-' :: r => some ([], r)
    | _ =>
      match item with
      | none => none
      | some (d, ',' :: r) => (parseItems fuel r).map (fun (ds, r') => (d :: ds, r'))
      | some (d, r) => some ([d], r)

def parseBody (s : String) : Option (List Dir) :=
  match parseItems (s.length + 2) s.toList with
  | some (b, []) => some b
  | _ => none

def parseGuard : String → Option Guard
  | "n" => some .none | "g" => some .ifndef | "o" => some .once | _ => none

def parseFile (s : String) : Option FileInfo :=
  match splitOnChar s ':' with
  | [d, g, b] => match d.toNat?, parseGuard g, parseBody b with
    | some d, some g, some b => some { dir := d, guard := g, body := b }
    | _, _, _ => none
  | _ => none

def parseFsEntry (s : String) : Option (Nat × Nat × Nat) :=
  match (splitOnChar s ':').map String.toNat? with
  | [some d, some n, some f] => some (d, n, f)
  | _ => none

def handleInc (toks : List String) : String :=
  let files := match kv toks "files" with
    | some "." => some []
    | some s => (splitOnChar s ';').mapM parseFile
    | none => none
  let fs := match kv toks "fs" with
    | some "." => some []
    | some s => (splitOnChar s ',').mapM parseFsEntry
    | none => none
  let virt := match kv toks "virt" with
    | some "." => some []
    | some s => (splitOnChar s ';').mapM parseBody
    | none => none
  match kvNat toks "fuel", kvNat toks "cwd", (kv toks "q").bind natList, (kv toks "I").bind natList,
        (kv toks "S").bind natList, fs, files, (kv toks "inputs").bind natList, virt with
  | some fuel, some cwd, some q, some i, some s, some fs, some files, some inputs, some virt =>
    let cfg : Cfg := { files := files, fs := fs, quoteDirs := q, iDirs := i, sysDirs := s }
    match run cfg fuel (initial cwd inputs virt) {} with
    | none => "error"
    | some st => "entered=" ++ natsOut st.entered ++ " reported=" ++ natsOut st.reported
  | _, _, _, _, _, _, _, _, _ => "bad-arg"

def handleCargo (toks : List String) : String :=
  let target := match kv toks "target" with
    | some "none" => some none
    | some h => (hexToStr h).map some
    | none => none
  match kv toks "rerun", target, (kv toks "set").bind hexList, (kv toks "inputs").bind hexList,
        (kv toks "reported").bind hexList with
  | some r, some target, some set, some inputs, some reported =>
    listHex (cargoLines (r == "1") (generateEvents target (fun k => set.contains k) inputs reported))
  | _, _, _, _, _ => "bad-arg"

/-- `c17 dep …` | `c17 inc …` | `c17 cargo …` -/
def handle (toks : List String) : String :=
  match toks with
  | "dep" :: rest => handleDep rest
  | "inc" :: rest => handleInc rest
  | "cargo" :: rest => handleCargo rest
  | _ => "bad-op"

end BindgenModel.Driver.C17
