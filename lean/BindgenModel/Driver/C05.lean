import BindgenModel.Model.Util
import BindgenModel.Model.ConstEmit
import BindgenModel.Model.CRegions
/-! Line protocol of C05.

`c05 m sg=<0|1> fit=<0|1> fb=<0|1> cstr=<0|1> NAME=<expr> NAME=<expr> …`  (definitions in header order)
  answer: one item per definition, space separated,
  `NAME|<cexpr outcome>|<emitted constant or - or dup>|<C value of NAME at end of header>|<regions>`

`<expr>` is a comma separated prefix encoding:
  `i:<literal text>`  `f:<n|f|l>:<hex f64 bits>:<hex f32 bits>:<dot-and-exponent 0|1>`  `c:<pre>:<code>`  `s:<pre>:<hex bytes or ->`
  `n:<name>`  `p`(1)  `u+ u- u~ u!`(1)  `b<op>`(2)  `?`(3)  `k:<ty>`(1)  `z:<ty>`  `j`(2)

`c05 e style=<…> tr=<0|1> ty=<cty|wchar> NAME=<int> …` → `repr=<name>,<bits>,<signed> region=<-|b|w> NAME=lit:<text>|alias:<target> …`
`c05 v ty=<cty|wchar> v=<int>` → `<rust type>:<literal> region=<-|w>`
`c05 k sg=<0|1> fit=<0|1> v=<int>` → kind name
-/
namespace BindgenModel.Driver.C05
open BindgenModel.Util BindgenModel.CExpr BindgenModel.ConstEmit BindgenModel.MacroKind BindgenModel.Generated

def parseTy (s : String) : Option CTy :=
  match s with
  | "bool" => some .bool | "char" => some .char | "schar" => some .schar | "uchar" => some .uchar
  | "short" => some .short | "ushort" => some .ushort | "int" => some .int | "uint" => some .uint
  | "long" => some .long | "ulong" => some .ulong | "llong" => some .llong | "ullong" => some .ullong
  | "float" => some .float | "double" => some .double | "ldouble" => some .ldouble
  | _ => none

def tyName : CTy → String
  | .bool => "bool" | .char => "char" | .schar => "schar" | .uchar => "uchar"
  | .short => "short" | .ushort => "ushort" | .int => "int" | .uint => "uint"
  | .long => "long" | .ulong => "ulong" | .llong => "llong" | .ullong => "ullong"
  | .float => "float" | .double => "double" | .ldouble => "ldouble"

def parsePre (s : String) : Option Pre :=
  match s with
  | "n" => some .none | "L" => some .L | "u8" => some .u8 | "u" => some .u | "U" => some .U
  | _ => none

def preName : Pre → String
  | .none => "n" | .L => "L" | .u8 => "u8" | .u => "u" | .U => "U"

def parseBinOp (s : String) : Option BinOp :=
  match s with
  | "*" => some .mul | "/" => some .div | "%" => some .rem | "+" => some .add | "-" => some .sub
  | "<<" => some .shl | ">>" => some .shr | "<" => some .lt | ">" => some .gt | "<=" => some .le
  | ">=" => some .ge | "==" => some .eq | "!=" => some .ne | "&" => some .band | "^" => some .bxor
  | "|" => some .bor | "&&" => some .land | "||" => some .lor
  | _ => none

def bytesOfHex (s : String) : Option (List Nat) :=
  if s = "-" then some [] else (parseHexBytes s).map fun l => l.map BitVec.toNat

def hexOfBytes (b : List Nat) : String :=
  if b.isEmpty then "-" else hexBytes (b.map fun n => BitVec.ofNat 8 n)

partial def parseE (toks : List String) : Option (Expr × List String) :=
  match toks with
  | [] => none
  | t :: rest =>
    let parts := t.splitOn ":"
    match parts with
    | ["i", text] =>
      (match parseCInt text.toList with
       | some (dec, n, suf) => some (.int dec n suf, rest)
       | none => none)
    | ["f", suf, b64, b32, de] =>
      (match parseHexNat b64, parseHexNat b32 with
       | some x, some y =>
         let s : Option FSuffix := match suf with | "n" => some .none | "f" => some .f | "l" => some .l | _ => none
         s.map fun s => (.flt s x y (de == "1"), rest)
       | _, _ => none)
    | ["c", pre, code] =>
      (match parsePre pre, code.toNat? with
       | some p, some c => some (.chr p c, rest)
       | _, _ => none)
    | ["s", pre, hex] =>
      (match parsePre pre, bytesOfHex hex with
       | some p, some b => some (.str p b, rest)
       | _, _ => none)
    | ["n", name] => some (.ident name, rest)
    | ["p"] => (parseE rest).map fun (e, r) => (.paren e, r)
    | ["u+"] => (parseE rest).map fun (e, r) => (.un .plus e, r)
    | ["u-"] => (parseE rest).map fun (e, r) => (.un .neg e, r)
    | ["u~"] => (parseE rest).map fun (e, r) => (.un .bnot e, r)
    | ["u!"] => (parseE rest).map fun (e, r) => (.un .lnot e, r)
    | ["?"] =>
      (match parseE rest with
       | some (c, r1) =>
         (match parseE r1 with
          | some (a, r2) => (parseE r2).map fun (b, r3) => (.cond c a b, r3)
          | none => none)
       | none => none)
    | ["j"] =>
      (match parseE rest with
       | some (a, r1) => (parseE r1).map fun (b, r2) => (.cat a b, r2)
       | none => none)
    | ["k", ty] =>
      (match parseTy ty with
       | some ty => (parseE rest).map fun (e, r) => (.cast ty e, r)
       | none => none)
    | ["z", ty] => (parseTy ty).map fun ty => (.sizeofTy ty, rest)
    | _ =>
      if t.startsWith "b" then
        match parseBinOp (t.drop 1).toString with
        | some op =>
          (match parseE rest with
           | some (a, r1) => (parseE r1).map fun (b, r2) => (.bin op a b, r2)
           | none => none)
        | none => none
      else none

def parseDef (tok : String) : Option (String × Expr) :=
  match tok.splitOn "=" with
  | name :: restParts =>
    -- the encoding may itself contain '=' (`b==`, `b<=`, …): re-join
    let enc := "=".intercalate restParts
    (match parseE (enc.splitOn ",") with
     | some (e, []) => some (name, e)
     | _ => none)
  | _ => none

def fltText (bits : Nat) : String := if isNaN64 bits then "nan" else hexNat 16 bits

def outcomeText : Outcome → String
  | .ok (.int v) => s!"int:{v}"
  | .ok (.flt b) => s!"flt:{fltText b}"
  | .ok (.chr c) => s!"chr:{c}"
  | .ok (.str b) => s!"str:{hexOfBytes b}"
  | .fail => "fail"
  | .panic => "panic"
  | .unmodelled => "unmodelled"

def emitText : Emit → String
  | .int ty lit => s!"{ty}:{String.ofList lit}"
  | .chr c => s!"u8:{c}u8"
  | .fltFinite ty b => s!"{ty}:{hexNat 16 b}"
  | .fltNaN ty => s!"{ty}:nan"
  | .fltInf ty neg => if neg then s!"{ty}:-inf" else s!"{ty}:inf"
  | .bytes bs => s!"str:{hexOfBytes bs}"
  | .cstr bs => s!"cstr:{hexOfBytes bs}"

def cvalText : Option CVal → String
  | some (.int t v) => s!"i:{tyName t}:{v}"
  | some (.flt t b) =>
    if t = .float then (if (f32 b).isNaN then s!"f:float:nan" else s!"f:float:{hexNat 8 b}")
    else s!"f:{tyName t}:{fltText b}"
  | some (.str p b _) => s!"s:{preName p}:{hexOfBytes b}"
  | none => "none"

def flagsText (f : Flags) : String :=
  let s := (if f.u then "u" else "") ++ (if f.c then "c" else "") ++ (if f.r then "r" else "") ++
    (if f.f then "f" else "") ++ (if f.w then "w" else "") ++ (if f.p then "p" else "")
  if s.isEmpty then "-" else s

/-- result of evaluating each definition's own body in the final C environment
(only used to tell `ub` from `bad` for names that have no final value) -/
def cOwn (env : CEnv) (body : Expr) : String :=
  match cEval env body with
  | .val _ => "val"
  | .ub => "ub"
  | .bad => "bad"

def handleMacros (toks : List String) : String :=
  let o : MOpts := ⟨kv toks "sg" == some "1", kv toks "fit" == some "1"⟩
  let defToks := toks.filter fun t => !(t.startsWith "sg=" || t.startsWith "fit=" || t.startsWith "fb=" || t.startsWith "cstr=")
  let parsed := defToks.map parseDef
  if parsed.any Option.isNone then "bad-expr" else
  let defs := parsed.filterMap id
  let fe := cFinal defs
  let cenv := fe.all
  let fb : String → Option Int := fun n =>
    if kv toks "fb" == some "1" then
      match clookup cenv n with
      | some (.int _ v) => some (wrap64 v)
      | _ => none
    else none
  let steps := processDefs fb [] defs
  let tenv := tenvOf cenv
  let nf := nameFlags tenv defs
  let items := (defs.zip steps).map fun ((name, body), (_, st)) =>
    let charPanic := match st.outcome with | .ok (.chr c) => decide (c ≥ 256) | _ => false
    let oc := if charPanic then "panic" else outcomeText st.outcome
    let em := match st.outcome, st.emitted with
      | .ok _, none => "dup"
      | _, some r => (match emitMacroC o (kv toks "cstr" == some "1") r with | some e => emitText e | none => "nokind")
      | _, none => "-"
    let cv := match clookup cenv name with
      | some v => cvalText (some v)
      | none => (match lastBody defs name with | some b => cOwn fe.operand b | none => "none")
    s!"{name}|{oc}|{em}|{cv}|{flagsText (defFlags tenv defs nf name body)}"
  " ".intercalate items

def parseStyle (s : String) : Option EStyle :=
  match s with
  | "consts" => some .consts | "moduleconsts" => some .moduleConsts | "newtype" => some .newType
  | "bitfield" => some .bitfield | "newtype_global" => some .newTypeGlobal | "rust" => some .rust
  | "rust_non_exhaustive" => some .rustNonExhaustive
  | _ => none

def handleEnum (toks : List String) : String :=
  let wchar := kv toks "ty" == some "wchar"
  match (kv toks "style").bind parseStyle, (if wchar then some CTy.uint else (kv toks "ty").bind parseTy) with
  | some style, some ty =>
    let tr := kv toks "tr" == some "1"
    let vtoks := toks.filter fun t => !(t.startsWith "style=" || t.startsWith "tr=" || t.startsWith "ty=")
    let vs := vtoks.map fun t => match t.splitOn "=" with
      | [n, v] => v.toInt?.map fun i => (n, i)
      | _ => none
    if vs.any Option.isNone then "bad-variant" else
    let variants := vs.filterMap id
    let repr := enumRepr tr style ty
    let reprName := if wchar && !(tr || style.isRust) then "u32" else repr.name
    let emitted := if wchar then emitVariantsWChar style.isRust variants [] else emitEnum style ty variants
    let items := emitted.map fun i => match i with
      | .lit n l => s!"{n}=lit:{l.text}"
      | .aliasOf n target => s!"{n}=alias:{target}"
    let region := (if enumBoolTranslated tr style.isRust ty then "b" else "") ++
      (if wchar && variants.any (fun p => wcharRegion p.2) then "w" else "")
    s!"repr={reprName},{repr.bits},{if repr.signed then 1 else 0} region={if region.isEmpty then "-" else region} " ++ " ".intercalate items
  | _, _ => "bad-op"

def handleVar (toks : List String) : String :=
  if kv toks "ty" == some "wchar" then
    match (kv toks "v").bind String.toInt? with
    | some v => emitText (emitVarWChar v) ++ (if wcharRegion v then " region=w" else " region=-")
    | none => "bad-op"
  else
  match (kv toks "ty").bind parseTy, (kv toks "v").bind String.toInt? with
  | some ty, some v => emitText (emitVarInt ty v) ++ " region=-"
  | _, _ => "bad-op"

def handleKind (toks : List String) : String :=
  match (kv toks "v").bind String.toInt? with
  | some v =>
    (match macroKind ⟨kv toks "sg" == some "1", kv toks "fit" == some "1"⟩ v with
     | some k => k.rustName
     | none => "none")
  | none => "bad-op"

def handle (toks : List String) : String :=
  match toks with
  | "m" :: rest => handleMacros rest
  | "e" :: rest => handleEnum rest
  | "v" :: rest => handleVar rest
  | "k" :: rest => handleKind rest
  | _ => "bad-op"

end BindgenModel.Driver.C05
