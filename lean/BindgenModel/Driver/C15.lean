import BindgenModel.Model.Util
import BindgenModel.Model.Format
/-! Line protocol for the `write` / `format_tokens` model.

`fmt f=<none|rustfmt|prettyplease> o=<spawn|read|wait|exit> utf8=<0|1> st=<code:N|sig:N> hdr=<0|1>
 ver=<cp.cp…> raw=<cp.cp…;cp.cp…>` (texts as dot-separated decimal code points, `-` = empty, raw
lines separated by `;`, `raw=~` = no raw lines).
`fmt tc <src tokens> | <formatted tokens>` (tokens `(` `)` `,` or an interned number) answers
`equal=<0|1> region=<0|1>` (region predicate of known finding `formatter_trailing_comma`).
Answer: `<formatted|fallback> <code points of the whole output>` where the unformatted source is the
placeholder `@SRC@`, the child's stdout `@OUT@` and prettyplease's output `@PP@`. -/
namespace BindgenModel.Driver.C15
open BindgenModel.Util BindgenModel.Format

def decodeText (s : String) : String :=
  if s == "-" || s.isEmpty then "" else
  String.ofList ((s.splitOn ".").filterMap fun t => t.toNat?.map Char.ofNat)

def encodeText (s : String) : String :=
  if s.isEmpty then "-" else ".".intercalate (s.toList.map fun c => toString c.toNat)

def parseInt (s : String) : Option Int :=
  if s.startsWith "-" then (s.drop 1).toString.toNat?.map (fun n => - (Int.ofNat n)) else s.toNat?.map Int.ofNat

def parseTok (s : String) : Option Tok :=
  if s == "(" then some .opn else if s == ")" then some .cls else if s == "," then some .comma
  else s.toNat?.map Tok.other

/-- `fmt tc <src tokens> | <formatted tokens>` → `equal=<0|1> region=<0|1>` -/
def handleTc (toks : List String) : String :=
  let src := toks.takeWhile (· != "|")
  let fmt := (toks.dropWhile (· != "|")).drop 1
  match src.mapM parseTok, fmt.mapM parseTok with
  | some a, some b =>
    "equal=" ++ (if a == b then "1" else "0") ++ " region=" ++ (if regionTrailingComma a b then "1" else "0")
  | _, _ => "bad-op"

def handleWrite (toks : List String) : String :=
  let f := match kv toks "f" with
    | some "none" => some Formatter.none
    | some "rustfmt" => some Formatter.rustfmt
    | some "prettyplease" => some Formatter.prettyplease
    | _ => none
  let st := match (kv toks "st").map (·.splitOn ":") with
    | some ["code", n] => (parseInt n).map Status.code
    | some ["sig", n] => n.toNat?.map Status.signal
    | _ => none
  let utf8 := kv toks "utf8" == some "1"
  let o := match kv toks "o", st with
    | some "spawn", _ => some Outcome.spawnFailed
    | some "read", _ => some Outcome.readFailed
    | some "wait", _ => some Outcome.waitFailed
    | some "exit", some st => some (Outcome.exited (if utf8 then some "@OUT@" else none) st)
    | _, _ => none
  match f, o, kv toks "hdr", kv toks "ver", kv toks "raw" with
  | some f, some o, some hdr, some ver, some raw =>
    let rawLines := if raw == "~" then [] else (raw.splitOn ";").map decodeText
    let opts : Opts := { headerComment := hdr == "1", version := decodeText ver, rawLines := rawLines, formatter := f }
    match write (fun _ => "@PP@") opts o "@SRC@" with
    | .ok text => (match classify f o with | .formatted => "formatted" | .fallback => "fallback") ++ " " ++ encodeText text
    | .error _ => "error"
  | _, _, _, _, _ => "bad-op"

end BindgenModel.Driver.C15

namespace BindgenModel.Driver.C15
def handle (toks : List String) : String :=
  match toks with
  | "tc" :: rest => handleTc rest
  | _ => handleWrite toks
end BindgenModel.Driver.C15
