/-!
# Model of `bindgen/ir/layout.rs`, `codegen/struct_layout.rs::align_to` and `codegen/helpers.rs::blob`

Import-free, executable.  Everything is written the way the Rust is written today, including
the quirks (`blob` truncates `size / align`, `known_type_for_size(3)` does not exist, the
aligned opaque wrapper rounds its size up to its alignment).
-/
namespace BindgenModel.Layout

/-- `codegen::struct_layout::align_to` -/
def alignTo (size align : Nat) : Nat :=
  if align = 0 then size
  else if size % align = 0 then size
  else size + align - size % align

/-- `ir::layout::Layout` -/
structure Layout where
  size : Nat
  align : Nat
  packed : Bool := false
deriving DecidableEq, Repr, Inhabited

/-- `Layout::known_type_for_size`: the byte width of the `uN` returned, if any -/
def knownTypeForSize (size : Nat) : Option Nat :=
  if size = 16 ∨ size = 8 ∨ size = 4 ∨ size = 2 ∨ size = 1 then some size else none

/-- the `while size % next_align == 0 && next_align <= ptr_size { next_align *= 2 }` loop;
`fuel` bounds the number of doublings (each doubling at least adds one while `next ≤ ptr`) -/
def forSizeLoop : Nat → Nat → Nat → Nat → Nat
  | 0, _, _, next => next
  | fuel + 1, ptr, size, next =>
    if size % next = 0 ∧ next ≤ ptr then forSizeLoop fuel ptr size (next * 2) else next

/-- `Layout::for_size_internal(ptr_size, size)` -/
def forSize (ptrSize size : Nat) : Layout :=
  { size := size, align := forSizeLoop (ptrSize + 1) ptrSize size 2 / 2 }

/-- `RUST_DERIVE_IN_ARRAY_LIMIT` (ir/ty.rs) -/
def arrayLimit : Nat := 32

/-- The Rust type `helpers::blob` builds. -/
inductive BlobTy
  /-- `u8` / `u16` / `u32` (`bytes` = 1, 2, 4) -/
  | prim (bytes : Nat)
  /-- `[uE; len]` -/
  | arr (elem len : Nat)
  /-- `__BindgenOpaqueArray<[uE; len]>` (`#[repr(C)] struct …<T>(pub T)`) -/
  | opaque1 (elem len : Nat)
  /-- `__BindgenOpaqueArray{A}<[u8; size]>` (`#[repr(C, align(A))] struct …<T>(pub T)`) -/
  | opaqueA (align size : Nat)
  /-- `Layout::known_type_for_size(align).unwrap()` panics (align = 3) -/
  | panic
deriving DecidableEq, Repr, Inhabited

/-- `codegen::helpers::blob(ctx, layout, ffi_safe)` -/
def blob (l : Layout) (ffiSafe : Bool) : BlobTy :=
  let align := max l.align 1
  if align ≤ 4 then
    match knownTypeForSize align with
    | none => .panic
    | some ty =>
      let len := l.size / align
      if len = 1 then .prim ty
      else if !ffiSafe ∧ len ≤ arrayLimit then .arr ty len
      else .opaque1 ty len
  else .opaqueA align l.size

/-- size rustc gives the blob type (`uN` for N ≤ 4 has size N and alignment N on every target
bindgen supports; arrays multiply; a `repr(C, align(A))` wrapper rounds up to `A`) -/
def BlobTy.size : BlobTy → Nat
  | .prim b => b
  | .arr e n => e * n
  | .opaque1 e n => e * n
  | .opaqueA a s => alignTo s a
  | .panic => 0

def BlobTy.align : BlobTy → Nat
  | .prim b => b
  | .arr e _ => e
  | .opaque1 e _ => e
  | .opaqueA a _ => a
  | .panic => 1

def BlobTy.render : BlobTy → String
  | .prim b => s!"u{8*b}"
  | .arr e n => s!"[u{8*e};{n}]"
  | .opaque1 e n => s!"__BindgenOpaqueArray<[u{8*e};{n}]>"
  | .opaqueA a s => s!"__BindgenOpaqueArray{a}<[u8;{s}]>"
  | .panic => "panic"

end BindgenModel.Layout
