import BindgenModel.Model.Reach
/-! Blocklisting and opaque types as bindgen implements them today:

* `Item::is_blocklisted` (ir/item.rs): `hide` annotation, `--blocklist-file` on the item's location
  (for every item kind, modules included), `--blocklist-item`, the per-kind sets, replaced types;
* `IsOpaque for Item`: `opaque` annotation, type-level opacity (`TypeKind::Opaque`, resolved type
  references, template instantiations of opaque templates, compound types with non-type template
  parameters ...), `--opaque-type`;
* `Item::process_before_codegen` and the item walk of `Module::codegen` (codegen/mod.rs);
* `helpers::blob` (codegen/helpers.rs), `Layout::known_type_for_size`, `Layout::for_size_internal`
  (ir/layout.rs), the opaque path of `CompInfo::codegen`, `prepend_opaque_array_types`;
* `blocklisted_type_implements_trait` (ir/context.rs) and the derive rule for non-allow-listed items.

Executable, imports only models / generated tables. -/
namespace BindgenModel.Blocklist
open BindgenModel.Generated BindgenModel.Regex BindgenModel.Reach

/-! ### layouts and the blob -/

structure Layout where
  size : Nat
  align : Nat
  deriving Repr, DecidableEq

/-- `Layout::for_size_internal(ptr_size, size)`: the loop doubles `next_align` while it divides `size`
and is `<= ptr_size`.  `fuel` bounds the iterations (64 suffices for any `ptr_size < 2^64`). -/
def forSizeLoop (ptrSize size : Nat) : Nat → Nat → Nat
  | 0, nextAlign => nextAlign
  | f + 1, nextAlign =>
    if size % nextAlign == 0 && nextAlign ≤ ptrSize then forSizeLoop ptrSize size f (nextAlign * 2) else nextAlign

def forSizeInternal (ptrSize size : Nat) : Layout :=
  ⟨size, forSizeLoop ptrSize size 64 2 / 2⟩

/-- The Rust types `blob` can produce. -/
inductive RTy where
  /-- `u8`, `u16`, `u32`, `u64`, `u128` by byte size -/
  | uint (bytes : Nat)
  | array (elem : RTy) (len : Nat)
  /-- `__BindgenOpaqueArray<T>`: `#[repr(C)] struct(pub T)` -/
  | opaqueArray (inner : RTy)
  /-- `__BindgenOpaqueArray{align}<[u8; size]>`: `#[repr(C, align(align))] struct(pub [u8; size])` -/
  | opaqueArrayAligned (align size : Nat)
  deriving Repr, DecidableEq

/-- `Layout::known_type_for_size` -/
def knownTypeForSize (size : Nat) : Option RTy :=
  if size = 16 ∨ size = 8 ∨ size = 4 ∨ size = 2 ∨ size = 1 then some (.uint size) else none

def rustDeriveInArrayLimit : Nat := Generated.rustDeriveInArrayLimit

/-- `helpers::blob(ctx, layout, ffi_safe)`; `none` = the `unwrap()` on `known_type_for_size(align)`
panics (alignment 3). -/
def blob (l : Layout) (ffiSafe : Bool) : Option RTy :=
  let align := max l.align 1
  if align ≤ 4 then
    match knownTypeForSize align with
    | none => none
    | some ty =>
      let len := l.size / align
      if len = 1 then some ty
      else if !ffiSafe && len ≤ rustDeriveInArrayLimit then some (.array ty len)
      else some (.opaqueArray (.array ty len))
  else some (.opaqueArrayAligned align l.size)

def isPow2 (n : Nat) : Bool := n != 0 && n &&& (n - 1) == 0

def roundUp (n a : Nat) : Nat := if a = 0 then n else (n + a - 1) / a * a

/-- Specification of rustc's layout (x86_64) for the types above: `(size, align)`; `none` = rustc
rejects the type (`repr(align(N))` needs a power of two `<= 2^29`). -/
def reprC : RTy → Option (Nat × Nat)
  | .uint b => some (b, b)
  | .array e len => (reprC e).map fun (s, a) => (len * s, a)
  | .opaqueArray inner => reprC inner
  | .opaqueArrayAligned a s => if isPow2 a && a ≤ 2 ^ 29 then some (roundUp s a, a) else none

/-- token text of the type, as bindgen prints it with `--formatter none` (spaces removed) -/
def RTy.render (ns : Bool) : RTy → String
  | .uint b => "u" ++ toString (8 * b)
  | .array e len => "[" ++ e.render ns ++ ";" ++ toString len ++ "usize]"
  | .opaqueArray inner => (if ns then "root::" else "") ++ "__BindgenOpaqueArray<" ++ inner.render ns ++ ">"
  | .opaqueArrayAligned a s => (if ns then "root::" else "") ++ "__BindgenOpaqueArray" ++ toString a ++ "<[u8;" ++ toString s ++ "usize]>"

/-- What the opaque path of `CompInfo::codegen` emits for a type with layout `l`:
`#[repr(C)] #[repr(align(l.align))] struct { _bindgen_opaque_blob: blob(l, false) }`
(with bit-fields and `l.align <= 8` a zero-length `_bindgen_align: [uN; 0]` field replaces the attribute). -/
structure OpaqueStruct where
  explicitAlign : Nat
  alignByField : Bool
  blobTy : RTy
  deriving Repr, DecidableEq

def emitOpaque (l : Layout) (hasBitfields : Bool) : Option OpaqueStruct :=
  (blob l false).map fun ty => ⟨l.align, hasBitfields && l.align ≤ 8, ty⟩

/-- rustc's layout of that struct -/
def OpaqueStruct.reprC (s : OpaqueStruct) : Option (Nat × Nat) :=
  match Blocklist.reprC s.blobTy with
  | none => none
  | some (bs, ba) =>
    if s.alignByField then
      -- `[uN; 0]` with N = explicit align in {8,4,2}, else u8
      let fa := if s.explicitAlign = 8 ∨ s.explicitAlign = 4 ∨ s.explicitAlign = 2 then s.explicitAlign else 1
      let a := max fa ba
      some (roundUp bs a, a)
    else if isPow2 s.explicitAlign && s.explicitAlign ≤ 2 ^ 29 then
      let a := max s.explicitAlign ba
      some (roundUp bs a, a)
    else none

/-- the alignments `blob` / the opaque path handle exactly -/
def okAlign (a : Nat) : Bool := a = 1 || a = 2 || a = 4 || (a > 4 && isPow2 a && a ≤ 2 ^ 29)

/-! ### `is_blocklisted`, `is_opaque` -/

structure BlockOptions where
  types : RegexSet
  functions : RegexSet
  vars : RegexSet
  files : RegexSet
  items : RegexSet
  opaqueTypes : RegexSet

/-- per-item data `is_blocklisted` / `is_opaque` look at -/
structure BItem where
  id : Nat
  cls : ItemClass
  hide : Bool
  annOpaque : Bool
  file : Option (List Char)
  name : List Char
  /-- `ctx.is_replaced_type(path, id)` -/
  replaced : Bool := false
  /-- type-level opacity: `some true` = `TypeKind::Opaque` or a compound type `CompInfo::is_opaque`
  declares opaque; `some false` = no; `none` = defer to `via` -/
  selfOpaque : Bool := false
  /-- `ResolvedTypeRef(to)` / template definition of an instantiation -/
  via : Option Nat := none
  /-- for a template instantiation: `path<args>` as `TemplateInstantiation::is_opaque` builds it -/
  instName : Option (List Char) := none

/-- `Item::is_blocklisted` -/
def isBlocklisted (o : BlockOptions) (it : BItem) : Bool :=
  if it.hide then true
  else if (!o.files.isEmpty) && (match it.file with | some f => o.files.matches f | none => false) then true
  else o.items.matches it.name ||
    match it.cls with
    | .type => o.types.matches it.name || it.replaced
    | .fnFunction | .fnMethod | .fnConstructor | .fnDestructor => o.functions.matches it.name
    | .var => o.vars.matches it.name
    | .module => false

/-- `IsOpaque for Item`, following resolved references / template definitions with fuel -/
def isOpaque (o : BlockOptions) (lookup : Nat → Option BItem) : Nat → BItem → Bool
  | 0, it => it.annOpaque || it.selfOpaque || o.opaqueTypes.matches it.name
  | f + 1, it =>
    it.annOpaque || it.selfOpaque ||
    (match it.via with
      | some t => (match lookup t with
          | some tt => isOpaque o lookup f tt
          | none => false)
      | none => false) ||
    (match it.instName with
      | some n => o.opaqueTypes.matches n
      | none => false) ||
    o.opaqueTypes.matches it.name

/-! ### the item walk of code generation -/

/-- the tree `Module::codegen` walks: a module's children in order -/
structure WalkItem where
  id : Nat
  isModule : Bool
  children : List Nat
  enabled : Bool
  blocklisted : Bool
  inCodegen : Bool

/-- `Item::process_before_codegen` (without the `seen` set, which only prevents duplicates) -/
def processBeforeCodegen (it : WalkItem) : Bool := it.enabled && !it.blocklisted

/-- `ctx.codegen_items().contains(child)` -/
def childInCodegen (lookup : Nat → Option WalkItem) (c : Nat) : Bool :=
  match lookup c with
  | some ci => ci.inCodegen
  | none => false

/-- Ids of the items for which `Item::codegen` gets past `process_before_codegen`, starting at a module:
`Module::codegen` visits the children that are in `codegen_items`; a module that does not pass
`process_before_codegen` is not entered. -/
def walk (lookup : Nat → Option WalkItem) : Nat → Nat → List Nat
  | 0, _ => []
  | f + 1, id =>
    match lookup id with
    | none => []
    | some it =>
      if !processBeforeCodegen it then []
      else if it.isModule then
        id :: (it.children.filter (childInCodegen lookup)).flatMap (fun c => walk lookup f c)
      else [id]

/-! ### derives through non-allow-listed types -/

inductive CanDerive where
  | no | manually | yes
  deriving Repr, DecidableEq

/-- `BindgenContext::blocklisted_type_implements_trait` when no callback answers:
`CanDerive::No`, except the stdint names (`Yes`) when there are no parse callbacks at all. -/
def blocklistedTypeImplementsTrait (noCallbacks : Bool) (callbackAnswer : Option CanDerive)
    (sizeTIsUsize : Bool) (name : Option String) : CanDerive :=
  match name with
  | none => .no
  | some n =>
    if noCallbacks then (if isStdintType sizeTIsUsize n then .yes else .no)
    else match callbackAnswer with
      | some a => a
      | none => .no

/-- `CannotDerive::constrain` for an item that is not allow-listed: the answer is
`blocklisted_type_implements_trait`; and a compound type with a member whose answer is `no`
cannot derive (`constrain_join` takes the minimum). -/
def joinDerive (a b : CanDerive) : CanDerive :=
  match a, b with
  | .no, _ => .no
  | _, .no => .no
  | .manually, _ => .manually
  | _, .manually => .manually
  | .yes, .yes => .yes

def compDerive (members : List CanDerive) : CanDerive := members.foldl joinDerive .yes

/-- The head of `CannotDerive::constrain_type` (ir/analysis/derive.rs), in the order of the code:
a non-allow-listed item answers `blocklisted_type_implements_trait`; an item excluded by name answers
`No`; an *opaque* item answers by its layout alone (`Yes`, or `No` for a union when the trait cannot be
derived for Rust unions) without looking at what it refers to; otherwise the kind-specific rule `rest`. -/
def constrainTypeHead (allowlisted : Bool) (blocklistAnswer : CanDerive) (notByName isOpq : Bool)
    (unionNo : Bool) (rest : CanDerive) : CanDerive :=
  if !allowlisted then blocklistAnswer
  else if notByName then .no
  else if isOpq then (if unionNo then .no else .yes)
  else rest

/-- A use of a type `T` goes through a `ResolvedTypeRef` item `r` (its own item: own annotations, own
location).  `r` is opaque iff `T` is (`Type::is_opaque` follows the reference); its kind-specific rule
is the join over its target, i.e. `T`'s answer. -/
def deriveThroughRef (rAllowlisted : Bool) (tOpaque : Bool) (tAnswer : CanDerive) : CanDerive :=
  constrainTypeHead rAllowlisted .no false tOpaque false tAnswer

end BindgenModel.Blocklist
