import BindgenModel.Generated.Options
import BindgenModel.Model.OptCodec
/-!
Executable model of the option round trip, interpreted over the generated tables
(`optSpecs`, `methodEffects`, `cliArms` of `Generated/Options.lean`):

* `applyMethod`        — a `Builder` method, through its `MethodEffect` row
* `commandLineFlags`   — `Builder::command_line_flags` (options/mod.rs), through each `OptSpec` row
* `lexArgs`            — clap (derive, as configured in options/cli.rs) for the argument forms used:
                         switches, `--flag value`, `--flag=value`, two-value options, first positional,
                         `--`, trailing var-arg; values beginning with `-` are rejected
                         (no argument sets `allow_hyphen_values`)
* `fromFlags`          — `builder_from_flags`: value parsers, `conflicts_with`, then the arms in
                         `apply_args!` order followed by the post-steps

Values are strings; enum-typed fields hold the variant's `to_string()`, and the variant that is
`Default::default()` is supplied by the caller (`Env`), as are `DEFAULT_ANON_FIELDS_PREFIX` and the
default `RustTarget` rendering.
-/
namespace BindgenModel.Opts
open BindgenModel.Generated BindgenModel.OptCodec

inductive OVal where
  | b (v : Bool)
  | strs (l : List String)
  | opt (o : Option String)
  | str (s : String)
  | groups (l : List (String × List String))      -- hash maps, in first-insertion order of the keys
  | triples (l : List (String × String × String))
  | bits (c : CodegenBits)
  | cbs (l : List (List String))                  -- per callback: its `cli_args()`
  deriving DecidableEq, Repr

/-- a configuration: the fields written so far (newest first) over the defaults.  A data structure,
    not a function, so that executing the model does not re-run the whole method chain at every
    field lookup. -/
structure Options where
  written : List (OField × OVal)
  dflt : List (OField × OVal)      -- one entry per field: `Default::default()` of `BindgenOptions`

def lookup (l : List (OField × OVal)) (f : OField) : Option OVal :=
  match l.find? (·.1 == f) with
  | some p => some p.2
  | none => none

def Options.get (o : Options) (f : OField) : OVal :=
  match lookup o.written f with
  | some v => v
  | none => (lookup o.dflt f).getD (.strs [])

instance : CoeFun Options (fun _ => OField → OVal) := ⟨Options.get⟩

/-- caller-supplied constants of the real crate: field ↦ string of its default value -/
abbrev Env := OField → String

def specOf (f : OField) : Option OptSpec := optSpecs.find? (·.field = f)
def effOf (m : OMethod) : Option MethodEffect := methodEffects.find? (·.method = m)
def armOfFlag (fl : OFlag) : Option CliArm := cliArms.find? (·.flag = some fl)

def defaultVal (env : Env) (s : OptSpec) : OVal :=
  match s.ty with
  | .tBool => .b (s.default == .dTrue)
  | .tRegexSet | .tVecStr => .strs []
  | .tOptString | .tOptPath | .tOptEnum | .tOptDepfile => .opt none
  | .tString | .tEnum | .tRustTarget => .str (env s.field)
  | .tMapVec | .tMapAbi => .groups []
  | .tVecPair => .strs []
  | .tVecTriple => .triples []
  | .tCallbacks => .cbs []
  | .tCodegenConfig => .bits CodegenBits.all
  | .tDerived => .strs []

def defaults (env : Env) : Options := ⟨[], optSpecs.map fun s => (s.field, defaultVal env s)⟩

def set (o : Options) (f : OField) (v : OVal) : Options := { o with written := (f, v) :: o.written }

def groupsPush (l : List (String × List String)) (k item : String) : List (String × List String) :=
  if l.any (·.1 == k) then l.map (fun p => if p.1 == k then (p.1, p.2 ++ [item]) else p)
  else l ++ [(k, [item])]

def tyOf (f : OField) : OType := match specOf f with | some s => s.ty | none => .tDerived

/-- the value a write stores, from the method's argument strings, the field's type and its old value;
    `none` = the write does not apply (wrong shape) and leaves the field alone -/
def writeVal (m : OMethod) (args : List String) (ty : OType) (old : OVal) (w : OWrite) : Option OVal :=
  let a0 := args.headD ""
  match w with
  | .const b => some (.b b)
  | .arg =>
    match ty with
    | .tBool => some (.b (a0 == "true"))
    | .tOptPath | .tOptString => some (.opt (if a0 == "@none" then none else some a0))
    | .tCodegenConfig => some (.bits ((parseCodegen a0.toList).getD CodegenBits.empty))
    | _ => some (.str a0)
  | .someArg => some (.opt (some a0))
  | .constWhenArg argIs b => if (a0 == "true") == argIs then some (.b b) else none
  | .setRustfmt => some (.str "rustfmt")
  | .pushFormatted =>
    match old with
    | .strs l => some (.strs (l ++ ["#[link(wasm_import_module = \"" ++ a0 ++ "\")]"]))
    | _ => none
  | .removeBit =>
    match old with
    | .bits c => if m == .ignore_functions then some (.bits { c with functions := false })
                 else some (.bits { c with methods := false })
    | _ => none
  | .pushArg =>
    match old, args with
    | .strs l, _ => some (.strs (l ++ [a0]))
    | .groups l, [k, item] => some (.groups (groupsPush l k item))
    | .triples l, [x, y, z] => some (.triples (l ++ [(x, y, z)]))
    | .cbs l, _ => some (.cbs (l ++ [args]))
    | _, _ => none
  | .custom =>
    match m, args with
    | .depfile, [_, path] => some (.opt (some path))
    | .depfile, [path] => some (.opt (some path))      -- CLI: `builder.depfile(output or "-", path)`
    | .rustfmt_bindings, _ => some (.str (if a0 == "true" then "rustfmt" else "none"))
    | .header_contents, _ => match old with | .strs l => some (.strs (l ++ [a0])) | _ => none
    | _, _ => none

/-- one `(field, write)` of a method applied to argument strings -/
def applyWrite (m : OMethod) (args : List String) (o : Options) (fw : OField × OWrite) : Options :=
  match writeVal m args (tyOf fw.1) (o fw.1) fw.2 with
  | some v => set o fw.1 v
  | none => o

/-- a `Builder` method call -/
def applyMethod (m : OMethod) (args : List String) (o : Options) : Options :=
  match effOf m with
  | none => o
  | some e => e.writes.foldl (applyWrite m args) o

/-! ## `command_line_flags` -/

def flagText (f : Option OFlag) : String := match f with | some f => f.text | none => "<noflag>"

def emitSpec (env : Env) (s : OptSpec) (v : OVal) : List String :=
  let fl := flagText s.flag
  match s.kind, v with
  | .bool, .b x => if x then [fl] else []
  | .negBool, .b x => if !x then [fl] else []
  | .boolBoth, .b x => if x then [fl] else [flagText s.flag2]
  | .regexSet, .strs l | .vec, .strs l => l.flatMap fun i => [fl, i]
  | .optString, .opt (some x) | .optPath, .opt (some x) | .optEnum, .opt (some x) | .depfile, .opt (some x) => [fl, x]
  | .enumNonDefault, .str x | .strNonDefault, .str x => if x != env s.field then [fl, x] else []
  | .always, .str x => [fl, x]
  | .map2, .groups l => l.flatMap fun g => g.2.flatMap fun i => [fl, g.1, i]
  | .mapAbi, .groups l => l.flatMap fun g => g.2.flatMap fun i => [fl, i ++ "=" ++ g.1]
  | .fieldAttr, .triples l => l.flatMap fun t => [fl, t.1 ++ "::" ++ t.2.1 ++ "=" ++ t.2.2]
  | .codegen, .bits c =>
    (if !c.functions then ["--ignore-functions"] else []) ++ ["--generate", String.ofList (showCodegen c)] ++
    (if !c.methods then ["--ignore-methods"] else [])
  | .callbacks, .cbs l => l.flatMap id
  | _, _ => []

def headersOf (o : Options) : List String := match o .input_headers with | .strs l => l | _ => []
def clangArgsOf (o : Options) : List String := match o .clang_args with | .strs l => l | _ => []

/-- `Builder::command_line_flags` (no `experimental` feature) -/
def commandLineFlags (env : Env) (o : Options) : List String :=
  let hs := headersOf o
  (match hs.getLast? with | some h => [h] | none => []) ++
  optSpecs.flatMap (fun s => emitSpec env s (o s.field)) ++
  ["--"] ++ clangArgsOf o ++
  hs.dropLast.flatMap (fun h => ["-include", h])

/-! ## clap -/

inductive ParseError where
  | unknownFlag (t : String)
  | missingValue (t : String)
  | leadingDash (flag value : String)       -- a value that begins with `-`
  | repeated (t : String)
  | unexpectedValue (t : String)            -- `--switch=value`
  | badValue (flag value : String)          -- rejected by the value parser
  | conflict (a b : String)
  | noHeader
  deriving DecidableEq, Repr

/-- one parsed occurrence: the arm and its values -/
structure Occ where
  arm : CliArm
  vals : List String
  deriving DecidableEq, Repr

def armOfText (t : String) : Option CliArm :=
  cliArms.find? fun a => match a.flag with | some f => f.text == t | none => false

def headerArm : Option CliArm := cliArms.find? (·.clap == .positional)
def trailingArm : Option CliArm := cliArms.find? (·.clap == .trailing)

def looksLikeFlag (v : String) : Bool := v.startsWith "-" && v != "-"

def takeVals (fl : String) (n : Nat) (rest : List String) : Except ParseError (List String × List String) :=
  match n, rest with
  | 0, rest => .ok ([], rest)
  | _ + 1, [] => .error (.missingValue fl)
  | n + 1, v :: rest =>
    if looksLikeFlag v then .error (.leadingDash fl v) else
    match takeVals fl n rest with
    | .ok (vs, r) => .ok (v :: vs, r)
    | .error e => .error e

/-- clap's argument lexer for the forms that occur; `fuel` bounds the recursion (one step per token) -/
def lexArgs : Nat → List String → Bool → List Occ → Except ParseError (List Occ)
  | 0, _, _, acc => .ok acc.reverse
  | _, [], _, acc => .ok acc.reverse
  | fuel + 1, t :: rest, haveHeader, acc =>
    let positional (t : String) (rest : List String) : Except ParseError (List Occ) :=
      if !haveHeader then
        match headerArm with
        | some a => lexArgs fuel rest true (⟨a, [t]⟩ :: acc)
        | none => .error (.unknownFlag t)
      else
        -- second positional = the trailing var-arg: everything that follows belongs to it
        match trailingArm with
        | some a => .ok ((t :: rest).foldl (fun acc v => ⟨a, [v]⟩ :: acc) acc).reverse
        | none => .error (.unknownFlag t)
    if t == "--" then
      -- everything after `--` is positional: header first if still missing, then clang args
      match rest, haveHeader with
      | [], _ => .ok acc.reverse
      | r :: rs, false =>
        (match headerArm, trailingArm with
         | some h, some a => .ok (rs.foldl (fun acc v => ⟨a, [v]⟩ :: acc) (⟨h, [r]⟩ :: acc)).reverse
         | _, _ => .error (.unknownFlag t))
      | rs, true =>
        (match trailingArm with
         | some a => .ok (rs.foldl (fun acc v => ⟨a, [v]⟩ :: acc) acc).reverse
         | none => .error (.unknownFlag t))
    else if t.startsWith "--" then
      let name := (t.splitOn "=").headD t
      let inlineVal : Option String := if t.length > name.length then some ((t.drop (name.length + 1)).toString) else none
      match armOfText name with
      | none => .error (.unknownFlag name)
      | some a =>
        match a.clap, inlineVal with
        | .switch, some _ => .error (.unexpectedValue name)
        | .switch, none =>
          if acc.any (·.arm.flag == a.flag) then .error (.repeated name) else lexArgs fuel rest haveHeader (⟨a, []⟩ :: acc)
        | .opt, some v =>
          if acc.any (·.arm.flag == a.flag) then .error (.repeated name) else lexArgs fuel rest haveHeader (⟨a, [v]⟩ :: acc)
        | .opt, none =>
          if acc.any (·.arm.flag == a.flag) then .error (.repeated name) else
          (match takeVals name 1 rest with
           | .ok (vs, r) => lexArgs fuel r haveHeader (⟨a, vs⟩ :: acc)
           | .error e => .error e)
        | .multi, some v => lexArgs fuel rest haveHeader (⟨a, [v]⟩ :: acc)
        | .multi, none =>
          (match takeVals name 1 rest with
           | .ok (vs, r) => lexArgs fuel r haveHeader (⟨a, vs⟩ :: acc)
           | .error e => .error e)
        | .multi2, some v =>
          (match takeVals name 1 rest with
           | .ok (vs, r) => lexArgs fuel r haveHeader (⟨a, v :: vs⟩ :: acc)
           | .error e => .error e)
        | .multi2, none =>
          (match takeVals name 2 rest with
           | .ok (vs, r) => lexArgs fuel r haveHeader (⟨a, vs⟩ :: acc)
           | .error e => .error e)
        | _, _ => .error (.unknownFlag name)
    else if looksLikeFlag t then
      -- short options: only `-o <file>` and `-V` exist; neither is ever emitted
      .error (.unknownFlag t)
    else positional t rest

/-! ## value parsers -/

def abiNames : List String :=
  ["C", "stdcall", "efiapi", "fastcall", "thiscall", "vectorcall", "aapcs", "win64", "C-unwind", "system"]

/-- strings accepted by the enum `FromStr` impls are supplied by the caller only through emission;
    the model accepts any non-empty value for `.fromStr` parsers (emitted values are `to_string()` of a
    valid variant) -/
def parseValue (a : CliArm) (vals : List String) : Except ParseError (List String) :=
  let fl := flagText a.flag
  let v := vals.headD ""
  match a.parser with
  | .rustfmtPath => if v.startsWith "/" then .ok vals else .error (.badValue fl v)
  | .codegenConfig => match parseCodegen v.toList with | some _ => .ok vals | none => .error (.badValue fl v)
  | .abiOverride =>
    match decAbi v.toList with
    | some (item, abi) =>
      if abiNames.contains (String.ofList abi) then .ok [String.ofList abi, String.ofList item] else .error (.badValue fl v)
    | none => .error (.badValue fl v)
  | .customDerive =>
    match decDerive v.toList with
    | some (r, ds) => .ok [String.ofList r, ",".intercalate (ds.map String.ofList)]
    | none => .error (.badValue fl v)
  | .customAttr =>
    match decAttr v.toList with
    | some (r, ds) => .ok [String.ofList r, ",".intercalate (ds.map String.ofList)]
    | none => .error (.badValue fl v)
  | .fieldAttr =>
    match decFieldAttr v.toList with
    | some (t, f, av) => .ok [String.ofList t, String.ofList f, String.ofList av]
    | none => .error (.badValue fl v)
  | _ => .ok vals

/-- arguments handed to the builder method by the arm -/
def armArgs (a : CliArm) (vals : List String) : List String :=
  match a.const with
  | .cTrue => ["true"]
  | .cFalse => ["false"]
  | .formatterNone => ["none"]
  | .unit => []
  | .callback =>
    -- the callback's `cli_args()`: custom derive / attribute callbacks re-emit `flag regex=list`,
    -- `PrefixLinkNameCallback` has no `cli_args` (trait default: nothing)
    match a.parser, vals with
    | .customDerive, [r, l] | .customAttr, [r, l] => [flagText a.flag, r ++ "=" ++ l]
    | .plain, [v] => if prefixLinkNameCliArgs then [flagText a.flag, v] else []
    | _, _ => []
  | .fromValue =>
    match a.clap with
    | .switch => ["true"]
    | _ => vals

def checkConflicts (occs : List Occ) : Except ParseError Unit :=
  match occs.find? (fun o => o.arm.conflicts.any fun c => occs.any (·.arm.flag == some c)) with
  | some o => .error (.conflict (flagText o.arm.flag) (flagText (o.arm.conflicts.head?)))
  | none => .ok ()

def insertByOrder (x : Nat × Occ) : List (Nat × Occ) → List (Nat × Occ)
  | [] => [x]
  | y :: ys => if x.1 ≤ y.1 then x :: y :: ys else y :: insertByOrder x ys

/-- stable sort of the occurrences by the arm's position in `apply_args!` / the post-steps -/
def byOrder (occs : List Occ) : List Occ :=
  ((occs.filterMap fun o => o.arm.order.map fun n => (n, o)).foldr insertByOrder []).map (·.2)

/-- one occurrence applied to the builder: the arm's method on the arm's arguments -/
def stepOcc (b : Options) (o : Occ) : Options :=
  match o.arm.method with
  | some m => applyMethod m (armArgs o.arm o.vals) b
  | none => b

/-- the arms in `apply_args!` order followed by the post-steps -/
def absorb (env : Env) (occs : List Occ) : Options := (byOrder occs).foldl stepOcc (defaults env)

/-- `builder_from_flags` on an argument list (without the program name) -/
def fromFlags (env : Env) (args : List String) : Except ParseError Options := do
  let occs ← lexArgs (args.length + 1) args false []
  let occs ← occs.mapM fun o => do
    let v ← parseValue o.arm o.vals
    pure { o with vals := v }
  checkConflicts occs
  if !(occs.any (·.arm.clap == .positional)) then throw .noHeader
  pure (absorb env occs)

/-! ## comparison -/

/-- fields whose value is conveyed only through flags (`as_args: ignore` and derived fields are not) -/
def roundTripped (s : OptSpec) : Bool := s.kind != .ignored || s.field == .input_headers || s.field == .clang_args

def sortGroups (l : List (String × List String)) : List (String × List String) :=
  l.foldr (fun x acc =>
    let rec ins : List (String × List String) → List (String × List String)
      | [] => [x]
      | y :: ys => if x.1 < y.1 || x.1 == y.1 then x :: y :: ys else y :: ins ys
    ins acc) []

def canonVal : OVal → OVal
  | .groups l => .groups (sortGroups l)
  | v => v

/-- fields on which two configurations differ (hash maps compared as maps) -/
def diffFields (o o' : Options) : List OField :=
  (optSpecs.filter fun s => s.kind != .ignored && canonVal (o s.field) != canonVal (o' s.field)).map (·.field)

/-! ## decidable row well-formedness (one obligation per field, `Generated/OptionsObl.lean`) -/

def armWrites (a : CliArm) : List (OField × OWrite) :=
  match a.method.bind effOf with
  | some e => e.writes
  | none => []

/-- the arm's method writes field `f` exactly once, with a write satisfying `p` -/
def writesOnce (a : CliArm) (f : OField) (p : OWrite → Bool) : Bool :=
  match (armWrites a).filter (·.1 == f) with
  | [w] => p w.2
  | _ => false

/-- some Builder method available without the `experimental` feature writes the field -/
def fieldWritten (f : OField) : Bool :=
  methodEffects.any fun e => !e.experimental && e.writes.any (·.1 == f)

/-- the arm reached by the row's flag, if clap accepts that flag at all -/
def rowArm (s : OptSpec) : Option CliArm := s.flag.bind armOfFlag

/-- the emit/absorb pair of the row is inverse: the flag exists in the clap struct, has the clap
    kind the emitted shape needs, is applied to the builder, and the builder method writes this
    field the way the emitted value demands, starting from the same default -/
def wfRow (s : OptSpec) : Bool :=
  -- a field that no Builder method can set never leaves its default and emits nothing
  !fieldWritten s.field ||
  match s.kind with
  | .ignored => true
  | .callbacks => true
  | .bool =>
    (match rowArm s with
     | some a => a.clap == .switch && a.order.isSome && !a.experimental && s.default == .dDefault &&
        ((a.const == .fromValue || a.const == .cTrue) && writesOnce a s.field (fun w => w == .arg) ||
         (a.const == .fromValue || a.const == .cTrue || a.const == .unit) && writesOnce a s.field (fun w => w == .const true))
     | none => false)
  | .negBool =>
    (match rowArm s with
     | some a => a.clap == .switch && a.order.isSome && !a.experimental && s.default == .dTrue &&
        (a.const == .cFalse && writesOnce a s.field (fun w => w == .arg) ||
         a.const == .unit && writesOnce a s.field (fun w => w == .const false))
     | none => false)
  | .boolBoth =>
    (match rowArm s, s.flag2.bind armOfFlag with
     | some a, some a2 => a.clap == .switch && a2.clap == .switch && a.order.isSome && a2.order.isSome &&
        a.const == .fromValue && writesOnce a s.field (fun w => w == .arg) &&
        a2.const == .cFalse && writesOnce a2 s.field (fun w => w == .arg)
     | _, _ => false)
  | .regexSet | .vec =>
    (match rowArm s with
     | some a => a.clap == .multi && a.order.isSome && a.const == .fromValue && a.parser == .plain && s.default == .dDefault &&
        writesOnce a s.field (fun w => w == .pushArg)
     | none => false)
  | .optString | .optPath | .optEnum =>
    (match rowArm s with
     | some a => a.clap == .opt && a.order.isSome && a.const == .fromValue && s.default == .dDefault &&
        writesOnce a s.field (fun w => w == .someArg || w == .arg)
     | none => false)
  | .depfile =>
    (match rowArm s with
     | some a => a.clap == .opt && a.order.isSome && writesOnce a s.field (fun _ => true)
     | none => false)
  | .enumNonDefault | .strNonDefault | .always =>
    (match rowArm s with
     | some a => a.clap == .opt && a.order.isSome && a.const == .fromValue &&
        writesOnce a s.field (fun w => w == .arg)
     | none => false)
  | .map2 =>
    (match rowArm s with
     | some a => a.clap == .multi2 && a.order.isSome && writesOnce a s.field (fun w => w == .pushArg)
     | none => false)
  | .mapAbi =>
    (match rowArm s with
     | some a => a.clap == .multi && a.parser == .abiOverride && a.order.isSome &&
        writesOnce a s.field (fun w => w == .pushArg)
     | none => false)
  | .fieldAttr =>
    (match rowArm s with
     | some a => a.clap == .multi && a.parser == .fieldAttr && a.order.isSome &&
        writesOnce a s.field (fun w => w == .pushArg)
     | none => false)
  | .codegen =>
    (match rowArm s, armOfFlag .f_ignore_functions, armOfFlag .f_ignore_methods with
     | some a, some af, some am =>
        a.clap == .opt && a.parser == .codegenConfig && s.default == .dAll &&
        writesOnce a s.field (fun w => w == .arg) &&
        writesOnce af s.field (fun w => w == .removeBit) &&
        writesOnce am s.field (fun w => w == .removeBit) &&
        -- `--generate` must be applied before the two `--ignore-*` switches
        (match a.order, af.order, am.order with
         | some x, some y, some z => x < y && x < z
         | _, _, _ => false)
     | _, _, _ => false)

/-- flags pushed by the rows are pairwise distinct -/
def rowFlags : List OFlag := optSpecs.flatMap fun s => s.flag.toList ++ s.flag2.toList

def flagsDistinct : Bool := rowFlags.Nodup

/-- arms other than the row's own that also write the field (ordered overrides) -/
def otherWriters (s : OptSpec) : List CliArm :=
  cliArms.filter fun a => a.order.isSome && !a.experimental &&
    a.flag != s.flag && (s.flag2.isNone || a.flag != s.flag2) &&
    (armWrites a).any (fun w => w.1 == s.field)

end BindgenModel.Opts
