import BindgenModel.Generated.AliasGuard
/-!
# Typedef chains: the `CXType_Typedef` arm of `Type::from_clang_ty` (ir/ty.rs)

`Type::safe_canonical_type` (and `canonical_type`, `Item::expect_type().canonical_type(ctx)` in
codegen) follows `Alias` / `ResolvedTypeRef` / `TemplateAlias` edges by plain recursion: a cycle
among those edges is a stack overflow (SIGSEGV, C12).  The Typedef arm therefore walks the chain of
the items built so far, starting at the typedef's underlying type, and emits the opaque fallback
when the walk comes back to the typedef under construction.

The model keeps, of the whole `BindgenContext`, only the edge function of the items built so far.
-/
namespace BindgenModel.AliasChain
open BindgenModel.Generated

/-- `some n`: the item is `Alias(n)` or `ResolvedTypeRef(n)`; `none`: any other kind, or no such
item (yet) — `resolve_item_fallible` answers `None` for the item under construction. -/
abbrev Ctx := Nat → Option Nat

/-- the item reached after exactly `k` edges -/
def iter (c : Ctx) : Nat → Nat → Option Nat
  | 0, n => some n
  | k + 1, n => match c n with
    | none => none
    | some m => iter c k m

/-- the chain walk of the Typedef arm: looks at no more than `bound` items (`for _ in 0..bound`),
answers whether `target` (= `potential_id`) is among them -/
def reachesWithin (c : Ctx) (target : Nat) : Nat → Nat → Bool
  | 0, _ => false
  | k + 1, n => if n = target then true else
    match c n with
    | none => false
    | some m => reachesWithin c target k m

/-- no chain returns to where it started -/
def Acyclic (c : Ctx) : Prop := ∀ n k, 0 < k → iter c k n ≠ some n

/-- what the arm adds to the context for the typedef `id` whose underlying type is `inner`:
`guarded = true` is the code as it is (chain walk, opaque fallback = no outgoing edge);
`guarded = false` is the arm with only the direct `inner_id == potential_id` test -/
def addTypedef (guarded : Bool) (bound : Nat) (c : Ctx) (id inner : Nat) : Ctx :=
  if (if guarded then reachesWithin c id bound inner else inner == id) then c
  else fun n => if n = id then some inner else c n

/-- the code as extracted: is the chain walk there, and how many items does it look at -/
def addTypedefNow := addTypedef aliasGuardPresent aliasGuardBound

/-- a history of typedef constructions `(id, underlying)` in creation order -/
def build (guarded : Bool) (bound : Nat) : List (Nat × Nat) → Ctx → Ctx
  | [], c => c
  | (id, inner) :: rest, c => build guarded bound rest (addTypedef guarded bound c id inner)

/-- the ring of corpus/C12/alias_ring.hpp: while `Outer` (12) is being parsed the parser builds
`Inner` (13) whose underlying type is `Outer`, then finishes `Outer = Alias(Inner)` -/
def ringHistory : List (Nat × Nat) := [(13, 12), (12, 13)]

end BindgenModel.AliasChain
