/-! C17 — which files a preprocessing run reads, and which files bindgen records.

Import-free and executable.

The C preprocessor on an include DAG: files have a directory, a re-inclusion guard
(`none`, `#ifndef` guard, `#pragma once`) and a body of directives: `#include "n"` / `#include <n>`
(a name looked up through the search path: includer's directory and `-iquote` for the quoted form,
then `-I`, then `-isystem`) and `#if 1` / `#if 0` regions.  `run` executes the inputs of a bindgen
invocation (`-include` files and the main file are *entered* from the command line; in-memory
`header_contents` contribute only a body) and returns

* `entered`  — the files whose contents were read, in order (= `filesRead`);
* `reported` — the resolved file of every inclusion directive processed in an active region, in
  order, *including* the directives whose file is then skipped because of `#pragma once` or a
  defined guard, and *excluding* directives in `#if 0` regions.  This is the modelled libclang
  contract: `CXCursor_InclusionDirective` cursors among the translation unit's children with
  `clang_getIncludedFile` (ir/item.rs `Item::parse`), each passed to `include_file` callbacks and
  `BindgenContext::add_dep`.

`BindgenContext::new` seeds `deps` with `options.input_headers` (files on the command line), so
`depsRecorded = inputs ∪ reported`. -/
namespace BindgenModel.Includes

inductive Guard where
  | none | ifndef | once
  deriving DecidableEq, Repr

inductive Dir where
  /-- `#include <name>` (angle = true) or `#include "name"` -/
  | incl (angle : Bool) (name : Nat)
  /-- `#if 1 … #endif` (active = true) or `#if 0 … #endif` -/
  | cond (active : Bool) (body : List Dir)

structure FileInfo where
  dir : Nat
  guard : Guard
  body : List Dir

structure Cfg where
  /-- file id = index -/
  files : List FileInfo
  /-- directory contents: (directory, name, file) -/
  fs : List (Nat × Nat × Nat)
  quoteDirs : List Nat
  iDirs : List Nat
  sysDirs : List Nat

def lookupFs (fs : List (Nat × Nat × Nat)) (d n : Nat) : Option Nat :=
  (fs.find? (fun e => e.1 = d ∧ e.2.1 = n)).map (fun e => e.2.2)

/-- header search: first directory of the list that has the name -/
def resolve (cfg : Cfg) (includerDir : Nat) (angle : Bool) (name : Nat) : Option Nat :=
  ((if angle then [] else includerDir :: cfg.quoteDirs) ++ cfg.iDirs ++ cfg.sysDirs).findSome?
    (fun d => lookupFs cfg.fs d name)

structure St where
  entered : List Nat := []
  reported : List Nat := []
  /-- files that said `#pragma once` -/
  once : List Nat := []
  /-- files whose `#ifndef` guard macro is defined -/
  guards : List Nat := []

/-- work items: a file named on the command line, or a directive with its includer's directory -/
inductive Item where
  /-- `main = true`: the main file of the translation unit (clang ignores `#pragma once` there, both
      when deciding whether to read it and when it appears in it); `false`: an `-include`d file -/
  | input (main : Bool) (f : Nat)
  | dir (d : Nat) (x : Dir)

def guardOf (cfg : Cfg) (f : Nat) : Guard := (cfg.files[f]?.map (·.guard)).getD .none
def dirOf (cfg : Cfg) (f : Nat) : Nat := (cfg.files[f]?.map (·.dir)).getD 0
def bodyOf (cfg : Cfg) (f : Nat) : List Dir := (cfg.files[f]?.map (·.body)).getD []

/-- a re-inclusion of `f` does not read it again -/
def skipped (st : St) (f : Nat) : Bool := st.once.contains f || st.guards.contains f

/-- reading `f`: remember it, note its guard, queue its body -/
def enterSt (cfg : Cfg) (st : St) (f : Nat) (main : Bool := false) : St :=
  { st with
    entered := st.entered ++ [f]
    once := if guardOf cfg f = .once ∧ main = false then f :: st.once else st.once
    guards := if guardOf cfg f = .ifndef then f :: st.guards else st.guards }

/-- is a file named on the command line not read (again)? -/
def skippedInput (st : St) (main : Bool) (f : Nat) : Bool :=
  if main then st.guards.contains f else skipped st f

/-- the preprocessor, as a work-list machine; `none`: an include was not found (clang: fatal
    error, bindgen returns `Err`) or the step budget ran out (unguarded recursion) -/
def run (cfg : Cfg) : Nat → List Item → St → Option St
  | _, [], st => some st
  | 0, _ :: _, _ => none
  | n + 1, .input m f :: rest, st =>
    if skippedInput st m f then run cfg n rest st
    else run cfg n ((bodyOf cfg f).map (Item.dir (dirOf cfg f)) ++ rest) (enterSt cfg st f m)
  | n + 1, .dir d (.cond a body) :: rest, st =>
    run cfg n ((if a then body.map (Item.dir d) else []) ++ rest) st
  | n + 1, .dir d (.incl angle name) :: rest, st =>
    match resolve cfg d angle name with
    | none => none
    | some f =>
      let st := { st with reported := st.reported ++ [f] }
      if skipped st f then run cfg n rest st
      else run cfg n ((bodyOf cfg f).map (Item.dir (dirOf cfg f)) ++ rest) (enterSt cfg st f)

/-- an input of the invocation: a header on disk, or in-memory `header_contents` -/
inductive Top where
  | file (main : Bool) (f : Nat)
  | virt (body : List Dir)

/-- `Builder::generate` / `Bindings::generate` build the clang command line
    `-include h₁ … -include hₙ₋₁  hₙ  -include v₁ … -include vₘ` (all input headers but the last
    become `-include`; the last one is the main file; in-memory contents follow as `-include`s —
    or, when there is no header on disk, the first content is the main file).  clang processes every
    `-include` in order *before* the main file, whatever its position on the command line. -/
def commandLineOrder (inputs : List Nat) (virt : List (List Dir)) : List Top :=
  match inputs.getLast? with
  | none =>
    match virt with
    | [] => []
    | v0 :: vs => vs.map Top.virt ++ [Top.virt v0]
  | some main => inputs.dropLast.map (Top.file false) ++ virt.map Top.virt ++ [Top.file true main]

def topItems (cwd : Nat) : Top → List Item
  | .file m f => [Item.input m f]
  | .virt b => b.map (Item.dir cwd)

/-- the work list of an invocation (in-memory contents live in the current directory) -/
def initial (cwd : Nat) (inputs : List Nat) (virt : List (List Dir)) : List Item :=
  ((commandLineOrder inputs virt).map (topItems cwd)).flatten

def filesRead (st : St) : List Nat := st.entered
def depsRecorded (inputs : List Nat) (st : St) : List Nat := inputs ++ st.reported

/-! ## Callback notifications and `CargoCallbacks` (lib.rs) -/

abbrev Str := List Char

inductive Event where
  | readEnv (key : Str)
  | headerFile (name : Str)
  | includeFile (name : Str)

/-- `get_target_dependent_env_var(cb, var)`: the keys passed to `env_var` (each announced through
    `read_env_var` before `env::var`), given the value of `TARGET` and which keys are set -/
def targetDependentReads (var : Str) (target : Option Str) (isSet : Str → Bool) : List Str :=
  match target with
  | none => ['T','A','R','G','E','T'] :: [var]
  | some t =>
    let k1 := var ++ '_' :: t
    let k2 := var ++ '_' :: t.map (fun c => if c = '-' then '_' else c)
    ['T','A','R','G','E','T'] ::
      (if isSet k1 then [k1] else if isSet k2 then [k1, k2] else [k1, k2, var])

def extraArgsVar : Str := "BINDGEN_EXTRA_CLANG_ARGS".toList

/-- `Builder::generate` + `Item::parse`: environment reads, then one `header_file` per input header,
    then one `include_file` per reported inclusion directive -/
def generateEvents (target : Option Str) (isSet : Str → Bool) (inputs reported : List Str) : List Event :=
  (targetDependentReads extraArgsVar target isSet).map Event.readEnv ++
  inputs.map Event.headerFile ++ reported.map Event.includeFile

def changedLine (f : Str) : Str := "cargo:rerun-if-changed=".toList ++ f
def envLine (k : Str) : Str := "cargo:rerun-if-env-changed=".toList ++ k

/-- `impl ParseCallbacks for CargoCallbacks`: what each notification prints -/
def cargoLine (rerunOnHeaderFiles : Bool) : Event → List Str
  | .readEnv k => [envLine k]
  | .headerFile f => if rerunOnHeaderFiles then [changedLine f] else []
  | .includeFile f => [changedLine f]

def cargoLines (rerunOnHeaderFiles : Bool) (evs : List Event) : List Str :=
  (evs.map (cargoLine rerunOnHeaderFiles)).flatten

end BindgenModel.Includes
