/-! # C15 — transition system of the three-party pipe protocol of `format_tokens`

Parties: the **writer thread** (`child_stdin.write_all(source)`, result ignored, then the write end
is dropped), the **parent** (`io::copy(child_stdout)` until EOF, then `child.wait()`, then
`stdin_handle.join()`), and the **child**, an arbitrary finite program over
{read stdin, write n bytes to stdout, close stdin, close stdout}, exiting at its end (a child killed
by a signal is the truncated program).  Two pipes with finite capacities.  Blocking semantics:
write blocks on a full pipe, read blocks on an empty pipe whose write end is open; a write to a
pipe without reader fails at once (EPIPE; Rust ignores SIGPIPE), a read on an empty pipe without
writer returns EOF. -/
namespace BindgenModel.Pipe

inductive CAct where
  | read
  | write (n : Nat)
  | closeIn
  | closeOut
deriving DecidableEq, Repr

inductive Phase where
  | copy | wait | join | done
deriving DecidableEq, Repr

structure St where
  /-- bytes the writer thread still has to write -/
  wrem : Nat
  /-- writer thread finished (write end of the stdin pipe closed) -/
  wdone : Bool
  /-- bytes buffered in the stdin pipe -/
  inbuf : Nat
  /-- child's end of the stdin pipe open -/
  cinOpen : Bool
  /-- child's remaining actions; `[]` while alive: the next step is `exit` -/
  prog : List CAct
  alive : Bool
  /-- child's end of the stdout pipe open -/
  coutOpen : Bool
  /-- bytes buffered in the stdout pipe -/
  outbuf : Nat
  phase : Phase
deriving DecidableEq, Repr

structure Caps where
  capIn : Nat
  capOut : Nat
  hIn : 0 < capIn
  hOut : 0 < capOut

/-- one atomic step of one party -/
inductive Step (c : Caps) : St → St → Prop where
  -- writer thread
  | wFinish (s : St) : s.wdone = false → s.wrem = 0 → Step c s { s with wdone := true }
  | wEpipe (s : St) : s.wdone = false → 0 < s.wrem → s.cinOpen = false → Step c s { s with wdone := true }
  | wWrite (s : St) (k : Nat) : s.wdone = false → s.cinOpen = true → 0 < k → k ≤ s.wrem → s.inbuf + k ≤ c.capIn →
      Step c s { s with wrem := s.wrem - k, inbuf := s.inbuf + k }
  -- child
  | cExit (s : St) : s.alive = true → s.prog = [] →
      Step c s { s with alive := false, cinOpen := false, coutOpen := false }
  | cReadErr (s : St) (rest : List CAct) : s.alive = true → s.prog = .read :: rest → s.cinOpen = false →
      Step c s { s with prog := rest }
  | cRead (s : St) (rest : List CAct) (k : Nat) : s.alive = true → s.prog = .read :: rest → s.cinOpen = true →
      0 < k → k ≤ s.inbuf → Step c s { s with prog := rest, inbuf := s.inbuf - k }
  | cReadEof (s : St) (rest : List CAct) : s.alive = true → s.prog = .read :: rest → s.cinOpen = true →
      s.inbuf = 0 → s.wdone = true → Step c s { s with prog := rest }
  | cWriteNone (s : St) (n : Nat) (rest : List CAct) : s.alive = true → s.prog = .write n :: rest →
      (n = 0 ∨ s.coutOpen = false) → Step c s { s with prog := rest }
  | cWriteAll (s : St) (n : Nat) (rest : List CAct) : s.alive = true → s.prog = .write n :: rest → s.coutOpen = true →
      0 < n → s.outbuf + n ≤ c.capOut → Step c s { s with prog := rest, outbuf := s.outbuf + n }
  | cWritePart (s : St) (n k : Nat) (rest : List CAct) : s.alive = true → s.prog = .write n :: rest → s.coutOpen = true →
      0 < k → k < n → s.outbuf + k ≤ c.capOut →
      Step c s { s with prog := .write (n - k) :: rest, outbuf := s.outbuf + k }
  | cCloseIn (s : St) (rest : List CAct) : s.alive = true → s.prog = .closeIn :: rest →
      Step c s { s with prog := rest, cinOpen := false }
  | cCloseOut (s : St) (rest : List CAct) : s.alive = true → s.prog = .closeOut :: rest →
      Step c s { s with prog := rest, coutOpen := false }
  -- parent
  | rRead (s : St) (k : Nat) : s.phase = .copy → 0 < k → k ≤ s.outbuf → Step c s { s with outbuf := s.outbuf - k }
  | rEof (s : St) : s.phase = .copy → s.outbuf = 0 → s.coutOpen = false → Step c s { s with phase := .wait }
  | rWait (s : St) : s.phase = .wait → s.alive = false → Step c s { s with phase := .join }
  | rJoin (s : St) : s.phase = .join → s.wdone = true → Step c s { s with phase := .done }

/-- state right after `cmd.spawn()` and `thread::spawn` -/
def init (sourceLen : Nat) (prog : List CAct) : St :=
  { wrem := sourceLen, wdone := false, inbuf := 0, cinOpen := true, prog := prog, alive := true,
    coutOpen := true, outbuf := 0, phase := .copy }

def CAct.weight : CAct → Nat
  | .write n => 2 * n + 1
  | _ => 1

def progWeight : List CAct → Nat
  | [] => 0
  | a :: r => a.weight + progWeight r

def Phase.rank : Phase → Nat
  | .copy => 3 | .wait => 2 | .join => 1 | .done => 0

/-- bound on the number of steps still possible -/
def measure (s : St) : Nat :=
  2 * s.wrem + (if s.wdone then 0 else 1) + s.inbuf + progWeight s.prog + (if s.alive then 1 else 0)
    + s.outbuf + s.phase.rank

end BindgenModel.Pipe
