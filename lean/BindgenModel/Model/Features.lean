import BindgenModel.Generated.Features
/-!
Executable model of `bindgen/features.rs` (and of the feature synchronisation / edition check
at the top of `Builder::generate` in `bindgen/lib.rs`), **as the code is**.

* `Target`            = `RustTarget(Version)`                      (`Stable(minor, patch) | Nightly`)
* `isCompatible`      = `RustTarget::is_compatible`
* `featuresNew`       = `RustFeatures::new`, folded over the generated table in source order
* `isAvailable`       = `RustEdition::is_available`
* `latestEdition`     = `RustTarget::latest_edition`               (`none` = the `.expect(..)` panics)
* `latestStable` / `earliestStable` = the two `const` loops        (`none` = `unreachable!()`)
* `stableCtor`        = `RustTarget::stable`
* `parseU64`          = `u64::from_str`  (optional single `+`, ASCII digits, ≤ 2^64-1)
* `fromStr`           = `<RustTarget as FromStr>::from_str` on `List Char`, with the build's
                        overflow-check mode and the decrement form found in the source
* `resolve`           = the `match self.options.rust_edition` at the top of `Builder::generate`

The tables (`Edition`, `Feature`, `releaseRows`, …) are regenerated from the source on every run.
-/
namespace BindgenModel.Features
open BindgenModel.Generated

inductive Target where
  | stable (minor patch : Nat)
  | nightly
  deriving DecidableEq, Repr

structure Table where
  nightly : List FeatEntry
  rows : List (Nat × List FeatEntry)

/-- the table found in /repo's features.rs -/
def theTable : Table := ⟨nightlyEntries, releaseRows⟩

def Target.minor : Target → Option Nat
  | .stable m _ => some m
  | .nightly => none

/-- `self.is_compatible(&other)` -/
def isCompatible (self other : Target) : Bool :=
  match self, other with
  | .stable m _, .stable m' _ => decide (m' ≤ m)
  | .nightly, _ => true
  | .stable _ _, .nightly => false

/-- `editions.is_empty() || editions.contains(&edition)` -/
def edOk (eds : List Edition) (e : Edition) : Bool := eds.isEmpty || eds.contains e

def setTrue (acc : Feature → Bool) (f : Feature) : Feature → Bool :=
  fun g => if g = f then true else acc g

/-- the inner `$( if editions.is_empty() || .. { features.$feature = true; } )*` -/
def applyEntries (es : List FeatEntry) (e : Edition) (acc : Feature → Bool) : Feature → Bool :=
  es.foldl (fun acc en => if edOk en.editions e then setTrue acc en.feature else acc) acc

/-- `RustFeatures::new(target, edition)` -/
def featuresNew (tbl : Table) (t : Target) (e : Edition) : Feature → Bool :=
  let init : Feature → Bool := fun _ => false
  let s := if isCompatible t .nightly then applyEntries tbl.nightly e init else init
  tbl.rows.foldl
    (fun acc row => if isCompatible t (.stable row.1 0) then applyEntries row.2 e acc else acc) s

/-- `edition.is_available(target)` -/
def isAvailable (e : Edition) (t : Target) : Bool :=
  match t.minor with
  | none => true
  | some m => decide (e.firstMinor ≤ m)

/-- `RustEdition::ALL.iter().rev().find(|e| e.is_available(self))` -/
def latestEditionIn (all : List Edition) (t : Target) : Option Edition :=
  all.reverse.find? (fun e => isAvailable e t)

def latestEdition (t : Target) : Option Edition := latestEditionIn Edition.all t

/-- the `LATEST_STABLE_RUST` loop: state = (latest_minor, latest_target) -/
def latestStableMinor (rows : List (Nat × List FeatEntry)) : Option Nat :=
  (rows.foldl (fun (st : Nat × Option Nat) row =>
      if st.1 < row.1 then (row.1, some row.1) else st) (0, none)).2

def latestStable (tbl : Table) : Option Target :=
  (latestStableMinor tbl.rows).map (fun m => Target.stable m 0)

/-- the `EARLIEST_STABLE_RUST` loop, started from the latest minor -/
def earliestStableMinor (rows : List (Nat × List FeatEntry)) : Option Nat :=
  match latestStableMinor rows with
  | none => none
  | some l =>
    (rows.foldl (fun (st : Nat × Option Nat) row =>
        if st.1 > row.1 then (row.1, some row.1) else st) (l, none)).2

def earliestStable (tbl : Table) : Option Target :=
  (earliestStableMinor tbl.rows).map (fun m => Target.stable m 0)

/-- derived `Ord` on `Version`: `Stable(a, b) < Stable(c, d)` lexicographically, `Stable < Nightly` -/
def Target.lt : Target → Target → Bool
  | .stable m p, .stable m' p' => decide (m < m') || (decide (m = m') && decide (p < p'))
  | .stable _ _, .nightly => true
  | .nightly, _ => false

/-- `RustTarget::stable(minor, patch)`: `none` = `Err(TooEarly)` -/
def stableCtor (earliest : Target) (m p : Nat) : Option Target :=
  if (Target.stable m p).lt earliest then none else some (.stable m p)

/-- default target of the CLI / `__cli` feature build: `LATEST_STABLE_RUST` -/
def defaultTarget (tbl : Table) : Option Target := latestStable tbl

/-! ## `Builder::generate`: feature synchronisation and edition check -/

inductive Resolved where
  | unsupportedEdition (e : Edition) (t : Target)
  | panicNoEdition                       -- `.expect("bindgen should always support at least one edition")`
  | ok (e : Edition) (fs : Feature → Bool)

/-- the `match self.options.rust_edition { Some(e) => .., None => .. }` of `Builder::generate` -/
def resolve (tbl : Table) (t : Target) : Option Edition → Resolved
  | some e => if !isAvailable e t then .unsupportedEdition e t else .ok e (featuresNew tbl t e)
  | none => match latestEdition t with
    | none => .panicNoEdition
    | some e => .ok e (featuresNew tbl t e)

/-! ## `RustTarget::from_str` -/

def u64Max : Nat := 18446744073709551615

/-- `str::split_once(c)`: split at the first occurrence of `c` -/
def splitOnce (c : Char) : List Char → Option (List Char × List Char)
  | [] => none
  | x :: xs =>
    if x = c then some ([], xs)
    else match splitOnce c xs with
      | none => none
      | some (a, b) => some (x :: a, b)

def digitVal (c : Char) : Option Nat :=
  if '0' ≤ c ∧ c ≤ '9' then some (c.toNat - '0'.toNat) else none

def parseDigits : List Char → Nat → Option Nat
  | [], acc => some acc
  | c :: cs, acc => match digitVal c with
    | none => none
    | some d => parseDigits cs (acc * 10 + d)

/-- `<u64 as FromStr>::from_str`: empty → error; a lone sign → error; one leading `+` is
    stripped (a `-` is an invalid digit for an unsigned type); then ASCII digits only; overflow → error -/
def parseU64 (cs : List Char) : Option Nat :=
  let ds := match cs with
    | '+' :: rest => rest
    | _ => cs
  if ds.isEmpty then none else
  match parseDigits ds 0 with
  | some n => if n ≤ u64Max then some n else none
  | none => none

inductive ParseErr where
  | form       -- MSG "accepted values are of the form ..."
  | major      -- "The largest major version of Rust released is "1""
  | minor      -- "the minor version number must be an unsigned 64-bit integer"
  | patch      -- "the patch version number must be an unsigned 64-bit integer"
  | tooEarly   -- InvalidRustTarget::TooEarly
  deriving DecidableEq, Repr

inductive ParseRes where
  | ok (t : Target)
  | err (e : ParseErr)
  | panic       -- `attempt to subtract with overflow` (build with overflow checks)
  deriving DecidableEq, Repr

def sNightly : List Char := ['n', 'i', 'g', 'h', 't', 'l', 'y']
def sBeta : List Char := ['b', 'e', 't', 'a']
def sBetaDot : List Char := ['b', 'e', 't', 'a', '.']

def startsWith (s pre : List Char) : Bool := pre.isPrefixOf s

/-- the version numbers of `from_str` before the `-nightly` adjustment -/
def parseNumbers (tail : List Char) : Except ParseErr (Nat × Nat) :=
  match splitOnce '.' tail with
  | some (ms, ps) =>
    match parseU64 ms with
    | none => .error .minor
    | some m => match parseU64 ps with
      | none => .error .patch
      | some p => .ok (m, p)
  | none =>
    match parseU64 tail with
    | none => .error .minor
    | some m => .ok (m, 0)

/-- `Self::stable(minor, patch).map_err(|err| invalid_input(input, err))` -/
def finish (earliest : Target) (m p : Nat) : ParseRes :=
  match stableCtor earliest m p with
  | none => .err .tooEarly
  | some t => .ok t

/-- the `if pre_release == "nightly" { .. }` adjustment followed by `Self::stable` -/
def adjust (decr : DecrKind) (earliest : Target) (checks : Bool) (isNightly : Bool) (m p : Nat) : ParseRes :=
  if isNightly then
    if m = 0 then
      match decr with
      | .checked => .err .tooEarly
      | .unchecked => if checks then .panic else finish earliest u64Max u64Max   -- wraps to u64::MAX
    else finish earliest (m - 1) u64Max
  else finish earliest m p

/-- `input.split_once('-')` else `(input, "")` -/
def splitPre (input : List Char) : List Char × List Char :=
  match splitOnce '-' input with
  | some (v, p) => (v, p)
  | none => (input, [])

/-- the accepted pre-release suffixes -/
def preOk (pre : List Char) : Bool :=
  pre.isEmpty || pre == sBeta || startsWith pre sBetaDot || pre == sNightly

/-- everything after the pre-release check: `1.minor[.patch]`, the `-nightly` step, `Self::stable` -/
def parseVersion (decr : DecrKind) (earliest : Target) (checks : Bool) (version : List Char)
    (isNightly : Bool) : ParseRes :=
  match splitOnce '.' version with
  | none => .err .form
  | some (major, tail) =>
    if major ≠ ['1'] then .err .major else
    match parseNumbers tail with
    | .error e => .err e
    | .ok (m, p) => adjust decr earliest checks isNightly m p

/-- `RustTarget::from_str(input)`; `checks` = the build has overflow checks (debug) -/
def fromStr (decr : DecrKind) (earliest : Target) (checks : Bool) (input : List Char) : ParseRes :=
  if input = sNightly then .ok .nightly else
  if !preOk (splitPre input).2 then .err .form else
  parseVersion decr earliest checks (splitPre input).1 ((splitPre input).2 == sNightly)

/-- `from_str` of the code found in /repo -/
def fromStrRepo (checks : Bool) (input : List Char) : ParseRes :=
  match earliestStable theTable with
  | some e => fromStr nightlyDecr e checks input
  | none => .panic   -- `unreachable!()` in the const (would not compile)

/-- `<RustEdition as FromStr>::from_str` on the decimal year -/
def editionOfYear (y : Nat) : Option Edition := Edition.all.find? (fun e => e.year = y)

end BindgenModel.Features
