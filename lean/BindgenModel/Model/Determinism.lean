/-!
# C11 — model of everything through which "something other than the input" could reach the output

Three parts, all executable and import-free:

1. **Consumers of hash-container iterations.**  A hash container is its *content*; the order in
   which an iteration yields the content is a parameter (`Order`: any function that returns a
   permutation of the list it is given — it may even depend on the content, as hashbrown's
   does).  Every iteration site in `bindgen/` has a consumer from the closed set
   `ConsumerClass`; `consume` is what that consumer computes from the yielded list.

2. **A generation** is a list of `Step`s over an abstract state; a step is an iteration site:
   it computes the container content from the state, receives it in the order chosen by the
   `Order` for that site, applies its consumer and stores the result.

3. **Process-wide state** is a finite family of write-once cells (`OnceLock` statics).  A
   generation is a sequence of micro-steps, each touching (get-or-init) one cell and updating
   the generation's private state; several generations interleave in one process sharing only
   the cells (`Proc`, `fire`, `runSched`).

The committed classification tables `iterClasses` / `stateClasses` (hash of the site in
`Generated/Sites.lean` ↦ class, one-line justification) tie the model to the source: the
obligation `all_sites_classified` (Props/C11.lean) fails when the translator finds a site that
has no row here.
-/
namespace BindgenModel.Determinism

/-! ## 1. consumers -/

abbrev Elem := Nat

/-- closed set of consumer classes of a hash-container iteration -/
inductive ConsumerClass
  /-- `.collect::<BTreeSet/ItemSet/BTreeMap>()`: the result is the sorted, de-duplicated image -/
  | collectOrdered
  /-- `.collect::<Vec<_>>()` followed by `sort`/`sort_unstable` before any other use -/
  | sortAfter
  /-- `.any(..)`, `.all(..)`, `.count()`, `extra_assert!(.. .all(..))` -/
  | anyAll
  /-- `.find(p)` where at most one element of the container can satisfy `p` -/
  | findUnique
  /-- every element (or its image) is inserted into another hash container / set-like target -/
  | insertAll
  /-- `for x in values_mut()`: an effect on each element that reads and writes only that element -/
  | forEachIndependent
  /-- never iterated: `get`/`insert`/`contains`/`entry` only (listed for completeness) -/
  | lookupOnly
  /-- feeds only a log / debug line / verification hook, never the bindings or side outputs -/
  | debugOnly
  /-- false positive of the conservative inventory: the receiver is a `Vec`/ordered container -/
  | notHash
  /-- runs outside generation (`Builder::command_line_flags`, C13); result never reaches bindings -/
  | outsideGeneration
  deriving DecidableEq, Repr

/-- insert into an ascending list (duplicates kept) -/
def ordInsert (a : Elem) : List Elem → List Elem
  | [] => [a]
  | b :: l => if a ≤ b then a :: b :: l else b :: ordInsert a l

/-- insert into an ascending duplicate-free list (set semantics) -/
def setInsert (a : Elem) : List Elem → List Elem
  | [] => [a]
  | b :: l => if a < b then a :: b :: l else if a = b then b :: l else b :: setInsert a l

/-- `collect` into a `Vec`, then `sort` -/
def sortList (xs : List Elem) : List Elem := xs.foldr ordInsert []

/-- `collect` into a `BTreeSet` (or: the content of the hash container all elements are inserted into) -/
def toOrderedSet (xs : List Elem) : List Elem := xs.foldr setInsert []

/-- what a consumer hands on -/
inductive Val
  | list (l : List Elem)
  | flag (b : Bool)
  | found (o : Option Elem)
  | unit
  deriving DecidableEq, Repr

/-- the consumer of class `c` with element predicate `p` and (flat) element map `f`,
    applied to the list an iteration yielded -/
def consume (c : ConsumerClass) (p : Elem → Bool) (f : Elem → List Elem) (xs : List Elem) : Val :=
  match c with
  | .collectOrdered => .list (toOrderedSet (xs.flatMap f))
  | .sortAfter => .list (sortList (xs.flatMap f))
  | .anyAll => .flag (xs.any p)
  | .findUnique => .found (xs.find? p)
  | .insertAll => .list (toOrderedSet (xs.flatMap f))
  | .forEachIndependent => .list (toOrderedSet (xs.flatMap f))
  | .lookupOnly => .unit
  | .debugOnly => .unit
  | .notHash => .unit
  | .outsideGeneration => .unit

/-! ## 2. a generation as a sequence of iteration steps -/

/-- iteration order of every site: site id → content → the content in *some* order.
    (That the result is a permutation of the argument is the hypothesis `IsOrder`.) -/
abbrev Order := Nat → List Elem → List Elem

/-- one iteration site inside a generation -/
structure Step (σ : Type) where
  site : Nat
  cls : ConsumerClass
  /-- container content, computed from the generation's state, in canonical order -/
  content : σ → List Elem
  p : Elem → Bool
  f : Elem → List Elem
  /-- how the consumer's result enters the state -/
  update : σ → Val → σ

def Step.run {σ : Type} (s : Step σ) (π : Order) (st : σ) : σ :=
  s.update st (consume s.cls s.p s.f (π s.site (s.content st)))

/-- run a program (list of steps) under an iteration order -/
def runSteps {σ : Type} (π : Order) : List (Step σ) → σ → σ
  | [], st => st
  | s :: rest, st => runSteps π rest (s.run π st)

/-- `gen i π` : the output of generating input `i` when hash containers iterate as `π` says -/
def gen {ι σ ω : Type} (prog : ι → List (Step σ)) (init : ι → σ) (out : σ → ω) (i : ι) (π : Order) : ω :=
  out (runSteps π (prog i) (init i))

/-! ## 3. process-wide write-once cells, interleaved generations -/

/-- A system: `nsteps i` micro-steps for input `i`; step `pc` touches cell `cellOf i pc`;
    an uninitialised cell is initialised by the generation that touches it first with
    `initVal i c` (a value that MAY depend on that generation's input — input-independence is
    a hypothesis of the theorems, see `InputIndependent`); `next` is the private update. -/
structure Sys where
  nsteps : Nat → Nat
  cellOf : Nat → Nat → Nat
  initVal : Nat → Nat → Nat
  next : Nat → Nat → Nat → Nat → Nat      -- input, pc, local state, value read ↦ local state
  start : Nat → Nat
  out : Nat → Nat

/-- one running generation -/
structure GenSt where
  input : Nat
  pc : Nat
  loc : Nat
  deriving DecidableEq, Repr

/-- process state: the cells (association list, absent = uninitialised) and the generations -/
structure Proc where
  cells : List (Nat × Nat)
  gens : List GenSt
  deriving DecidableEq, Repr

def cellGet (cells : List (Nat × Nat)) (c : Nat) : Option Nat :=
  match cells with
  | [] => none
  | (k, v) :: rest => if k = c then some v else cellGet rest c

/-- `OnceLock::get_or_init`: the first toucher's initialiser wins -/
def getOrInit (S : Sys) (cells : List (Nat × Nat)) (i c : Nat) : Nat × List (Nat × Nat) :=
  match cellGet cells c with
  | some v => (v, cells)
  | none => (S.initVal i c, (c, S.initVal i c) :: cells)

/-- one micro-step of a generation against the shared cells -/
def stepGen (S : Sys) (cells : List (Nat × Nat)) (g : GenSt) : List (Nat × Nat) × GenSt :=
  if g.pc < S.nsteps g.input then
    let r := getOrInit S cells g.input (S.cellOf g.input g.pc)
    (r.2, { g with pc := g.pc + 1, loc := S.next g.input g.pc g.loc r.1 })
  else (cells, g)

def setNth {α : Type} : List α → Nat → α → List α
  | [], _, _ => []
  | _ :: l, 0, a => a :: l
  | b :: l, n + 1, a => b :: setNth l n a

/-- generation number `k` takes one micro-step (no-op when `k` is out of range or finished) -/
def fire (S : Sys) (P : Proc) (k : Nat) : Proc :=
  match P.gens[k]? with
  | none => P
  | some g =>
    let r := stepGen S P.cells g
    { cells := r.1, gens := setNth P.gens k r.2 }

/-- a schedule = which generation moves next, step by step (any interleaving of threads) -/
def runSched (S : Sys) : List Nat → Proc → Proc
  | [], P => P
  | k :: ks, P => runSched S ks (fire S P k)

def freshGen (S : Sys) (i : Nat) : GenSt := { input := i, pc := 0, loc := S.start i }

/-- the reference: input `i` alone in a fresh process; private state after `n` micro-steps -/
def soloLoc (S : Sys) (i : Nat) : Nat → Nat
  | 0 => S.start i
  | n + 1 => S.next i n (soloLoc S i n) (S.initVal i (S.cellOf i n))

def soloOut (S : Sys) (i : Nat) : Nat := S.out (soloLoc S i (S.nsteps i))

/-- run one generation to completion against the given cells (sequential use of a process) -/
def runToEnd (S : Sys) : Nat → List (Nat × Nat) → GenSt → List (Nat × Nat) × GenSt
  | 0, cells, g => (cells, g)
  | fuel + 1, cells, g =>
    let r := stepGen S cells g
    runToEnd S fuel r.1 r.2

/-- a history: generations run one after the other in one process; returns the outputs -/
def runHistory (S : Sys) : List Nat → List (Nat × Nat) → List Nat
  | [], _ => []
  | i :: rest, cells =>
    let r := runToEnd S (S.nsteps i) cells (freshGen S i)
    S.out r.2.loc :: runHistory S rest r.1

/-- a system whose cell is initialised from the first generation's input (negation witness) -/
def leakySys : Sys :=
  { nsteps := fun _ => 1, cellOf := fun _ _ => 0, initVal := fun i _ => i,
    next := fun _ _ _ v => v, start := fun _ => 0, out := fun l => l }

/-- a non-trivial system with input-independent cells (two cells, 2–3 steps per generation) -/
def sampleSys : Sys :=
  { nsteps := fun i => 2 + i % 2, cellOf := fun i pc => (i + pc) % 2, initVal := fun _ c => 7 + c,
    next := fun i pc l v => l * 31 + v + i + pc, start := fun i => i, out := fun l => l }

/-! ## 4. a scratch file at a fixed path — shared MUTABLE state (not a write-once cell)

`--clang-macro-fallback`: every generation creates `<dir>/.macro_eval.c` and a `.pch` with names
that do not depend on the generation, reads them back while evaluating macros, and deletes them
when its context is dropped (clang.rs `FallbackTranslationUnit::new` / `Drop`, ir/context.rs
`try_ensure_fallback_translation_unit`).  Micro-steps: create (content := own input), read,
delete. -/

structure FGen where
  input : Nat
  pc : Nat
  /-- what the `read` step saw: `none` = not read yet, `some none` = file missing -/
  seen : Option (Option Nat)
  deriving DecidableEq, Repr

def fStep (file : Option Nat) (g : FGen) : Option Nat × FGen :=
  match g.pc with
  | 0 => (some g.input, { g with pc := 1 })
  | 1 => (file, { g with pc := 2, seen := some file })
  | 2 => (none, { g with pc := 3 })
  | _ => (file, g)

def fFire (st : Option Nat × List FGen) (k : Nat) : Option Nat × List FGen :=
  match st.2[k]? with
  | none => st
  | some g => let r := fStep st.1 g; (r.1, setNth st.2 k r.2)

def fRunSched : List Nat → Option Nat × List FGen → Option Nat × List FGen
  | [], st => st
  | k :: ks, st => fRunSched ks (fFire st k)

def fFresh (i : Nat) : FGen := { input := i, pc := 0, seen := none }

/-- one generation run to completion on its own: create, read, delete -/
def fRunOne (file : Option Nat) (i : Nat) : Option Nat × FGen :=
  let a := fStep file (fFresh i)
  let b := fStep a.1 a.2
  fStep b.1 b.2

/-- sequential history: what every generation read -/
def fRunHistory : List Nat → Option Nat → List (Option (Option Nat))
  | [], _ => []
  | i :: rest, file => let r := fRunOne file i; r.2.seen :: fRunHistory rest r.1

/-! ## committed classification tables (hand-written; keyed by the site hashes of Generated/Sites) -/

/-- classes of process-wide state / environment sites -/
inductive StateClass
  /-- immutable `static` holding a literal -/
  | immutableConst
  /-- `OnceLock` whose initialiser is a closed expression (regex compiled from a literal) -/
  | writeOnceConst
  /-- `OnceLock`/lazy thread-local whose initialiser reads only the process environment
      (environment variables, file system, rustc binary), never the generation's input -/
  | writeOnceEnv
  /-- read of an environment variable / current directory / temp dir: part of the declared input
      of the property ("given headers, options, environment variables"), read-only -/
  | envInput
  /-- `OnceCell` field of an `Item`, owned by the per-generation `BindgenContext` -/
  | perGenerationCell
  /-- exists only under `--cfg bindgen_verif` (verification hook), thread-local, inert in production -/
  | hookOnly
  /-- build script (`build.rs`): compile time, not part of a generation -/
  | buildScript
  /-- writes an output the caller asked for at the path the caller chose (bindings, depfile,
      wrapper source, graphviz dump, preprocessed dump) -/
  | declaredOutput
  /-- creates / deletes a scratch file whose path does not depend on the generation and whose
      content does: shared MUTABLE state of all generations running in the same directory —
      outside the hypothesis of `C11_interleaving_irrelevant` (see §4 and known finding
      `macro_fallback_shared_scratch_files`) -/
  | sharedScratchFile
  /-- mutable process-wide counter whose value only makes names of scratch files unique; the
      names never reach bindings or side outputs -/
  | scratchNameCounter
  deriving DecidableEq, Repr

/-- does a state site of this class keep a value across generations of one process? -/
def StateClass.sharedAcrossGenerations : StateClass → Bool
  | .immutableConst | .writeOnceConst | .writeOnceEnv => true
  | _ => false

/-- (hash, class, justification) for every iteration site of `Generated.hashIterSites` -/
def iterClasses : List (Nat × ConsumerClass × String) := [
  (466952221512283556, .anyAll, "ir/analysis/derive.rs From<CannotDerive>: extra_assert!(values().all(..)) — boolean, and only under the non-default feature"),
  (849021844105188995, .insertAll, "ir/analysis/derive.rs as_cannot_derive_set: filter_map on (k,v) independently, collect into HashSet<ItemId>"),
  (1073514948287064015, .anyAll, "ir/analysis/has_vtable.rs From<HasVtableAnalysis>: extra_assert!(values().all(..))"),
  (579353871010416995, .anyAll, "ir/analysis/sizedness.rs From<SizednessAnalysis>: extra_assert!(values().all(..))"),
  (772999485082808359, .collectOrdered, "ir/analysis/template_params.rs new: flat_map(pure trace of each item) collected into ItemSet (BTreeSet)"),
  (242544010448755949, .anyAll, "ir/analysis/template_params.rs new: loop body consists of extra_assert!s only"),
  (259699035114886828, .anyAll, "ir/analysis/template_params.rs constrain: extra_assert!(used.values().all(..))"),
  (721238553223304599, .anyAll, "ir/analysis/template_params.rs constrain: extra_assert!(used.values().all(..))"),
  (231241630399370857, .insertAll, "ir/analysis/template_params.rs From<UsedTemplateParameters>: map (k,v)->(k,v.unwrap()) collected into HashMap"),
  (745514230758802786, .notHash, "ir/context.rs process_replacements: `replacements` here is the local Vec built by iterating self.items (a Vec) — same name as the field"),
  (525588060223492232, .debugOnly, "ir/context.rs verif_analysis_lines (cfg bindgen_verif): iterates a BTreeMap parameter"),
  (856271876055423170, .debugOnly, "ir/context.rs verif_analysis_lines (cfg bindgen_verif): collect into BTreeMap for the IR dump"),
  (368887694425967411, .debugOnly, "ir/context.rs verif_analysis_lines (cfg bindgen_verif): collect into BTreeMap for the IR dump"),
  (650002437672588291, .debugOnly, "ir/context.rs verif_analysis_lines (cfg bindgen_verif): collect into BTreeMap for the IR dump"),
  (689916178387910121, .debugOnly, "ir/context.rs verif_analysis_lines (cfg bindgen_verif): collect into BTreeMap for the IR dump"),
  (843260438857175391, .debugOnly, "ir/context.rs verif_analysis_lines (cfg bindgen_verif): collect into BTreeMap for the IR dump"),
  (283335637653398872, .sortAfter, "ir/context.rs opaque_array_types_needed: collect::<Vec<_>>() then sort_unstable() on usize"),
  (931047457799873773, .findUnique, "ir/function.rs FunctionSig::abi (name override): find(regex_set.matches(name)) over abi_overrides — unique only if at most one --override-abi ABI matches the name (hypothesis AtMostOne; see C11_find_order_dependent_witness)"),
  (353906315918619630, .findUnique, "ir/function.rs FunctionSig::abi: same with self.name"),
  (436613978690939584, .forEachIndependent, "lib.rs BindgenOptions::build (feature experimental): build_with_diagnostics on each RegexSet; every abi_overrides entry is zipped with the same flag name"),
  (966166614315576635, .forEachIndependent, "lib.rs BindgenOptions::build: regex_set.build(record_matches) on each RegexSet independently"),
  (798842881912664740, .outsideGeneration, "options/mod.rs module_lines as_args: order of --module-raw-line groups in Builder::command_line_flags(); per module the line order is the Vec's; re-parsing rebuilds the same map (C13)")
]

/-- (hash, class, justification) for every state site of `Generated.stateSites` -/
def stateClasses : List (Nat × StateClass × String) := [
  (870922690428990002, .buildScript, "build.rs OUT_DIR"),
  (1115253636351389052, .buildScript, "build.rs TARGET"),
  (902448731484109459, .buildScript, "build.rs TARGET"),
  (583744097174414, .buildScript, "build.rs TARGET"),
  (592992318613686617, .writeOnceConst, "clang.rs ASSOC_TYPE_RE: Regex::new(literal)"),
  (504894818810720419, .immutableConst, "codegen/mod.rs CONSTIFIED_ENUM_MODULE_REPR_NAME = \"Type\""),
  (193626793676150543, .envInput, "codegen/mod.rs serialize_items: std::env::temp_dir() default directory of the wrapper source (TMPDIR is environment = input)"),
  (879999721640152958, .writeOnceEnv, "diagnostics.rs thread_local INVOKED_BY_BUILD_SCRIPT (feature experimental): chooses the stderr format of diagnostics"),
  (1125409174935343593, .writeOnceEnv, "diagnostics.rs INVOKED_BY_BUILD_SCRIPT = CARGO_CFG_TARGET_ARCH is set"),
  (612001961116322399, .envInput, "diagnostics.rs CARGO_CFG_TARGET_ARCH"),
  (334252306892986947, .writeOnceEnv, "features.rs CURRENT_RUST (only without feature __cli): rustc --version of $RUSTC, read once; a function of the environment"),
  (1126999807929834517, .envInput, "features.rs CARGO_CFG_TARGET_ARCH (initialiser of CURRENT_RUST)"),
  (999476924889218915, .envInput, "features.rs RUSTC (initialiser of CURRENT_RUST)"),
  (1001094341154210492, .envInput, "features.rs RUSTC_WRAPPER (initialiser of CURRENT_RUST)"),
  (38719345363109141, .perGenerationCell, "ir/item.rs Item.local_id"),
  (594035777733392428, .perGenerationCell, "ir/item.rs Item.canonical_name"),
  (864151325524111238, .perGenerationCell, "ir/item.rs Item.path_for_allowlisting"),
  (833213100473477448, .writeOnceConst, "ir/item.rs ANON_TYPE_PARAM_RE: Regex::new(literal)"),
  (401358065699391217, .writeOnceEnv, "lib.rs LIBCLANG: handle of the loaded libclang (LIBCLANG_PATH / file system), re-installed per thread with clang_sys::set_library"),
  (195664616002644896, .envInput, "lib.rs find_effective_target: TARGET"),
  (1012886420713180733, .envInput, "lib.rs rustfmt_path: RUSTFMT"),
  (66209559025139471, .envInput, "lib.rs env_var(key): reported to callbacks via read_env_var"),
  (66933831845878399, .envInput, "options/mod.rs header_contents: current_dir() prefixes the name of an in-memory header"),
  (621548159811732698, .buildScript, "build.rs host-target.txt"),
  (865492049953808878, .sharedScratchFile, "clang.rs FallbackTranslationUnit::new: creates <build dir or .>/.macro_eval.c (fixed name)"),
  (1029920217957333306, .sharedScratchFile, "clang.rs Drop for FallbackTranslationUnit: removes .macro_eval.c"),
  (707024884831842029, .sharedScratchFile, "clang.rs Drop for FallbackTranslationUnit: removes the .pch"),
  (937651750378931466, .sharedScratchFile, "ir/context.rs try_ensure_fallback_translation_unit: saves <dir>/<all but the last header names>-precompile.h.pch (with one header: `-precompile.h.pch` for EVERY input)"),
  (1138953081690003988, .declaredOutput, "codegen/mod.rs serialize_items: directory of the --wrap-static-fns source"),
  (244829459033087943, .declaredOutput, "codegen/mod.rs serialize_items: the --wrap-static-fns source at wrap_static_fns_path (default temp_dir/bindgen/extern)"),
  (733583832033884127, .declaredOutput, "deps.rs DepfileSpec::write: the depfile"),
  (422942212447525742, .declaredOutput, "ir/dot.rs: --emit-ir-graphviz path"),
  (1020166412811800764, .declaredOutput, "lib.rs dump_preprocessed_input: __bindgen.c/.cpp wrapper in the cwd (explicit debugging API)"),
  (381455595391305620, .declaredOutput, "lib.rs dump_preprocessed_input: __bindgen.i/.ii in the cwd (explicit debugging API)"),
  (1141432568443622269, .declaredOutput, "lib.rs Bindings::write_to_file"),
  (838780915057964615, .declaredOutput, "options/cli.rs --output"),
  (514615211141622946, .hookOnly, "verif.rs log file append"),
  (524418565135808214, .scratchNameCounter, "ir/context.rs FALLBACK_TU_COUNTER — exists only once fixes/C11-macro-fallback-unique-scratch.diff is applied (row prepared so that the fix does not break the obligation)"),
  (243731835931757708, .hookOnly, "verif.rs thread_local block (log path, unstable pairs)"),
  (797327250632026338, .hookOnly, "verif.rs LOG_PATH"),
  (1059810259706482201, .hookOnly, "verif.rs UNSTABLE"),
  (572683747102037340, .hookOnly, "verif.rs BINDGEN_VERIF_LOG"),
  (249856474769055402, .hookOnly, "verif.rs thread_local block (hash seed)"),
  (135485296524156536, .hookOnly, "verif.rs HASH_SEED"),
  (507150124952164179, .hookOnly, "verif.rs BINDGEN_VERIF_HASH_SEED")
]

def iterClassOf (h : Nat) : Option ConsumerClass :=
  (iterClasses.find? (fun r => r.1 == h)).map (fun r => r.2.1)

def stateClassOf (h : Nat) : Option StateClass :=
  (stateClasses.find? (fun r => r.1 == h)).map (fun r => r.2.1)

def ConsumerClass.name : ConsumerClass → String
  | .collectOrdered => "collectOrdered" | .sortAfter => "sortAfter" | .anyAll => "anyAll"
  | .findUnique => "findUnique" | .insertAll => "insertAll" | .forEachIndependent => "forEachIndependent"
  | .lookupOnly => "lookupOnly" | .debugOnly => "debugOnly" | .notHash => "notHash"
  | .outsideGeneration => "outsideGeneration"

def StateClass.name : StateClass → String
  | .immutableConst => "immutableConst" | .writeOnceConst => "writeOnceConst"
  | .writeOnceEnv => "writeOnceEnv" | .envInput => "envInput"
  | .perGenerationCell => "perGenerationCell" | .hookOnly => "hookOnly" | .buildScript => "buildScript"
  | .declaredOutput => "declaredOutput" | .sharedScratchFile => "sharedScratchFile"
  | .scratchNameCounter => "scratchNameCounter"

def ConsumerClass.ofName? (s : String) : Option ConsumerClass :=
  [ConsumerClass.collectOrdered, .sortAfter, .anyAll, .findUnique, .insertAll, .forEachIndependent,
   .lookupOnly, .debugOnly, .notHash, .outsideGeneration].find? (fun c => c.name == s)

end BindgenModel.Determinism
