import BindgenModel.Model.CExpr
/-!
# Known-finding regions of C05 (decidable predicates; mirrored in harness/src/bin/c05.rs)

A region flag of a definition is the union of the LOCAL flags of its body and the flags of
every name it references (over all bodies that name ever had), plus `r` when its own name is
defined more than once.  Names are processed in order of first definition.

* `u` `macro_unsigned_wrap` — some literal / intermediate has an unsigned C integer type
* `c` `macro_char_sign`     — the body is a character literal with code ≥ 128
* `r` `macro_redefinition`  — a name involved is defined more than once
* `f` `macro_float_suffix`  — a floating literal carries an `f` / `l` suffix
* `w` `macro_wide_string`   — a string literal carries an `L` / `u` / `U` prefix
* `p` `macro_open_reference` — a referenced name has a body whose top-level operator is binary
  or `?:` without enclosing parentheses (`#define A 1+2`, `(A*3)` is `1+2*3` for C, 9 for cexpr)
  (`o` is the internal "this name is open" flag)
-/
namespace BindgenModel.CExpr

structure Flags where
  u : Bool := false
  c : Bool := false
  r : Bool := false
  f : Bool := false
  w : Bool := false
  p : Bool := false
  o : Bool := false
  deriving DecidableEq, Repr

def Flags.or (a b : Flags) : Flags :=
  ⟨a.u || b.u, a.c || b.c, a.r || b.r, a.f || b.f, a.w || b.w, a.p || b.p, a.o || b.o⟩

def Flags.any (a : Flags) : Bool := a.u || a.c || a.r || a.f || a.w || a.p

def charHighLocal (e : Expr) : Bool :=
  match stripParens e with
  | .chr _ code => decide (code ≥ 128)
  | _ => false

def localFlags (tenv : List (String × CTy)) (e : Expr) : Flags :=
  { u := hasUnsigned tenv e, c := charHighLocal e, r := false, f := hasFloatSuffix e, w := hasWideString e }

def flagsLookup (nf : List (String × Flags)) (n : String) : Flags :=
  match nf.find? (·.1 = n) with
  | some p => p.2
  | none => {}

def countDefs (defs : List (String × Expr)) (n : String) : Nat := (defs.filter (·.1 = n)).length

/-- top-level operator binary / `?:`, or an alias of such a name -/
def openBody (nf : List (String × Flags)) : Expr → Bool
  | .bin .. => true
  | .cond .. => true
  | .ident n => (flagsLookup nf n).o
  | _ => false

/-- local flags of a body plus the flags of the names it references (`o` is not inherited
through references, it becomes `p` of the referencing body) -/
def bodyFlags (tenv : List (String × CTy)) (nf : List (String × Flags)) (e : Expr) : Flags :=
  let inherited := (refs e).foldl (fun acc r =>
    let f := flagsLookup nf r
    acc.or { f with o := false, p := f.p || f.o }) (localFlags tenv e)
  { inherited with o := openBody nf e }

def firstNames (defs : List (String × Expr)) : List String :=
  defs.foldl (fun acc d => if acc.contains d.1 then acc else acc ++ [d.1]) []

/-- flags per NAME (all bodies of the name) -/
def nameFlags (tenv : List (String × CTy)) (defs : List (String × Expr)) : List (String × Flags) :=
  (firstNames defs).foldl (fun nf n =>
    let bodies := (defs.filter (·.1 = n)).map (·.2)
    let base : Flags := { r := decide (countDefs defs n ≥ 2) }
    (n, bodies.foldl (fun acc b => acc.or (bodyFlags tenv nf b)) base) :: nf) []

/-- flags of one definition -/
def defFlags (tenv : List (String × CTy)) (defs : List (String × Expr)) (nf : List (String × Flags))
    (name : String) (body : Expr) : Flags :=
  (bodyFlags tenv nf body).or { r := decide (countDefs defs name ≥ 2) }

end BindgenModel.CExpr
