/-!
# Model of `__BindgenBitfieldUnit` (bindgen/codegen/bitfield_unit.rs)

Storage is a list of bytes.  The functions below are written as the Rust is: start byte,
bit shift, `bytes_needed`, a loop over `0..bytes_needed` accumulating / storing bytes, a
mask.  They are generic in the machine-word width `W` so that the `usize` fast path of the
`*_const` forms (32- or 64-bit `usize`) and the `u64` path are the same definition.

Shifts are evaluated with Rust's *wrapping* semantics (shift amount taken modulo the type
width) — what a build without overflow checks computes; `dbgPanics` says exactly when a
build with overflow checks panics instead ("attempt to shift left/right with overflow").

Little-endian (`cfg!(target_endian = "big")` false) is modelled by `get`/`set`; the
big-endian branches are modelled by `getBE`/`setBE` on top of `BitVec.reverse`.
-/
namespace BindgenModel.BitfieldUnit

abbrev Byte := BitVec 8

/-- `x << n` on a `W`-bit unsigned, wrapping shift amount (release-mode Rust). -/
def shlW {W : Nat} (x : BitVec W) (n : Nat) : BitVec W := x <<< (n % W)
/-- `x >> n` on a `W`-bit unsigned, wrapping shift amount (release-mode Rust). -/
def shrW {W : Nat} (x : BitVec W) (n : Nat) : BitVec W := x >>> (n % W)

/-- the accumulate loop `for i in 0..k { val |= (storage[start+i] as uW) << (i*8) }` -/
def gather (W : Nat) (s : List Byte) (start : Nat) : Nat → BitVec W
  | 0 => 0
  | k + 1 => gather W s start k ||| shlW ((s.getD (start + k) 0).setWidth W) (k * 8)

/-- `(1 << w) - 1` guarded by `if w < W` (otherwise all ones: no masking happens). -/
def lowMask (W w : Nat) : BitVec W := if w < W then (1#W <<< w) - 1#W else BitVec.allOnes W

/-- `get` / `raw_get` with a `W`-bit accumulator (little endian). -/
def getW (W : Nat) (s : List Byte) (off w : Nat) : BitVec W :=
  if w = 0 then 0 else
  let start := off / 8
  let shift := off % 8
  let need := (w + shift + 7) / 8
  let val := gather W s start need
  let val := val >>> shift
  val &&& lowMask W w

/-- `__BindgenBitfieldUnit::get` (and `raw_get`: same arithmetic through a raw pointer). -/
def get (s : List Byte) (off w : Nat) : BitVec 64 := getW 64 s off w

/-- the store loop `for i in 0..k { storage[start+i] = (storage[start+i] & !m) | (v & m) }` -/
def store {W : Nat} (s : List Byte) (start : Nat) (val mask : BitVec W) : Nat → List Byte
  | 0 => s
  | k + 1 =>
    let s' := store s start val mask k
    let bv : Byte := (shrW val (k * 8)).setWidth 8
    let bm : Byte := (shrW mask (k * 8)).setWidth 8
    s'.set (start + k) ((s'.getD (start + k) 0 &&& ~~~bm) ||| (bv &&& bm))

/-- `set` / `raw_set` with a `W`-bit temporary (little endian). -/
def setW (W : Nat) (s : List Byte) (off w : Nat) (v : BitVec W) : List Byte :=
  if w = 0 then s else
  let val := v &&& lowMask W w
  let start := off / 8
  let shift := off % 8
  let need := (w + shift + 7) / 8
  let val := val <<< shift
  let mask : BitVec W :=
    if w + shift ≥ W then (BitVec.allOnes W) <<< shift else ((1#W <<< w) - 1#W) <<< shift
  store s start val mask need

/-- `__BindgenBitfieldUnit::set` (and `raw_set`). -/
def set (s : List Byte) (off w : Nat) (v : BitVec 64) : List Byte := setW 64 s off w v

/-- `get_const` / `raw_get_const` on a target whose `usize` has `wb` bits. -/
def getConst (wb : Nat) (s : List Byte) (off w : Nat) : BitVec 64 :=
  if w = 0 then 0 else
  if w + off % 8 ≤ wb then (getW wb s off w).setWidth 64 else getW 64 s off w

/-- `set_const` / `raw_set_const` on a target whose `usize` has `wb` bits. -/
def setConst (wb : Nat) (s : List Byte) (off w : Nat) (v : BitVec 64) : List Byte :=
  if w = 0 then s else
  if w + off % 8 ≤ wb then setW wb s off w (v.setWidth wb) else setW 64 s off w v

/-- A build with overflow checks panics exactly here (a `u64` shifted by `8*8 = 64`). -/
def dbgPanics (off w : Nat) : Bool := decide (w ≠ 0) && decide (w + off % 8 > 64)

/-- the code's own `debug_assert!` preconditions -/
def pre (n off w : Nat) : Bool :=
  decide (w ≤ 64) && decide (off / 8 < n) && decide ((off + w + 7) / 8 ≤ n)

/-- bit `j` of the object seen as a flat little-endian bit vector -/
def bitAt (s : List Byte) (j : Nat) : Bool := (s.getD (j / 8) 0).getLsbD (j % 8)

/-- reference semantics of reading `w` bits at bit offset `off` -/
def specGetNat (s : List Byte) (off : Nat) : Nat → Nat
  | 0 => 0
  | w + 1 => specGetNat s off w + (if bitAt s (off + w) then 2 ^ w else 0)

def specGet (s : List Byte) (off w : Nat) : BitVec 64 := BitVec.ofNat 64 (specGetNat s off w)

/-- reference semantics of storing the low `w` bits of `v` at bit offset `off` -/
def specSetBit (s : List Byte) (off w : Nat) (v : BitVec 64) (j : Nat) : Bool :=
  if off ≤ j ∧ j < off + w then v.getLsbD (j - off) else bitAt s j

/-- rebuild a storage of the same length from a bit function -/
def ofBits (n : Nat) (f : Nat → Bool) : List Byte :=
  (List.range n).map fun b => BitVec.ofNat 8
    ((List.range 8).foldl (fun acc i => acc + (if f (8 * b + i) then 2 ^ i else 0)) 0)

def specSet (s : List Byte) (off w : Nat) (v : BitVec 64) : List Byte :=
  ofBits s.length (specSetBit s off w v)

/-! ## big-endian branches (`cfg!(target_endian = "big")`)

Every byte is bit-reversed on the way in and out (`reverse_bits`), and the value is reversed
within the field width: the first storage bit of the field is the value's most significant bit. -/

def getBE (s : List Byte) (off w : Nat) : BitVec 64 :=
  if w = 0 then 0 else (get (s.map BitVec.reverse) off w).reverse >>> (64 - w)

def setBE (s : List Byte) (off w : Nat) (v : BitVec 64) : List Byte :=
  if w = 0 then s else
  let v' := (v &&& lowMask 64 w).reverse >>> (64 - w)
  (set (s.map BitVec.reverse) off w v').map BitVec.reverse

/-- bit `j` of the object in the big-endian bit numbering of `get_bit` / `set_bit` -/
def bitAtBE (s : List Byte) (j : Nat) : Bool := (s.getD (j / 8) 0).getLsbD (7 - j % 8)

def specGetBE (s : List Byte) (off w : Nat) : BitVec 64 :=
  BitVec.ofNat 64 ((List.range w).foldl (fun acc i => acc + (if bitAtBE s (off + (w - 1 - i)) then 2 ^ i else 0)) 0)

def ofBitsBE (n : Nat) (f : Nat → Bool) : List Byte :=
  (List.range n).map fun b => BitVec.ofNat 8
    ((List.range 8).foldl (fun acc i => acc + (if f (8 * b + (7 - i)) then 2 ^ i else 0)) 0)

def specSetBE (s : List Byte) (off w : Nat) (v : BitVec 64) : List Byte :=
  ofBitsBE s.length fun j => if off ≤ j ∧ j < off + w then v.getLsbD (w - 1 - (j - off)) else bitAtBE s j

/-! ## Allocation-unit constructor (`new_bitfield_N`): a sequence of `set`s on a zero unit -/

structure Field where
  off : Nat
  width : Nat
deriving Repr, DecidableEq

def ctor (n : Nat) (fs : List (Field × BitVec 64)) : List Byte :=
  fs.foldl (fun s fv => set s fv.1.off fv.1.width fv.2) (List.replicate n 0)

/-! ## Accessor cast chain emitted by `impl FieldCodegen for Bitfield`

getter: `transmute(self._bitfield_N.get_const::<OFF, W>() as uK)` where `uK` is the unsigned
integer of the declared type's size; setter: `let val: uK = transmute(val);
set_const::<OFF, W>(val as u64)`. -/

/-- what the Rust getter returns, as the bit pattern of the declared `8*tsz`-bit type -/
def rustGetter (tsz : Nat) (s : List Byte) (off w : Nat) : Nat :=
  (get s off w).toNat % 2 ^ (8 * tsz)

/-- what C reads: the `w` stored bits zero- or sign-extended to the declared type -/
def cRead (signed : Bool) (tsz : Nat) (s : List Byte) (off w : Nat) : Nat :=
  let raw := (specGet s off w).toNat
  if signed && decide (0 < w) && raw.testBit (w - 1) then
    (raw + (2 ^ (8 * tsz) - 2 ^ w)) % 2 ^ (8 * tsz)
  else raw % 2 ^ (8 * tsz)

end BindgenModel.BitfieldUnit
