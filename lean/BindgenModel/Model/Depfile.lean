/-! C17 — depfile text as `bindgen/deps.rs` writes it, and GNU make's reading of a rule line.

Import-free and executable.  Text is `List Char` (`Str`).

* `replaceChar`/`escapeWith`/`toStringWith` model `DepfileSpec::to_string`: the closure
  `escape = |s| s.replace('\\', "\\\\").replace(' ', "\\ ")…` is a *sequence* of whole-string
  replacements; the sequence itself (`Generated.DepfileEscape.escapeTable`) is extracted from
  deps.rs by the translator on every run, so the model follows the source.
* `makeParse` is a specification of how GNU make (4.x, POSIX build) reads ONE rule line:
  comment removal (`#`, backslash-quoted `\#`, backslashes halved only directly before the `#`),
  variable references (`$$` → `$`, `$x` → value of an undefined variable = empty), the
  target/prerequisite separator (first `:` not quoted by an odd run of backslashes),
  white-space normalisation of the target part, white-space splitting with backslash-quoted
  blanks (backslashes are halved ONLY in a run directly before a blank; elsewhere they are
  literal), removal of trailing blanks, and removal of leading `./`.
  It answers `none` for anything outside this fragment (pattern rules, `;` recipes,
  assignments, globbing/tilde/archive characters, `$(…)`, static pattern rules, several lines).
  The specification is validated against the installed `make` on every run of the check
  (random rule lines over the special characters), see harness/src/bin/c17.rs. -/
namespace BindgenModel.Depfile

abbrev Str := List Char

/-! ## deps.rs -/

/-- `str::replace(c, r)` for a one-character pattern. -/
def replaceChar (c : Char) (r : Str) : Str → Str
  | [] => []
  | x :: xs => if x = c then r ++ replaceChar c r xs else x :: replaceChar c r xs

/-- the `escape` closure: the replacements of the table applied one after the other -/
def escapeWith (tbl : List (Char × Str)) (s : Str) : Str :=
  tbl.foldl (fun acc p => replaceChar p.1 p.2 acc) s

/-- `DepfileSpec::to_string`: `format!("{}:", escape(module))`, then `format!("{buf} {}", escape(file))`
    for every element of the (sorted, duplicate-free) `BTreeSet` -/
def toStringWith (tbl : List (Char × Str)) (tgt : Str) (deps : List Str) : Str :=
  deps.foldl (fun buf d => buf ++ ' ' :: escapeWith tbl d) (escapeWith tbl tgt ++ [':'])

/-- deps.rs as it is today -/
def tblCurrent : List (Char × Str) := [('\\', ['\\', '\\']), (' ', ['\\', ' '])]
/-- deps.rs with fixes/C17-depfile-escape.diff applied -/
def tblFixed : List (Char × Str) :=
  [('\\', ['\\', '\\']), (' ', ['\\', ' ']), ('#', ['\\', '#']), ('$', ['$', '$'])]

/-! ## GNU make -/

def bs (k : Nat) : Str := List.replicate k '\\'

def isBlank (c : Char) : Bool := c = ' ' || c = '\t'

/-- characters that take the line outside the modelled fragment of make's grammar -/
def unmodelled (c : Char) : Bool :=
  c = '%' || c = ';' || c = '=' || c = '*' || c = '?' || c = '[' || c = ']' || c = '~' ||
  c = '(' || c = ')' || c = '|' || c = '&' || c = '\n' || c = '\r' || c.toNat = 0

/-- after a `$`: forms of variable reference the model does not follow -/
def badAfterDollar (c : Char) : Bool :=
  c = '(' || c = '{' || isBlank c || c.toNat ≥ 128

/-- read.c `remove_comments` (`find_map_unquote (line, MAP_COMMENT|MAP_VARIABLE)`): `k` is the
    length of the backslash run seen so far.  A `#` after an even run starts the comment, after
    an odd run it is literal; in both cases the run is halved.  `$c` is skipped as a variable
    reference (so `$#` is not a comment), except that a backslash after `$` still counts as the
    beginning of a run.  The flag says that the previous character was such a `$`. -/
def stripComment : Nat → Bool → Str → Option Str
  | k, _, [] => some (bs k)
  | _, true, c :: t =>
    -- the character after a `$` (the run count is 0 here)
    if badAfterDollar c then none
    else if c = '\\' then stripComment 1 false t
    else (stripComment 0 false t).map (fun r => c :: r)
  | k, false, c :: t =>
    if c = '\\' then stripComment (k + 1) false t
    else if c = '#' then
      if k % 2 = 0 then some (bs (k / 2))
      else (stripComment 0 false t).map (fun r => bs (k / 2) ++ '#' :: r)
    else if c = '$' then (stripComment 0 true t).map (fun r => bs k ++ '$' :: r)
    else (stripComment 0 false t).map (fun r => bs k ++ c :: r)

/-- the first `:` not quoted by an odd backslash run (`find_char_unquote (…, ':')`, which
    halves the run in front of every colon it inspects); `$c` pairs are skipped.  Works on the
    unexpanded text.  `mode`: 0 = ordinary, 1 = directly after a `$`, 2 = directly after a `$`
    that followed a backslash.  `none`: no separator, or a variable reference directly after a
    backslash. -/
def findColon : Nat → Nat → Str → Option (Str × Str)
  | _, _, [] => none
  | k, 0, c :: t =>
    if c = '\\' then findColon (k + 1) 0 t
    else if c = ':' then
      if k % 2 = 0 then some (bs (k / 2), t)
      else (findColon 0 0 t).map (fun p => (bs (k / 2) ++ ':' :: p.1, p.2))
    else if c = '$' then
      (findColon 0 (if k > 0 then 2 else 1) t).map (fun p => (bs k ++ '$' :: p.1, p.2))
    else (findColon 0 0 t).map (fun p => (bs k ++ c :: p.1, p.2))
  | _, m + 1, d :: t =>
    if d ≠ '$' ∧ m = 1 then none
    else (findColon 0 0 t).map (fun p => (d :: p.1, p.2))

/-- the target part is re-assembled word by word (`get_next_mword`), the words joined by one
    space: every maximal run of blanks becomes one space, leading blanks disappear -/
def normalise : Bool → Bool → Str → Str
  | pend, started, [] => if pend && started then [' '] else []
  | pend, started, c :: t =>
    if isBlank c then normalise true started t
    else (if pend && started then [' ', c] else [c]) ++ normalise false true t

/-- `variable_expand_string` with no variable defined: `$$` → `$`, a final `$` stays, `$c` → empty.
    `pb`: the last character written is a backslash (then a vanishing reference is not modelled);
    second flag: the previous character was an unpaired `$`. -/
def expand : Bool → Bool → Str → Option Str
  | _, false, [] => some []
  | _, true, [] => some ['$']
  | pb, true, d :: t =>
    if d = '$' then (expand false false t).map (fun r => '$' :: r)
    else if pb then none
    else expand pb false t
  | pb, false, c :: t =>
    if c = '$' then expand pb true t
    else (expand (c = '\\') false t).map (fun r => c :: r)

/-- `parse_file_seq`: names are separated by blanks; a blank directly after an odd backslash
    run belongs to the name; the run in front of a blank is halved; other backslashes are kept. -/
def splitNames : Str → Nat → Bool → Str → List Str
  | cur, k, started, [] => if started then [cur ++ bs k] else []
  | cur, k, started, c :: t =>
    if c = '\\' then splitNames cur (k + 1) true t
    else if isBlank c then
      if k % 2 = 1 then splitNames (cur ++ bs (k / 2) ++ [c]) 0 true t
      else if started then (cur ++ bs (k / 2)) :: splitNames [] 0 false t
      else splitNames [] 0 false t
    else splitNames (cur ++ bs k ++ [c]) 0 true t

def dropSlashes : Str → Str
  | [] => []
  | c :: t => if c = '/' then dropSlashes t else c :: t

/-- "Strip leading ./ (and following slashes), but not a name that is only `./`". -/
def stripDot : Nat → Str → Str
  | 0, s => s
  | fuel + 1, s =>
    match s with
    | a :: b :: c :: t =>
      if a = '.' ∧ b = '/' then
        match dropSlashes (c :: t) with
        | [] => ['.', '/']
        | s' => stripDot fuel s'
      else s
    | _ => s

def dropTrailingBlanks (s : Str) : Str := (s.reverse.dropWhile isBlank).reverse

/-- make's reading of the depfile text: `(targets, prerequisites)`, or `none` when the text is not
    one plain explicit rule of the modelled fragment. -/
def makeParse (s : Str) : Option (List Str × List Str) :=
  if s.any unmodelled then none
  else if s.head? = some '\t' then none
  else
    match stripComment 0 false s with
    | none => none
    | some t =>
      match findColon 0 0 t with
      | none => none
      | some (tg, rest) =>
        match expand false false (normalise false false tg), expand false false rest with
        | some tg, some rest =>
          if rest.contains ':' then none
          else
            let rest := dropTrailingBlanks rest
            let tgs := (splitNames [] 0 false tg).map (fun n => stripDot n.length n)
            let deps := (splitNames [] 0 false rest).map (fun n => stripDot n.length n)
            if tgs.isEmpty then none else some (tgs, deps)
        | _, _ => none

/-- does make read back exactly the target and the prerequisite list that were written? -/
def roundTrips (tbl : List (Char × Str)) (tgt : Str) (deps : List Str) : Bool :=
  makeParse (toStringWith tbl tgt deps) == some ([tgt], deps)

/-! ## regions (decidable predicates shared with the harness: harness/src/bin/c17.rs `region_*`) -/

/-- the name contains `#` and the table does not escape it -/
def regionHash (tbl : List (Char × Str)) (n : Str) : Bool :=
  n.contains '#' && !(tbl.any (fun p => p.1 = '#'))
/-- the name contains `$` and the table does not escape it -/
def regionDollar (tbl : List (Char × Str)) (n : Str) : Bool :=
  n.contains '$' && !(tbl.any (fun p => p.1 = '$'))
/-- the name contains a backslash that is not directly followed by a space (bindgen doubles
    every backslash, make halves only runs directly before a blank) -/
def regionBackslash : Str → Bool
  | [] => false
  | [c] => c = '\\'
  | c :: d :: t => (c = '\\' && d ≠ ' ' && d ≠ '\\') || regionBackslash (d :: t)

end BindgenModel.Depfile
