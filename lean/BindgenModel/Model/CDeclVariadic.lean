import BindgenModel.Model.CDecl
/-! # C16 — the `wrap_as_variadic` path of the static-function wrapper generator

`impl CSerialize for Function` (bindgen/codegen/serialize.rs) when `Function::codegen` queued the
item with `Some(WrapAsVariadic { new_name, idx_of_va_list_arg })`, and the decision itself
(`utils::wrap_as_variadic_fn` and its use in `Function::codegen`, bindgen/codegen/mod.rs).

The wrapper drops the `va_list` parameter from its own parameter list, becomes variadic, declares
`ret` (non-void only) and `ap`, does `va_start(ap, <last remaining parameter>)`, calls the wrapped
function with `ap` put back among the remaining names, `va_end(ap)`, `return ret;`.  Every text
fragment and the place where `ap` is put back (`vaApPlacement`) come from the generated table
`Generated/SerializeArms.lean`.  Panics of the code (`args.last().unwrap()`, `Vec::insert` out of
range) are `none` / `VaText.panic`. -/
namespace BindgenModel.CDecl
open BindgenModel.Generated.SerializeArms

/-- `struct WrapAsVariadic` -/
structure WrapVa where
  newName : Name
  idx : Nat
  deriving DecidableEq, Repr

/-- `enumerate().filter_map(|(idx, _)| if Some(idx) == idx_to_prune { None } else { Some(..) })`:
    the parameter at `i` is dropped (nothing is dropped when `i` is out of range) -/
def pruneParams : Params → Nat → Params
  | .nil, _ => .nil
  | .cons _ _ r, 0 => r
  | .cons n t r, i + 1 => .cons n t (pruneParams r i)

/-- `Vec::insert(i, x)`; `none` = the panic for `i > len` -/
def insertAt : List Name → Nat → Name → Option (List Name)
  | l, 0, x => some (x :: l)
  | [], _ + 1, _ => none
  | y :: l, i + 1, x => (insertAt l i x).map (y :: ·)

/-- the statement that puts `ap` back among the forwarded names, in the form the table records -/
def placeAp (pl : ApPlacement) (names : List Name) (idx : Nat) : Option (List Name) :=
  match pl with
  | .insertAtVaListIdx => insertAt names idx fragVaAp
  | .pushLast => some (names ++ [fragVaAp])

structure VaWrapperDef where
  defName : Name
  ret : CType
  /-- the wrapper's own (named) parameters; `...` follows -/
  params : List (Name × CType)
  callee : Name
  /-- second argument of `va_start` -/
  vaStartArg : Name
  forwarded : List Name
  returns : Bool

/-- `none` = the code panics (`args.last().unwrap()` on an empty list / `Vec::insert` out of range) -/
def vaWrapperDef (pl : ApPlacement) (suffix : Name) (f : Fn) (idx : Nat) : Option VaWrapperDef :=
  let ps := pruneParams f.params idx
  let names := argNames ps 0
  match names.getLast?, placeAp pl names idx with
  | some last, some fwd =>
    some { defName := f.name ++ suffix, ret := f.ret, params := names.zip (paramTypes ps), callee := f.name,
           vaStartArg := last, forwarded := fwd, returns := !isVoid f.ret }
  | _, _ => none

def renderVaWrapper (a : Bool) (w : VaWrapperDef) : List Char :=
  let retT := textOf (serP a w.ret [])
  retT ++ fragWrapPre ++ w.defName ++ fragWrapOpen ++
  (if w.params.isEmpty then fragArgsVoid
   else sepBy fragArgsSep (w.params.map fun (n, t) => textOf (serP a t [[pId n]]))) ++
  fragVaOpen ++
  (if w.returns then fragIndent ++ retT ++ fragVaRetDecl else []) ++
  fragIndent ++ fragVaListDecl ++
  fragIndent ++ fragVaStartPre ++ w.vaStartArg ++ fragVaStartPost ++
  fragIndent ++ (if w.returns then fragVaAssign else []) ++ w.callee ++ fragVaCallOpen ++
  sepBy fragCallSep w.forwarded ++ fragVaCallClose ++
  fragIndent ++ fragVaEnd ++
  (if w.returns then fragIndent ++ fragVaReturn else []) ++
  fragEnd

/-- outcome of `Function::serialize`: `Err(CodegenError::Serialize)`, a panic, or the text -/
inductive VaText where
  | error | panic
  | ok (text : List Char)
  deriving DecidableEq, Repr

/-- `<Function as CSerialize>::serialize` with either value of `wrap_as_variadic`.  The type of the
    pruned parameter is never serialised; the return type and the remaining parameters are written
    (and can fail) before `args.last().unwrap()` is reached. -/
def wrapperTextV (a : Bool) (pl : ApPlacement) (suffix : Name) (f : Fn) : Option WrapVa → VaText
  | none => match wrapperText a suffix f with
    | some t => .ok t
    | none => .error
  | some w =>
    if supported f.ret && supportedPs (pruneParams f.params w.idx) then
      match vaWrapperDef pl suffix f w.idx with
      | some d => .ok (renderVaWrapper a d)
      | none => .panic
    else .error

/-! ## the decision: `utils::wrap_as_variadic_fn` and `Function::codegen` -/

/-- what the hand-rolled visitor sees of one argument type, outermost first:
    `(ty.name(), the kind is Alias or ResolvedTypeRef)`; the walk stops after the first `false` -/
abbrev TyChain := List (Option Name × Bool)

def reachesVaList : TyChain → Bool
  | [] => false
  | (n, cont) :: r => n == some vaBuiltinName || (cont && reachesVaList r)

/-- indices (from `i`) of the `true` entries -/
def trueIdxs : List Bool → Nat → List Nat
  | [], _ => []
  | b :: r, i => if b then i :: trueIdxs r (i + 1) else trueIdxs r (i + 1)

/-- `cb` = what `ParseCallbacks::wrap_as_variadic_fn(name)` answers (last callback that answers);
    it is only asked when exactly one argument is a `va_list` -/
def wrapAsVariadicFn (chains : List TyChain) (cb : Option Name) : Option WrapVa :=
  if chains.length ≤ vaMaxArgsNeverWrapped then none
  else match trueIdxs (chains.map reachesVaList) 0 with
    | [i] => cb.map fun n => { newName := n, idx := i }
    | _ => none

structure BindingV where
  ident : Name
  link : Option Name
  wrapped : Bool
  /-- queued with the item on `items_to_serialize` -/
  va : Option WrapVa
  /-- the Rust signature ends in `...` -/
  cVariadic : Bool
  /-- which parameters of the C function appear in the Rust signature, by index -/
  args : List Nat
  deriving DecidableEq, Repr

/-- `Function::codegen` with the `wrap_as_variadic` decision: the identifier becomes `new_name`, the
    `va_list` parameter is pruned from the Rust signature, which becomes variadic; the link name is
    unchanged (`canonical ++ suffix`, set because `should_wrap`) -/
def codegenFnV (wrap : Bool) (suffix : Name) (f : FnInfo) (chains : List TyChain) (cb : Option Name) : Option BindingV :=
  match codegenFn wrap suffix f with
  | none => none
  | some b =>
    let wv := if b.wrapped && !f.variadic then wrapAsVariadicFn chains cb else none
    some { ident := match wv with
             | some w => w.newName
             | none => b.ident,
           link := b.link, wrapped := b.wrapped, va := wv,
           cVariadic := wv.isSome || f.variadic,
           args := (List.range chains.length).filter fun i => some i != wv.map (·.idx) }

/-! ## where the variadic wrapper cannot compile (input-defined regions; mirrored in the harness) -/

/-- the block-scope identifiers the wrapper body declares -/
def vaLocals (returns : Bool) : List Name :=
  (if returns then [['r', 'e', 't']] else []) ++ [fragVaAp]

/-- the names the wrapper body uses from the enclosing scopes: its parameters and the callee -/
def vaUsedNames (f : Fn) (idx : Nat) : List Name :=
  f.name :: argNames (pruneParams f.params idx) 0

/-- a remaining parameter (or the function itself) is called like a local the wrapper declares:
    `int f(int ret, va_list v)` gives `int f__extern(int ret, ...) { int ret; …` -/
def vaNameClash (f : Fn) (idx : Nat) : Bool :=
  (vaUsedNames f idx).any fun n => (vaLocals (!isVoid f.ret)).contains n

end BindgenModel.CDecl
