/-!
String codecs used by `Builder::command_line_flags` (bindgen/options/mod.rs, the `cli_args` of the
CLI callbacks) and their inverses in bindgen/options/cli.rs, on `List Char`:

* `{item}={abi}`                 ↔ `parse_abi_override`      (`rsplit_once('=')`)
* `{regex}={d1,d2,..}`           ↔ `parse_custom_derive`     (`rsplit_once('=')`, `split(',')`)
* `{regex}={a1,a2,..}`           ↔ `parse_custom_attribute`  (bracket-aware `rsplit_once` / `split`)
* `{type}::{field}={attr}`       ↔ `parse_field_attr`        (`split_once('=')`, `rsplit_once("::")`)
* `--generate functions,types,…` ↔ `parse_codegen_config`    (`split(',')`)
-/
namespace BindgenModel.OptCodec

/-- `str::split_once(c)` -/
def splitOnce (c : Char) : List Char → Option (List Char × List Char)
  | [] => none
  | x :: xs =>
    if x = c then some ([], xs)
    else match splitOnce c xs with
      | none => none
      | some (a, b) => some (x :: a, b)

/-- `str::rsplit_once(c)`: split at the last occurrence -/
def rsplitOnce (c : Char) (s : List Char) : Option (List Char × List Char) :=
  match splitOnce c s.reverse with
  | none => none
  | some (a, b) => some (b.reverse, a.reverse)

/-- `str::split(c)` (never returns the empty list) -/
def splitAll (c : Char) : List Char → List (List Char)
  | [] => [[]]
  | x :: xs =>
    if x = c then [] :: splitAll c xs
    else match splitAll c xs with
      | [] => [[x]]          -- unreachable
      | p :: ps => (x :: p) :: ps

/-- `[a, b, c].join(",")` -/
def joinWith (c : Char) : List (List Char) → List Char
  | [] => []
  | [a] => a
  | a :: rest => a ++ c :: joinWith c rest

/-- first occurrence of the two-character pattern `p p` (used reversed for `rsplit_once("::")`) -/
def splitOnce2 (p : Char) : List Char → Option (List Char × List Char)
  | [] => none
  | [_] => none
  | x :: y :: rest =>
    if x = p ∧ y = p then some ([], rest)
    else match splitOnce2 p (y :: rest) with
      | none => none
      | some (a, b) => some (x :: a, b)

/-- `str::rsplit_once("::")` -/
def rsplitOnce2 (p : Char) (s : List Char) : Option (List Char × List Char) :=
  match splitOnce2 p s.reverse with
  | none => none
  | some (a, b) => some (b.reverse, a.reverse)

/-! ### `{item}={abi}` -/
def encAbi (item abi : List Char) : List Char := item ++ '=' :: abi
def decAbi (s : List Char) : Option (List Char × List Char) := rsplitOnce '=' s

/-! ### `{regex}={derives.join(",")}` -/
def encDerive (regex : List Char) (derives : List (List Char)) : List Char :=
  regex ++ '=' :: joinWith ',' derives
def decDerive (s : List Char) : Option (List Char × List (List Char)) :=
  match rsplitOnce '=' s with
  | none => none
  | some (r, d) => some (r, splitAll ',' d)

/-! ### `{type}::{field}={attr}` -/
def encFieldAttr (t f a : List Char) : List Char := t ++ ':' :: ':' :: f ++ '=' :: a
def decFieldAttr (s : List Char) : Option (List Char × List Char × List Char) :=
  match splitOnce '=' s with
  | none => none
  | some (tf, a) =>
    match rsplitOnce2 ':' tf with
    | none => none
    | some (t, f) => some (t, f, a)

/-! ### bracket-aware `{regex}={attrs.join(",")}` -/

/-- the closure of `rsplit_once` in `parse_custom_attribute`, scanning from the END of the string:
    `]` raises the level, `[` lowers it, a match is `=` at level 0 (level tested after the update) -/
def scanBack (level : Int) : List Char → Option (List Char × List Char)   -- input = reversed string
  | [] => none
  | c :: rest =>
    let level := if c = ']' then level + 1 else if c = '[' then level - 1 else level
    if c = '=' ∧ level = 0 then some ([], rest)
    else match scanBack level rest with
      | none => none
      | some (a, b) => some (c :: a, b)

def rsplitBracket (s : List Char) : Option (List Char × List Char) :=
  match scanBack 0 s.reverse with
  | none => none
  | some (a, b) => some (b.reverse, a.reverse)

/-- the closure of `split` in `parse_custom_attribute`, scanning forward with the same level rule -/
def splitBracket (level : Int) : List Char → List (List Char)
  | [] => [[]]
  | c :: rest =>
    let level := if c = ']' then level + 1 else if c = '[' then level - 1 else level
    if c = ',' ∧ level = 0 then [] :: splitBracket level rest
    else match splitBracket level rest with
      | [] => [[c]]
      | p :: ps => (c :: p) :: ps

def encAttr (regex : List Char) (attrs : List (List Char)) : List Char :=
  regex ++ '=' :: joinWith ',' attrs
def decAttr (s : List Char) : Option (List Char × List (List Char)) :=
  match rsplitBracket s with
  | none => none
  | some (r, a) => some (r, splitBracket 0 a)

/-- level reached after scanning a reversed string, and whether an `=` was met at level 0 -/
def backLevel (level : Int) : List Char → Int
  | [] => level
  | c :: rest => backLevel (if c = ']' then level + 1 else if c = '[' then level - 1 else level) rest

def backNoTopEq (level : Int) : List Char → Bool
  | [] => true
  | c :: rest =>
    let level' := if c = ']' then level + 1 else if c = '[' then level - 1 else level
    !(c = '=' ∧ level' = 0) && backNoTopEq level' rest

/-! ### `--generate` -/
structure CodegenBits where
  functions : Bool
  types : Bool
  vars : Bool
  methods : Bool
  constructors : Bool
  destructors : Bool
  deriving DecidableEq, Repr

def CodegenBits.all : CodegenBits := ⟨true, true, true, true, true, true⟩
def CodegenBits.empty : CodegenBits := ⟨false, false, false, false, false, false⟩

def nFunctions : List Char := ['f','u','n','c','t','i','o','n','s']
def nTypes : List Char := ['t','y','p','e','s']
def nVars : List Char := ['v','a','r','s']
def nMethods : List Char := ['m','e','t','h','o','d','s']
def nConstructors : List Char := ['c','o','n','s','t','r','u','c','t','o','r','s']
def nDestructors : List Char := ['d','e','s','t','r','u','c','t','o','r','s']

/-- the `options.join(",")` of the codegen_config `as_args` closure -/
def showCodegen (b : CodegenBits) : List Char :=
  joinWith ',' ((if b.functions then [nFunctions] else []) ++ (if b.types then [nTypes] else []) ++
    (if b.vars then [nVars] else []) ++ (if b.methods then [nMethods] else []) ++
    (if b.constructors then [nConstructors] else []) ++ (if b.destructors then [nDestructors] else []))

/-- `parse_codegen_config` -/
def parseCodegen (s : List Char) : Option CodegenBits :=
  (splitAll ',' s).foldl (fun acc w => match acc with
    | none => none
    | some b =>
      if w = nFunctions then some { b with functions := true }
      else if w = nTypes then some { b with types := true }
      else if w = nVars then some { b with vars := true }
      else if w = nMethods then some { b with methods := true }
      else if w = nConstructors then some { b with constructors := true }
      else if w = nDestructors then some { b with destructors := true }
      else none) (some CodegenBits.empty)

end BindgenModel.OptCodec
