/-!
# Which of libclang's manglings a C++ function is bound to (`cursor_mangling`, ir/function.rs; C04)

`clang_Cursor_getCXXManglings` lists several symbols for one declaration: the constructor / destructor groups
(`C1`/`C2`, `D0`/`D1`/`D2`) and, for a virtual method that overrides a method of a secondary base, the
`this`-adjusting thunks after the method's own symbol.  `cursor_mangling` pops the list from the back and
returns the first entry its filters admit.

Import-free, executable.  The two string tests are parameters, so that the theorems hold for any way of
recognising a thunk / the complete-object destructor.
-/
namespace BindgenModel.Mangling

structure Filters where
  /-- `ctx.abi_kind() == ABIKind::GenericItanium` -/
  itanium : Bool
  /-- the cursor is a destructor -/
  destructor : Bool
  /-- is the thunk filter in the source (`thunksSkipped` of Generated/ManglingFilters.lean) -/
  skipThunks : Bool
  isThunk : String → Bool
  isD1 : String → Bool

def Filters.admits (f : Filters) (m : String) : Bool :=
  !(f.itanium && f.destructor && !f.isD1 m) && !(f.skipThunks && f.itanium && f.isThunk m)

/-- `while let Some(m) = manglings.pop() { if … continue; return Some(m) }` -/
def pick (f : Filters) (ms : List String) : Option String := ms.reverse.find? f.admits

/-- the spellings the source tests (after any number of leading underscores: Mach-O adds one) -/
def isThunkName (m : String) : Bool :=
  let n := (m.toList.dropWhile (· == '_'))
  n.take 3 == "ZTh".toList || n.take 3 == "ZTv".toList || n.take 3 == "ZTc".toList

def isD1Name (m : String) : Bool := m.toList.reverse.take 4 == "D1Ev".toList.reverse

end BindgenModel.Mangling
