import BindgenModel.Generated.Keywords
/-! # C01 — identifiers: `BindgenContext::rust_mangle` and the name bookkeeping of `CodegenResult`

`rustMangle` is the transliteration of `rust_mangle` (ir/context.rs) over `List Char`, parameterised
by the tables the translator regenerates (`Generated/Keywords.lean`: keyword list, trigger characters,
replacements, suffix).  `assignNames` is the overload numbering of `Function::codegen`
(`overload_number`: counter keyed on the canonical name, suffix appended without separator). -/
namespace BindgenModel.Names
open BindgenModel.Generated

abbrev Ident := List Char

def isKeyword (n : Ident) : Bool := keywords.contains n

def isTrigger (c : Char) : Bool := triggerChars.contains c

def hasTrigger (n : Ident) : Bool := n.any isTrigger

/-- the `s = s.replace(a, b)` statements applied, in order, to one character -/
def applyRepl (c : Char) : Char :=
  replacements.foldl (fun c p => if c = p.1 then p.2 else c) c

/-- `BindgenContext::rust_mangle` -/
def rustMangle (n : Ident) : Ident :=
  if hasTrigger n || isKeyword n then n.map applyRepl ++ [mangleSuffix] else n

/-- decimal digits of a natural number (what `write!(s, "{n}")` appends) -/
def decimal (n : Nat) : Ident := Nat.toDigits 10 n

def countOf (xs : List Ident) (x : Ident) : Nat := (xs.filter (· == x)).length

/-- `overload_number` + suffixing over the canonical names of the functions emitted into one
module, in emission order (`seen` = canonical names already counted). -/
def assignNamesAux : List Ident → List Ident → List Ident
  | [], _ => []
  | c :: rest, counted =>
    let k := countOf counted c
    (if k = 0 then c else c ++ decimal k) :: assignNamesAux rest (c :: counted)

def assignNames (cs : List Ident) : List Ident := assignNamesAux cs []

/-- Region predicate of the known finding `name_suffix_clash`: some canonical name is another
canonical name followed by a non-empty string of decimal digits. -/
def digitExtends (a b : Ident) : Bool :=
  a.length < b.length && b.take a.length == a && (b.drop a.length).all Char.isDigit

def suffixClashRegion (cs : List Ident) : Bool := cs.any fun a => cs.any fun b => digitExtends a b

/-- Region predicate of the known finding `mangle_collision`: two distinct C identifiers with the same
Rust identifier. -/
def mangleCollision (a b : Ident) : Bool := a != b && rustMangle a == rustMangle b

end BindgenModel.Names
