/-! Regular expressions as bindgen uses them (`regex_set.rs`): a small regex datatype, a
Brzozowski-derivative matcher, the pattern-text parser for the syntactic forms the
correspondence generates, and `RegexSet` with the behaviour of `build_inner` / `matches`
(every item is wrapped as `^(item)$`; one invalid item disables the whole set).

Import-free and executable.  The language semantics (`Lang`, `IsMatch`, `anchored`) live in
`Lemmas/Regex.lean`. -/
namespace BindgenModel.Regex

/-- Regular expressions over `Char`.  `cls neg rs` is a character class: the code-point ranges
`rs`, complemented when `neg`.  (`.` is `cls true [(10,10)]`.) -/
inductive Re where
  | none
  | eps
  | cls (neg : Bool) (ranges : List (Nat × Nat))
  | cat (a b : Re)
  | alt (a b : Re)
  | star (a : Re)
  deriving Repr, Inhabited

def inRanges (rs : List (Nat × Nat)) (c : Nat) : Bool :=
  rs.any fun r => r.1 ≤ c && c ≤ r.2

def clsMatches (neg : Bool) (rs : List (Nat × Nat)) (c : Char) : Bool :=
  inRanges rs c.toNat != neg

def nullable : Re → Bool
  | .none => false
  | .eps => true
  | .cls _ _ => false
  | .cat a b => nullable a && nullable b
  | .alt a b => nullable a || nullable b
  | .star _ => true

/-- `cat` that prunes `none` / `eps` (keeps derivatives small) -/
def mkCat : Re → Re → Re
  | .none, _ => .none
  | .eps, b => b
  | a, b => .cat a b

/-- `alt` that prunes `none` -/
def mkAlt : Re → Re → Re
  | .none, b => b
  | a, .none => a
  | a, b => .alt a b

/-- Brzozowski derivative -/
def deriv (c : Char) : Re → Re
  | .none => .none
  | .eps => .none
  | .cls n rs => if clsMatches n rs c then .eps else .none
  | .cat a b =>
    if nullable a then mkAlt (mkCat (deriv c a) b) (deriv c b) else mkCat (deriv c a) b
  | .alt a b => mkAlt (deriv c a) (deriv c b)
  | .star a => mkCat (deriv c a) (.star a)

/-- whole-string match -/
def «matches» (r : Re) : List Char → Bool
  | [] => nullable r
  | c :: t => «matches» (deriv c r) t

/-- any character (including newline) -/
def anyChar : Re := .cls true []

/-- `Regex::is_match` of an anchor-free pattern: unanchored search -/
def searchMatches (r : Re) (s : List Char) : Bool :=
  «matches» (.cat (.star anyChar) (.cat r (.star anyChar))) s

/-! ### `RegexSet` -/

/-- One entry per inserted pattern: `none` = the `regex` crate rejects `^(item)$`. -/
structure RegexSet where
  items : List (Option Re)

def RegexSet.isEmpty (s : RegexSet) : Bool := s.items.isEmpty

/-- `RegexSet::matches`: `set` is `None` when any item failed to compile (`build_inner`), and
then nothing matches; otherwise some `^(item)$` matches, i.e. some item matches the whole
string (theorem `anchored_whole_name`). -/
def RegexSet.matches (s : RegexSet) (name : List Char) : Bool :=
  if s.items.any Option.isNone then false
  else s.items.any fun
    | some r => Regex.matches r name
    | none => false

/-! ### pattern-text parser (the forms the correspondence uses) -/

def digit? (c : Char) : Option Nat :=
  if '0' ≤ c ∧ c ≤ '9' then some (c.toNat - '0'.toNat) else none

def dot : Re := .cls true [(10, 10)]
def lit (c : Char) : Re := .cls false [(c.toNat, c.toNat)]

def digitRanges : List (Nat × Nat) := [(48, 57)]
def wordRanges : List (Nat × Nat) := [(48, 57), (65, 90), (95, 95), (97, 122)]
def spaceRanges : List (Nat × Nat) := [(9, 13), (32, 32)]

/-- `\x` outside a class; `none` = unsupported escape -/
def escapeRe (c : Char) : Option Re :=
  if c = 'd' then some (.cls false digitRanges)
  else if c = 'D' then some (.cls true digitRanges)
  else if c = 'w' then some (.cls false wordRanges)
  else if c = 'W' then some (.cls true wordRanges)
  else if c = 's' then some (.cls false spaceRanges)
  else if c = 'S' then some (.cls true spaceRanges)
  else if c = 'n' then some (lit '\n')
  else if c = 't' then some (lit '\t')
  else if c.isAlphanum then none
  else some (lit c)

def repeatRe (r : Re) : Nat → Re
  | 0 => .eps
  | n + 1 => .cat r (repeatRe r n)

/-- `r{lo,hi}` -/
def boundedRe (r : Re) (lo : Nat) (extra : Nat) : Re :=
  .cat (repeatRe r lo) (repeatRe (.alt .eps r) extra)

def parseNat (s : List Char) : Option (Nat × List Char) :=
  let rec go (acc : Nat) (any : Bool) : List Char → Option (Nat × List Char)
    | [] => if any then some (acc, []) else none
    | c :: t => match digit? c with
      | some d => go (acc * 10 + d) true t
      | none => if any then some (acc, c :: t) else none
  go 0 false s

/-- body of a bracket class after `[` / `[^`; returns the ranges and the rest after `]` -/
def parseClassBody : Nat → List Char → List (Nat × Nat) → Bool → Option (List (Nat × Nat) × List Char)
  | 0, _, _, _ => none
  | _ + 1, [], _, _ => none
  | f + 1, c :: t, acc, first =>
    if c = ']' ∧ !first then some (acc.reverse, t)
    else if c = '[' then none            -- nested classes / posix classes: unsupported
    else if c = '&' ∨ c = '~' then none  -- set operations: unsupported
    else
      -- one class atom: a literal (possibly escaped) or a perl class
      let atom : Option (Sum Nat (List (Nat × Nat)) × List Char) :=
        if c = '\\' then
          match t with
          | e :: t' =>
            if e = 'd' then some (.inr digitRanges, t')
            else if e = 'w' then some (.inr wordRanges, t')
            else if e = 's' then some (.inr spaceRanges, t')
            else if e = 'n' then some (.inl 10, t')
            else if e = 't' then some (.inl 9, t')
            else if e.isAlphanum then none
            else some (.inl e.toNat, t')
          | [] => none
        else some (.inl c.toNat, t)
      match atom with
      | none => none
      | some (.inr rs, t') => parseClassBody f t' (rs.reverse ++ acc) false
      | some (.inl lo, t') =>
        match t' with
        | '-' :: ']' :: _ => parseClassBody f t' ((lo, lo) :: acc) false
        | '-' :: '\\' :: _ => none
        | '-' :: hi :: t'' =>
          if hi = '[' then none
          else if lo ≤ hi.toNat then parseClassBody f t'' ((lo, hi.toNat) :: acc) false else none
        | _ => parseClassBody f t' ((lo, lo) :: acc) false

/-- postfix operators after an atom -/
def parsePostfix : Nat → Re → List Char → Option (Re × List Char)
  | 0, _, _ => none
  | f + 1, r, s =>
    let lazy (t : List Char) : List Char := match t with | '?' :: t' => t' | _ => t
    match s with
    | '*' :: t => parsePostfix f (.star r) (lazy t)
    | '+' :: t => parsePostfix f (.cat r (.star r)) (lazy t)
    | '?' :: t => parsePostfix f (.alt .eps r) (lazy t)
    | '{' :: t =>
      match parseNat t with
      | none => none
      | some (lo, '}' :: t') => if lo ≤ 64 then parsePostfix f (repeatRe r lo) (lazy t') else none
      | some (lo, ',' :: '}' :: t') =>
        if lo ≤ 64 then parsePostfix f (.cat (repeatRe r lo) (.star r)) (lazy t') else none
      | some (lo, ',' :: t') =>
        match parseNat t' with
        | some (hi, '}' :: t'') =>
          if lo ≤ hi ∧ hi ≤ 64 then parsePostfix f (boundedRe r lo (hi - lo)) (lazy t'') else none
        | _ => none
      | _ => none
    | _ => some (r, s)

mutual
/-- alternation; stops at `)` or the end of input -/
def parseAlt : Nat → List Char → Option (Re × List Char)
  | 0, _ => none
  | f + 1, s =>
    match parseCat f s .eps with
    | none => none
    | some (a, '|' :: t) =>
      match parseAlt f t with
      | some (b, t') => some (.alt a b, t')
      | none => none
    | some (a, t) => some (a, t)

/-- concatenation of repeated atoms, accumulated left to right -/
def parseCat : Nat → List Char → Re → Option (Re × List Char)
  | 0, _, _ => none
  | f + 1, s, acc =>
    match s with
    | [] => some (acc, [])
    | '|' :: _ => some (acc, s)
    | ')' :: _ => some (acc, s)
    | '(' :: t =>
      let body : Option (List Char) :=
        match t with
        | '?' :: ':' :: t' => some t'
        | '?' :: _ => none              -- flags, look-around, named groups: unsupported
        | _ => some t
      match body with
      | none => none
      | some t' =>
        match parseAlt f t' with
        | some (r, ')' :: t'') =>
          match parsePostfix (t''.length + 1) r t'' with
          | some (r', t3) => parseCat f t3 (mkCat acc r')
          | none => none
        | _ => none
    | '[' :: t =>
      let (neg, t') := match t with | '^' :: t' => (true, t') | _ => (false, t)
      match parseClassBody (t'.length + 1) t' [] true with
      | some (rs, t'') =>
        match parsePostfix (t''.length + 1) (.cls neg rs) t'' with
        | some (r', t3) => parseCat f t3 (mkCat acc r')
        | none => none
      | none => none
    | '.' :: t =>
      match parsePostfix (t.length + 1) dot t with
      | some (r', t3) => parseCat f t3 (mkCat acc r')
      | none => none
    | '\\' :: e :: t =>
      match escapeRe e with
      | some r =>
        match parsePostfix (t.length + 1) r t with
        | some (r', t3) => parseCat f t3 (mkCat acc r')
        | none => none
      | none => none
    | c :: t =>
      if c = '*' ∨ c = '+' ∨ c = '?' ∨ c = '{' ∨ c = '}' ∨ c = '^' ∨ c = '$' ∨ c = '\\' ∨ c = ']' then none
      else
        match parsePostfix (t.length + 1) (lit c) t with
        | some (r', t3) => parseCat f t3 (mkCat acc r')
        | none => none
end

/-- Parse pattern text; `none` = a form outside the modelled syntax. -/
def parse (s : List Char) : Option Re :=
  match parseAlt (2 * s.length + 2) s with
  | some (r, []) => some r
  | _ => none

end BindgenModel.Regex
