/-!
# C12 — the decision and termination cores on the way from `Builder::generate` to bindings

Import-free executable models of the code *as it is*:

* `pathTriage`      — `Bindings::generate`: checks on the (last) input header path, in code order;
* `scanDiags`       — `parse`: the loop over clang diagnostics that builds `ClangDiagnostic`;
* `editionCheck`    — `Builder::generate`: `UnsupportedEdition`;
* `fromStr`         — `impl FromStr for RustTarget` over `List Char`, including the unchecked
                      `minor -= 1` (panics when overflow checks are on, wraps otherwise);
* `resolve`         — `ItemResolver::resolve`: the `through_type_refs` / `through_type_aliases` loop
                      with its `seen_ids` cycle detection.
-/
namespace BindgenModel.Entry

/-! ## input path triage (`Bindings::generate`) -/

/-- what `std::fs::metadata(path)` told us -/
inductive Meta
  | err                      -- metadata() failed (missing, dangling link, unsearchable parent, ...)
  | dir                      -- a directory
  | file (mode : Nat)        -- anything else, with its permission bits
  deriving DecidableEq, Repr

inductive Triage
  | folderAsHeader | insufficientPermissions | notExist | proceed
  deriving DecidableEq, Repr

/-- `can_read`: `perms.mode() & 0o444 > 0` (mask is a parameter regenerated from the source) -/
def canRead (mask mode : Nat) : Bool := (mode &&& mask) > 0

/-- `if let Some(h) = options.input_headers.last() { if let Ok(md) = metadata(h) { if md.is_dir()
    {Folder} if !can_read {Insufficient} push } else {NotExist} }` -/
def pathTriage (mask : Nat) : Option Meta → Triage
  | none => .proceed                       -- no input header (header contents only)
  | some .err => .notExist
  | some .dir => .folderAsHeader
  | some (.file mode) => if canRead mask mode then .proceed else .insufficientPermissions

/-! ## diagnostics scan (`parse`) -/

structure Diag where
  severity : Nat      -- CXDiagnostic_Ignored 0, Note 1, Warning 2, Error 3, Fatal 4
  msg : List Char
  deriving DecidableEq, Repr

/-- one iteration of `for d in diags { if d.severity() >= Error { error.get_or_insert_with(String::new)
    .push_str(msg); push('\n') } else { eprintln } }` -/
def scanStep (thr : Nat) (acc : Option (List Char)) (d : Diag) : Option (List Char) :=
  if d.severity ≥ thr then some (acc.getD [] ++ d.msg ++ ['\n']) else acc

/-- `None` = go on parsing, `some m` = `Err(BindgenError::ClangDiagnostic(m))` -/
def scanDiags (thr : Nat) (ds : List Diag) : Option (List Char) := ds.foldl (scanStep thr) none

/-! ## Rust targets and editions -/

/-- `RustTarget(Version)`; `Version::Stable(minor, patch) | Nightly`, derived `Ord`: every stable
    below nightly, stables lexicographic -/
inductive Target
  | stable (minor patch : Nat)
  | nightly
  deriving DecidableEq, Repr

def Target.minor? : Target → Option Nat
  | .stable m _ => some m
  | .nightly => none

/-- `RustEdition::is_available(target)` with the edition's first minor as data -/
def editionAvailable (edMinor : Nat) (t : Target) : Bool :=
  match t.minor? with
  | none => true
  | some m => edMinor ≤ m

inductive GenEntry
  | unsupportedEdition | proceed
  deriving DecidableEq, Repr

/-- `match rust_edition { Some(e) => if !e.is_available(target) { return Err(UnsupportedEdition) } .. , None => latest }` -/
def editionCheck (ed : Option Nat) (t : Target) : GenEntry :=
  match ed with
  | some edMinor => if editionAvailable edMinor t then .proceed else .unsupportedEdition
  | none => .proceed

/-! ## `RustTarget::from_str` -/

/-- `str::split_once(c)` -/
def splitOnce (c : Char) : List Char → Option (List Char × List Char)
  | [] => none
  | x :: xs => if x = c then some ([], xs) else
      match splitOnce c xs with
      | some (a, b) => some (x :: a, b)
      | none => none

def isDigit (c : Char) : Bool := '0' ≤ c && c ≤ '9'

def digitsVal (ds : List Char) : Nat := ds.foldl (fun a c => a * 10 + (c.toNat - '0'.toNat)) 0

/-- `str::parse::<u64>()`: optional leading `+`, at least one digit, digits only, value < 2^64 -/
def parseU64 (s : List Char) : Option Nat :=
  let ds := match s with
    | '+' :: r => r
    | _ => s
  if ds.isEmpty || !ds.all isDigit then none
  else if digitsVal ds < 2 ^ 64 then some (digitsVal ds) else none

inductive FromStrErr
  | form        -- MSG: accepted values are of the form ...
  | major       -- The largest major version of Rust released is "1"
  | minorNum    -- the minor version number must be an unsigned 64-bit integer
  | patchNum    -- the patch version number must be an unsigned 64-bit integer
  | tooEarly    -- InvalidRustTarget::TooEarly
  deriving DecidableEq, Repr

inductive FromStrOut
  | ok (t : Target)
  | err (e : FromStrErr)
  | panic                 -- attempt to subtract with overflow
  deriving DecidableEq, Repr

def nightlyStr : List Char := ['n', 'i', 'g', 'h', 't', 'l', 'y']
def betaStr : List Char := ['b', 'e', 't', 'a']
def betaDot : List Char := ['b', 'e', 't', 'a', '.']

def startsWith (p s : List Char) : Bool := p.isPrefixOf s

/-- everything up to (not including) the `nightly` adjustment: `(minor, patch, pre_release == "nightly")` -/
def parseParts (input : List Char) : Except FromStrErr (Nat × Nat × Bool) :=
  let (version, pre) := match splitOnce '-' input with
    | some (v, p) => (v, p)
    | none => (input, [])
  if !(pre.isEmpty || pre == betaStr || startsWith betaDot pre || pre == nightlyStr) then .error .form
  else match splitOnce '.' version with
    | none => .error .form
    | some (major, tail) =>
      if major != ['1'] then .error .major
      else match splitOnce '.' tail with
        | some (mi, pa) =>
          match parseU64 mi with
          | none => .error .minorNum
          | some minor => match parseU64 pa with
            | none => .error .patchNum
            | some patch => .ok (minor, patch, pre == nightlyStr)
        | none => match parseU64 tail with
          | none => .error .minorNum
          | some minor => .ok (minor, 0, pre == nightlyStr)

/-- `RustTarget::stable(minor, patch)`: `Err(TooEarly)` iff below `Stable(earliest, 0)` -/
def stable (earliest minor patch : Nat) : FromStrOut :=
  if minor < earliest then .err .tooEarly else .ok (.stable minor patch)

/-- the tail of `from_str`.  `checkedSub` = the source uses `checked_sub` (regenerated from the
    source); `overflowChecks` = build profile. -/
def finish (checkedSub overflowChecks : Bool) (earliest : Nat) : Nat × Nat × Bool → FromStrOut
  | (minor, patch, false) => stable earliest minor patch
  | (minor, _, true) =>
    if minor = 0 then
      if checkedSub then .err .tooEarly
      else if overflowChecks then .panic
      else stable earliest (2 ^ 64 - 1) (2 ^ 64 - 1)
    else stable earliest (minor - 1) (2 ^ 64 - 1)

def fromStr (checkedSub overflowChecks : Bool) (earliest : Nat) (input : List Char) : FromStrOut :=
  if input == nightlyStr then .ok .nightly
  else match parseParts input with
    | .error e => .err e
    | .ok parts => finish checkedSub overflowChecks earliest parts

/-! ## `ItemResolver::resolve` -/

/-- what `resolve` needs to know of an item -/
inductive Node
  | typeRef (next : Nat)     -- `TypeKind::ResolvedTypeRef(next)`
  | alias (next : Nat)       -- `TypeKind::Alias(next)`
  | other                    -- any other type kind, or not a type
  deriving DecidableEq, Repr

inductive ResolveOut
  | item (id : Nat)          -- returns `ctx.resolve_item(id)`
  | noItem (id : Nat)        -- `ctx.resolve_item(id)` panics: "Not an item"
  | outOfFuel
  deriving DecidableEq, Repr

/-- the loop; `seen` is the `seen_ids` set, `fuel` bounds the iterations (shown sufficient) -/
def resolveLoop (g : List Node) (refs aliases : Bool) : Nat → Nat → List Nat → ResolveOut
  | 0, _, _ => .outOfFuel
  | fuel + 1, id, seen =>
    match g[id]? with
    | none => .noItem id
    | some node =>
      if seen.contains id then .item id          -- `!seen_ids.insert(id)`: cycle, bail out
      else match node with
        | .typeRef next => if refs then resolveLoop g refs aliases fuel next (id :: seen) else .item id
        | .alias next => if aliases then resolveLoop g refs aliases fuel next (id :: seen) else .item id
        | .other => .item id

def resolve (g : List Node) (refs aliases : Bool) (id : Nat) : ResolveOut :=
  resolveLoop g refs aliases (g.length + 1) id []

end BindgenModel.Entry
