/-!
# Model of the layout-assertion blocks of `codegen/mod.rs` (C06)

* `compAsserts` — the `layout_tests` section of `CompInfo::codegen`;
* `instAsserts` — `impl CodeGenerator for TemplateInstantiation`;
* `emitAll` — the items one record contributes, to state that `layout_tests` changes nothing else;
* `dedupNames` — `CodegenResult::overload_number` applied to the `#[test]` function names of
  instantiation assertions.

Import-free, executable.
-/
namespace BindgenModel.LayoutTests

structure Opts where
  /-- `options().layout_tests` -/
  layoutTests : Bool
  /-- `options().rust_features().offset_of` -/
  offsetOf : Bool
deriving Repr, DecidableEq

/-- `const _: () = { … };` or `#[test] fn …() { … }` -/
inductive Form | constBlock | testFn
deriving Repr, DecidableEq

inductive Assert
  | size (n : Nat)
  | align (n : Nat)
  /-- offset (bytes) of the field with index `idx` in `fields()` -/
  | offset (idx : Nat) (n : Nat)
deriving Repr, DecidableEq

/-- one entry of `CompInfo::fields()` as the assertion block sees it -/
inductive FieldDesc
  /-- `Field::DataMember`: `name().is_some()`, `offset()` in bits -/
  | data (named : Bool) (offBits : Option Nat)
  /-- `Field::Bitfields` -/
  | unit
deriving Repr, DecidableEq

structure CompDesc where
  /-- `has_non_type_template_params()`: `codegen` returns before emitting anything -/
  nonTypeTParams : Bool := false
  /-- `item.all_template_params(ctx).is_empty()` -/
  noTemplateParams : Bool := true
  forwardDecl : Bool := false
  /-- `item.is_opaque(ctx, &())` -/
  isOpaque : Bool := false
  /-- `ty.layout(ctx)` as (size, align) -/
  layout : Option (Nat × Nat)
  fields : List FieldDesc
deriving Repr, DecidableEq

structure AssertItem where
  form : Form
  asserts : List Assert
deriving Repr, DecidableEq

def formOf (o : Opts) : Form := if o.offsetOf then .constBlock else .testFn

/-- the `filter_map` over `self.fields()` -/
def offsetAsserts : Nat → List FieldDesc → List Assert
  | _, [] => []
  | idx, .data true (some off) :: fs => .offset idx (off / 8) :: offsetAsserts (idx + 1) fs
  | idx, _ :: fs => offsetAsserts (idx + 1) fs

/-- the assertion item `CompInfo::codegen` pushes for a record, if any -/
def compAsserts (o : Opts) (c : CompDesc) : Option AssertItem :=
  if c.nonTypeTParams then none
  else if !c.noTemplateParams then none
  else if !(o.layoutTests && !c.forwardDecl) then none
  else match c.layout with
    | none => none
    | some (size, align) =>
      some { form := formOf o,
             asserts := .size size :: .align align :: (if c.isOpaque then [] else offsetAsserts 0 c.fields) }

structure InstDesc where
  /-- `self.is_opaque(ctx, item)` -/
  isOpaque : Bool := false
  /-- `ctx.uses_any_template_parameters(item.id())` -/
  usesTemplateParams : Bool := false
  layout : Option (Nat × Nat)
deriving Repr, DecidableEq

/-- the assertion item `TemplateInstantiation::codegen` pushes, if any -/
def instAsserts (o : Opts) (i : InstDesc) : Option AssertItem :=
  if !o.layoutTests || i.isOpaque then none
  else if i.usesTemplateParams then none
  else match i.layout with
    | none => none
    | some (size, align) => some { form := formOf o, asserts := [.size size, .align align] }

/-- items a record contributes (the type definition stands for everything that is not an assertion) -/
inductive Item
  | typeDef
  | assertion (a : AssertItem)
deriving Repr, DecidableEq

def Item.isAssertion : Item → Bool
  | .assertion _ => true
  | .typeDef => false

def emitAll (o : Opts) (c : CompDesc) : List Item :=
  if c.nonTypeTParams then [] else
  .typeDef :: (match compAsserts o c with | some a => [.assertion a] | none => [])

/-- `overload_number`: how often `name` was seen before -/
def timesSeen (seen : List String) (name : String) : Nat := (seen.filter (· == name)).length

/-- names of the `#[test]` functions of consecutive instantiation assertions:
`{base}` the first time, `{base}_{n}` the (n+1)-th time -/
def dedupNames : List String → List String → List String
  | _, [] => []
  | seen, b :: bs =>
    let n := timesSeen seen b
    (if n > 0 then b ++ "_" ++ toString n else b) :: dedupNames (b :: seen) bs

end BindgenModel.LayoutTests
