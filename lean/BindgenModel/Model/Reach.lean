import BindgenModel.Generated.ReachTables
import BindgenModel.Model.Regex
/-! Allow-listing as `BindgenContext::compute_allowlisted_and_codegen_items` does it
(ir/context.rs, ir/traversal.rs), as it is:

* `ItemTraversal<ItemSet, Vec<ItemId>>`: every root is inserted into `seen` and pushed
  (unconditionally) on a LIFO vector; `next` pops an id, traces it — every edge admitted by the
  predicate whose target is newly inserted into `seen` is pushed — and yields the id;
* `AllowlistedItemsTraversal::next` drops blocklisted ids from that stream *after* they have been
  traced (so the traversal goes through blocklisted items);
* roots = the items, in id order, passing the root filter, reversed;
* `allowlisted` uses `all_edges` (recursive) or `only_inner_type_edges`; `codegen_items` uses
  `codegen_edges` when recursive and is a copy of `allowlisted` otherwise.

Executable; no imports besides generated tables and the regex model. -/
namespace BindgenModel.Reach
open BindgenModel.Generated BindgenModel.Regex

/-! ### the generic DFS -/

/-- `Tracer::visit_kind` for one admitted edge: `seen.add(item)`; push when newly discovered.
State = (`seen`, `queue` with the top of the vector first). -/
def visit (st : List Nat × List Nat) (t : Nat) : List Nat × List Nat :=
  if st.1.contains t then st else (t :: st.1, t :: st.2)

/-- `ItemTraversal::new`: `seen.add(None, id); queue.push(id)` for every root. -/
def initState (roots : List Nat) : List Nat × List Nat :=
  roots.foldl (fun st r => (if st.1.contains r then st.1 else r :: st.1, r :: st.2)) ([], [])

/-- The `Iterator::next` loop run to exhaustion, with explicit fuel (one unit per `next`).
`succ id` = targets of the admitted edges of `id` in trace order.  `none` = fuel exhausted. -/
def loop (succ : Nat → List Nat) : Nat → List Nat → List Nat → List Nat → Option (List Nat)
  | 0, _, _, _ => none
  | _ + 1, _, [], out => some out.reverse
  | f + 1, seen, id :: stack, out =>
    let st := (succ id).foldl visit (seen, stack)
    loop succ f st.1 st.2 (id :: out)

/-- ids yielded by `ItemTraversal::new(ctx, roots, pred)` in order -/
def itemTraversal (succ : Nat → List Nat) (fuel : Nat) (roots : List Nat) : Option (List Nat) :=
  let st := initState roots
  loop succ fuel st.1 st.2 []

/-- `AllowlistedItemsTraversal`: the same stream without blocklisted ids -/
def allowlistedTraversal (succ : Nat → List Nat) (blocklisted : Nat → Bool) (fuel : Nat)
    (roots : List Nat) : Option (List Nat) :=
  (itemTraversal succ fuel roots).map (·.filter (fun i => !blocklisted i))

/-! ### typed edges and the three predicates -/

structure Edge where
  to : Nat
  kind : EdgeKind
  deriving Repr, DecidableEq

inductive Pred where
  | allEdges | onlyInnerTypeEdges | codegenEdges
  deriving Repr, DecidableEq

/-- `(self.predicate)(ctx, edge)`; `enabled t` = `ctx.resolve_item(t).is_enabled_for_codegen(ctx)` -/
def Pred.admits (p : Pred) (cfg : Nat) (enabled : Nat → Bool) (e : Edge) : Bool :=
  match p with
  | .allEdges => true
  | .onlyInnerTypeEdges => e.kind == onlyInnerTypeKind
  | .codegenEdges => (codegenEdgeGate e.kind).eval cfg (enabled e.to)

/-- A finite IR graph: `out id` = the edges `Trace for Item` yields for `id`, in order. -/
structure Graph where
  nodes : List Nat
  out : Nat → List Edge

def Graph.succ (g : Graph) (adm : Edge → Bool) (id : Nat) : List Nat :=
  ((g.out id).filter adm).map (·.to)

/-- fuel that always suffices (theorem `C09_fuel_suffices`) -/
def Graph.fuel (g : Graph) (roots : List Nat) : Nat := g.nodes.length + roots.length + 1

/-! ### root selection -/

/-- What `compute_allowlisted_and_codegen_items` looks at per item. -/
structure ItemInfo where
  id : Nat
  cls : ItemClass
  /-- `annotations().use_instead_of().is_some()` -/
  useInsteadOf : Bool
  /-- `location().location().0.name()` -/
  file : Option (List Char)
  /-- `path_for_allowlisting()[1..].join("::")` -/
  name : List Char
  /-- a type whose `TypeKind` is in the list auto-allowlisted when not recursive -/
  autoKind : Bool
  /-- a type whose `TypeKind` satisfies `syntheticTypeKind` -/
  syntheticKind : Bool := false
  /-- the parent item is a module -/
  parentIsModule : Bool
  /-- `Some(names)` for an `Enum` type without a name: for each variant,
      `parent.path_for_allowlisting() ++ [variant.name_for_allowlisting()]` without its first element -/
  unnamedEnumVariants : Option (List (List String))

structure Options where
  cfg : Nat
  recursive : Bool
  sizeTIsUsize : Bool
  types : RegexSet
  functions : RegexSet
  vars : RegexSet
  files : RegexSet
  items : RegexSet

/-- the `TypeKind`s auto-allowlisted when allow-listing is not recursive (by `Debug` name) -/
def autoAllowlistedKind (k : String) : Bool :=
  k ∈ ["Void", "NullPtr", "Int", "Float", "Complex", "Array", "Vector", "Pointer", "Reference",
       "Function", "ResolvedTypeRef", "Opaque", "TypeParam"]

/-- `BindgenContext::is_stdint_type` -/
def isStdintType (sizeTIsUsize : Bool) (name : String) : Bool :=
  if name ∈ ["int8_t", "uint8_t", "int16_t", "uint16_t", "int32_t", "uint32_t", "int64_t",
             "uint64_t", "uintptr_t", "intptr_t", "ptrdiff_t"] then true
  else if name ∈ ["size_t", "ssize_t"] then sizeTIsUsize
  else false

def joinPath (comps : List String) : List Char := ("::".intercalate comps).toList

def ItemInfo.enabled (o : Options) (it : ItemInfo) : Bool := (enabledFor it.cls).eval o.cfg

/-- the second `.filter` closure of the roots computation -/
def rootFilter (o : Options) (it : ItemInfo) : Bool :=
  if o.types.isEmpty && o.functions.isEmpty && o.vars.isEmpty && o.files.isEmpty && o.items.isEmpty then true
  else if it.useInsteadOf then true
  else if (!o.files.isEmpty) && (match it.file with | some f => o.files.matches f | none => false) then true
  else if o.items.matches it.name then true
  else match it.cls with
    | .module => true
    | .fnFunction | .fnMethod | .fnConstructor | .fnDestructor => o.functions.matches it.name
    | .var => o.vars.matches it.name
    | .type =>
      if o.types.matches it.name then true
      else if (!o.recursive) && (it.autoKind || isStdintType o.sizeTIsUsize (String.ofList it.name)) then true
      else if !it.parentIsModule then false
      else match it.unnamedEnumVariants with
        | none => false
        | some vs => vs.any fun comps =>
            let n := joinPath comps
            o.vars.matches n || o.items.matches n

/-- `roots` (already reversed) -/
def roots (o : Options) (items : List ItemInfo) : List Nat :=
  ((items.filter fun it => it.enabled o && rootFilter o it).map (·.id)).reverse

structure Sets where
  allowlisted : List Nat
  codegen : List Nat

/-- `compute_allowlisted_and_codegen_items`; `none` only if the fuel were insufficient
(never: `C09_fuel_suffices`). -/
def compute (g : Graph) (o : Options) (items : List ItemInfo) (enabled blocklisted : Nat → Bool) : Option Sets :=
  let rs := roots o items
  let p := if o.recursive then Pred.allEdges else Pred.onlyInnerTypeEdges
  match allowlistedTraversal (g.succ (p.admits o.cfg enabled)) blocklisted (g.fuel rs) rs with
  | none => none
  | some al =>
    if o.recursive then
      match allowlistedTraversal (g.succ (Pred.codegenEdges.admits o.cfg enabled)) blocklisted (g.fuel rs) rs with
      | none => none
      | some cg => some ⟨al, cg⟩
    else some ⟨al, al⟩

/-! ### regions of the known findings -/

/-- `TypeKind`s of type items that have no declaration of their own; bindgen gives them synthetic
names (`ptr_struct_S`, `_bindgen_ty_id_7`, ...) which `path_for_allowlisting` returns like any other. -/
def syntheticTypeKind (k : String) : Bool :=
  k ∈ ["Pointer", "Reference", "Array", "Vector", "Function", "ResolvedTypeRef", "BlockPointer"]

/-- Region `synthetic_names_match`: a type item without a declaration of its own is a root because its
synthetic name matches a type / item pattern. -/
def syntheticRoot (o : Options) (it : ItemInfo) : Bool :=
  it.cls == .type && it.syntheticKind && (o.types.matches it.name || o.items.matches it.name)

/-- Anonymous items are numbered (`_bindgen_ty_N`) by `Item::local_id`, which is assigned lazily, in
the order in which names are first requested.  `localId reqs x` = the number `x` gets. -/
def localId (requests : List Nat) (x : Nat) : Option Nat :=
  (requests.eraseDups.idxOf? x).map (· + 1)

/-- the items whose name the root filter computes (it returns before computing the name when nothing
is allow-listed, for `replaces` items and for items of an allow-listed file) -/
def nameRequestedByRootFilter (o : Options) (it : ItemInfo) : Bool :=
  if o.types.isEmpty && o.functions.isEmpty && o.vars.isEmpty && o.files.isEmpty && o.items.isEmpty then false
  else if it.useInsteadOf then false
  else if (!o.files.isEmpty) && (match it.file with | some f => o.files.matches f | none => false) then false
  else true

/-! ### what code generation mentions -/

/-- Hand-written: the `CodegenConfig` flag under which code generation emits text that *names* the
target of an edge of this kind (codegen/mod.rs), or `none` when the edge target is never named through
this edge.  `Generic` edges (function → signature, enum → repr) lead to types that are spelled
out when types are generated.  Every such edge must be followed by the codegen traversal, or
the allow-listed output names something it does not define (`C09_mention_subset_codegen`). -/
def mentionBit : EdgeKind → Option CfgBit
  | .generic => some .types
  | .templateParameterDefinition => some .types
  | .templateDeclaration => some .types
  | .templateArgument => some .types
  | .baseMember => some .types
  | .field => some .types
  | .innerType => some .types
  | .innerVar => some .vars
  | .method => some .methods
  | .constructor => some .constructors
  | .destructor => some .destructors
  | .functionReturn => some .types
  | .functionParameter => some .types
  | .varType => some .types
  | .typeReference => some .types

/-- edge kinds through which codegen mentions the target under configuration `cfg` -/
def mentionEdges (cfg : Nat) (k : EdgeKind) : Bool :=
  match mentionBit k with
  | some b => b.on cfg
  | none => false

/-- the class of item an edge of this kind can point to (static knowledge used by the comment in
`codegen_edges`: "we statically know the kind of item that non-generic edges can point to");
`Generic` edges point to types (function signature, enum repr). -/
def targetClass : EdgeKind → ItemClass
  | .innerVar => .var
  | .method => .fnMethod
  | .constructor => .fnConstructor
  | .destructor => .fnDestructor
  | _ => .type

end BindgenModel.Reach
