import BindgenModel.Model.Layout
/-!
# Model of `bindgen/codegen/struct_layout.rs` — `StructLayoutTracker`

Every method is a pure step function on the `Tracker` record; the fields of the record are the
fields of the Rust struct (minus `name`/`visibility`, which never influence a number) plus the
three facts the methods read from `ctx`/`comp` (`comp.is_union()`,
`options().force_explicit_padding`, `target_pointer_size()`).

Written as the Rust is today, including: `align_to_latest_field` aligning to the *previous*
field's alignment, `saw_vtable` overwriting (not maximising) `max_field_align`,
`add_tail_padding` not advancing `latest_offset`,
`padding_field` raising `max_field_align`, the array-of-over-aligned-elements hack.
-/
namespace BindgenModel.StructLayout
open BindgenModel.Layout

/-- `MAX_GUARANTEED_ALIGN` -/
def maxGuaranteedAlign : Nat := 8

structure Tracker where
  isPacked : Bool
  knownTypeLayout : Option Layout
  isRustUnion : Bool
  /-- `self.comp.is_union()` -/
  compIsUnion : Bool
  /-- `ctx.options().force_explicit_padding` -/
  forcePadding : Bool
  /-- `ctx.target_pointer_size()` -/
  ptrSize : Nat
  latestOffset : Nat := 0
  paddingCount : Nat := 0
  latestFieldLayout : Option Layout := none
  maxFieldAlign : Nat := 0
  lastFieldWasBitfield : Bool := false
  lastFieldWasFlexibleArray : Bool := false
deriving Repr, DecidableEq

/-- a padding field `__bindgen_padding_{idx}: blob(layout)` -/
structure Pad where
  idx : Nat
  layout : Layout
deriving Repr, DecidableEq

def Tracker.sawFlexibleArray (t : Tracker) : Tracker := { t with lastFieldWasFlexibleArray := true }

def Tracker.sawVtable (t : Tracker) : Tracker :=
  { t with latestOffset := t.latestOffset + t.ptrSize
           latestFieldLayout := some { size := t.ptrSize, align := t.ptrSize }
           maxFieldAlign := t.ptrSize }

/-- `padding_bytes` -/
def Tracker.paddingBytes (t : Tracker) (l : Layout) : Nat :=
  alignTo t.latestOffset l.align - t.latestOffset

/-- `padding_field`: the field and the updated tracker -/
def Tracker.paddingField (t : Tracker) (l : Layout) : Tracker × Pad :=
  ({ t with paddingCount := t.paddingCount + 1, maxFieldAlign := max t.maxFieldAlign l.align },
   { idx := t.paddingCount, layout := l })

/-- `align_to_latest_field`: updated tracker and "will merge with bitfield" -/
def Tracker.alignToLatestField (t : Tracker) (new : Layout) : Tracker × Bool :=
  if t.isPacked then (t, false) else
  match t.latestFieldLayout with
  | none => (t, false)
  | some l =>
    let align := max 1 l.align
    if t.lastFieldWasBitfield ∧ new.align ≤ l.size % align ∧ new.size ≤ l.size % align then (t, true)
    else ({ t with latestOffset := t.latestOffset + t.paddingBytes l }, false)

/-- `saw_base` with `base_ty.layout(ctx)` -/
def Tracker.sawBase (t : Tracker) (baseLayout : Option Layout) : Tracker :=
  match baseLayout with
  | none => t
  | some l =>
    let t := (t.alignToLatestField l).1
    { t with latestOffset := t.latestOffset + (t.paddingBytes l + l.size)
             latestFieldLayout := some l
             maxFieldAlign := max t.maxFieldAlign l.align }

def Tracker.sawBitfieldUnit (t : Tracker) (l : Layout) : Tracker :=
  let t := (t.alignToLatestField l).1
  { t with latestOffset := t.latestOffset + l.size
           latestFieldLayout := some l
           lastFieldWasBitfield := true
           maxFieldAlign := max t.maxFieldAlign l.align }

/-- `saw_field_with_layout(name, field_layout, field_offset /* bits */)` -/
def Tracker.sawFieldWithLayout (t : Tracker) (fl : Layout) (offBits : Option Nat) : Tracker × Option Pad :=
  let (t, willMerge) := t.alignToLatestField fl
  let isUnion := t.compIsUnion
  let fallback : Nat :=
    if willMerge ∨ fl.align = 0 ∨ isUnion then 0
    else if !t.isPacked then t.paddingBytes fl
    else match t.knownTypeLayout with
      | some l => t.paddingBytes (if fl.align < l.align then { l with align := fl.align } else l)
      | none => 0
  let paddingBytes : Nat :=
    match offBits with
    | some off => if off / 8 > t.latestOffset then off / 8 - t.latestOffset else fallback
    | none => fallback
  let t := { t with latestOffset := t.latestOffset + paddingBytes }
  let paddingLayout : Option Layout :=
    if t.isPacked ∨ isUnion then none else
    let needPadding := t.forcePadding ∨ paddingBytes ≥ fl.align ∨ fl.align > maxGuaranteedAlign
    let paddingAlign := if t.forcePadding then 1 else min fl.align maxGuaranteedAlign
    if needPadding ∧ paddingBytes ≠ 0 then some { size := paddingBytes, align := paddingAlign } else none
  let t := { t with latestOffset := if isUnion then max t.latestOffset fl.size else t.latestOffset + fl.size
                    latestFieldLayout := some fl
                    maxFieldAlign := max t.maxFieldAlign fl.align
                    lastFieldWasBitfield := false }
  match paddingLayout with
  | none => (t, none)
  | some l => let (t, p) := t.paddingField l; (t, some p)

/-- what `saw_field` needs to know about the field's type -/
structure FieldTy where
  /-- `field_ty.layout(ctx)` -/
  layout : Option Layout
  /-- canonical type is `Array(inner, len)`: `(inner.layout, len)` -/
  array : Option (Option Layout × Nat) := none
  /-- the member's Rust type transitively contains a `#[repr(align(N))]` type (rustc refuses such a
  member inside a `packed` type, E0588); irrelevant for the tracker -/
  containsAlign : Bool := false
deriving Repr, DecidableEq

/-- `saw_field`, including the array-of-over-aligned-elements hack -/
def Tracker.sawField (t : Tracker) (ty : FieldTy) (offBits : Option Nat) : Tracker × Option Pad :=
  match ty.layout with
  | none => (t, none)
  | some fl =>
    let fl := match ty.array with
      | some (some el, len) =>
        if el.align > maxGuaranteedAlign then
          { fl with size := alignTo el.size el.align * len, align := maxGuaranteedAlign } else fl
      | _ => fl
    t.sawFieldWithLayout fl offBits

/-- `add_tail_padding` used to subtract without a guard (`comp_layout.size - self.latest_offset`
underflowed for a union emitted as a struct that had accumulated more than its size); since
/repo commit 8d11e5e5 the early return compares with `>=`, so the subtraction cannot underflow.
The predicate is kept (constantly `false`) so that `emit` keeps its shape. -/
def Tracker.tailPaddingUnderflows (_t : Tracker) (_comp : Layout) : Bool := false

/-- `add_tail_padding` -/
def Tracker.addTailPadding (t : Tracker) (comp : Layout) : Tracker × Option Pad :=
  if !t.forcePadding then (t, none)
  else if t.isRustUnion then (t, none)
  else if t.lastFieldWasFlexibleArray then (t, none)
  else if t.latestOffset ≥ comp.size then (t, none)
  else let (t, p) := t.paddingField { size := comp.size - t.latestOffset, align := 0 }; (t, some p)

/-- `pad_struct` -/
def Tracker.padStruct (t : Tracker) (l : Layout) : Tracker × Option Pad :=
  if l.size < t.latestOffset then (t, none) else
  let paddingBytes := l.size - t.latestOffset
  if paddingBytes = 0 then (t, none) else
  let lastAlign := match t.latestFieldLayout with | some x => x.align | none => 0
  if paddingBytes ≥ l.align ∨ (t.lastFieldWasBitfield ∧ paddingBytes ≥ lastAlign) then
    let pl : Layout :=
      if t.isPacked then { size := paddingBytes, align := 1 }
      else if t.lastFieldWasBitfield ∨ l.align > maxGuaranteedAlign then forSize t.ptrSize paddingBytes
      else { size := paddingBytes, align := l.align }
    let (t, p) := t.paddingField pl; (t, some p)
  else (t, none)

/-- `requires_explicit_align` (`repr_align` is the constant `true`) -/
def Tracker.requiresExplicitAlign (t : Tracker) (l : Layout) : Bool :=
  if t.maxFieldAlign ≥ 16 then true
  else if t.maxFieldAlign ≥ l.align then false
  else true

end BindgenModel.StructLayout
