import BindgenModel.Model.MacroKind
import BindgenModel.Model.CExpr
/-!
# What bindgen prints for a constant

* `printInt` / `printNat` — `proc_macro2::Literal::{i64,u64}_unsuffixed` (`ast_ty::int_expr`,
  `uint_expr`), and `readInt` — how rustc reads such a literal back.
* `emitMacro` — `Var::codegen` for a macro value (`VarType::{Int,Float,Char,String}`).
* `emitVar` — `Var::codegen` for a `const` variable of integer type.
* enums: `extractVal` (`Enum::from_ty`: value read as signed or unsigned by the signedness of
  the underlying type), `enumRepr` (`Enum::codegen` repr translation, table
  `Generated.enumReprRows`), `emitEnum` (the value emitted per variant under each style;
  duplicates become aliases of the first variant with that value under the Rust-enum style).
-/
namespace BindgenModel.ConstEmit
open BindgenModel.Generated BindgenModel.MacroKind BindgenModel.CExpr

/-! ## decimal literals -/

def digitChar (d : Nat) : Char := Char.ofNat (48 + d)

/-- little-endian decimal digits (fuel ≥ number of digits) -/
def digitsRev : Nat → Nat → List Nat
  | 0, _ => []
  | fuel + 1, n => if n < 10 then [n] else (n % 10) :: digitsRev fuel (n / 10)

def printNat (n : Nat) : List Char := ((digitsRev (n + 1) n).reverse).map digitChar

/-- `i64_unsuffixed` -/
def printInt (v : Int) : List Char :=
  if v < 0 then '-' :: printNat (-v).toNat else printNat v.toNat

def readDigit (c : Char) : Option Nat :=
  if 48 ≤ c.toNat ∧ c.toNat ≤ 57 then some (c.toNat - 48) else none

def readNatAux : List Char → Nat → Option Nat
  | [], acc => some acc
  | c :: cs, acc => match readDigit c with
    | some d => readNatAux cs (acc * 10 + d)
    | none => none

/-- an unsuffixed decimal integer literal as rustc reads it -/
def readNat (cs : List Char) : Option Nat := if cs.isEmpty then none else readNatAux cs 0

/-- `-<lit>` or `<lit>` -/
def readInt (cs : List Char) : Option Int :=
  if cs.head? = some '-' then (readNat cs.tail).map fun n => -(Int.ofNat n)
  else (readNat cs).map Int.ofNat

/-! ## C integer literal text (cexpr `literal::c_int`) -/

def hexVal (c : Char) : Option Nat :=
  if '0' ≤ c ∧ c ≤ '9' then some (c.toNat - 48)
  else if 'a' ≤ c ∧ c ≤ 'f' then some (c.toNat - 87)
  else if 'A' ≤ c ∧ c ≤ 'F' then some (c.toNat - 55)
  else none

def isSuffixChar (c : Char) : Bool := c = 'u' || c = 'U' || c = 'l' || c = 'L'

/-- `many1(digit)` in the given radix followed by `opt(take_ul)` and end of input:
returns (value, suffix characters) -/
def digitsThenSuffix (radix : Nat) : List Char → Option Nat → Option (Nat × List Char)
  | [], acc => acc.map fun a => (a, [])
  | c :: cs, acc =>
    match hexVal c with
    | some d =>
      if d < radix then digitsThenSuffix radix cs (some ((acc.getD 0) * radix + d))
      else if (c :: cs).all isSuffixChar then acc.map fun a => (a, c :: cs) else none
    | none => if (c :: cs).all isSuffixChar then acc.map fun a => (a, c :: cs) else none

def suffixClass (s : List Char) : Option IntSuffix :=
  let l := s.map Char.toLower
  if l = [] then some .none
  else if l = ['u'] then some .u
  else if l = ['l'] then some .l
  else if l = ['u', 'l'] ∨ l = ['l', 'u'] then some .ul
  else if l = ['l', 'l'] then some .ll
  else if l = ['u', 'l', 'l'] ∨ l = ['l', 'l', 'u'] then some .ull
  else none

/-- text of a C integer literal → (decimal?, value, suffix); the alternatives are tried in
cexpr's order: `0x`, `0X`, `0b`, `0B`, `0`+octal, decimal -/
def parseCInt (cs : List Char) : Option (Bool × Nat × IntSuffix) :=
  let fin (dec : Bool) (r : Option (Nat × List Char)) : Option (Bool × Nat × IntSuffix) :=
    match r with
    | some (v, suf) => (suffixClass suf).map fun s => (dec, v, s)
    | none => none
  match cs with
  | '0' :: 'x' :: rest => fin false (digitsThenSuffix 16 rest none)
  | '0' :: 'X' :: rest => fin false (digitsThenSuffix 16 rest none)
  | '0' :: 'b' :: rest => fin false (digitsThenSuffix 2 rest none)
  | '0' :: 'B' :: rest => fin false (digitsThenSuffix 2 rest none)
  | '0' :: rest =>
    (match digitsThenSuffix 8 rest none with
     | some r => fin false (some r)
     | none => fin true (digitsThenSuffix 10 cs none))
  | _ => fin true (digitsThenSuffix 10 cs none)

/-! ## `Var::codegen` -/

inductive Emit
  /-- `pub const N: <kind> = <lit>;` -/
  | int (ty : String) (lit : List Char)
  /-- `pub const N: u8 = <c>u8;` -/
  | chr (code : Nat)
  /-- `pub const N: f64 = <finite literal>;` carried as bits -/
  | fltFinite (ty : String) (bits : Nat)
  | fltNaN (ty : String)
  | fltInf (ty : String) (neg : Bool)
  /-- `pub const N: &[u8; len] = b"…\0";` (bytes include the terminating NUL) -/
  | bytes (bs : List Nat)
  /-- `pub const N: &CStr = c"…";` (`--generate-cstr`, no interior NUL) -/
  | cstr (bs : List Nat)
  deriving DecidableEq, Repr

def classifyFloat (ty : String) (bits : Nat) : Emit :=
  let f := f64 bits
  if f.isNaN then .fltNaN ty
  else if f.isInf then .fltInf ty (f < 0)
  else .fltFinite ty bits

/-- literal of an integer value under a signed / unsigned kind
(`int_expr(val)` / `uint_expr(val as u64)`) -/
def intLiteral (signed : Bool) (v : Int) : List Char :=
  if signed then printInt v else printNat (v % 18446744073709551616).toNat

/-- `cstr` = `--generate-cstr` (with a Rust target that has C-string literals): a string
becomes a `&CStr` when `CStr::from_bytes_with_nul` accepts it, i.e. no interior NUL -/
def emitMacroC (o : MOpts) (cstr : Bool) : Res → Option Emit
  | .int v => (macroKind o v).map fun k => .int k.rustName (intLiteral k.isSigned v)
  | .flt b => some (classifyFloat "f64" b)
  | .chr c => some (.chr c)
  | .str bs => some (if cstr && !bs.contains 0 then .cstr (bs ++ [0]) else .bytes (bs ++ [0]))

def emitMacro (o : MOpts) (r : Res) : Option Emit := emitMacroC o false r

/-- Rust spelling of an integer C type as bindgen prints it (`int_kind_rust_type`) -/
def rustIntName : CTy → String
  | .bool => "bool" | .char => "c_char" | .schar => "c_schar" | .uchar => "c_uchar"
  | .short => "c_short" | .ushort => "c_ushort" | .int => "c_int" | .uint => "c_uint"
  | .long => "c_long" | .ulong => "c_ulong" | .llong => "c_longlong" | .ullong => "c_ulonglong"
  | .float => "f32" | .double => "f64" | .ldouble => "u128"

/-- `const` variable of integer type: `VarType::Int(val)` printed by the signedness of the
variable's own kind (`v` = the value clang evaluated, as `i64` bits) -/
def emitVarWChar (v : Int) : Emit := .int "u32" (intLiteral false (wrap64 v))

def emitVarInt (t : CTy) (v : Int) : Emit :=
  if t = .bool then .int "bool" (if v = 0 then "false".toList else "true".toList)
  else .int (rustIntName t) (intLiteral t.signed (wrap64 v))

/-! ## enums -/

inductive EStyle
  | consts | moduleConsts | newType | bitfield | newTypeGlobal | rust | rustNonExhaustive
  deriving DecidableEq, Repr

def EStyle.isRust : EStyle → Bool
  | .rust | .rustNonExhaustive => true
  | _ => false

/-- `EnumVariantValue` -/
inductive EVal
  | boolean (b : Bool)
  | signed (v : Int)
  | unsigned (v : Int)
  deriving DecidableEq, Repr

/-- `Enum::from_ty`: `clang_getEnumConstantDeclValue` (sign-extended to i64) when bindgen
considers the underlying type signed, `…UnsignedValue` (the bits of the underlying type
zero-extended to u64) otherwise, `!= 0` for `bool` -/
def extractVal (t : CTy) (v : Int) : EVal :=
  if t = .bool then .boolean (v != 0)
  else if t.signed then .signed (wrap64 v)
  else .unsigned (v % 2 ^ t.bits)

/-- `wchar_t`: a signed 32-bit `int` for the C compiler of this target, but
`IntKind::WChar.is_signed()` is `false` and its Rust type is `u32`.  `wcharExtract` is what
`extractVal` does for an enum whose underlying type is `wchar_t`; `emitVarWChar` what
`Var::codegen` prints for `const wchar_t x = v`. -/
def wcharExtract (v : Int) : EVal := .unsigned (v % 4294967296)

/-- region `wchar_treated_unsigned` -/
def wcharRegion (v : Int) : Bool := decide (v < 0)

/-- region `enum_bool_translated` -/
def enumBoolTranslated (translate : Bool) (isRust : Bool) (t : CTy) : Bool :=
  t = .bool && translate && !isRust

inductive Repr' | c (t : CTy) | rust (k : MKind)
  deriving DecidableEq, Repr

def translateRepr (signed : Bool) (size : Nat) : MKind :=
  match enumReprRows.find? fun r => r.1 = signed && r.2.1 = size with
  | some r => r.2.2
  | none => enumReprDefault

/-- the repr `Enum::codegen` uses -/
def enumRepr (translate : Bool) (style : EStyle) (t : CTy) : Repr' :=
  if !translate && !style.isRust then .c t else .rust (translateRepr t.signed t.sizeof)

def Repr'.name : Repr' → String
  | .c t => rustIntName t
  | .rust k => k.rustName

def Repr'.bits : Repr' → Nat
  | .c t => t.bits
  | .rust k => k.bits

def Repr'.signed : Repr' → Bool
  | .c t => t.signed
  | .rust k => k.isSigned

/-- the literal of a variant -/
inductive ELit
  | num (text : List Char)     -- `int_expr` / `uint_expr`
  | bool (b : Bool)            -- `quote!(#v)` for a `bool`
  deriving DecidableEq, Repr

/-- literal printed for a variant (`EnumBuilder::with_variant`) -/
def variantLiteral (isRust : Bool) : EVal → ELit
  | .boolean b => if isRust then .num (printNat (if b then 1 else 0)) else .bool b
  | .signed v => .num (printInt v)
  | .unsigned v => .num (printNat v.toNat)

def ELit.text : ELit → String
  | .num t => String.ofList t
  | .bool b => if b then "true" else "false"

inductive EItem
  /-- a variant / constant carrying its own literal -/
  | lit (name : String) (l : ELit)
  /-- a constant defined as another variant (duplicate value under the Rust-enum style) -/
  | aliasOf (name : String) (target : String)
  deriving DecidableEq, Repr

def seenLookup (seen : List (EVal × String)) (v : EVal) : Option String :=
  match seen with
  | [] => none
  | (k, n) :: rest => if k = v then some n else seenLookup rest v

/-- the loop over variants in `Enum::codegen` (`seen_values` map; no hidden / constified
variants: those need annotations or callbacks) -/
def emitVariants (isRust : Bool) (t : CTy) : List (String × Int) → List (EVal × String) → List EItem
  | [], _ => []
  | (n, v) :: rest, seen =>
    let ev := extractVal t v
    match seenLookup seen ev with
    | some first =>
      (if isRust then EItem.aliasOf n first else EItem.lit n (variantLiteral isRust ev))
        :: emitVariants isRust t rest seen
    | none => EItem.lit n (variantLiteral isRust ev) :: emitVariants isRust t rest ((ev, n) :: seen)

def emitEnum (style : EStyle) (t : CTy) (variants : List (String × Int)) : List EItem :=
  emitVariants style.isRust t variants []

/-- an enum over `wchar_t`: the loop of `emitVariants` with `wcharExtract` -/
def emitVariantsWChar (isRust : Bool) : List (String × Int) → List (EVal × String) → List EItem
  | [], _ => []
  | (n, v) :: rest, seen =>
    let ev := wcharExtract v
    match seenLookup seen ev with
    | some first =>
      (if isRust then EItem.aliasOf n first else EItem.lit n (variantLiteral isRust ev))
        :: emitVariantsWChar isRust rest seen
    | none => EItem.lit n (variantLiteral isRust ev) :: emitVariantsWChar isRust rest ((ev, n) :: seen)

/-! reading the emitted items back: the value a Rust compiler assigns to each name
(an alias denotes the value of the EARLIER item it names) -/

def readLit : ELit → Option Int
  | .num t => readInt t
  | .bool b => some (if b then 1 else 0)

def nameLookup (l : List (String × Int)) (n : String) : Option Int :=
  match l with
  | [] => none
  | (k, v) :: rest => if k = n then some v else nameLookup rest n

def readItems (pre : List (String × Int)) : List EItem → Option (List (String × Int))
  | [] => some pre
  | .lit n l :: rest => (match readLit l with | some v => readItems (pre ++ [(n, v)]) rest | none => none)
  | .aliasOf n target :: rest =>
    (match nameLookup pre target with | some v => readItems (pre ++ [(n, v)]) rest | none => none)

end BindgenModel.ConstEmit
