import BindgenModel.Model.Analyses
/-!
# Which traits are put on a generated type: `derives_of_item`, the `CanDerive*` gates of
`ir/context.rs`, and the `needs_*_impl` decisions of `CompInfo::codegen`
-/
namespace BindgenModel.Derives
open BindgenModel.IR BindgenModel.Analyses

inductive Trait | copy | clone | debug | default | hash | partialOrd | ord | partialEq | eq
deriving DecidableEq, Repr

def Trait.name : Trait → String
  | .copy => "Copy" | .clone => "Clone" | .debug => "Debug" | .default => "Default" | .hash => "Hash"
  | .partialOrd => "PartialOrd" | .ord => "Ord" | .partialEq => "PartialEq" | .eq => "Eq"

/-- the answers of the analyses as `BindgenContext::lookup_*` returns them -/
structure Lookups where
  canDebug : Nat → Bool
  canDefault : Nat → Bool
  /-- `∉ cannot_derive_copy` -/
  canCopyRaw : Nat → Bool
  canHash : Nat → Bool
  /-- `lookup_can_derive_partialeq_or_partialord`: 0 = Yes, 1 = Manually, 2 = No -/
  partialEq : Nat → V
  hasTypeParamInArray : Nat → Bool
  hasFloat : Nat → Bool

/-- `lookup_can_derive_copy` -/
def Lookups.canCopy (L : Lookups) (n : Nat) : Bool := !L.hasTypeParamInArray n && L.canCopyRaw n

structure Ann where
  noCopy : Bool := false
  noDebug : Bool := false
  noDefault : Bool := false

/-- the `impl CanDeriveX for T` gates: option on ∧ analysis says yes (∧ no float for Eq/Ord) -/
def gate (o : Opts) (L : Lookups) (n : Nat) : Trait → Bool
  | .copy | .clone => o.deriveCopy && L.canCopy n
  | .debug => o.deriveDebug && L.canDebug n
  | .default => o.deriveDefault && L.canDefault n
  | .hash => o.deriveHash && L.canHash n
  | .partialOrd => o.derivePartialord && L.partialEq n == 0
  | .partialEq => o.derivePartialeq && L.partialEq n == 0
  | .eq => o.deriveEq && L.partialEq n == 0 && !L.hasFloat n
  | .ord => o.deriveOrd && L.partialEq n == 0 && !L.hasFloat n

/-- `codegen::derives_of_item` -/
def derivesOfItem (o : Opts) (L : Lookups) (a : Ann) (packed : Bool) (n : Nat) : List Trait :=
  let copy := gate o L n .copy && !a.noCopy
  if !copy && packed then [] else
  (if copy then [Trait.copy, .clone] else []) ++
  (if gate o L n .debug && !a.noDebug then [.debug] else []) ++
  (if gate o L n .default && !a.noDefault then [.default] else []) ++
  (if gate o L n .hash then [.hash] else []) ++
  (if gate o L n .partialOrd then [.partialOrd] else []) ++
  (if gate o L n .ord then [.ord] else []) ++
  (if gate o L n .partialEq then [.partialEq] else []) ++
  (if gate o L n .eq then [.eq] else [])

/-- derives of a struct/union in `CompInfo::codegen` -/
def compDerives (o : Opts) (L : Lookups) (a : Ann) (packed fwd : Bool) (n : Nat) : List Trait :=
  if fwd then (if !a.noDebug then [.debug] else []) else derivesOfItem o L a packed n

structure ManualImpls where
  debug : Bool
  default : Bool
  clone : Bool
  partialEq : Bool
deriving DecidableEq, Repr

/-- `needs_{debug,default,clone,partialeq}_impl` -/
def manualImpls (o : Opts) (L : Lookups) (a : Ann) (packed fwd : Bool) (nbnDebug nbnDefault : Bool)
    (n : Nat) : ManualImpls :=
  let d := compDerives o L a packed fwd n
  { debug := !d.contains .debug && (o.deriveDebug && o.implDebug && !nbnDebug && !a.noDebug),
    default := !d.contains .default && (o.deriveDefault && !fwd && !nbnDefault && !a.noDefault),
    clone := d.contains .copy && !d.contains .clone,
    partialEq := !d.contains .partialEq && (o.derivePartialeq && o.implPartialeq && L.partialEq n == 1) }

end BindgenModel.Derives
