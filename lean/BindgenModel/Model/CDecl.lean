import BindgenModel.Generated.SerializeArms
/-! # C16 — model of the static-function wrapper generator

`bindgen/codegen/serialize.rs` (`impl CSerialize for Type / Function`, `serialize_args`), the
`should_wrap` / `link_name` logic of `Function::codegen` (`bindgen/codegen/mod.rs`), and a
reference parser for the C declarator grammar.

The serializer writes text fragments; every fragment the code writes is a `Piece`: the exact
text (taken from the generated table `Generated/SerializeArms.lean`) together with the C token
it stands for (`none` for pure white space).  `textOf` of the piece list is compared with the
real `.c` file on every run; the theorems speak about `toks` of the same piece list.

Deliberate abstraction (in-declarator form of the `Array` arm only, i.e. not the code as it is
today): `declarator.starts_with('*')` / `declarator.is_empty()` are evaluated on pieces (first
piece is a `*` / no piece) instead of on characters; identical for C identifiers. -/
namespace BindgenModel.CDecl
open BindgenModel.Generated.SerializeArms

abbrev Name := List Char

/-- leaves of a C type: what the `Void … Enum` arms print -/
inductive Base where
  | void | nullptr
  | int (k : IntK) | float (k : FloatK) | complex (k : FloatK)
  | named (s : Name)                       -- `Alias` with a name (typedefs, `va_list`)
  | struct (s : Name) | union (s : Name) | enum (s : Name)
  deriving DecidableEq, Repr

mutual
/-- the part of bindgen's `TypeKind` the serializer distinguishes -/
inductive CType where
  | base (c : Bool) (b : Base)
  | ptr (c : Bool) (t : CType)
  | array (t : CType) (n : Nat)
  | func (c v : Bool) (ret : CType) (ps : Params)   -- v = `is_variadic()`
  | tref (c : Bool) (t : CType)            -- `ResolvedTypeRef` (and `Alias` without a name, c = false)
  | other                                  -- every kind that reaches the `Cannot serialize type kind` arm
/-- `FunctionSig::argument_types`: `(Option<String>, TypeId)` -/
inductive Params where
  | nil
  | cons (name : Option Name) (t : CType) (rest : Params)
end

/-- C tokens of declarations (compound where the serializer writes them in one piece) -/
inductive Tok where
  | kconst
  | ty (b : Base)
  | star (c : Bool)          -- `*` / `* const`
  | id (s : Name)
  | arr (n : Nat)            -- `[n]`
  | lpar | rpar | comma
  | voidp                    -- `( void )`
  | junk                     -- anything else
  deriving DecidableEq, Repr

structure Piece where
  tok : Option Tok
  text : List Char
  deriving Repr

def textOf (ps : List Piece) : List Char := (ps.map (·.text)).flatten
def toks (ps : List Piece) : List Tok := ps.filterMap (·.tok)

def natText (n : Nat) : List Char := Nat.toDigits 10 n

/-- text of a leaf; `none` = `Cannot serialize integer kind` -/
def baseText : Base → Option (List Char)
  | .void => some fragVoid
  | .nullptr => some fragNullPtr
  | .int k => intText k
  | .float k => floatText k
  | .complex k => complexText k
  | .named s => some s
  | .struct s => some (fragStruct ++ s)
  | .union s => some (fragUnion ++ s)
  | .enum s => some (fragEnum ++ s)

def pConst : Piece := ⟨some .kconst, fragConst⟩
def pBase (b : Base) : Piece := ⟨some (.ty b), (baseText b).getD []⟩
def pSp : Piece := ⟨none, fragStackSep⟩
def pStar (c : Bool) : Piece := ⟨some (.star c), if c then fragPtrConst else fragPtr⟩
def pId (s : Name) : Piece := ⟨some (.id s), s⟩
def pArr (n : Nat) : Piece := ⟨some (.arr n), fragArrOpen ++ natText n ++ fragArrClose⟩
def pArrT (n : Nat) : Piece := ⟨some (.arr n), fragArrOpenTight ++ natText n ++ fragArrClose⟩
def pFnConst : Piece := ⟨some .kconst, fragFnConst⟩
def pFnOpen : Piece := ⟨some .lpar, fragFnOpen⟩
def pFnClose : Piece := ⟨some .rpar, fragFnClose⟩
def pFnVoid : Piece := ⟨some .voidp, fragFnVoid⟩
def pArgsOpen : Piece := ⟨some .lpar, fragFnArgsOpen⟩
def pArgsClose : Piece := ⟨some .rpar, fragFnArgsClose⟩
def pSep : Piece := ⟨some .comma, fragSep⟩
def pParOpen : Piece := ⟨some .lpar, fragParOpen⟩
def pParClose : Piece := ⟨some .rpar, fragParClose⟩

def constP (c : Bool) : List Piece := if c then [pConst] else []

/-- `if !stack.is_empty() { write " "; pop everything }`; head of the list = top of the stack -/
def flush (st : List (List Piece)) : List Piece := if st.isEmpty then [] else pSp :: st.flatten

def startsStar : List Piece → Bool
  | p :: _ => match p.tok with
    | some (.star _) => true
    | _ => false
  | [] => false

/-- the declarator pushed by the in-declarator form of the `Array` arm -/
def arrDecl (d : List Piece) (n : Nat) : List Piece :=
  let d := if startsStar d then [pParOpen] ++ d ++ [pParClose] else d
  if d.isEmpty then [pArrT n] else d ++ [pArr n]

def nameStack : Option Name → List (List Piece)
  | some n => [[pId n]]
  | none => []

mutual
/-- is every kind on the way serialisable (otherwise the whole generation fails with
    `CodegenError::Serialize`) -/
def supported : CType → Bool
  | .base _ b => (baseText b).isSome
  | .ptr _ t => supported t
  | .array t _ => supported t
  | .func _ _ r ps => supported r && supportedPs ps
  | .tref _ t => supported t
  | .other => false
def supportedPs : Params → Bool
  | .nil => true
  | .cons _ t r => supported t && supportedPs r
end

mutual
/-- `impl CSerialize for Type`; `a` = `arrayInDeclarator` of the generated table -/
def serP (a : Bool) : CType → List (List Piece) → List Piece
  | .base c b, st => constP c ++ [pBase b] ++ flush st
  | .ptr c t, st => serP a t ([pStar c] :: st)
  | .array t n, st =>
      if a then serP a t [arrDecl st.flatten n]
      else serP a t st ++ [pArr n]
  | .func c _ r ps, st =>
      serP a r [] ++ [pFnOpen] ++ ((if c then [[pFnConst]] else []) ++ st).flatten ++ [pFnClose] ++ serPs a ps
  | .tref c t, st => constP c ++ serP a t st
  | .other, _ => []
/-- the parameter list of a function type -/
def serPs (a : Bool) : Params → List Piece
  | .nil => [pFnVoid]
  | .cons n t r => pArgsOpen :: serP a t (nameStack n) ++ serMore a r
def serMore (a : Bool) : Params → List Piece
  | .nil => [pArgsClose]
  | .cons n t r => pSep :: serP a t (nameStack n) ++ serMore a r
end

/-- `<Type as CSerialize>::serialize` with `Err` as `none` -/
def serialize (a : Bool) (t : CType) (st : List (List Piece)) : Option (List Piece) :=
  if supported t then some (serP a t st) else none

/-- the code as it is in /repo now -/
def serializeNow := serialize arrayInDeclarator

/-! ## Wrapper assembly (`impl CSerialize for Function`, path without `wrap_as_variadic`) -/

structure Fn where
  name : Name
  ret : CType
  params : Params

/-- names given to the parameters: `arg_{count}` for unnamed ones, `count` counting only those -/
def argNames : Params → Nat → List Name
  | .nil, _ => []
  | .cons (some n) _ r, k => n :: argNames r k
  | .cons none _ r, k => (fragArgPrefix ++ natText k) :: argNames r (k + 1)

def paramTypes : Params → List CType
  | .nil => []
  | .cons _ t r => t :: paramTypes r

/-- `Type::is_void`: the kind itself is `Void` -/
def isVoid : CType → Bool
  | .base _ .void => true
  | _ => false

structure WrapperDef where
  defName : Name
  ret : CType
  params : List (Name × CType)
  callee : Name
  forwarded : List Name
  returns : Bool

def wrapperDef (suffix : Name) (f : Fn) : WrapperDef :=
  let names := argNames f.params 0
  { defName := f.name ++ suffix, ret := f.ret, params := names.zip (paramTypes f.params),
    callee := f.name, forwarded := names, returns := !isVoid f.ret }

def sepBy (sep : List Char) : List (List Char) → List Char
  | [] => []
  | [x] => x
  | x :: xs => x ++ sep ++ sepBy sep xs

def renderWrapper (a : Bool) (w : WrapperDef) : List Char :=
  textOf (serP a w.ret []) ++ fragWrapPre ++ w.defName ++ fragWrapOpen ++
  (if w.params.isEmpty then fragArgsVoid
   else sepBy fragArgsSep (w.params.map fun (n, t) => textOf (serP a t [[pId n]]))) ++
  (if w.returns then fragBodyRetPre ++ w.callee ++ fragBodyRetPost
   else fragBodyVoidPre ++ w.callee ++ fragBodyVoidPost) ++
  sepBy fragCallSep w.forwarded ++ fragCallClose ++ fragEnd

def fnSupported (f : Fn) : Bool := supported f.ret && supportedPs f.params

def wrapperText (a : Bool) (suffix : Name) (f : Fn) : Option (List Char) :=
  if fnSupported f then some (renderWrapper a (wrapperDef suffix f)) else none

/-! ## `Function::codegen`: does the function get a binding, which symbol, is it wrapped -/

structure FnInfo where
  name : Name                 -- `Function::name()`
  canonical : Name            -- `item.canonical_name(ctx)` (after the overload counter)
  mangled : Option Name       -- `Function::mangled_name()`
  linkAttr : Option Name      -- `Function::link_name()` (callback override)
  internal : Bool             -- `Linkage::Internal`
  variadic : Bool

/-- `names_will_be_identical_after_mangling` for the C calling convention -/
def namesIdentical (canonical mangled : Name) : Bool :=
  canonical == mangled || mangled == '_' :: canonical

def linkNameAttr (f : FnInfo) : Option Name :=
  match f.linkAttr with
  | some l => some l
  | none =>
    let m := f.mangled.getD f.name
    if namesIdentical f.canonical m then none else some m

def shouldWrap (wrap : Bool) (f : FnInfo) : Bool :=
  f.internal && wrap && (linkNameAttr f).isNone

structure Binding where
  ident : Name
  link : Option Name          -- the (last) `#[link_name]`, `none` = the identifier itself
  wrapped : Bool              -- pushed on `items_to_serialize`
  deriving DecidableEq, Repr

/-- `none` = "we avoid generating anything"; only the early exits that concern static functions -/
def codegenFn (wrap : Bool) (suffix : Name) (f : FnInfo) : Option Binding :=
  if f.internal && !wrap then none
  else if f.internal && f.variadic then none
  else
    let w := shouldWrap wrap f
    some { ident := f.canonical,
           link := if w then some (f.canonical ++ suffix) else linkNameAttr f,
           wrapped := w }

/-- the symbol the emitted C file defines for `f` -/
def wrapperSymbol (suffix : Name) (f : FnInfo) : Name := f.name ++ suffix

/-! ## What the printed declaration denotes, and where the printer is wrong

`den` is the C type a bindgen type stands for (a const `ResolvedTypeRef` is a top-level `const`).
`defect a ctx t` names the first construct in `t` for which the text written by `serP a` does
*not* declare `den t` (the hypothesis `decl_roundtrip_partial` needs); the same function is
implemented in `harness/src/bin/c16.rs` and compared with this one on every case. -/

/-- shape of the declarator collected so far: nothing / starts with an identifier or `(` /
    starts with `*` / only array suffixes of an abstract declarator (`[3]`) -/
inductive Ctx where
  | empty | direct | ptr | absArr
  deriving DecidableEq, Repr

/-- the context after the in-declarator `Array` arm has added its suffix -/
def Ctx.afterArr : Ctx → Ctx
  | .empty => .absArr
  | .absArr => .absArr
  | _ => .direct

inductive Defect where
  | arrayUnderPtr     -- `int (*p)[3]` is written `int *p [3]`
  | arrayElem         -- `int a[2][3]` is written `int a [3] [2]`, `int (*a[3])(void)` as `int (*a) (void) [3]`
  | fnRet             -- a function (pointer) type whose return type is not pointers-to-a-leaf: `int (*(*f)(void))(int)`
  | fnNoDeclarator    -- a function type with nothing to put in `( )`: unnamed parameter `int (int)`
  | fnConst           -- const-qualified function type
  | fnVariadic        -- `int (*g)(const char *, ...)` is written `int (*g) (const char *)`
  | constRefPtr       -- top-level const on a pointer parameter: `int *const q` is written `const int *const q`
  | unsupported       -- the serializer returns `Err`
  deriving DecidableEq, Repr

def baseLike : CType → Bool
  | .base _ _ => true
  | .tref _ t => baseLike t
  | _ => false

/-- pointers to a leaf, without a const reference to anything but a leaf -/
def ptrBase : CType → Bool
  | .base _ _ => true
  | .ptr _ t => ptrBase t
  | .tref c t => if c then baseLike t else ptrBase t
  | _ => false

def addConst : CType → CType
  | .base _ b => .base true b
  | t => t

mutual
def den : CType → CType
  | .base c b => .base c b
  | .ptr c t => .ptr c (den t)
  | .array t n => .array (den t) n
  | .func c v r ps => .func c v (den r) (denPs ps)
  | .tref c t => if c then addConst (den t) else den t
  | .other => .other
def denPs : Params → Params
  | .nil => .nil
  | .cons n t r => .cons n (den t) (denPs r)
end

def ctxOfName : Option Name → Ctx
  | some _ => .direct
  | none => .empty

mutual
def defect (a : Bool) : Ctx → CType → Option Defect
  | _, .base _ b => if (baseText b).isSome then none else some .unsupported
  | _, .ptr _ t => defect a .ptr t
  | ctx, .array t _ =>
    if a then defect a ctx.afterArr t
    else if ctx == .ptr then some .arrayUnderPtr
    else if !ptrBase t then some .arrayElem
    else defect a ctx t
  | ctx, .func c v r ps =>
    if c then some .fnConst
    else if v then some .fnVariadic
    else if ctx == .empty || ctx == .absArr then some .fnNoDeclarator
    else if !ptrBase r then some .fnRet
    else match defect a .empty r with
      | some d => some d
      | none => defectPs a ps
  | ctx, .tref c t => if c && !baseLike t then some .constRefPtr else defect a ctx t
  | _, .other => some .unsupported
def defectPs (a : Bool) : Params → Option Defect
  | .nil => none
  | .cons n t r => match defect a (ctxOfName n) t with
    | some d => some d
    | none => defectPs a r
end

/-- the wrapper's own return type is written with an empty stack and followed by the name -/
def retDefect (a : Bool) (r : CType) : Option Defect :=
  if !ptrBase r then some .fnRet else defect a .empty r

/-! ## Reference parser for C declarators -/

inductive Decl where
  | nm (n : Option Name)
  | ptr (c : Bool) (d : Decl)
  | arr (d : Decl) (n : Nat)
  | fn (d : Decl) (ps : Params)
  | paren (d : Decl)

/-- the type a declarator gives its identifier, from the specifier type inwards -/
def Decl.apply : Decl → CType → CType × Option Name
  | .nm n, t => (t, n)
  | .ptr c d, t => d.apply (.ptr c t)
  | .arr d n, t => d.apply (.array t n)
  | .fn d ps, t => d.apply (.func false false t ps)
  | .paren d, t => d.apply t

/-- `const`* type-specifier -/
def parseSpec : List Tok → Option (Bool × Base × List Tok)
  | .kconst :: r => match parseSpec r with
    | some (_, b, r') => some (true, b, r')
    | none => none
  | .ty b :: r => some (false, b, r)
  | _ => none

/-- after `(` in a declarator: a nested declarator (and not a parameter list) starts here -/
def startsGroup : List Tok → Bool
  | .star _ :: _ => true
  | .lpar :: _ => true
  | .id _ :: _ => true
  | _ => false

mutual
def parseDtor : Nat → List Tok → Option (Decl × List Tok)
  | 0, _ => none
  | f + 1, .star c :: r => match parseDtor f r with
    | some (d, r') => some (.ptr c d, r')
    | none => none
  | f + 1, .id s :: r => parseSuf f (.nm (some s)) r
  | f + 1, .lpar :: r =>
    if startsGroup r then
      match parseDtor f r with
      | some (d, .rpar :: r') => parseSuf f (.paren d) r'
      | _ => none
    else parseSuf f (.nm none) (.lpar :: r)
  | f + 1, r => parseSuf f (.nm none) r
def parseSuf : Nat → Decl → List Tok → Option (Decl × List Tok)
  | 0, _, _ => none
  | f + 1, d, .arr n :: r => parseSuf f (.arr d n) r
  | f + 1, d, .voidp :: r => parseSuf f (.fn d .nil) r
  | f + 1, d, .lpar :: r => match parseParams f r with
    | some (ps, r') => parseSuf f (.fn d ps) r'
    | none => none
  | _ + 1, d, r => some (d, r)
def parseParams : Nat → List Tok → Option (Params × List Tok)
  | 0, _ => none
  | f + 1, ts => match parseParam f ts with
    | some (n, t, .comma :: r) => match parseParams f r with
      | some (ps, r') => some (.cons n t ps, r')
      | none => none
    | some (n, t, .rpar :: r) => some (.cons n t .nil, r)
    | _ => none
def parseParam : Nat → List Tok → Option (Option Name × CType × List Tok)
  | 0, _ => none
  | f + 1, ts => match parseSpec ts with
    | some (c, b, r) => match parseDtor f r with
      | some (d, r') => some ((d.apply (.base c b)).2, (d.apply (.base c b)).1, r')
      | none => none
    | none => none
end

/-- a whole parameter declaration: the type and the identifier it declares -/
def parseDecl (ts : List Tok) : Option (CType × Option Name) :=
  match parseParam (2 * ts.length + 2) ts with
  | some (n, t, []) => some (t, n)
  | _ => none

/-! ## Lexer (characters → tokens); `tds` = the typedef names in scope -/

def isIdStart (c : Char) : Bool := c.isAlpha || c == '_'
def isIdChar (c : Char) : Bool := c.isAlphanum || c == '_'

def takeWhileC (p : Char → Bool) : List Char → List Char × List Char
  | [] => ([], [])
  | c :: r => if p c then let (a, b) := takeWhileC p r; (c :: a, b) else ([], c :: r)

def skipSp (s : List Char) : List Char := (takeWhileC (· == ' ') s).2

def digitsVal (ds : List Char) : Nat := ds.foldl (fun a c => a * 10 + (c.toNat - '0'.toNat)) 0

def kwConst : List Char := ['c', 'o', 'n', 's', 't']
def kwVoid : List Char := ['v', 'o', 'i', 'd']
def kwStruct : List Char := ['s', 't', 'r', 'u', 'c', 't']
def kwUnion : List Char := ['u', 'n', 'i', 'o', 'n']
def kwEnum : List Char := ['e', 'n', 'u', 'm']

/-- words that make up builtin type specifiers -/
def specWords : List (List Char) :=
  [['v', 'o', 'i', 'd'],
   ['c', 'h', 'a', 'r'],
   ['s', 'h', 'o', 'r', 't'],
   ['i', 'n', 't'],
   ['l', 'o', 'n', 'g'],
   ['f', 'l', 'o', 'a', 't'],
   ['d', 'o', 'u', 'b', 'l', 'e'],
   ['s', 'i', 'g', 'n', 'e', 'd'],
   ['u', 'n', 's', 'i', 'g', 'n', 'e', 'd'],
   ['b', 'o', 'o', 'l'],
   ['_', 'B', 'o', 'o', 'l'],
   ['w', 'c', 'h', 'a', 'r', '_', 't'],
   ['c', 'o', 'm', 'p', 'l', 'e', 'x'],
   ['_', 'C', 'o', 'm', 'p', 'l', 'e', 'x'],
   ['_', 'F', 'l', 'o', 'a', 't', '1', '6'],
   ['_', '_', 'f', 'l', 'o', 'a', 't', '1', '2', '8'],
   ['_', '_', 'c', 'o', 'm', 'p', 'l', 'e', 'x', '1', '2', '8'],
   ['n', 'u', 'l', 'l', 'p', 't', 'r', '_', 't']]

def builtinBases : List Base :=
  [.void, .nullptr] ++ allIntK.map .int ++ allFloatK.map .float ++ allFloatK.map .complex

def findBuiltin (txt : List Char) : Option Base :=
  builtinBases.find? fun b => baseText b == some txt

/-- greedily read further specifier words -/
def moreSpecWords : Nat → List Char → List Char → List Char × List Char
  | 0, acc, s => (acc, s)
  | f + 1, acc, s =>
    let s' := skipSp s
    let (w, r) := takeWhileC isIdChar s'
    if !w.isEmpty && specWords.contains w then moreSpecWords f (acc ++ ' ' :: w) r else (acc, s)

def lexGo (tds : List Name) : Nat → List Char → List Tok
  | 0, _ => [.junk]
  | f + 1, s =>
    match s with
    | [] => []
    | ' ' :: r => lexGo tds f r
    | '\n' :: r => lexGo tds f r
    | '*' :: r =>
      let r' := skipSp r
      let (w, r'') := takeWhileC isIdChar r'
      if w == kwConst then .star true :: lexGo tds f r'' else .star false :: lexGo tds f r
    | '(' :: r =>
      let (w, r') := takeWhileC isIdChar (skipSp r)
      match w == kwVoid, skipSp r' with
      | true, ')' :: r'' => .voidp :: lexGo tds f r''
      | _, _ => .lpar :: lexGo tds f r
    | ')' :: r => .rpar :: lexGo tds f r
    | ',' :: r => .comma :: lexGo tds f r
    | '[' :: r =>
      let (ds, r') := takeWhileC Char.isDigit (skipSp r)
      match ds.isEmpty, skipSp r' with
      | false, ']' :: r'' => .arr (digitsVal ds) :: lexGo tds f r''
      | _, _ => .junk :: lexGo tds f r
    | c :: r =>
      if isIdStart c then
        let (w, r') := takeWhileC isIdChar (c :: r)
        if w == kwConst then .kconst :: lexGo tds f r'
        else if w == kwStruct || w == kwUnion || w == kwEnum then
          let (n, r'') := takeWhileC isIdChar (skipSp r')
          let b := if w == kwStruct then Base.struct n else if w == kwUnion then .union n else .enum n
          (if n.isEmpty then .junk else .ty b) :: lexGo tds f r''
        else if specWords.contains w then
          let (txt, r'') := moreSpecWords f w r'
          (match findBuiltin txt with | some b => Tok.ty b | none => .junk) :: lexGo tds f r''
        else if tds.contains w then .ty (.named w) :: lexGo tds f r'
        else .id w :: lexGo tds f r'
      else .junk :: lexGo tds f r

def lex (tds : List Name) (s : List Char) : List Tok := lexGo tds (s.length + 1) s

end BindgenModel.CDecl
