import BindgenModel.Model.StructLayout
/-!
# Model of the struct-level decisions of `CompInfo::codegen` (codegen/mod.rs) and of
`CompInfo::{is_packed, already_packed, is_rust_union}` (ir/comp.rs)

Input `CAgg`: what the IR knows about a C record (libclang's layout numbers, the field list after
bit-field unit allocation, attribute facts).  Output `RustAgg`: the Rust aggregate bindgen
emits, reduced to what determines its layout (`struct`/`union`, `repr(packed(N))`,
`repr(align(N))`, and per field a name tag, the size and alignment of its Rust type).

Specification side: `reprC` — the layout algorithm of the Rust reference for `repr(C)`,
`repr(C, packed(N))`, `repr(C)` + `repr(align(N))` structs and unions.
-/
namespace BindgenModel.CompCodegen
open BindgenModel.Layout BindgenModel.StructLayout

/-- names of emitted fields, as tags (strings do not reduce in the kernel) -/
inductive FName
  /-- the `idx`-th entry of the record's IR field list (a named / `__bindgen_anon_N` data member) -/
  | user (idx : Nat)
  /-- `_bitfield_{nth}` -/
  | unit (nth : Nat)
  /-- `__bindgen_padding_{k}` -/
  | padding (k : Nat)
  /-- `_bindgen_align` -/
  | bindgenAlign
  /-- `_address` -/
  | address
  /-- `_bindgen_opaque_blob` -/
  | opaqueBlob
  /-- `bindgen_union_field` -/
  | unionField
  /-- `_unused` -/
  | unused
  /-- `vtable_` -/
  | vtable
  /-- `_base`, `_base_1`, … -/
  | base (i : Nat)
deriving DecidableEq, Repr, Inhabited

def FName.isUser : FName → Bool
  | .user _ => true
  | _ => false

def FName.render : FName → String
  | .user i => s!"user{i}"
  | .unit n => s!"_bitfield_{n}"
  | .padding k => s!"__bindgen_padding_{k}"
  | .bindgenAlign => "_bindgen_align"
  | .address => "_address"
  | .opaqueBlob => "_bindgen_opaque_blob"
  | .unionField => "bindgen_union_field"
  | .unused => "_unused"
  | .vtable => "vtable_"
  | .base i => s!"_base{i}"

/-- one entry of `CompInfo::fields()` -/
inductive CField
  /-- `Field::DataMember`: type facts, `offset()` in bits -/
  | data (ty : FieldTy) (offBits : Option Nat)
  /-- `Field::Bitfields`: `nth()`, `layout()`, and the largest `offset_into_unit + width` of its
  bit-fields (what the unit has to cover), and the bit offset in the record at which the unit
  starts according to libclang (offset of its first bit-field minus that bit-field's
  `offset_into_unit`), when known -/
  | unit (nth : Nat) (layout : Layout) (bitsEnd : Nat) (startBits : Option Nat)
deriving Repr, DecidableEq

/-- `Field::layout(ctx)` -/
def CField.layout : CField → Option Layout
  | .data ty _ => ty.layout
  | .unit _ l _ _ => some l

inductive UnionStyle | bindgenWrapper | manuallyDrop
deriving DecidableEq, Repr

/-- the options and target facts the decisions read -/
structure Opts where
  forcePadding : Bool := false
  ptrSize : Nat := 8
  untaggedUnion : Bool := true
  /-- style selected for this union (`bindgen_wrapper_union` / `manually_drop_union` /
  `default_non_copy_union_style`) -/
  unionStyle : UnionStyle := .bindgenWrapper
  /-- alignment rustc gives `u64` on the target (`_bindgen_align: [u64; 0]`) -/
  u64Align : Nat := 8
deriving Repr, DecidableEq

/-- a C record as the IR describes it -/
structure CAgg where
  isUnion : Bool := false
  /-- `ty.layout(ctx)` -/
  layout : Option Layout
  packedAttr : Bool := false
  fields : List CField
  hasOwnVirtual : Bool := false
  /-- `item.has_vtable_ptr(ctx)` -/
  hasVtablePtr : Bool := false
  /-- layouts of the bases that require storage, in order -/
  bases : List (Option Layout) := []
  /-- `item.is_opaque(ctx, &())` -/
  isOpaque : Bool := false
  forwardDecl : Bool := false
  /-- `item.is_zero_sized(ctx)` -/
  zeroSized : Bool := false
  /-- every data member's type can derive `Copy` -/
  allCanCopy : Bool := true
deriving Repr, DecidableEq

/-- `CompInfo::has_bitfields` -/
def CAgg.hasBitfields (c : CAgg) : Bool :=
  c.fields.any fun f => match f with | .unit _ _ _ _ => true | _ => false

/-- `CompInfo::is_packed(ctx, layout)` -/
def CAgg.isPacked (c : CAgg) : Bool :=
  if c.packedAttr then true else
  match c.layout with
  | none => false
  | some pl =>
    if c.fields.any (fun f => match f.layout with | some l => decide (l.align > pl.align) | none => false) then true
    else c.hasOwnVirtual && decide (pl.align = 1)

/-- the loop of `CompInfo::already_packed` -/
def alreadyPackedLoop : List CField → Nat → Option Bool
  | [], _ => some true
  | f :: fs, total =>
    match f.layout with
    | none => none
    | some l => if l.align ≠ 0 ∧ total % l.align ≠ 0 then some false else alreadyPackedLoop fs (total + l.size)

def CAgg.alreadyPacked (c : CAgg) : Option Bool := alreadyPackedLoop c.fields 0

/-- `CompInfo::is_rust_union(ctx, layout, name)` → `(is_rust_union, can_copy_union_fields)` -/
def CAgg.isRustUnion (o : Opts) (c : CAgg) : Bool × Bool :=
  if !c.isUnion then (false, false)
  else if !o.untaggedUnion then (false, false)
  else if c.forwardDecl then (false, false)
  else if !c.allCanCopy && o.unionStyle == .bindgenWrapper then (false, false)
  else if (match c.layout with | some l => decide (l.size = 0) | none => false) && o.unionStyle != .manuallyDrop then (false, false)
  else (true, c.allCanCopy)

/-- a field of the emitted aggregate -/
structure RField where
  name : FName
  size : Nat
  align : Nat
  /-- the blob type, when the field is one -/
  blob : Option BlobTy := none
  /-- the field's type transitively contains a `repr(align)` type -/
  containsAlign : Bool := false
deriving Repr, DecidableEq

/-- the emitted Rust aggregate -/
structure RustAgg where
  isUnion : Bool
  /-- `repr(C, packed)` = `some 1`, `repr(C, packed(N))` = `some N` -/
  packed : Option Nat
  /-- `repr(align(N))` -/
  align : Option Nat
  fields : List RField
deriving Repr, DecidableEq

def blobField (n : FName) (l : Layout) : RField :=
  let b := blob l false
  { name := n, size := b.size, align := b.align, blob := some b,
    containsAlign := match b with | .opaqueA _ _ => true | _ => false }

def padField (p : Pad) : RField := blobField (.padding p.idx) p.layout

/-- the Rust type of a data member: by assumption of the layer (members are faithful) it has the
size and alignment libclang reports for the member's type; inside a non-Rust union it is the
zero-sized `__BindgenUnionField<T>` -/
def memberField (wrapZero : Bool) (idx : Nat) (ty : FieldTy) : RField :=
  if wrapZero then { name := .user idx, size := 0, align := 1 } else
  match ty.layout with
  | some l => { name := .user idx, size := l.size, align := max l.align 1, containsAlign := ty.containsAlign }
  | none => { name := .user idx, size := 0, align := 1, containsAlign := ty.containsAlign }

/-- the field loop: `Field::codegen` for every entry of `fields()` -/
def emitFields (wrapZero : Bool) : Nat → Tracker → List CField → Tracker × List RField
  | _, t, [] => (t, [])
  | idx, t, .data ty off :: fs =>
    let (t, pad) := t.sawField ty off
    let (t', rest) := emitFields wrapZero (idx + 1) t fs
    (t', (match pad with | some p => [padField p] | none => []) ++ memberField wrapZero idx ty :: rest)
  | idx, t, .unit nth l _ _ :: fs =>
    let t := t.sawBitfieldUnit l
    let (t', rest) := emitFields wrapZero (idx + 1) t fs
    (t', { name := .unit nth, size := if wrapZero then 0 else l.size, align := 1 } :: rest)

def emitBases : Nat → Tracker → List (Option Layout) → Tracker × List RField
  | _, t, [] => (t, [])
  | i, t, b :: bs =>
    let t := t.sawBase b
    let (t', rest) := emitBases (i + 1) t bs
    let (s, a) := match b with | some l => (l.size, max l.align 1) | none => (0, 1)
    (t', { name := .base i, size := s, align := a } :: rest)

/-- `_bindgen_align: [uN; 0]` -/
def alignFieldFor (o : Opts) (explicit : Nat) : RField :=
  let a := if explicit = 8 then o.u64Align else if explicit = 4 then 4 else if explicit = 2 then 2 else 1
  { name := .bindgenAlign, size := 0, align := a }

/-- `CompInfo::codegen`, struct-level part.  `none` = the code panics (unguarded subtraction in
`add_tail_padding`, or `known_type_for_size(3).unwrap()` in `blob`). -/
def emit (o : Opts) (c : CAgg) : Option RustAgg :=
  let packed0 := c.isPacked
  let (rustUnion, _canCopy) := c.isRustUnion o
  let t0 : Tracker := { isPacked := packed0, knownTypeLayout := c.layout, isRustUnion := rustUnion,
                        compIsUnion := c.isUnion, forcePadding := o.forcePadding, ptrSize := o.ptrSize }
  let wrapZero := c.isUnion && !rustUnion
  -- vtable, bases, fields, tail padding
  let (t1, fs1, underflow) : Tracker × List RField × Bool :=
    if c.isOpaque then (t0, [], false) else
    let (t, fv) := if c.hasVtablePtr then (t0.sawVtable, [{ name := .vtable, size := o.ptrSize, align := o.ptrSize : RField }]) else (t0, [])
    let (t, fb) := emitBases 0 t c.bases
    let (t, ff) := emitFields wrapZero 0 t c.fields
    match c.layout with
    | none => (t, fv ++ fb ++ ff, false)
    | some l =>
      let u := t.tailPaddingUnderflows l
      let (t, p) := t.addTailPadding l
      (t, fv ++ fb ++ ff ++ (match p with | some p => [padField p] | none => []), u)
  if underflow then none else
  -- `_address`
  let (t2, fs2) : Tracker × List RField :=
    if !c.forwardDecl && c.zeroSized then
      let hasAddress := if c.isOpaque then c.layout.isNone else (match c.layout with | some l => decide (l.size ≠ 0) | none => true)
      if hasAddress then ((t1.sawFieldWithLayout { size := 1, align := 1 } (some 0)).1, fs1 ++ [{ name := .address, size := 1, align := 1 }])
      else (t1, fs1)
    else (t1, fs1)
  -- blob / struct padding / explicit alignment
  let (fs3, packed, explicitAlign) : List RField × Bool × Option Nat :=
    if c.isOpaque then
      match c.layout with
      | some l => (fs2 ++ [blobField .opaqueBlob l], packed0, some l.align)
      | none => (fs2, packed0, none)
    else if !c.isUnion && !c.zeroSized then
      match c.layout with
      | none => (fs2, packed0, none)
      | some l =>
        let (t3, p) := t2.padStruct l
        let fs := fs2 ++ (match p with | some p => [padField p] | none => [])
        if t3.requiresExplicitAlign l then
          (if l.align = 1 then (fs, true, none) else (fs, packed0, some l.align))
        else (fs, packed0, none)
    else if c.isUnion && !c.forwardDecl then
      match c.layout with
      | none => (fs2, packed0, none)
      | some l =>
        let ea := if t2.requiresExplicitAlign l then some l.align else none
        if !t2.isRustUnion then (fs2 ++ [blobField .unionField l], packed0, ea) else (fs2, packed0, ea)
    else (fs2, packed0, none)
  let fs4 := if c.forwardDecl then fs3 ++ [{ name := .unused, size := 0, align := 1 }] else fs3
  -- attributes
  let packedRepr : Option Nat :=
    if packed && !c.isOpaque && !(explicitAlign.isSome && (c.alreadyPacked.getD false)) then
      some (match c.layout with | some l => l.align | none => 1)
    else none
  let (fs5, alignRepr) : List RField × Option Nat :=
    match explicitAlign with
    | none => (fs4, none)
    | some e => if c.hasBitfields && e ≤ 8 then (alignFieldFor o e :: fs4, none) else (fs4, some e)
  if fs5.any (fun f => f.blob == some .panic) then none else
  some { isUnion := c.isUnion && rustUnion, packed := packedRepr, align := alignRepr, fields := fs5 }

/-! ## Specification: the Rust reference's layout algorithm for `repr(C)` aggregates -/

/-- alignment a field contributes under `packed(N)` -/
def effAlign (packed : Option Nat) (a : Nat) : Nat :=
  match packed with
  | none => a
  | some n => min a n

/-- struct field placement: running end offset, running maximal alignment → offsets -/
def placeFields (packed : Option Nat) : Nat → Nat → List RField → List (FName × Nat) × Nat × Nat
  | cur, ma, [] => ([], cur, ma)
  | cur, ma, f :: fs =>
    let a := effAlign packed f.align
    let off := alignTo cur a
    let (offs, cur', ma') := placeFields packed (off + f.size) (max ma a) fs
    ((f.name, off) :: offs, cur', ma')

def unionFields (packed : Option Nat) : Nat → Nat → List RField → List (FName × Nat) × Nat × Nat
  | cur, ma, [] => ([], cur, ma)
  | cur, ma, f :: fs =>
    let (offs, cur', ma') := unionFields packed (max cur f.size) (max ma (effAlign packed f.align)) fs
    ((f.name, 0) :: offs, cur', ma')

structure RLayout where
  size : Nat
  align : Nat
  offsets : List (FName × Nat)
deriving Repr, DecidableEq

/-- `repr(C)` / `repr(C, packed(N))` / `repr(C)`+`repr(align(N))` layout of a struct or union.
`none`: rustc rejects the type (E0587 `packed` together with `align`; E0588 a `packed` type
containing a `repr(align)` type). -/
def reprC (r : RustAgg) : Option RLayout :=
  if r.packed.isSome && r.align.isSome then none else
  if r.packed.isSome && r.fields.any (·.containsAlign) then none else
  let (offs, cur, ma) := if r.isUnion then unionFields r.packed 0 1 r.fields else placeFields r.packed 0 1 r.fields
  let a := match r.align with | some e => max ma e | none => ma
  some { size := alignTo cur a, align := a, offsets := offs }

/-- offset of the bit-field unit `_bitfield_{nth}` -/
def RLayout.unitOffset (l : RLayout) (nth : Nat) : Option Nat :=
  l.offsets.findSome? fun (n, o) => if n == FName.unit nth then some o else none

/-- offsets of the user members, in order -/
def RLayout.userOffsets (l : RLayout) : List (Nat × Nat) :=
  l.offsets.filterMap fun (n, o) => match n with | .user i => some (i, o) | _ => none

/-- offsets (bytes) libclang reports for the data members of the record, in order -/
def cOffsets : Nat → List CField → List (Nat × Nat)
  | _, [] => []
  | idx, .data _ (some off) :: fs => (idx, off / 8) :: cOffsets (idx + 1) fs
  | idx, _ :: fs => cOffsets (idx + 1) fs

end BindgenModel.CompCodegen
