/-!
# Is a global variable bound as `static` or `static mut`? (`Var::parse`, ir/var.rs; C04)

"Globals have the declared type and mutability."  In C the qualifiers of an array type are those of its
element type, however many dimensions there are: `extern const int m[2][3]` is an array of arrays of
`const int`; neither array type is itself `const`-qualified.  Import-free, executable.
-/
namespace BindgenModel.GlobalConst

/-- the declared type of a global as far as qualifiers go -/
inductive GTy
  /-- not an array; `const`-qualified or not (a `const char *` is a non-const pointer) -/
  | leaf (isConst : Bool)
  /-- `ConstantArray` / `IncompleteArray` of `elem`; libclang's `is_const()` of the array type itself -/
  | array (selfConst : Bool) (elem : GTy)
deriving Repr, DecidableEq

def GTy.selfConst : GTy → Bool
  | .leaf c => c
  | .array c _ => c

/-- what C says: the constness of the innermost element -/
def GTy.declaredConst : GTy → Bool
  | .leaf c => c
  | .array _ e => e.declaredConst

/-- the `while` loop of `Var::parse`: follow `elem_type()` while the type is an array -/
def GTy.innermost : GTy → GTy
  | .leaf c => .leaf c
  | .array _ e => e.innermost

/-- `is_const` of `Var::parse`; `allLevels = true` is the code as it is, `false` the rule that looked at
one element level only -/
def isConst (allLevels : Bool) (t : GTy) : Bool :=
  if allLevels then t.selfConst || t.innermost.selfConst
  else t.selfConst || (match t with | .array _ e => e.selfConst | .leaf _ => false)

/-- libclang never reports an array type as `const` by itself (its `is_const()` looks at the type's own
qualifiers) -/
def GTy.Clang : GTy → Prop
  | .leaf _ => True
  | .array c e => c = false ∧ e.Clang

end BindgenModel.GlobalConst
