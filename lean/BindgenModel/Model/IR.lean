import BindgenModel.Model.Util
import BindgenModel.Generated.AnalysisTables
/-!
# Abstract IR graph, as written by the `bindgen_verif` IR-dump hook (`/repo/bindgen/verif.rs`)

Only what the analyses and the item selection read.  `parseDump` turns the lines between
`ir-begin` and `ir-end` into an `IR`.
-/
namespace BindgenModel.IR
open BindgenModel.Util BindgenModel.Generated

inductive ItemKind | module | type | function | var | absent
deriving DecidableEq, Repr, Inhabited

inductive TyKind
  | void | nullPtr | comp | opaqueTy | int | float | complex | alias | templateAlias | vector | array
  | function | enum | pointer | blockPointer | reference | templateInstantiation | resolvedTypeRef
  | unresolvedTypeRef | typeParam | objCInterface | objCId | objCSel | none
deriving DecidableEq, Repr, Inhabited

def TyKind.ofString (s : String) : TyKind :=
  match s with
  | "Void" => .void | "NullPtr" => .nullPtr | "Comp" => .comp | "Opaque" => .opaqueTy | "Int" => .int
  | "Float" => .float | "Complex" => .complex | "Alias" => .alias | "TemplateAlias" => .templateAlias
  | "Vector" => .vector | "Array" => .array | "Function" => .function | "Enum" => .enum
  | "Pointer" => .pointer | "BlockPointer" => .blockPointer | "Reference" => .reference
  | "TemplateInstantiation" => .templateInstantiation | "ResolvedTypeRef" => .resolvedTypeRef
  | "UnresolvedTypeRef" => .unresolvedTypeRef | "TypeParam" => .typeParam
  | "ObjCInterface" => .objCInterface | "ObjCId" => .objCId | "ObjCSel" => .objCSel
  | _ => .none

structure Item where
  id : Nat := 0
  kind : ItemKind := .absent
  parent : Nat := 0
  allowlisted : Bool := false
  codegen : Bool := false
  blocklisted : Bool := false
  isOpaque : Bool := false
  /-- excluded by name from Copy, Debug, Default, Hash, PartialEq (in this order) -/
  nbn : List Bool := []
  /-- `annotations().disallow_{copy,debug,default}()` -/
  annNoCopy : Bool := false
  annNoDebug : Bool := false
  annNoDefault : Bool := false
  isPacked : Bool := false
  -- type part
  tk : TyKind := .none
  hasName : Bool := false
  stdint : Bool := false
  layout : Option (Nat × Nat) := none
  inner : Option Nat := none
  len : Nat := 0
  isUnion : Bool := false
  fwd : Bool := false
  ownVirtual : Bool := false
  ownDtor : Bool := false
  tooLargeBf : Bool := false
  selfTparams : List Nat := []
  allTparams : List Nat := []
  bases : List (Nat × Bool) := []
  /-- one entry per `Field`: `inl ty` = data member, `inr tys` = bit-field unit with member types -/
  fields : List (Nat ⊕ List Nat) := []
  tmplDef : Option Nat := none
  tmplArgs : List Nat := []
  fpCanDerive : Bool := true
  /-- outgoing edges exactly as `Trace` yields them, in order -/
  edges : List (Nat × EdgeKind) := []
deriving Repr, Inhabited

def Item.dataFields (i : Item) : List Nat := i.fields.filterMap fun f => match f with | .inl t => some t | .inr _ => none
def Item.bitfieldTys (i : Item) : List Nat := i.fields.flatMap fun f => match f with | .inl _ => [] | .inr ts => ts

structure Opts where
  deriveDebug : Bool := true
  deriveDefault : Bool := false
  deriveCopy : Bool := true
  deriveHash : Bool := false
  derivePartialord : Bool := false
  deriveOrd : Bool := false
  derivePartialeq : Bool := false
  deriveEq : Bool := false
  allowlistRecursively : Bool := true
  untaggedUnion : Bool := true
  implDebug : Bool := false
  implPartialeq : Bool := false
  callbacks : Nat := 0
deriving Repr, Inhabited

structure IR where
  items : Array Item := #[]
  opts : Opts := {}
  /-- dumped final answers: (analysis name, id, value) -/
  results : List (String × Nat × String) := []
  /-- analyses that were run in the real generation -/
  ran : List String := []
deriving Inhabited

def IR.get (g : IR) (n : Nat) : Item := g.items.getD n {}

def IR.size (g : IR) : Nat := g.items.size

/-- allow-listed item ids in ascending order (= iteration order of the `ItemSet` BTreeSet) -/
def IR.allowlisted (g : IR) : List Nat :=
  (List.range g.items.size).filter fun n => (g.get n).allowlisted

def parseIds (s : String) : List Nat :=
  if s == "-" || s.isEmpty then [] else (s.splitOn ",").filterMap String.toNat?

def flag (toks : List String) (k : String) : Bool := kv toks k == some "1"

def parseLayout (s : String) : Option (Nat × Nat) :=
  match s.splitOn "," with
  | sz :: al :: _ => match sz.toNat?, al.toNat? with
    | some a, some b => some (a, b)
    | _, _ => none
  | _ => none

def setItem (g : IR) (n : Nat) (f : Item → Item) : IR :=
  let items := if n < g.items.size then g.items else g.items ++ Array.replicate (n + 1 - g.items.size) ({} : Item)
  { g with items := items.modify n f }

def parseBases (s : String) : List (Nat × Bool) :=
  if s == "-" then [] else (s.splitOn ",").filterMap fun b =>
    match b.splitOn ":" with
    | id :: v :: _ => id.toNat?.map fun i => (i, v == "v")
    | _ => none

/-- bit-field list `name:ty:off:width:abs,…` → member types -/
def parseBfTys (s : String) : List Nat :=
  if s == "-" then [] else (s.splitOn ",").filterMap fun b =>
    match b.splitOn ":" with
    | _ :: ty :: _ => ty.toNat?
    | _ => none

def addLine (g : IR) (line : String) : IR :=
  let toks := (line.splitOn " ").filter (· ≠ "")
  match toks with
  | "opt" :: rest =>
    { g with opts := {
        deriveDebug := flag rest "derive_debug", deriveDefault := flag rest "derive_default",
        deriveCopy := flag rest "derive_copy", deriveHash := flag rest "derive_hash",
        derivePartialord := flag rest "derive_partialord", deriveOrd := flag rest "derive_ord",
        derivePartialeq := flag rest "derive_partialeq", deriveEq := flag rest "derive_eq",
        allowlistRecursively := flag rest "allowlist_recursively",
        untaggedUnion := flag rest "untagged_union",
        implDebug := flag rest "impl_debug", implPartialeq := flag rest "impl_partialeq",
        callbacks := (kvNat rest "callbacks").getD 0 } }
  | "item" :: rest =>
    match kvNat rest "id" with
    | some n =>
      let kind := match kv rest "kind" with
        | some "module" => ItemKind.module | some "type" => .type | some "function" => .function
        | some "var" => .var | _ => .absent
      let nbn := match kv rest "nbn" with
        | some s => s.toList.map (· == '1')
        | none => []
      let par := (kvNat rest "parent").getD 0
      let al := flag rest "allowlisted"
      let cg := flag rest "codegen"
      let bl := flag rest "blocklisted"
      let op := flag rest "opaque"
      let nc := flag rest "no_copy"
      let nd := flag rest "no_debug"
      let nf := flag rest "no_default"
      setItem g n fun i =>
        { i with id := n, kind := kind, parent := par, allowlisted := al, codegen := cg,
                 blocklisted := bl, isOpaque := op, nbn := nbn,
                 annNoCopy := nc, annNoDebug := nd, annNoDefault := nf }
    | none => g
  | "type" :: rest =>
    match kvNat rest "id" with
    | some n =>
      let tk := TyKind.ofString ((kv rest "k").getD "")
      setItem g n fun i => { i with
        tk := tk, hasName := (kv rest "name").isSome, stdint := flag rest "stdint",
        layout := (kv rest "layout").bind parseLayout,
        inner := kvNat rest "inner", len := (kvNat rest "len").getD 0,
        isUnion := kv rest "ck" == some "union", fwd := flag rest "fwd",
        ownVirtual := flag rest "own_virtual", ownDtor := flag rest "own_dtor",
        tooLargeBf := flag rest "too_large_bf", isPacked := flag rest "is_packed",
        selfTparams := if tk == .templateAlias then ((kv rest "params").map parseIds).getD []
                       else ((kv rest "tparams").map parseIds).getD [],
        allTparams := ((kv rest "all_tparams").map parseIds).getD [],
        bases := ((kv rest "bases").map parseBases).getD [],
        tmplDef := kvNat rest "def", tmplArgs := ((kv rest "args").map parseIds).getD [],
        fpCanDerive := if tk == .function then flag rest "fp_can_derive" else true }
    | none => g
  | "field" :: rest =>
    match kvNat rest "comp" with
    | some n =>
      if rest.contains "data" then
        match kvNat rest "ty" with
        | some t => setItem g n fun i => { i with fields := i.fields ++ [.inl t] }
        | none => g
      else
        setItem g n fun i => { i with fields := i.fields ++ [.inr (parseBfTys ((kv rest "bfs").getD "-"))] }
    | none => g
  | "edge" :: rest =>
    match kvNat rest "from", kvNat rest "to", (kv rest "kind").bind EdgeKind.ofString? with
    | some a, some b, some k => setItem g a fun i => { i with edges := i.edges ++ [(b, k)] }
    | _, _, _ => g
  | "analysis-run" :: rest =>
    match kv rest "name" with
    | some nm => { g with ran := g.ran ++ [nm] }
    | none => g
  | "analysis" :: rest =>
    match kv rest "name", kvNat rest "id", kv rest "value" with
    | some nm, some n, some v => { g with results := (nm, n, v) :: g.results }
    | _, _, _ => g
  | _ => g

def parseDump (lines : List String) : IR := lines.foldl addLine {}

/-- `Type::canonical_type`: through type refs, aliases and instantiations (fuel = graph size) -/
def canonical (g : IR) : Nat → Nat → Nat
  | 0, n => n
  | k + 1, n =>
    let i := g.get n
    match i.tk with
    | .resolvedTypeRef | .alias | .templateAlias => match i.inner with
      | some t => canonical g k t
      | none => n
    | .templateInstantiation => match i.tmplDef with
      | some t => canonical g k t
      | none => n
    | _ => n

def IR.canon (g : IR) (n : Nat) : Nat := canonical g g.size n

end BindgenModel.IR
