/-! Small import-free helpers shared by the line-protocol drivers. -/
namespace BindgenModel.Util

def hexDigit (c : Char) : Option Nat :=
  if '0' ≤ c ∧ c ≤ '9' then some (c.toNat - '0'.toNat)
  else if 'a' ≤ c ∧ c ≤ 'f' then some (c.toNat - 'a'.toNat + 10)
  else if 'A' ≤ c ∧ c ≤ 'F' then some (c.toNat - 'A'.toNat + 10)
  else none

def parseHexNat (s : String) : Option Nat :=
  if s.isEmpty then none else
  s.toList.foldl (fun acc c => match acc, hexDigit c with
    | some a, some d => some (a * 16 + d)
    | _, _ => none) (some 0)

/-- bytes from a hex string, two digits per byte, in order -/
def parseHexBytes (s : String) : Option (List (BitVec 8)) :=
  let rec go : List Char → Option (List (BitVec 8))
    | [] => some []
    | [_] => none
    | a :: b :: rest => match hexDigit a, hexDigit b, go rest with
      | some x, some y, some r => some (BitVec.ofNat 8 (x * 16 + y) :: r)
      | _, _, _ => none
  go s.toList

def hexChar (n : Nat) : Char := if n < 10 then Char.ofNat ('0'.toNat + n) else Char.ofNat ('a'.toNat + n - 10)

def hexByte (b : BitVec 8) : String := String.ofList [hexChar (b.toNat / 16), hexChar (b.toNat % 16)]

def hexBytes (bs : List (BitVec 8)) : String := String.join (bs.map hexByte)

/-- fixed-width lower-case hex of a natural number (`digits` hex digits, most significant first) -/
def hexNat (digits n : Nat) : String :=
  String.ofList ((List.range digits).reverse.map fun i => hexChar ((n / 16 ^ i) % 16))

/-- `key=value` lookup in a token list -/
def kv (toks : List String) (key : String) : Option String :=
  toks.findSome? fun t =>
    if t.startsWith (key ++ "=") then some ((t.drop (key.length + 1)).toString) else none

def kvNat (toks : List String) (key : String) : Option Nat := (kv toks key).bind String.toNat?

def splitOnChar (s : String) (c : Char) : List String := s.splitOn (String.singleton c)

end BindgenModel.Util
