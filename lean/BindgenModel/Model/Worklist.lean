/-!
# Model of the monotone-framework driver `analysis::analyze` (bindgen/ir/analysis/mod.rs)

```rust
let mut analysis = Analysis::new(extra);
let mut worklist = analysis.initial_worklist();
while let Some(node) = worklist.pop() {
    if let ConstrainResult::Changed = analysis.constrain(node) {
        analysis.each_depending_on(node, |needs_work| worklist.push(needs_work));
    }
}
```

The work-list is a list whose head is the top of the stack (`Vec::pop` takes the last
element, so the initial list is the reverse of `initial_worklist()`; pushing the dependants
`d₁ … d_k` in order leaves `d_k` on top: `(deps n).reverse ++ wl`).  Every `constrain` of the
seven analyses has the shape `s[n] := s[n] ⊔ rule s n` and reports `Changed` iff the value
changed.
-/
namespace BindgenModel.Worklist

structure Framework (N L : Type) where
  /-- the nodes the analysis ranges over -/
  nodes  : List N
  bot    : L
  join   : L → L → L
  le     : L → L → Bool
  /-- rank in the finite-height lattice -/
  rank   : L → Nat
  height : Nat
  /-- the value `constrain` computes for a node from the current state -/
  rule   : (N → L) → N → L
  /-- `each_depending_on`: nodes to re-examine when a node's value changed -/
  deps   : N → List N
  /-- the nodes whose current value `rule · n` may read -/
  reads  : N → List N

variable {N L : Type} [DecidableEq N] [DecidableEq L]

def upd (s : N → L) (n : N) (v : L) : N → L := fun m => if m = n then v else s m

/-- one iteration of the `while let Some(node) = worklist.pop()` loop -/
def step (F : Framework N L) (s : N → L) : List N → (N → L) × List N
  | [] => (s, [])
  | n :: wl =>
    let v := F.join (s n) (F.rule s n)
    if v = s n then (s, wl) else (upd s n v, (F.deps n).reverse ++ wl)

/-- the loop, with fuel -/
def run (F : Framework N L) : Nat → (N → L) → List N → (N → L) × List N
  | 0, s, wl => (s, wl)
  | k + 1, s, wl =>
    match wl with
    | [] => (s, [])
    | _ :: _ => let r := step F s wl; run F k r.1 r.2

def maxDeps (F : Framework N L) : Nat := (F.nodes.map fun n => (F.deps n).length).foldl Nat.max 0

def headroom (F : Framework N L) (s : N → L) : Nat :=
  (F.nodes.map fun n => F.height - F.rank (s n)).sum

/-- fuel that always suffices (theorem `run_terminates`) -/
def fuel (F : Framework N L) (s : N → L) (wl : List N) : Nat :=
  wl.length + headroom F s * (maxDeps F + 1)

/-- `analyze`: run from ⊥ with a work-list until it is empty -/
def analyze (F : Framework N L) (initWl : List N) : N → L :=
  (run F (fuel F (fun _ => F.bot) initWl) (fun _ => F.bot) initWl).1

/-! ## executable refinement: nodes are `Nat`, the state is an array -/

def getA (bot : L) (a : Array L) (n : Nat) : L := a.getD n bot

def stepA (F : Framework Nat L) (a : Array L) : List Nat → Array L × List Nat
  | [] => (a, [])
  | n :: wl =>
    let v := F.join (getA F.bot a n) (F.rule (getA F.bot a) n)
    if v = getA F.bot a n then (a, wl) else (a.setIfInBounds n v, (F.deps n).reverse ++ wl)

def runA (F : Framework Nat L) : Nat → Array L → List Nat → Array L × List Nat
  | 0, a, wl => (a, wl)
  | k + 1, a, wl =>
    match wl with
    | [] => (a, [])
    | _ :: _ => let r := stepA F a wl; runA F k r.1 r.2

/-- executable `analyze` on `size` nodes `0 … size-1`; also returns the number of loop
iterations left unused (diagnostics) -/
def analyzeA (F : Framework Nat L) (size : Nat) (initWl : List Nat) : Array L :=
  let a0 : Array L := Array.replicate size F.bot
  (runA F (fuel F (fun _ => F.bot) initWl) a0 initWl).1

end BindgenModel.Worklist
