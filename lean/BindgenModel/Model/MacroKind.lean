import BindgenModel.Generated.MacroKinds
/-!
# Integer kind chosen for a macro constant (`default_macro_constant_type`, bindgen/ir/var.rs)

The threshold ladder itself is DATA regenerated from the source on every run
(`Generated/MacroKinds.lean`, an ordered decision list); this file holds the generic
interpreter, the value ranges of the kinds, and a hand transcription `macroKindHand` that the
property file proves equal to the interpreted table.
-/
namespace BindgenModel.MacroKind
open BindgenModel.Generated

/-- the two options the ladder reads -/
structure MOpts where
  signed : Bool   -- `--default-macro-constant-type signed`
  fit : Bool      -- `--fit-macro-constant-types`
  deriving DecidableEq, Repr

def _root_.BindgenModel.Generated.MKind.lo : MKind → Int
  | .I8 => -128 | .I16 => -32768 | .I32 => -2147483648 | .I64 => -9223372036854775808
  | _ => 0

def _root_.BindgenModel.Generated.MKind.hi : MKind → Int
  | .I8 => 127 | .I16 => 32767 | .I32 => 2147483647 | .I64 => 9223372036854775807
  | .U8 => 255 | .U16 => 65535 | .U32 => 4294967295 | .U64 => 18446744073709551615

def _root_.BindgenModel.Generated.MKind.isSigned : MKind → Bool
  | .I8 | .I16 | .I32 | .I64 => true
  | _ => false

def _root_.BindgenModel.Generated.MKind.bits : MKind → Nat
  | .I8 | .U8 => 8 | .I16 | .U16 => 16 | .I32 | .U32 => 32 | .I64 | .U64 => 64

def _root_.BindgenModel.Generated.MKind.rustName : MKind → String
  | .I8 => "i8" | .I16 => "i16" | .I32 => "i32" | .I64 => "i64"
  | .U8 => "u8" | .U16 => "u16" | .U32 => "u32" | .U64 => "u64"

/-- the kind's range contains the value -/
def _root_.BindgenModel.Generated.MKind.fits (k : MKind) (v : Int) : Bool := decide (k.lo ≤ v) && decide (v ≤ k.hi)

def atomHolds (o : MOpts) (v : Int) : MAtom → Bool
  | .valLt b => decide (v < b)
  | .valGt b => decide (v > b)
  | .optSigned => o.signed
  | .optNotFit => !o.fit

def clauseHolds (o : MOpts) (v : Int) (c : List MAtom) : Bool := c.any (atomHolds o v)

def condHolds (o : MOpts) (v : Int) (c : List (List MAtom)) : Bool := c.all (clauseHolds o v)

/-- first row whose condition holds; `none` when no row matches (never for a well-formed table) -/
def evalRows (o : MOpts) (v : Int) : List MRow → Option MKind
  | [] => none
  | r :: rs => if condHolds o v r.cond then some r.kind else evalRows o v rs

/-- the model of `default_macro_constant_type`: the generated table under the generic interpreter -/
def macroKind (o : MOpts) (v : Int) : Option MKind := evalRows o v macroKindRows

/-- hand transcription of the Rust function as it reads today (cross-check of the table) -/
def macroKindHand (o : MOpts) (v : Int) : MKind :=
  if v < 0 ∨ o.signed then
    if v < -2147483648 ∨ v > 2147483647 then .I64
    else if !o.fit ∨ v < -32768 ∨ v > 32767 then .I32
    else if v < -128 ∨ v > 127 then .I16
    else .I8
  else if v > 4294967295 then .U64
  else if !o.fit ∨ v > 65535 then .U32
  else if v > 255 then .U16
  else .U8

def i64Min : Int := -9223372036854775808
def i64Max : Int := 9223372036854775807

/-- the cut points of an atom: the valuation of the atom is constant on `(-∞, k)` and `[k, ∞)` -/
def atomCuts : MAtom → List Int
  | .valLt b => [b]
  | .valGt b => [b + 1]
  | _ => []

def rowsCuts (rows : List MRow) : List Int :=
  rows.flatMap fun r => r.cond.flatMap fun c => c.flatMap atomCuts

/-- candidate points: both ends of the i64 range and both sides of every cut -/
def candidates (cuts : List Int) : List Int :=
  i64Min :: i64Max :: cuts.flatMap fun k => [k - 1, k]

def allOpts : List MOpts := [⟨false, false⟩, ⟨false, true⟩, ⟨true, false⟩, ⟨true, true⟩]

/-- what the property demands of the kind chosen for `v` -/
def goodAt (rows : List MRow) (o : MOpts) (v : Int) : Bool :=
  match evalRows o v rows with
  | some k => k.fits v && (!decide (v < 0) || k.isSigned)
  | none => false

/-- decidable well-formedness of a ladder: `goodAt` at every candidate point inside the i64
range, for every option value -/
def wfLadder (rows : List MRow) : Bool :=
  allOpts.all fun o => (candidates (rowsCuts rows)).all fun c =>
    !(decide (i64Min ≤ c) && decide (c ≤ i64Max)) || goodAt rows o c

end BindgenModel.MacroKind
