import BindgenModel.Model.Opts
/-!
Hand-written side of the C13 table obligations (mirrors /verif/known_findings.json):

* `knownDefectFields` — fields whose `as_args` flag is not accepted by the clap struct
  (`type_alias` pushes `--type-alias`, the CLI only knows `--normal-alias`): their row obligation is
  allowed to fail, every other row must be well formed;
* `multiWriterFields` — fields written by more than one CLI arm (ordered overrides); their round
  trip is proved separately (`Props/C13.lean`, by exhaustive evaluation of the executable model on
  the cluster), every other field must have its own arm as sole writer.
-/
namespace BindgenModel.Opts
open BindgenModel.Generated

def knownDefectFields : List OField := [.type_alias]

def multiWriterFields : List OField :=
  [.derive_partialord, .derive_ord, .derive_partialeq, .derive_eq, .formatter,
   .codegen_config, .extern_fn_block_attrs, .parse_callbacks]

/-- fields that cannot be conveyed by flags at all (`as_args: ignore`, not even positionally) -/
def notExpressibleFields : List OField :=
  [.rustfmt_path, .fallback_clang_args, .input_header_contents, .rust_features]

end BindgenModel.Opts
