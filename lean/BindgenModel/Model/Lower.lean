import BindgenModel.Generated.Abi
/-! # C04 — signature lowering: C type AST → Rust type AST

Executable model of `codegen::utils::{fnsig_argument_type, fnsig_arguments_iter, fnsig_return_ty}`,
of the `Pointer` / `Function` / `Array` / `Alias` arms of `Type::try_to_rust_ty`, and of
`FunctionSig::abi` (override lookup + feature gates, the gates being the regenerated table
`Generated.abiGate`), plus `cOf`, the C type an FFI-safe Rust type denotes (the correspondence rustc
documents for `extern` signatures), and `cParamAdjust`, the parameter adjustment of C11 6.7.6.3p7/p8.

Types are compared *up to bindgen's representation*: `norm` says which C type the emitted Rust type
stands for (a bare function type denotes a pointer to it, the first pointer level to a function is
not repeated, element qualifiers of by-value arrays are not representable in Rust).  `NF` are the C
types on which `norm` is the identity. -/
namespace BindgenModel.Lower
open BindgenModel.Generated (Abi AbiFeature abiGate abiNoVariadic abiUnknownRejected)

mutual
/-- C types as the IR presents them.  `pc`/`ec` = the pointee's / element's *own* `is_const()` flag
(qualifiers hidden behind a typedef are not seen, exactly as in the code). -/
inductive CTy where
  | void
  | scalar (k : Nat)                         -- Int / Float / Complex kinds
  | comp (id : Nat)                          -- struct / union / enum, by value (nominal)
  | alias (id : Nat) (target : CTy)          -- typedef
  | ptr (pc : Bool) (t : CTy)
  | array (ec : Bool) (t : CTy) (len : Nat)  -- incomplete arrays have length 0
  | func (ret : CTy) (args : CTys) (variadic divergent : Bool)
/-- parameter list; `c` = the parameter type's own `is_const()` -/
inductive CTys where
  | nil
  | cons (c : Bool) (t : CTy) (rest : CTys)
end

mutual
inductive RustTy where
  | cvoid                                   -- `::std::os::raw::c_void`
  | unit                                    -- no `-> …`
  | never                                   -- `-> !`
  | prim (k : Nat)
  | path (id : Nat)
  | alias (id : Nat) (target : RustTy)      -- `pub type <id> = <target>;`, used by name
  | rptr (c : Bool) (t : RustTy)            -- `*const T` / `*mut T`
  | rarray (t : RustTy) (len : Nat)
  | optFn (ret : RustTy) (args : RustTys) (variadic : Bool)  -- `Option<unsafe extern "abi" fn(..) -> ..>`
inductive RustTys where
  | nil
  | cons (t : RustTy) (rest : RustTys)
end

/-- `canonical_type(ctx)`: through typedefs -/
def canon : CTy → CTy
  | .alias _ t => canon t
  | t => t

def isFunc : CTy → Bool
  | .func .. => true
  | _ => false

def isVoid : CTy → Bool
  | .void => true
  | _ => false

mutual
/-- `Type::to_rust_ty_or_opaque` on the forms that occur in signatures -/
def lowerTy : CTy → RustTy
  | .void => .cvoid
  | .scalar k => .prim k
  | .comp id => .path id
  | .alias id t => .alias id (lowerTy t)
  | .ptr pc t => if isFunc (canon t) then lowerTy t else .rptr pc (lowerTy t)
  | .array _ t n => .rarray (lowerTy t) n
  | .func r as v d => .optFn (lowerRet d r) (lowerParams as) v
/-- `fnsig_return_ty_internal` -/
def lowerRet (divergent : Bool) : CTy → RustTy
  | .void => if divergent then .never else .unit
  | .scalar k => if divergent then .never else .prim k
  | .comp id => if divergent then .never else .path id
  | .alias id t => if divergent then .never else if isVoid (canon t) then .unit else .alias id (lowerTy t)
  | .ptr pc t => if divergent then .never else if isFunc (canon t) then lowerTy t else .rptr pc (lowerTy t)
  | .array _ t n => if divergent then .never else .rarray (lowerTy t) n
  | .func r as v d => if divergent then .never else .optFn (lowerRet d r) (lowerParams as) v
/-- the `TypeKind::Array` arm of `fnsig_argument_type`, reached through typedefs
(`array_pointers_in_arguments` off): `some` = the decayed pointer -/
def paramArr (c : Bool) : CTy → Option RustTy
  | .alias _ t => paramArr c t
  | .array ec e _ => some (.rptr (ec || c) (lowerTy e))
  | _ => none
/-- `fnsig_arguments_iter` (types only) -/
def lowerParams : CTys → RustTys
  | .nil => .nil
  | .cons c t rest => .cons ((paramArr c t).getD (lowerTy t)) (lowerParams rest)
end

/-- `fnsig_argument_type` -/
def lowerParam (c : Bool) (t : CTy) : RustTy := (paramArr c t).getD (lowerTy t)

mutual
/-- the C type an FFI-safe Rust type denotes -/
def cOf : RustTy → CTy
  | .cvoid => .void
  | .unit => .void
  | .never => .void
  | .prim k => .scalar k
  | .path id => .comp id
  | .alias id t => .alias id (cOf t)
  | .rptr c t => .ptr c (cOf t)
  | .rarray t n => .array false (cOf t) n
  | .optFn r as v => .ptr false (.func (cOf r) (cOfs as) v false)
def cOfs : RustTys → CTys
  | .nil => .nil
  | .cons t rest => .cons false (cOf t) (cOfs rest)
end

mutual
/-- the C type bindgen's Rust rendering of `t` stands for (see the file header) -/
def norm : CTy → CTy
  | .void => .void
  | .scalar k => .scalar k
  | .comp id => .comp id
  | .alias id t => .alias id (norm t)
  | .ptr pc t => if isFunc (canon t) then norm t else .ptr pc (norm t)
  | .array _ t n => .array false (norm t) n
  | .func r as v d => .ptr false (.func (normRet d r) (normParams as) v false)
/-- return position: `void` behind typedefs is `void`; a divergent function's result is never seen -/
def normRet (divergent : Bool) : CTy → CTy
  | .void => .void
  | .scalar k => if divergent then .void else .scalar k
  | .comp id => if divergent then .void else .comp id
  | .alias id t => if divergent then .void else if isVoid (canon t) then .void else .alias id (norm t)
  | .ptr pc t => if divergent then .void else if isFunc (canon t) then norm t else .ptr pc (norm t)
  | .array _ t n => if divergent then .void else .array false (norm t) n
  | .func r as v d => if divergent then .void else .ptr false (.func (normRet d r) (normParams as) v false)
/-- C11 6.7.6.3p7: "array of T" ⇒ "qualified pointer to T" (through typedefs) -/
def adjArr (c : Bool) : CTy → Option CTy
  | .alias _ t => adjArr c t
  | .array ec e _ => some (.ptr (ec || c) (norm e))
  | _ => none
/-- parameter lists: each parameter adjusted, top-level qualifiers dropped (6.7.6.3p15) -/
def normParams : CTys → CTys
  | .nil => .nil
  | .cons c t rest => .cons false ((adjArr c t).getD (norm t)) (normParams rest)
end

/-- parameter adjustment: arrays decay to qualified pointers (p7), function types to pointers to
them (p8; part of `norm`), everything else is passed as itself -/
def cParamAdjust (c : Bool) (t : CTy) : CTy := (adjArr c t).getD (norm t)

mutual
/-- normal forms: `norm` is the identity -/
def NF : CTy → Bool
  | .void | .scalar _ | .comp _ => true
  | .alias _ t => NF t
  | .ptr pc t => NFpt pc t
  | .array ec t _ => !ec && NF t
  | .func .. => false
/-- pointee position -/
def NFpt (pc : Bool) : CTy → Bool
  | .func r as _ d => !pc && !d && NFRet r && NFs as
  | .void | .scalar _ | .comp _ => true
  | .alias _ t => !isFunc (canon t) && NF t
  | .ptr pc' t => NFpt pc' t
  | .array ec t _ => !ec && NF t
/-- return position -/
def NFRet : CTy → Bool
  | .void | .scalar _ | .comp _ => true
  | .alias _ t => !isVoid (canon t) && NF t
  | .ptr pc t => NFpt pc t
  | .array ec t _ => !ec && NF t
  | .func .. => false
def NFs : CTys → Bool
  | .nil => true
  | .cons c t rest => !c && (adjArr c t).isNone && NF t && NFs rest
end

/-! ## argument classes of scalars (SysV x86-64, psABI 3.2.3) -/

/-- C scalar kinds that occur in signatures (`IntKind` / `FloatKind` collapsed to what matters for
passing) -/
inductive SKind where
  | bool | int (bits : Nat) (signed : Bool) | float | double | longDouble
  deriving DecidableEq, Repr, Inhabited

/-- Rust primitives bindgen renders scalars as -/
inductive RPrim where
  | bool | int (bits : Nat) (signed : Bool) | f32 | f64
  deriving DecidableEq, Repr, Inhabited

/-- `int_kind_rust_type` / `float_kind_rust_type` on x86-64: `long double` (16 bytes) has no Rust
counterpart and becomes `integer_type(layout)` = `u128` -/
def lowerScalar : SKind → RPrim
  | .bool => .bool
  | .int b s => .int b s
  | .float => .f32
  | .double => .f64
  | .longDouble => .int 128 false

inductive AbiClass where
  | integer | sse | x87 | x87up
  deriving DecidableEq, Repr, Inhabited

/-- classes of the eightbytes of a C scalar -/
def cClass : SKind → List AbiClass
  | .bool => [.integer]
  | .int b _ => if b ≤ 64 then [.integer] else [.integer, .integer]
  | .float | .double => [.sse]
  | .longDouble => [.x87, .x87up]

/-- classes rustc's `extern "C"` lowering gives a Rust primitive -/
def rClass : RPrim → List AbiClass
  | .bool => [.integer]
  | .int b _ => if b ≤ 64 then [.integer] else [.integer, .integer]
  | .f32 | .f64 => [.sse]

/-! ## ABI selection: `FunctionSig::abi` -/

/-- `ClangAbi` -/
inductive ClangAbi where
  | known (a : Abi) | unknown
  deriving DecidableEq, Repr, Inhabited

/-- `get_abi` on the regenerated arm table -/
def getAbi (cc : Generated.CXCC) : ClangAbi :=
  match Generated.getAbi cc with
  | some a => .known a
  | none => .unknown

/-- override lookup: `overrides` in the iteration order of the `abi_overrides` map, each with the
answer of its regex set on the name looked up -/
def chooseAbi (overrides : List (Abi × Bool)) (clang : ClangAbi) : ClangAbi :=
  match overrides.find? (·.2) with
  | some (a, _) => .known a
  | none => clang

/-- the gates: `none` = `Err(UnsupportedAbi)` -/
def gateAbi (feat : AbiFeature → Bool) (variadic : Bool) : ClangAbi → Option ClangAbi
  | .known a =>
    match abiGate a with
    | some f => if !feat f then none else some (.known a)
    | none => if abiNoVariadic a && variadic then none else some (.known a)
  | .unknown => if abiUnknownRejected then none else some .unknown

def sigAbi (overrides : List (Abi × Bool)) (feat : AbiFeature → Bool) (variadic : Bool) (clang : ClangAbi) :
    Option ClangAbi :=
  gateAbi feat variadic (chooseAbi overrides clang)

/-- `FunctionSig::is_variadic` -/
def sigVariadic (clangVariadic : Bool) (nargs : Nat) : Bool := clangVariadic && nargs != 0

end BindgenModel.Lower
