import BindgenModel.Model.Features
/-!
Ground truth for C14 (hand-written, part of the trusted base): when each gated construct became
usable on stable Rust, from the Rust release notes.

| construct                                   | stable since | editions | verified in the sandbox (rustc 1.95)             |
|---------------------------------------------|--------------|----------|--------------------------------------------------|
| `unsafe extern` blocks                      | 1.82         | all (required in 2024) | accepted 2018; plain `extern` rejected in 2024 |
| `core::mem::offset_of!`                     | 1.77         | all      | accepted                                         |
| `c"…"` literals                             | 1.77         | 2021+    | rejected in 2018, accepted in 2021/2024          |
| `extern "thiscall"`                         | 1.73         | all      | not E0658 (E0570: unsupported on x86_64 only)    |
| `extern "C-unwind"`                         | 1.71         | all      | accepted                                         |
| `extern "efiapi"`                           | 1.68         | all      | accepted                                         |
| `core::ffi::c_*` integer types, `core::ffi::CStr` | 1.64   | all      | accepted                                         |
| `const CStr::from_bytes_with_nul_unchecked` | 1.59         | all      | accepted                                         |
| `extern "vectorcall"`                       | nightly      | all      | E0658 on stable 1.95                             |
| `ptr::from_raw_parts`, `to_raw_parts`       | nightly      | all      | E0658 on stable 1.95                             |
| `Layout::for_value_raw`                     | nightly      | all      | E0658 on stable 1.95                             |

The release number itself cannot be checked offline (only one rustc is installed); what the
check does verify on every run is the stable/unstable split and the edition split.
Editions: 2018 ← 1.31, 2021 ← 1.56, 2024 ← 1.85.
-/
namespace BindgenModel.Features
open BindgenModel.Generated

inductive Since where
  | minor (m : Nat)
  | nightlyOnly
  deriving DecidableEq, Repr

structure Stab where
  since : Since
  editions : List Edition      -- [] = every edition
  deriving DecidableEq, Repr

/-- ground truth per `RustFeatures` flag -/
def stabilised : Feature → Stab
  | .unsafe_extern_blocks => ⟨.minor 82, []⟩
  | .offset_of => ⟨.minor 77, []⟩
  | .literal_cstr => ⟨.minor 77, [.e2021, .e2024]⟩
  | .thiscall_abi => ⟨.minor 73, []⟩
  | .c_unwind_abi => ⟨.minor 71, []⟩
  | .abi_efiapi => ⟨.minor 68, []⟩
  | .core_ffi_c => ⟨.minor 64, []⟩
  | .const_cstr => ⟨.minor 59, []⟩
  | .vectorcall_abi => ⟨.nightlyOnly, []⟩
  | .ptr_metadata => ⟨.nightlyOnly, []⟩
  | .layout_for_ptr => ⟨.nightlyOnly, []⟩

/-- ground truth: first stable release supporting the edition -/
def editionStabilised : Edition → Nat
  | .e2018 => 31
  | .e2021 => 56
  | .e2024 => 85

/-- `s ≤ t`: a construct stable since `s` may be used when targeting `t` -/
def Since.le : Since → Target → Bool
  | .minor m, .stable m' _ => decide (m ≤ m')
  | .minor _, .nightly => true
  | .nightlyOnly, .nightly => true
  | .nightlyOnly, .stable _ _ => false

/-- a construct with stabilisation record `s` is usable for `(t, e)` -/
def Stab.allows (s : Stab) (t : Target) (e : Edition) : Bool := s.since.le t && edOk s.editions e

/-- order on targets that the feature set must be monotone in: minors compared, nightly on top
    (patch numbers are irrelevant) -/
def Target.le : Target → Target → Bool
  | .stable m _, .stable m' _ => decide (m ≤ m')
  | _, .nightly => true
  | .nightly, .stable _ _ => false

/-! ### table obligations (decidable, one per feature — stated in `Generated/FeaturesObl.lean`) -/

/-- a table entry's edition list enables nothing outside the ground-truth editions -/
def edSub (entry truth : List Edition) : Bool :=
  truth.isEmpty || (!entry.isEmpty && entry.all (fun e => truth.contains e))

def sinceLeMinor : Since → Nat → Bool
  | .minor m, row => decide (m ≤ row)
  | .nightlyOnly, _ => false

/-- every occurrence of `f` in the table is no earlier than the ground truth says -/
def featureSound (tbl : Table) (f : Feature) : Bool :=
  (tbl.nightly.all fun en => !(en.feature = f) || edSub en.editions (stabilised f).editions) &&
  (tbl.rows.all fun row => row.2.all fun en =>
    !(en.feature = f) || (sinceLeMinor (stabilised f).since row.1 && edSub en.editions (stabilised f).editions))

/-- the edition table agrees with the ground truth -/
def editionSound (e : Edition) : Bool := e.firstMinor == editionStabilised e

/-! ### constructs seen in emitted bindings (what the token scanner reports) -/

inductive Construct where
  | unsafeExternBlock     -- `unsafe extern "abi" { .. }`
  | offsetOf              -- `offset_of!`
  | cstrLiteral           -- `c"…"`
  | constCStrUnchecked    -- `CStr::from_bytes_with_nul_unchecked` in a `const`
  | coreFfiCType          -- `::core::ffi::c_*` other than `c_void`
  | coreFfiCStr           -- `::core::ffi::CStr`
  | abiThiscall | abiVectorcall | abiCUnwind | abiEfiapi
  | ptrMetadata           -- `ptr::from_raw_parts(_mut)`, `.to_raw_parts()`
  | layoutForPtr          -- `Layout::for_value_raw`
  deriving DecidableEq, Repr

def Construct.all : List Construct :=
  [.unsafeExternBlock, .offsetOf, .cstrLiteral, .constCStrUnchecked, .coreFfiCType, .coreFfiCStr,
   .abiThiscall, .abiVectorcall, .abiCUnwind, .abiEfiapi, .ptrMetadata, .layoutForPtr]

def Construct.name : Construct → String
  | .unsafeExternBlock => "unsafe_extern_block" | .offsetOf => "offset_of"
  | .cstrLiteral => "cstr_literal" | .constCStrUnchecked => "const_cstr_unchecked"
  | .coreFfiCType => "core_ffi_c_type" | .coreFfiCStr => "core_ffi_cstr"
  | .abiThiscall => "abi_thiscall" | .abiVectorcall => "abi_vectorcall"
  | .abiCUnwind => "abi_c_unwind" | .abiEfiapi => "abi_efiapi"
  | .ptrMetadata => "ptr_metadata" | .layoutForPtr => "layout_for_ptr"

/-- ground truth per construct -/
def Construct.requires : Construct → Stab
  | .unsafeExternBlock => ⟨.minor 82, []⟩
  | .offsetOf => ⟨.minor 77, []⟩
  | .cstrLiteral => ⟨.minor 77, [.e2021, .e2024]⟩
  | .constCStrUnchecked => ⟨.minor 59, []⟩
  | .coreFfiCType => ⟨.minor 64, []⟩
  | .coreFfiCStr => ⟨.minor 64, []⟩
  | .abiThiscall => ⟨.minor 73, []⟩
  | .abiVectorcall => ⟨.nightlyOnly, []⟩
  | .abiCUnwind => ⟨.minor 71, []⟩
  | .abiEfiapi => ⟨.minor 68, []⟩
  | .ptrMetadata => ⟨.nightlyOnly, []⟩
  | .layoutForPtr => ⟨.nightlyOnly, []⟩

/-- the `RustFeatures` flag(s) under which a codegen site may emit the construct -/
def Construct.needs : Construct → List Feature
  | .unsafeExternBlock => [.unsafe_extern_blocks]
  | .offsetOf => [.offset_of]
  | .cstrLiteral => [.literal_cstr]
  | .constCStrUnchecked => [.const_cstr]
  | .coreFfiCType => [.core_ffi_c]
  | .coreFfiCStr => [.core_ffi_c]
  | .abiThiscall => [.thiscall_abi]
  | .abiVectorcall => [.vectorcall_abi]
  | .abiCUnwind => [.c_unwind_abi]
  | .abiEfiapi => [.abi_efiapi]
  | .ptrMetadata => [.ptr_metadata]
  | .layoutForPtr => [.layout_for_ptr]

/-! ### gate sites (inventory produced by the translator, `Generated/FeatureSites.lean`) -/

structure GateSite where
  file : String
  line : Nat
  construct : Construct
  guards : List Feature        -- flags that are syntactically true at the site
  negGuards : List Feature     -- flags that are syntactically false at the site (else branches)

/-- `g` enabled ⇒ `f` enabled, by inspection of the table: same flag, or `g` is nightly-only
    and `f` is on for nightly in every edition -/
def impliesIn (tbl : Table) (g f : Feature) : Bool :=
  g = f ||
  ((tbl.rows.all fun row => row.2.all fun en => !(en.feature = g)) &&
   (tbl.nightly.any (fun en => en.feature = f && en.editions.isEmpty) ||
    tbl.rows.any fun row => row.2.any fun en => en.feature = f && en.editions.isEmpty))

/-- the site is under a flag that implies every flag its construct needs -/
def siteOk (tbl : Table) (s : GateSite) : Bool :=
  s.construct.needs.all fun f => s.guards.any fun g => impliesIn tbl g f

/-! ### what code generation emits on the trigger headers, as a function of the flags -/

structure EmitOpts where
  useCore : Bool
  generateCstr : Bool
  flexarrayDst : Bool
  abiOverrides : Bool        -- the header's functions are given the four gated ABIs
  deriving DecidableEq, Repr

/-- `let cstr = if options.generate_cstr && rust_features.const_cstr [&& (!use_core || core_ffi_c)]`;
    `gate` = the bracketed conjunct is present in the source (`Generated.cstrCoreGate`) -/
def cstrOn (gate : Bool) (fs : Feature → Bool) (o : EmitOpts) : Bool :=
  o.generateCstr && fs .const_cstr && (!gate || !o.useCore || fs .core_ffi_c)

/-- decision model of the gate sites (codegen/mod.rs, codegen/helpers.rs, ir/function.rs) on a
    header that has functions, a static, a string macro, a struct with fields and a FAM struct;
    layout tests on, no `--ctypes-prefix` -/
def emits (gate : Bool) (fs : Feature → Bool) (o : EmitOpts) : Construct → Bool
  | .unsafeExternBlock => fs .unsafe_extern_blocks
  | .offsetOf => fs .offset_of
  | .cstrLiteral => cstrOn gate fs o && fs .literal_cstr
  | .constCStrUnchecked => cstrOn gate fs o && !fs .literal_cstr
  | .coreFfiCType => o.useCore && fs .core_ffi_c
  | .coreFfiCStr => o.useCore && cstrOn gate fs o
  | .abiThiscall => o.abiOverrides && fs .thiscall_abi
  | .abiVectorcall => o.abiOverrides && fs .vectorcall_abi
  | .abiCUnwind => o.abiOverrides && fs .c_unwind_abi
  | .abiEfiapi => o.abiOverrides && fs .abi_efiapi
  | .ptrMetadata => o.flexarrayDst && (fs .ptr_metadata || fs .layout_for_ptr)
  | .layoutForPtr => o.flexarrayDst && fs .layout_for_ptr

/-- region of known finding `core_cstr_before_1_64`: `--use-core --generate-cstr` with a target
    that has const `CStr` construction (1.59) but not yet `core::ffi::CStr` (1.64) -/
def regionCoreCStr (t : Target) (o : EmitOpts) : Bool :=
  o.useCore && o.generateCstr &&
  match t with
  | .stable m _ => decide (59 ≤ m) && decide (m < 64)
  | .nightly => false

/-- region of known finding `rust_target_nightly_underflow`: the input is `1.<zero>[.<u64>]-nightly`
    (`<zero>` = optional `+`, then one or more `0`); the harness implements the same predicate -/
def versionMinorZero (v : List Char) : Bool :=
  match splitOnce '.' v with
  | none => false
  | some (major, tail) =>
    major == ['1'] &&
    match parseNumbers tail with
    | .ok (m, _) => m == 0
    | .error _ => false

def regionNightlyMinorZero (s : List Char) : Bool :=
  (splitPre s).2 == sNightly && versionMinorZero (splitPre s).1

end BindgenModel.Features
