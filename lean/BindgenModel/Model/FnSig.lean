/-!
# Which parameters `FunctionSig::from_ty` gives a function type (ir/function.rs, C04)

One declaration can nest several function types (`long (*get(int, int, int))(char)`: `get` takes three
`int`s and returns a pointer to a function taking one `char`), and every level is parsed with the cursor
of the *declaration*.  What the cursor offers — `cursor.args()` for a function declaration, the
`ParmDecl` children for a typedef / member / parameter / variable — are the parameters of the
declaration (for the children: of every level), not necessarily of the level being parsed.

Import-free, executable.  Types are numbers (ids); names are optional strings.
-/
namespace BindgenModel.FnSig

abbrev Param := Option String × Nat

/-- what `from_ty` sees when it parses one function type -/
structure Site where
  /-- `ty.args()`: the parameter types of the prototype; `none` when there is no prototype (K&R
  declarations, Objective-C methods) -/
  typeArgs : Option (List Nat)
  /-- cursor kind is `FunctionDecl` / `Constructor` / `CXXMethod` / an Objective-C method -/
  declLike : Bool
  /-- `cursor.args()` (declaration-like cursors; `[]` when libclang answers -1) -/
  cursorArgs : List Param
  /-- the `ParmDecl` children of the cursor (other cursors) -/
  parmChildren : List Param
deriving Repr, DecidableEq

/-- the `zip` of two `chain(repeat(None))` iterators with `take_while(either is some)`: names come from
the cursor side, types from the type side when there is one -/
def zipLongest : List Param → List Nat → List Param
  | [], ts => ts.map fun t => (none, t)
  | cs, [] => cs
  | (n, _) :: cs, t :: ts => (n, t) :: zipLongest cs ts

/-- `args_from_ty_and_cursor`; `guarded = true` is the code as it is (cursor arguments that differ in
number from the prototype are dropped), `false` the rule without that test -/
def fromTyAndCursor (guarded : Bool) (typeArgs : Option (List Nat)) (cursorArgs : List Param) : List Param :=
  let cur := match typeArgs with
    | some t => if guarded && t.length != cursorArgs.length then [] else cursorArgs
    | none => cursorArgs
  zipLongest cur (typeArgs.getD [])

/-- the `match kind { … }` that computes `args` in `FunctionSig::from_ty` -/
def args (guarded : Bool) (s : Site) : List Param :=
  if s.declLike then fromTyAndCursor guarded s.typeArgs s.cursorArgs
  else
    let declares := match s.typeArgs with
      | some t => !guarded || t.length == s.parmChildren.length
      | none => true
    if s.parmChildren.isEmpty || !declares then
      -- `cursor.args()` of a cursor that is not declaration-like is `None`
      fromTyAndCursor guarded s.typeArgs []
    else s.parmChildren

/-- calling convention: `ty.call_conv()`, overridden by the convention of the function type the
declaration points to (work-around for #549) — `guarded`: only when that function type is the level
being parsed (`same_level`: same canonical result type); `invalid` = `CXCallingConv_Invalid` -/
def callConv (guarded : Bool) (invalid tyCC : Nat) (pointee : Option (Nat × Bool)) : Nat :=
  match pointee with
  | none => tyCC
  | some (cc, sameLevel) => if (!guarded || sameLevel) && cc != invalid then cc else tyCC

end BindgenModel.FnSig
