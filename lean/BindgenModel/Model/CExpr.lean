/-!
# Macro bodies: the `cexpr` evaluator as bindgen uses it, and C's typed evaluation (LP64)

* `Expr` — abstract syntax of the macro grammar of property C05.
* `cexprNum` / `cexprTop` — what `cexpr::expr::IdentifierParser::macro_definition` computes on
  the token stream printed from an `Expr` (cexpr-0.6.0 `expr.rs`, `literal.rs`): all integers
  are `Wrapping<i64>`, suffixes are stripped, floats are `f64`, a construct the grammar does
  not know (`!`, comparisons, `&&`, `||`, `?:`, casts, `sizeof`) makes the whole definition
  fail to parse (⇒ bindgen emits nothing), integer division by zero panics.
* `processDefs` — `Var::parse` for `CXCursor_MacroDefinition`: eager evaluation at the
  definition point, `parsed_macros` keeps the LATEST value, only the FIRST successfully parsed
  definition of a name produces a constant.
* `cEval` — what the C compiler computes: literal typing by suffix and magnitude, integer
  promotions, usual arithmetic conversions, unsigned wrap, short-circuit, `?:`, casts,
  `sizeof`; `.ub` on undefined behaviour.  Macros expand lazily, so identifiers denote the
  value of the FINAL definition (`cFinalEnv`).

Integers are mathematical `Int`s; floats are carried as IEEE bit patterns (`Nat`) so that all
result types have decidable equality and integer-only evaluations reduce in the kernel.
-/
namespace BindgenModel.CExpr

/-! ## syntax -/

inductive CTy
  | bool | char | schar | uchar | short | ushort | int | uint | long | ulong | llong | ullong
  | float | double | ldouble
  deriving DecidableEq, Repr

inductive UnOp | plus | neg | bnot | lnot
  deriving DecidableEq, Repr

inductive BinOp
  | mul | div | rem | add | sub | shl | shr | lt | gt | le | ge | eq | ne | band | bxor | bor | land | lor
  deriving DecidableEq, Repr

inductive IntSuffix | none | u | l | ul | ll | ull
  deriving DecidableEq, Repr

inductive FSuffix | none | f | l
  deriving DecidableEq, Repr

/-- encoding prefix of a character / string literal -/
inductive Pre | none | L | u8 | u | U
  deriving DecidableEq, Repr

inductive Expr
  /-- integer literal: decimal?, value, suffix class -/
  | int (dec : Bool) (n : Nat) (suf : IntSuffix)
  /-- floating literal: suffix, the f64 nearest to the digits, the f32 nearest to the digits,
  and whether the text has both a `.` and an exponent (cexpr's `c_float` commits to the
  `digits.digits` alternative and then fails on the exponent, so such a literal does not parse) -/
  | flt (suf : FSuffix) (bits64 : Nat) (bits32 : Nat) (dotExp : Bool)
  /-- single-character literal with the code of its one c-char / escape -/
  | chr (pre : Pre) (code : Nat)
  /-- string literal: bytes after escape processing -/
  | str (pre : Pre) (bytes : List Nat)
  /-- adjacent string literals / string-valued identifiers -/
  | cat (a b : Expr)
  | ident (name : String)
  | paren (e : Expr)
  | un (op : UnOp) (e : Expr)
  | bin (op : BinOp) (a b : Expr)
  | cond (c a b : Expr)
  | cast (ty : CTy) (e : Expr)
  | sizeofTy (ty : CTy)
  deriving DecidableEq, Repr

/-! ## fixed-width helpers -/

def two63 : Int := 9223372036854775808
def two64 : Int := 18446744073709551616

/-- reinterpret an integer modulo 2^64 as `i64` -/
def wrap64 (x : Int) : Int := Int.bmod x 18446744073709551616

def inI64 (x : Int) : Bool := decide (-9223372036854775808 ≤ x) && decide (x ≤ 9223372036854775807)

def band64 (a b : Int) : Int := (BitVec.ofInt 64 a &&& BitVec.ofInt 64 b).toInt
def bor64 (a b : Int) : Int := (BitVec.ofInt 64 a ||| BitVec.ofInt 64 b).toInt
def bxor64 (a b : Int) : Int := (BitVec.ofInt 64 a ^^^ BitVec.ofInt 64 b).toInt

/-! ## floats as bit patterns (executable only; never unfolded in proofs) -/

def f64 (b : Nat) : Float := Float.ofBits (UInt64.ofNat b)
def f64bits (f : Float) : Nat := f.toBits.toNat
def f32 (b : Nat) : Float32 := Float32.ofBits (UInt32.ofNat b)
def f32bits (f : Float32) : Nat := f.toBits.toNat
def f64OfInt (i : Int) : Nat := f64bits (Float.ofInt i)
def f32OfInt (i : Int) : Nat := f32bits (Float32.ofInt i)

def fbin64 (op : BinOp) (a b : Nat) : Option Nat :=
  match op with
  | .add => some (f64bits (f64 a + f64 b))
  | .sub => some (f64bits (f64 a - f64 b))
  | .mul => some (f64bits (f64 a * f64 b))
  | .div => some (f64bits (f64 a / f64 b))
  | _ => none

def fbin32 (op : BinOp) (a b : Nat) : Option Nat :=
  match op with
  | .add => some (f32bits (f32 a + f32 b))
  | .sub => some (f32bits (f32 a - f32 b))
  | .mul => some (f32bits (f32 a * f32 b))
  | .div => some (f32bits (f32 a / f32 b))
  | _ => none

def fneg64 (a : Nat) : Nat := f64bits (- f64 a)
def fneg32 (a : Nat) : Nat := f32bits (- f32 a)

/-! ## the cexpr evaluator -/

/-- `cexpr::expr::EvalResult` (without `Invalid`, which never escapes the parser) -/
inductive Res
  | int (v : Int)
  | flt (bits : Nat)
  | chr (code : Nat)
  | str (bytes : List Nat)
  deriving DecidableEq, Repr

inductive Outcome
  | ok (r : Res)
  /-- the token stream does not parse: bindgen emits nothing for this definition -/
  | fail
  /-- `Wrapping<i64>` division / remainder by zero panics -/
  | panic
  /-- float remainder: accepted by cexpr, not modelled (never generated: ill-typed C) -/
  | unmodelled
  deriving DecidableEq, Repr

abbrev Env := List (String × Res)

def lookup (env : Env) (n : String) : Option Res :=
  match env with
  | [] => none
  | (k, v) :: rest => if k = n then some v else lookup rest n

/-- `Wrapping<i64>` arithmetic of `impl *Assign for EvalResult` -/
def cexprIntBin (op : BinOp) (a b : Int) : Outcome :=
  match op with
  | .mul => .ok (.int (wrap64 (a * b)))
  | .div => if b = 0 then .panic else .ok (.int (wrap64 (Int.tdiv a b)))
  | .rem => if b = 0 then .panic else .ok (.int (wrap64 (Int.tmod a b)))
  | .add => .ok (.int (wrap64 (a + b)))
  | .sub => .ok (.int (wrap64 (a - b)))
  -- `a << (b.0 as usize)`: `Wrapping::shl` masks the amount with 63
  | .shl => .ok (.int (wrap64 (a * 2 ^ (b % 64).toNat)))
  -- arithmetic shift right, amount masked with 63
  | .shr => .ok (.int (a / 2 ^ (b % 64).toNat))
  | .band => .ok (.int (band64 a b))
  | .bxor => .ok (.int (bxor64 a b))
  | .bor => .ok (.int (bor64 a b))
  | _ => .fail

def cexprBin (op : BinOp) (x y : Res) : Outcome :=
  match x, y with
  | .int a, .int b => cexprIntBin op a b
  | .flt a, .int b =>
    (match op with
     | .rem => .unmodelled
     | _ => match fbin64 op a (f64OfInt b) with | some r => .ok (.flt r) | none => .fail)
  | .int a, .flt b =>
    (match op with
     | .rem => .unmodelled
     | _ => match fbin64 op (f64OfInt a) b with | some r => .ok (.flt r) | none => .fail)
  | .flt a, .flt b =>
    (match op with
     | .rem => .unmodelled
     | _ => match fbin64 op a b with | some r => .ok (.flt r) | none => .fail)
  | _, _ => .fail

def isCexprBinOp : BinOp → Bool
  | .mul | .div | .rem | .add | .sub | .shl | .shr | .band | .bxor | .bor => true
  | _ => false

/-- `PRef::numeric_expr`: only integer / float results; anything else is a parse error -/
def cexprNum (env : Env) : Expr → Outcome
  | .int _ n _ => if n < 18446744073709551616 then .ok (.int (wrap64 n)) else .fail
  | .flt _ b _ dotExp => if dotExp then .fail else .ok (.flt b)
  | .ident n =>
    (match lookup env n with
     | some (.int v) => .ok (.int v)
     | some (.flt b) => .ok (.flt b)
     | _ => .fail)
  | .paren e => cexprNum env e
  | .un op e =>
    (match op with
     | .lnot => .fail
     | .plus => cexprNum env e
     | .neg =>
       (match cexprNum env e with
        | .ok (.int v) => .ok (.int (wrap64 (-v)))
        | .ok (.flt b) => .ok (.flt (fneg64 b))
        | o => o)
     | .bnot =>
       (match cexprNum env e with
        | .ok (.int v) => .ok (.int (-v - 1))
        | .ok (.flt _) => .fail
        | o => o))
  | .bin op a b =>
    if isCexprBinOp op then
      match cexprNum env a with
      | .ok x =>
        (match cexprNum env b with
         | .ok y => cexprBin op x y
         | o => o)
      | o => o
    else .fail
  | _ => .fail

/-- `PRef::string` / `concat_str`: string literals and string-valued identifiers -/
def cexprStr (env : Env) : Expr → Option (List Nat)
  | .str _ bytes => some bytes
  | .ident n => (match lookup env n with | some (.str b) => some b | _ => none)
  | .cat a b =>
    (match cexprStr env a, cexprStr env b with
     | some x, some y => some (x ++ y)
     | _, _ => none)
  | _ => none

/-- `PRef::expr`: numeric | `(` expr `)` | concatenated strings | literal | identifier -/
def cexprTop (env : Env) : Expr → Outcome
  | .paren e =>
    (match cexprNum env (.paren e) with
     | .fail => cexprTop env e
     | o => o)
  | e =>
    match cexprNum env e with
    | .fail =>
      (match cexprStr env e with
       | some b => .ok (.str b)
       | none =>
         match e with
         | .chr _ code => .ok (.chr code)
         | .ident n => (match lookup env n with | some r => .ok r | none => .fail)
         | _ => .fail)
    | o => o

/-- one step of `Var::parse` on a macro definition: returns the new `parsed_macros` and
whether a constant is produced for this definition -/
structure Step where
  env : Env
  emitted : Option Res
  outcome : Outcome
  deriving DecidableEq, Repr

/-- `fallback name` = what `parse_macro_clang_fallback` yields for the macro: the `i64` bits of
the integer value clang computes for `(NAME)` at the END of the header (`none`: option off,
not an integer constant expression) -/
def processDef (fallback : String → Option Int) (env : Env) (name : String) (body : Expr) : Step :=
  let finish (r : Res) : Step :=
    let previously := (lookup env name).isSome
    { env := (name, r) :: env, emitted := if previously then none else some r, outcome := .ok r }
  match cexprTop env body with
  | .ok r => finish r
  | .fail =>
    (match fallback name with
     | some v => finish (.int v)
     | none => { env := env, emitted := none, outcome := .fail })
  | o => { env := env, emitted := none, outcome := o }

def processDefs (fallback : String → Option Int) (env : Env) : List (String × Expr) → List (String × Step)
  | [] => []
  | (n, b) :: rest =>
    let s := processDef fallback env n b
    (n, s) :: processDefs fallback s.env rest

/-! ## C's typed evaluation (LP64, x86_64: plain `char` is signed) -/

def CTy.isFloat : CTy → Bool
  | .float | .double | .ldouble => true
  | _ => false

def CTy.bits : CTy → Nat
  | .bool | .char | .schar | .uchar => 8
  | .short | .ushort => 16
  | .int | .uint | .float => 32
  | .long | .ulong | .llong | .ullong | .double => 64
  | .ldouble => 128

def CTy.sizeof (t : CTy) : Nat := t.bits / 8

def CTy.signed : CTy → Bool
  | .char | .schar | .short | .int | .long | .llong => true
  | _ => false

def CTy.isUnsignedInt (t : CTy) : Bool := !t.isFloat && !t.signed

/-- integer conversion rank (only its order matters) -/
def CTy.rank : CTy → Nat
  | .bool => 0 | .char | .schar | .uchar => 1 | .short | .ushort => 2
  | .int | .uint => 3 | .long | .ulong => 4 | .llong | .ullong => 5
  | _ => 6

def CTy.lo (t : CTy) : Int := if t.signed then -(2 ^ (t.bits - 1)) else 0
def CTy.hi (t : CTy) : Int :=
  if t = .bool then 1 else if t.signed then 2 ^ (t.bits - 1) - 1 else 2 ^ t.bits - 1

def CTy.holds (t : CTy) (v : Int) : Bool := decide (t.lo ≤ v) && decide (v ≤ t.hi)

def CTy.toUnsigned : CTy → CTy
  | .int => .uint | .long => .ulong | .llong => .ullong | t => t

/-- conversion of an integer value to an integer type (modular; what clang does for the
implementation-defined signed case) -/
def convInt (t : CTy) (v : Int) : Int :=
  if t = .bool then (if v = 0 then 0 else 1)
  else if t.signed then Int.bmod v (2 ^ t.bits) else v % (2 ^ t.bits)

/-- integer promotion -/
def promote (t : CTy) : CTy :=
  if t.isFloat then t else if t.rank < 3 then .int else t

/-- usual arithmetic conversions on two promoted integer types -/
def uacInt (a b : CTy) : CTy :=
  if a = b then a
  else if a.signed = b.signed then (if a.rank < b.rank then b else a)
  else
    let (s, u) := if a.signed then (a, b) else (b, a)
    if s.rank ≤ u.rank then u
    else if u.bits < s.bits then s
    else s.toUnsigned

def uac (a b : CTy) : CTy :=
  if a = .ldouble || b = .ldouble then .ldouble
  else if a = .double || b = .double then .double
  else if a = .float || b = .float then .float
  else uacInt (promote a) (promote b)

/-- type of an integer literal: first type of the C11 6.4.4.1 list that holds the value
(clang: a too-large decimal literal without `u` becomes unsigned, with a warning) -/
def litType (dec : Bool) (n : Nat) (suf : IntSuffix) : Option CTy :=
  let cands : List CTy := match suf, dec with
    | .none, true => [.int, .long, .llong, .ullong]
    | .none, false => [.int, .uint, .long, .ulong, .llong, .ullong]
    | .u, _ => [.uint, .ulong, .ullong]
    | .l, true => [.long, .llong, .ullong]
    | .l, false => [.long, .ulong, .llong, .ullong]
    | .ul, _ => [.ulong, .ullong]
    | .ll, true => [.llong, .ullong]
    | .ll, false => [.llong, .ullong]
    | .ull, _ => [.ullong]
  cands.find? fun t => t.holds n

inductive CVal
  | int (ty : CTy) (v : Int)
  | flt (ty : CTy) (bits : Nat)     -- float: f32 bits; double / long double: f64 bits
  /-- `bare`: the text is a sequence of string-literal tokens (no parentheses), so it can
  be concatenated with adjacent string literals after macro expansion -/
  | str (pre : Pre) (bytes : List Nat) (bare : Bool)
  deriving DecidableEq, Repr

inductive CRes
  | val (v : CVal)
  /-- undefined behaviour (overflow, bad shift, division by zero, out-of-range conversion) -/
  | ub
  /-- ill-typed, unknown identifier, or outside the modelled fragment -/
  | bad
  deriving DecidableEq, Repr

abbrev CEnv := List (String × CVal)

def clookup (env : CEnv) (n : String) : Option CVal :=
  match env with
  | [] => none
  | (k, v) :: rest => if k = n then some v else clookup rest n

def isNaN64 (b : Nat) : Bool := (f64 b).isNaN
def isZero64 (b : Nat) : Bool := f64 b == 0.0
def isZero32 (b : Nat) : Bool := f32 b == 0.0

/-- convert a value to a floating type -/
def toFloatTy (t : CTy) (v : CVal) : Option Nat :=
  match v with
  | .int _ i => some (if t = .float then f32OfInt i else f64OfInt i)
  | .flt s b =>
    if t = .float then some (if s = .float then b else f32bits (f64 b).toFloat32)
    else some (if s = .float then f64bits (f32 b).toFloat else b)
  | .str .. => none

/-- float → integer conversion: truncation; `none` (UB) when not representable -/
def floatToInt (t : CTy) (s : CTy) (b : Nat) : Option Int :=
  let f : Float := if s = .float then (f32 b).toFloat else f64 b
  if f.isNaN || f.isInf then none
  -- at or beyond 2^64 no integer type holds the value (`toUInt64` would saturate to 2^64 - 1)
  else if f.abs ≥ 18446744073709551616.0 then (if t = .bool then some 1 else none)
  else
    let i : Int :=
      if f.abs < 9223372036854775808.0 then (f.toInt64).toInt
      else if f > 0 then Int.ofNat (f.toUInt64).toNat else -9223372036854775809
    if t = .bool then some (if f == 0.0 then 0 else 1)
    else if t.holds i then some i else none

def truthy (v : CVal) : Option Bool :=
  match v with
  | .int _ i => some (i != 0)
  | .flt t b => some (if t = .float then !isZero32 b else !isZero64 b)
  | .str .. => none

def cIntBin (op : BinOp) (ta tb : CTy) (a b : Int) : CRes :=
  match op with
  | .shl | .shr =>
    let t := promote ta
    let a := convInt t a
    if b < 0 ∨ b ≥ Int.ofNat t.bits then .ub
    else if op = .shl then
      if t.signed then
        (if a < 0 then .ub else if t.holds (a * 2 ^ b.toNat) then .val (.int t (a * 2 ^ b.toNat)) else .ub)
      else .val (.int t (convInt t (a * 2 ^ b.toNat)))
    else .val (.int t (a / 2 ^ b.toNat))
  | _ =>
    let t := uacInt (promote ta) (promote tb)
    let a := convInt t a
    let b := convInt t b
    let arith (r : Int) : CRes :=
      if t.signed then (if t.holds r then .val (.int t r) else .ub) else .val (.int t (convInt t r))
    let cmp (c : Bool) : CRes := .val (.int .int (if c then 1 else 0))
    match op with
    | .mul => arith (a * b)
    | .add => arith (a + b)
    | .sub => arith (a - b)
    | .div => if b = 0 then .ub else arith (Int.tdiv a b)
    | .rem => if b = 0 then .ub else if t.signed ∧ ¬ t.holds (Int.tdiv a b) then .ub else arith (Int.tmod a b)
    | .band => .val (.int t (convInt t (band64 a b)))
    | .bxor => .val (.int t (convInt t (bxor64 a b)))
    | .bor => .val (.int t (convInt t (bor64 a b)))
    | .lt => cmp (a < b) | .gt => cmp (a > b) | .le => cmp (a ≤ b) | .ge => cmp (a ≥ b)
    | .eq => cmp (a = b) | .ne => cmp (a ≠ b)
    | _ => .bad

def cFloatBin (op : BinOp) (x y : CVal) (tx ty : CTy) : CRes :=
  let t := uac tx ty
  if t = .ldouble then .bad else
  match toFloatTy t x, toFloatTy t y with
  | some a, some b =>
    let cmp (c : Bool) : CRes := .val (.int .int (if c then 1 else 0))
    if t = .float then
      (match op with
       | .lt => cmp (f32 a < f32 b) | .gt => cmp (f32 a > f32 b) | .le => cmp (f32 a ≤ f32 b)
       | .ge => cmp (f32 a ≥ f32 b) | .eq => cmp (f32 a == f32 b) | .ne => cmp (f32 a != f32 b)
       | _ => match fbin32 op a b with | some r => .val (.flt .float r) | none => .bad)
    else
      (match op with
       | .lt => cmp (f64 a < f64 b) | .gt => cmp (f64 a > f64 b) | .le => cmp (f64 a ≤ f64 b)
       | .ge => cmp (f64 a ≥ f64 b) | .eq => cmp (f64 a == f64 b) | .ne => cmp (f64 a != f64 b)
       | _ => match fbin64 op a b with | some r => .val (.flt .double r) | none => .bad)
  | _, _ => .bad

def CVal.ty? : CVal → Option CTy
  | .int t _ => some t
  | .flt t _ => some t
  | .str .. => none

def cBin (op : BinOp) (x y : CVal) : CRes :=
  match x, y with
  | .int ta a, .int tb b => cIntBin op ta tb a b
  | .str .., _ => .bad
  | _, .str .. => .bad
  | _, _ =>
    match x.ty?, y.ty? with
    | some tx, some ty => cFloatBin op x y tx ty
    | _, _ => .bad

/-- convert an arithmetic value to an arithmetic type (cast, `?:` result conversion) -/
def convTo (t : CTy) (v : CVal) : CRes :=
  match v with
  | .str .. => .bad
  | .int _ i =>
    if t.isFloat then (if t = .ldouble then .bad else
      match toFloatTy t v with | some b => .val (.flt t b) | none => .bad)
    else .val (.int t (convInt t i))
  | .flt s b =>
    if t.isFloat then (if t = .ldouble || s = .ldouble then .bad else
      match toFloatTy t v with | some r => .val (.flt t r) | none => .bad)
    else if s = .ldouble then .bad
    else match floatToInt t s b with | some i => .val (.int t i) | none => .ub

/-- type of the result, when the expression is an arithmetic expression of the fragment -/
def typeOf (tenv : List (String × CTy)) : Expr → Option CTy
  | .int dec n suf => litType dec n suf
  | .flt suf _ _ _ => some (match suf with | .none => .double | .f => .float | .l => .ldouble)
  | .chr pre _ => some (match pre with | .u => .ushort | .U => .uint | _ => .int)
  | .str .. => none
  | .cat .. => none
  | .ident n => (tenv.find? (·.1 = n)).map (·.2)
  | .paren e => typeOf tenv e
  | .un op e =>
    (match typeOf tenv e with
     | some t => some (if op = .lnot then .int else promote t)
     | none => none)
  | .bin op a b =>
    (match typeOf tenv a, typeOf tenv b with
     | some ta, some tb =>
       (match op with
        | .shl | .shr => some (promote ta)
        | .lt | .gt | .le | .ge | .eq | .ne | .land | .lor => some .int
        | _ => some (uac ta tb))
     | _, _ => none)
  | .cond _ a b =>
    (match typeOf tenv a, typeOf tenv b with
     | some ta, some tb => some (uac ta tb)
     | _, _ => none)
  | .cast t _ => some t
  | .sizeofTy _ => some .ulong

/-- C's static constraints on an arithmetic expression of the fragment (they also apply to
operands that are never evaluated): `% << >> & ^ | ~` need integer operands, every identifier
is a known arithmetic macro, string literals do not occur -/
def wellTyped (tenv : List (String × CTy)) : Expr → Bool
  | .int dec n suf => (litType dec n suf).isSome
  | .flt .. => true
  | .chr .. => true
  | .str .. => false
  | .cat .. => false
  | .ident n => (tenv.find? (·.1 = n)).isSome
  | .paren e => wellTyped tenv e
  | .un op e => wellTyped tenv e &&
      (match op, typeOf tenv e with
       | .bnot, some t => !t.isFloat
       | _, some _ => true
       | _, none => false)
  | .bin op a b => wellTyped tenv a && wellTyped tenv b &&
      (match typeOf tenv a, typeOf tenv b with
       | some ta, some tb =>
         (match op with
          | .rem | .shl | .shr | .band | .bxor | .bor => !ta.isFloat && !tb.isFloat
          | _ => true)
       | _, _ => false)
  | .cond c a b => wellTyped tenv c && wellTyped tenv a && wellTyped tenv b
  | .cast _ e => wellTyped tenv e
  | .sizeofTy _ => true

def CVal.tyOrInt : CVal → CTy
  | .int t _ => t
  | .flt t _ => t
  | .str .. => .int

def tenvOf (env : CEnv) : List (String × CTy) :=
  env.filterMap fun (n, v) => match v with | .str .. => none | v => some (n, v.tyOrInt)

def cEval (env : CEnv) : Expr → CRes
  | .int dec n suf =>
    (match litType dec n suf with | some t => .val (.int t n) | none => .bad)
  | .flt suf b64 b32 _ =>
    (match suf with
     | .none => .val (.flt .double b64)
     | .f => .val (.flt .float b32)
     | .l => .val (.flt .ldouble b64))
  | .chr pre code =>
    -- C: a plain character constant has type int and the value of a (signed) char
    (match pre with
     | .none => if code < 256 then .val (.int .int (convInt .char code)) else .bad
     | .L => .val (.int .int (convInt .int code))
     | .u8 => if code < 128 then .val (.int .int code) else .bad
     | .u => if code < 65536 then .val (.int .ushort code) else .bad
     | .U => .val (.int .uint code))
  | .str pre bytes => .val (.str pre bytes true)
  | .cat a b =>
    (match cEval env a, cEval env b with
     | .val (.str p x true), .val (.str q y true) =>
       if p = q ∨ q = .none then .val (.str p (x ++ y) true)
       else if p = .none then .val (.str q (x ++ y) true) else .bad
     | _, _ => .bad)
  | .ident n => (match clookup env n with | some v => .val v | none => .bad)
  | .paren e =>
    (match cEval env e with
     | .val (.str p b _) => .val (.str p b false)
     | r => r)
  | .un op e =>
    (match cEval env e with
     | .val (.int t i) =>
       let p := promote t
       (match op with
        | .plus => .val (.int p i)
        | .neg => if p.signed then (if p.holds (-i) then .val (.int p (-i)) else .ub)
                  else .val (.int p (convInt p (-i)))
        | .bnot => .val (.int p (convInt p (-i - 1)))
        | .lnot => .val (.int .int (if i = 0 then 1 else 0)))
     | .val (.flt t b) =>
       (match op with
        | .plus => .val (.flt t b)
        | .neg => .val (.flt t (if t = .float then fneg32 b else fneg64 b))
        | .bnot => .bad
        | .lnot => .val (.int .int (if (if t = .float then isZero32 b else isZero64 b) then 1 else 0)))
     | .val (.str ..) => .bad
     | r => r)
  | .bin op a b =>
    (match op with
     | .land =>
       (match cEval env a with
        | .val x =>
          (match truthy x with
           | some false => if wellTyped (tenvOf env) b then .val (.int .int 0) else .bad
           | some true =>
             (match cEval env b with
              | .val y => (match truthy y with | some c => .val (.int .int (if c then 1 else 0)) | none => .bad)
              | r => r)
           | none => .bad)
        | r => r)
     | .lor =>
       (match cEval env a with
        | .val x =>
          (match truthy x with
           | some true => if wellTyped (tenvOf env) b then .val (.int .int 1) else .bad
           | some false =>
             (match cEval env b with
              | .val y => (match truthy y with | some c => .val (.int .int (if c then 1 else 0)) | none => .bad)
              | r => r)
           | none => .bad)
        | r => r)
     | _ =>
       (match cEval env a with
        | .val x =>
          (match cEval env b with
           | .val y => cBin op x y
           | r => r)
        | r => r))
  | .cond c a b =>
    (match cEval env c with
     | .val cv =>
       (match truthy cv with
        | none => .bad
        | some cb =>
          -- both branches are typed, only the selected one is evaluated
          match typeOf (tenvOf env) a, typeOf (tenvOf env) b with
          | some ta, some tb =>
            if !(wellTyped (tenvOf env) a && wellTyped (tenvOf env) b) then .bad else
            (match (if cb then cEval env a else cEval env b) with
             | .val x => convTo (uac ta tb) x
             | r => r)
          | _, _ => .bad)
     | r => r)
  | .cast t e =>
    (match cEval env e with
     | .val v => convTo t v
     | r => r)
  | .sizeofTy t => .val (.int .ulong t.sizeof)

/-- the value the C compiler sees for every name at the end of the header: macros expand
lazily, so a name denotes its LAST definition; names are processed in order of first
definition (the generator only produces bodies whose references make that a dependency order) -/
def lastBody (defs : List (String × Expr)) (n : String) : Option Expr :=
  defs.foldl (fun acc d => if d.1 = n then some d.2 else acc) none

/-- A body whose top-level operator is binary / conditional is OPEN: after textual macro
expansion its operands may re-associate with the surrounding operators (`#define A 1+2`,
`A*3` is `1+2*3`).  The value-based evaluation below is only right for CLOSED names, so open
names are not visible as operands (a reference to one is `.bad` = outside the model). -/
def isOpen (openNames : List String) : Expr → Bool
  | .bin .. => true
  | .cond .. => true
  | .ident n => openNames.contains n
  | _ => false

structure FinalEnv where
  /-- value of every name that has one -/
  all : CEnv := []
  /-- names usable as operands (closed) -/
  operand : CEnv := []
  openNames : List String := []

def cFinal (defs : List (String × Expr)) : FinalEnv :=
  let names := defs.foldl (fun acc d => if acc.contains d.1 then acc else acc ++ [d.1]) ([] : List String)
  names.foldl (fun fe n =>
    match lastBody defs n with
    | some b =>
      let op := isOpen fe.openNames b
      (match cEval fe.operand b with
       | .val v =>
         { all := (n, v) :: fe.all,
           operand := if op then fe.operand else (n, v) :: fe.operand,
           openNames := if op then n :: fe.openNames else fe.openNames }
       | _ => { fe with openNames := if op then n :: fe.openNames else fe.openNames })
    | none => fe) {}

def cFinalEnv (defs : List (String × Expr)) : CEnv := (cFinal defs).all

/-! ## static typing (no evaluation): the region predicates need only this -/

/-- some literal or intermediate result has an unsigned integer type -/
def hasUnsigned (tenv : List (String × CTy)) : Expr → Bool
  | .paren e => hasUnsigned tenv e
  | .un op e => hasUnsigned tenv e || (match typeOf tenv (.un op e) with | some t => t.isUnsignedInt | none => false)
  | .bin op a b => hasUnsigned tenv a || hasUnsigned tenv b ||
      (match typeOf tenv (.bin op a b) with | some t => t.isUnsignedInt | none => false)
  | .cond c a b => hasUnsigned tenv c || hasUnsigned tenv a || hasUnsigned tenv b ||
      (match typeOf tenv (.cond c a b) with | some t => t.isUnsignedInt | none => false)
  | .cast t e => hasUnsigned tenv e || t.isUnsignedInt
  | .cat a b => hasUnsigned tenv a || hasUnsigned tenv b
  | e => (match typeOf tenv e with | some t => t.isUnsignedInt | none => false)

def stripParens : Expr → Expr
  | .paren e => stripParens e
  | e => e

/-- the body contains a floating literal with an `f`/`l` suffix -/
def hasFloatSuffix : Expr → Bool
  | .flt suf _ _ _ => suf != .none
  | .paren e => hasFloatSuffix e
  | .un _ e => hasFloatSuffix e
  | .bin _ a b => hasFloatSuffix a || hasFloatSuffix b
  | .cond c a b => hasFloatSuffix c || hasFloatSuffix a || hasFloatSuffix b
  | .cast _ e => hasFloatSuffix e
  | .cat a b => hasFloatSuffix a || hasFloatSuffix b
  | _ => false

/-- the body contains a string literal with an `L`/`u`/`U` prefix -/
def hasWideString : Expr → Bool
  | .str pre _ => pre = .L || pre = .u || pre = .U
  | .paren e => hasWideString e
  | .cat a b => hasWideString a || hasWideString b
  | _ => false

def refs : Expr → List String
  | .ident n => [n]
  | .paren e => refs e
  | .un _ e => refs e
  | .bin _ a b => refs a ++ refs b
  | .cond c a b => refs c ++ refs a ++ refs b
  | .cast _ e => refs e
  | .cat a b => refs a ++ refs b
  | _ => []

end BindgenModel.CExpr
