/-! # C01 — decidable regions of the known findings that are not name-related

The harness reduces a failing case to option bits, header-feature bits and an error class and asks
this function (through the driver) whether the case lies in a listed region; the function is the
single definition of those regions.  The regions are deliberately coarse predicates on the INPUT
(flags and header features), refined by the class of the observed error. -/
namespace BindgenModel.C01Regions

structure Opts where
  partialord : Bool      -- --with-derive-partialord
  ordD : Bool            -- --with-derive-ord
  partialeq : Bool       -- --with-derive-partialeq
  eqD : Bool             -- --with-derive-eq
  implDebug : Bool       -- --impl-debug
  implPartialeq : Bool   -- --impl-partialeq
  explicitPadding : Bool -- --explicit-padding
  newtypeAlias : Bool    -- --default-alias-style new_type | new_type_deref
  noDeriveCopy : Bool    -- --no-derive-copy
  cNaming : Bool         -- --c-naming
  newtypeEnum : Bool     -- --default-enum-style newtype | newtype_global | bitfield (tuple structs)
  moduleConsts : Bool    -- --default-enum-style moduleconsts / --constified-enum-module
  manuallyDrop : Bool    -- --default-non-copy-union-style manually_drop
  flexDst : Bool         -- --flexarray-dst
  representOps : Bool    -- --represent-cxx-operators
  modulesUnqualified : Bool := false  -- --enable-cxx-namespaces together with --disable-name-namespacing
  deriving Repr, Inhabited

structure Facts where
  packed : Bool          -- `__attribute__((packed))` or `#pragma pack`
  aligned : Bool         -- `__attribute__((aligned(n)))` / alignas
  emptyUnion : Bool      -- a union without members
  emptyAligned : Bool    -- an empty record carrying an alignment attribute
  bitfield : Bool
  blob : Bool            -- the bindings contain a `__BindgenOpaqueArray` padding / opaque blob
  wide : Bool            -- `__int128` / `long double` members (16-byte alignment)
  cppScope : Bool        -- C++ header with a namespace or a class scope
  keywordIdent : Bool    -- some identifier is a Rust keyword, contains `$` or ends in `_`
  hasUnion : Bool
  flexArray : Bool       -- a flexible / zero-length array member
  tagTypedefSame : Bool  -- the duplicated name is both a struct/union/enum tag and a typedef name
  deriving Repr, Inhabited

inductive Err where
  | cmp            -- E0277 / E0369: comparison trait missing (PartialEq / Eq / PartialOrd / Ord)
  | e0423          -- expected function, found type
  | e0530          -- parameter shadows tuple struct
  | e0530static    -- E0530: function parameters cannot shadow statics
  | e0588          -- packed type contains an aligned type
  | e0793          -- reference to packed field
  | emptyUnion     -- unions cannot have zero fields
  | layoutAssert   -- E0080 inside a "Size of" / "Alignment of" / "Offset of field" assertion
  | layoutPanic    -- bindgen panics in codegen/struct_layout.rs
  | missingDebug   -- E0277: a field type does not implement Debug
  | e0133          -- call to unsafe function outside an unsafe block
  | e0054          -- cast of an integer to bool
  | unresolved     -- E0412 / E0425 / E0433: a name bindgen uses but does not define
  | e0432          -- unresolved import (`pub use self::…`)
  | missingTrait   -- E0277: a member type lacks a derived trait (Hash, Default, Copy, Clone, …)
  | e0587          -- conflicting packed and align hints
  | e0223          -- ambiguous associated type (`Alias::Type`)
  | e0308          -- mismatched types
  | e0392          -- unused type parameter (and the E0282 it entails in derives)
  | identPanic     -- bindgen panics: "… is not a valid Ident"
  | dupName        -- E0428 not explained by the name models
  | other
  deriving DecidableEq, Repr, Inhabited

/-- the effective derive options after `Builder::derive_ord` / `derive_eq` side effects -/
def ordInconsistent (o : Opts) : Bool :=
  ((o.partialord || o.ordD) && !(o.partialeq || o.eqD)) || (o.ordD && !o.eqD)

inductive Finding where
  | derive_ord_without_eq | opaque_array_no_partialord | newtype_alias_constant | param_shadows_newtype
  | packed_contains_aligned | impl_on_packed_field_ref | empty_union | layout_assertion_fails | struct_layout_panic
  | packed_no_copy_debug | union_field_wrapper_unsafe | union_bool_bitfield_cast | scoped_keyword_name | cnaming_scoped_name
  | derive_member_trait_missing | moduleconsts_enum_alias | union_bitfield_manually_drop | flexarray_dst_unused_param | tag_typedef_collision | cxx_operator_invalid_ident | modules_without_paths | param_shadows_static
  deriving DecidableEq, Repr, Inhabited

def Finding.name : Finding → String
  | .derive_ord_without_eq => "derive_ord_without_eq"
  | .opaque_array_no_partialord => "opaque_array_no_partialord"
  | .newtype_alias_constant => "newtype_alias_constant"
  | .param_shadows_newtype => "param_shadows_newtype"
  | .packed_contains_aligned => "packed_contains_aligned"
  | .impl_on_packed_field_ref => "impl_on_packed_field_ref"
  | .empty_union => "empty_union"
  | .layout_assertion_fails => "layout_assertion_fails"
  | .struct_layout_panic => "struct_layout_panic"
  | .packed_no_copy_debug => "packed_no_copy_debug"
  | .union_field_wrapper_unsafe => "union_field_wrapper_unsafe"
  | .union_bool_bitfield_cast => "union_bool_bitfield_cast"
  | .scoped_keyword_name => "scoped_keyword_name"
  | .cnaming_scoped_name => "cnaming_scoped_name"
  | .derive_member_trait_missing => "derive_member_trait_missing"
  | .moduleconsts_enum_alias => "moduleconsts_enum_alias"
  | .union_bitfield_manually_drop => "union_bitfield_manually_drop"
  | .flexarray_dst_unused_param => "flexarray_dst_unused_param"
  | .tag_typedef_collision => "tag_typedef_collision"
  | .cxx_operator_invalid_ident => "cxx_operator_invalid_ident"
  | .modules_without_paths => "modules_without_paths"
  | .param_shadows_static => "param_shadows_static"

/-- inputs on which the derive analyses are known to disagree with what rustc needs (C08's subject) -/
def deriveFragile (o : Opts) (f : Facts) : Bool :=
  f.packed || f.aligned || f.hasUnion || f.bitfield || o.noDeriveCopy || o.explicitPadding

def classify (o : Opts) (f : Facts) : Err → Option Finding
  | .cmp =>
    if ordInconsistent o then some .derive_ord_without_eq
    else if (o.partialord || o.ordD) && f.blob then some .opaque_array_no_partialord
    else if deriveFragile o f then some .derive_member_trait_missing
    else none
  | .missingTrait => if deriveFragile o f then some .derive_member_trait_missing else none
  | .e0587 => if f.packed && f.aligned then some .packed_contains_aligned else none
  | .e0223 => if o.moduleConsts then some .moduleconsts_enum_alias else none
  | .e0432 =>
    if o.moduleConsts then some .moduleconsts_enum_alias
    else if o.modulesUnqualified && f.cppScope then some .modules_without_paths
    -- `pub use self::super::enum_T as T;` under --c-naming with both module options: the `root` module
    -- itself is the scope the path leaves out, no namespace in the header needed
    else if o.cNaming && (f.cppScope || o.modulesUnqualified) then some .cnaming_scoped_name else none
  | .e0308 => if f.hasUnion && f.bitfield && o.manuallyDrop then some .union_bitfield_manually_drop else none
  | .e0392 => if o.flexDst && f.flexArray then some .flexarray_dst_unused_param else none
  | .dupName => if f.tagTypedefSame then some .tag_typedef_collision else none
  | .identPanic => if o.representOps && f.cppScope then some .cxx_operator_invalid_ident else none
  | .e0423 => if o.newtypeAlias then some .newtype_alias_constant else none
  | .e0530 => if o.newtypeAlias || o.newtypeEnum then some .param_shadows_newtype else none
  | .e0530static => if f.cppScope then some .param_shadows_static else none
  | .e0588 => if f.packed && (f.aligned || f.blob) then some .packed_contains_aligned else none
  | .e0793 => if f.packed && (o.implDebug || o.implPartialeq) then some .impl_on_packed_field_ref else none
  | .emptyUnion => if f.emptyUnion then some .empty_union else none
  | .layoutAssert =>
    if f.packed || f.aligned || f.bitfield || f.wide || f.emptyAligned || o.explicitPadding then some .layout_assertion_fails else none
  | .layoutPanic => if o.explicitPadding || f.packed || f.bitfield then some .struct_layout_panic else none
  | .missingDebug =>
    if o.noDeriveCopy && f.packed then some .packed_no_copy_debug
    else if deriveFragile o f then some .derive_member_trait_missing else none
  | .e0133 => if f.hasUnion && (o.implPartialeq || f.bitfield) then some .union_field_wrapper_unsafe else none
  | .e0054 => if f.hasUnion && f.bitfield then some .union_bool_bitfield_cast else none
  | .unresolved =>
    if o.modulesUnqualified && f.cppScope then some .modules_without_paths
    else if f.cppScope && f.keywordIdent then some .scoped_keyword_name
    else if f.cppScope && o.cNaming then some .cnaming_scoped_name
    else none
  | .other => none

end BindgenModel.C01Regions
