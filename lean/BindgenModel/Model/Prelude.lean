import BindgenModel.Generated.PreludeFlags
/-!
# The helper-type prelude: state carried from nested modules to the root (`CodegenResult::inner`)

Each module is generated into its own `CodegenResult` (`inner`), whose `saw_*` flags are then merged
into the parent's; after the root module's items the prelude defines `__BindgenBitfieldUnit`,
`__BindgenUnionField`, `__IncompleteArrayField`, … iff the root's flag is set.  Uses of a helper type
inside any module are spelled `root::__Bindgen…` (or unqualified without `--enable-cxx-namespaces`),
so the bindings compile only if the flag of *some* module reaches the root.
-/
namespace BindgenModel.Prelude
open BindgenModel.Generated

/-- a module: did its own items use the helper type, and its nested modules in generation order -/
inductive Mod where
  | node (own : Bool) (children : List Mod)

/-- does any module of the tree use the helper type? -/
def Mod.uses : Mod → Bool
  | .node own cs => own || usesList cs
where usesList : List Mod → Bool
  | [] => false
  | c :: cs => c.uses || usesList cs

def merge (m : FlagMerge) (parent nested : Bool) : Bool :=
  match m with
  | .or => parent || nested
  | .overwrite => nested
  | .and => parent && nested
  | .dropped => parent

/-- the flag of a module's result after it and all its nested modules were generated: the children are
generated after the module's own items, each through `inner` -/
def Mod.flag (m : FlagMerge) : Mod → Bool
  | .node own cs => flagList m own cs
where flagList (m : FlagMerge) : Bool → List Mod → Bool
  | acc, [] => acc
  | acc, c :: cs => flagList m (merge m acc (c.flag m)) cs

end BindgenModel.Prelude
