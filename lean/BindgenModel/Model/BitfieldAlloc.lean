/-!
# Model of `bitfields_to_allocation_units` (bindgen/ir/comp.rs)

One allocation unit per run of consecutive bit-fields.  For every bit-field the code takes
clang's bit offset, *re-aligns it itself* when the struct is not packed and the field would
cross its type's boundary (or has width 0), and records `offset - start_of_unit`.
-/
namespace BindgenModel.BitfieldAlloc

structure RawBf where
  width : Nat
  /-- clang's offset of the field in the struct, in bits (`none` inside class templates, where
  libclang reports no offsets and the code lays the fields out itself) -/
  off : Option Nat
  /-- size and alignment of the declared type, in bytes -/
  tsize : Nat
  talign : Nat
  named : Bool := true
deriving Repr, DecidableEq

def alignTo (size align : Nat) : Nat :=
  if align = 0 then size else
  let rem := size % align
  if rem = 0 then size else size + align - rem

/-- does the code re-align a field that starts at bit `o`? -/
def adjustsAt (packed : Bool) (bf : RawBf) (o : Nat) : Bool :=
  !packed && o != 0 &&
    (bf.width == 0 || Nat.land o (bf.talign * 8 - 1) + bf.width > bf.tsize * 8)

/-- does the code move the field away from clang's offset? (false when clang gave none) -/
def adjusts (packed : Bool) (bf : RawBf) : Bool :=
  match bf.off with
  | some o => adjustsAt packed bf o
  | none => false

def effOff (packed : Bool) (bf : RawBf) (o : Nat) : Nat :=
  if adjustsAt packed bf o then alignTo o (bf.talign * 8) else o

structure St where
  start : Nat := 0
  unitBits : Nat := 0
  /-- `offset_into_unit` of every bit-field so far, in order -/
  offs : List Nat := []
deriving Repr, DecidableEq

def stepBf (packed : Bool) (s : St) (bf : RawBf) : St :=
  let start := if s.unitBits = 0 then bf.off.getD 0 else s.start
  -- `bitfield.offset().unwrap_or(unit_size_in_bits)`
  let o := effOff packed bf (bf.off.getD s.unitBits)
  { start := start, unitBits := o - start + bf.width, offs := s.offs ++ [o - start] }

def allocRun (packed : Bool) (bfs : List RawBf) : St := bfs.foldl (stepBf packed) {}

/-- unit size in bytes: `align_to(unit_size_in_bits, 8) / 8` -/
def unitBytes (s : St) : Nat := alignTo s.unitBits 8 / 8

end BindgenModel.BitfieldAlloc
