import BindgenModel.Generated.Abi
/-! # C04 — symbol identity: which symbol does an emitted `extern` item refer to?

Import-free executable model of

* `codegen::utils::names_will_be_identical_after_mangling` (bindgen/codegen/mod.rs, end of file),
  transliterated over byte lists (`namesIdentical`);
* the link-name decision of `Function::codegen` and `Var::codegen` (`fnLinkAttr`, `varLinkAttr`):
  explicit `link_name` override, `\u{1}` + mangled name, attribute omitted, wrap-static suffix;
* the de-duplication (`functions_seen`, `vars_seen`) and overload numbering (`overload_counters`)
  of `CodegenResult` as far as extern items are concerned (`emitFns`, `emitVars`);
* a *specification* of the symbol-name mangling LLVM applies to a C-level name
  (`platformMangle`; data-layout mangling modes `m:e`, `m:o`, `m:x`, `m:w`), which is what both
  clang (for the C declaration) and rustc (for an `extern` item without `\u{1}`) apply.

The model describes the code as it is, including what it gets wrong (the decision ignores the
target; `Var::codegen` drops an explicit link-name override unless generating a dynamic library).
-/
namespace BindgenModel.Link

abbrev Name := List UInt8

def us : UInt8 := 95    -- '_'
def atSign : UInt8 := 64 -- '@'
def qmark : UInt8 := 63  -- '?'
def isAsciiDigit (b : UInt8) : Bool := 48 ≤ b && b ≤ 57

/-- `ir::function::Abi` (regenerated from the source by the translator) -/
abbrev Abi := BindgenModel.Generated.Abi

/-- the `Option<ClangAbi>` argument: `var` = `None` (a global variable), `unknown` = `ClangAbi::Unknown(_)` -/
inductive CallConv where
  | var | known (a : Abi) | unknown
  deriving DecidableEq, Repr, Inhabited

def byteOfChar (c : Char) : UInt8 := UInt8.ofNat c.toNat

/-- `(mangling_prefix, expect_suffix)`; `none` = "something we don't recognize".  The arms are the
table the translator regenerates from the `match call_conv` of the Rust function. -/
def manglingShape : CallConv → Option (UInt8 × Bool)
  | .var => some (byteOfChar Generated.manglingShapeVar.1, Generated.manglingShapeVar.2)
  | .known a => (Generated.manglingShapeKnown a).map fun p => (byteOfChar p.1, p.2)
  | .unknown => none

/-- the suffix test: at least two bytes, `@` then only ASCII digits -/
def suffixOk (s : Name) : Bool :=
  if s.length < 2 then false else
  match s with
  | [] => false
  | h :: t => !(h != atSign || !(t.all isAsciiDigit))

/-- `names_will_be_identical_after_mangling(canonical_name, mangled_name, call_conv)` -/
def namesIdentical (c m : Name) (cc : CallConv) : Bool :=
  if c = m then true else
  match manglingShape cc with
  | none => false
  | some (pre, expectSuffix) =>
    if m.length < c.length + 1 then false else
    if m.head? != some pre then false else
    if (m.drop 1).take c.length != c then false else
    if expectSuffix then suffixOk (m.drop (c.length + 1))
    else if m.length != c.length + 1 then false else true

/-! ## the link-name decision -/

/-- what `#[link_name = …]` (if any) is attached to the extern item -/
inductive LinkAttr where
  | none                 -- no attribute: the backend mangles the Rust identifier
  | raw (n : Name)       -- `#[link_name = "\u{1}n"]`: `n` verbatim
  | plain (n : Name)     -- `#[link_name = "n"]`: the backend still mangles `n`
  deriving DecidableEq, Repr, Inhabited

structure FnIn where
  name : Name                    -- `Function::name()` (after `generated_name_override`)
  canonical : Name               -- `item.canonical_name(ctx)` + overload suffix
  mangled : Option Name          -- `Function::mangled_name()`
  linkOverride : Option Name     -- `Function::link_name()` (`generated_link_name_override`)
  cc : CallConv                  -- `Some(abi)` after overrides
  internal : Bool := false       -- `Linkage::Internal`
  wrapStatic : Bool := false     -- `options.wrap_static_fns`
  suffix : Name := []            -- `ctx.wrap_static_fns_suffix()`
  deriving Repr, Inhabited

/-- `link_name_attr` of `Function::codegen` -/
def fnLinkNameAttr (f : FnIn) : Option Name :=
  match f.linkOverride with
  | some l => some l
  | none =>
    let m := f.mangled.getD f.name
    if !(namesIdentical f.canonical m f.cc) then some m else none

/-- the attribute pushed by `Function::codegen` (not generating a dynamic library) -/
def fnLinkAttr (f : FnIn) : LinkAttr :=
  match fnLinkNameAttr f with
  | some l => .raw l
  | none => if f.internal && f.wrapStatic then .plain (f.canonical ++ f.suffix) else .none

structure VarIn where
  name : Name
  canonical : Name
  mangled : Option Name
  linkOverride : Option Name
  deriving Repr, Inhabited

/-- the attribute pushed by `Var::codegen`: NB an explicit override only selects `symbol` (used for
dynamic loading); no attribute is pushed for it. -/
def varLinkAttr (v : VarIn) : LinkAttr :=
  match v.linkOverride with
  | some _ => .none
  | none =>
    let l := v.mangled.getD v.name
    if namesIdentical v.canonical l .var then .none else .raw l

/-! ## what the backend turns a C-level name into -/

inductive TargetFamily where
  | elf        -- `m:e`  (Linux, BSD, …): identity
  | machO      -- `m:o`  (Darwin): `_` prefix
  | win32x86   -- `m:x`  (32-bit x86 COFF): `_` prefix, stdcall/fastcall/vectorcall decoration
  | win64      -- `m:w`  (other COFF): identity
  deriving DecidableEq, Repr, Inhabited

/-- decimal digits of `n`, most significant first (fuel-based so that it reduces in the kernel) -/
def decimalAux : Nat → Nat → Name → Name
  | 0, _, acc => acc
  | fuel + 1, n, acc =>
    let acc' := UInt8.ofNat (48 + n % 10) :: acc
    if n / 10 = 0 then acc' else decimalAux fuel (n / 10) acc'

def decimal (n : Nat) : Name := decimalAux (n + 1) n []

/-- LLVM `Mangler::getNameWithPrefix` for a global with C-level name `n` whose function type has
calling convention `cc` and `argBytes` bytes of (4-byte-rounded) arguments. -/
def platformMangle (tf : TargetFamily) (cc : CallConv) (n : Name) (argBytes : Nat) : Name :=
  match tf with
  | .elf | .win64 => n
  | .machO => us :: n
  | .win32x86 =>
    if n.head? = some qmark then n else
    match cc with
    | .known .Stdcall | .known .System => us :: n ++ atSign :: decimal argBytes
    | .known .Fastcall => atSign :: n ++ atSign :: decimal argBytes
    | .known .Vectorcall => n ++ atSign :: atSign :: decimal argBytes
    | _ => us :: n

/-- the symbol the object file produced by rustc references for `extern { fn ident(..); }`
carrying attribute `a` -/
def symbolReferenced (tf : TargetFamily) (cc : CallConv) (ident : Name) (a : LinkAttr) (argBytes : Nat) : Name :=
  match a with
  | .none => platformMangle tf cc ident argBytes
  | .raw n => n
  | .plain n => platformMangle tf cc n argBytes

/-- does the target prepend something to plain C names? -/
def prefixes : TargetFamily → Bool
  | .machO | .win32x86 => true
  | _ => false

/-- Region predicate of the known finding `link_name_omitted_after_rename` (decided on the
data bindgen has at hand): the attribute is omitted although the Rust name differs from
libclang's mangled name on a target that does not prefix, or equals it on one that does. -/
def renameClash (tf : TargetFamily) (canonical mangled : Name) (cc : CallConv) : Bool :=
  namesIdentical canonical mangled cc &&
    (if prefixes tf then canonical == mangled else canonical != mangled)

/-! ## de-duplication and overload numbering (`CodegenResult`) -/

def countOf (xs : List Name) (x : Name) : Nat := (xs.filter (· == x)).length

structure FnDecl where
  name : Name
  canonical : Name               -- before the overload suffix
  mangled : Option Name
  deriving Repr, Inhabited

/-- `seen_symbol_name = mangled_name.unwrap_or(&canonical_name)` -/
def FnDecl.key (d : FnDecl) : Name := d.mangled.getD d.canonical

/-- one pass of `Function::codegen` over the functions of one module, in order:
`(seen keys, canonical names counted so far)` ↦ emitted `(declaration, final Rust name)`s.
`skip d` = the function returns `None` after the seen-test but before `overload_number`
(unsupported ABI); functions rejected *before* the seen-test are not in the input list. -/
def emitFnsAux (skip : FnDecl → Bool) : List FnDecl → List Name → List Name → List (FnDecl × Name)
  | [], _, _ => []
  | d :: rest, seen, counted =>
    if seen.contains d.key then emitFnsAux skip rest seen counted
    else if skip d then emitFnsAux skip rest (d.key :: seen) counted
    else
      let k := countOf counted d.canonical
      let nm := if k = 0 then d.canonical else d.canonical ++ decimal k
      (d, nm) :: emitFnsAux skip rest (d.key :: seen) (d.canonical :: counted)

def emitFns (skip : FnDecl → Bool) (ds : List FnDecl) : List (FnDecl × Name) := emitFnsAux skip ds [] []

/-- `Var::codegen`: first variable with a given canonical name wins -/
def emitVarsAux : List Name → List Name → List Name
  | [], _ => []
  | c :: rest, seen => if seen.contains c then emitVarsAux rest seen else c :: emitVarsAux rest (c :: seen)

def emitVars (cs : List Name) : List Name := emitVarsAux cs []

end BindgenModel.Link
