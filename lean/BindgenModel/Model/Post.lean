import BindgenModel.Generated.PostTables
/-! # C18 — model of `bindgen/codegen/postprocessing/{mod,merge_extern_blocks,sort_semantically}.rs`

The model is parametric in the type `α` of "token text" (only equality of texts matters); the
line-protocol driver instantiates it with interned identifiers.

* `Item`: what `syn::Item` is to the passes — a plain item (its `syn::Item` variant, hence its sort
  rank, and its token text), a foreign mod (`ItemForeignMod{attrs, abi, unsafety, items}`), or an
  inline module `mod m { … }` (header text = attributes/visibility/name, and its items).
* `mergeLevel` = `merge_extern_blocks::visit_items` (literal loop), `sortLevel` =
  `sort_semantically::visit_items` (`sort_by_key`, a *stable* sort: modelled by insertion sort;
  `Props/C18.lean` proves that any stable sort gives the same list).
* both visitors apply `visit_items` to a level and then recurse into the inline modules; `treeFile`
  is written children-first (structural recursion) and `Props/C18.lean` (`C18_visit_order`) proves
  it equal to the code's level-first order.
* `Generated.mergeKeyFields`, `Generated.sortRank`, `Generated.passes` come from the source. -/
namespace BindgenModel.Post
open BindgenModel.Generated

structure Foreign (α : Type) where
  attrs : α
  abi : α
  unsafety : Bool
  items : List α
deriving DecidableEq, Repr

inductive Item (α : Type) where
  | plain (kind : ItemKind) (text : α)
  | foreign (f : Foreign α)
  | module (head : α) (items : List (Item α))
deriving Repr

variable {α : Type} [DecidableEq α]

/-- the key of `sort_by_key` -/
def Item.rank : Item α → Nat
  | .plain k _ => sortRank k
  | .foreign _ => sortRank .foreignMod
  | .module _ _ => sortRank .mod

def Item.isForeign : Item α → Bool
  | .foreign _ => true
  | _ => false

def Item.asForeign : Item α → Option (Foreign α)
  | .foreign f => some f
  | _ => none

/-! ## merge_extern_blocks -/

def fieldEq (a b : Foreign α) : MergeField → Bool
  | .attrs => a.attrs == b.attrs
  | .abi => a.abi == b.abi
  | .unsafety => a.unsafety == b.unsafety

/-- `extern_block.attrs == attrs && extern_block.abi == abi` (the compared fields come from the source) -/
def keyEq (fields : List MergeField) (a b : Foreign α) : Bool := fields.all (fieldEq a b)

/-- the inner `for extern_block in &mut extern_blocks` loop followed by `if !exists { push }` -/
def absorb (fields : List MergeField) : List (Foreign α) → Foreign α → List (Foreign α)
  | [], f => [f]
  | b :: bs, f =>
    if keyEq fields b f then { b with items := b.items ++ f.items } :: bs
    else b :: absorb fields bs f

/-- one iteration of `for item in std::mem::take(items)`; state = (items pushed back, extern_blocks) -/
def mergeStep (fields : List MergeField) (st : List (Item α) × List (Foreign α)) (it : Item α) :
    List (Item α) × List (Foreign α) :=
  match it with
  | .foreign f => (st.1, absorb fields st.2 f)
  | x => (st.1 ++ [x], st.2)

/-- `merge_extern_blocks::visit_items` -/
def mergeLevel (fields : List MergeField) (items : List (Item α)) : List (Item α) :=
  let st := items.foldl (mergeStep fields) ([], [])
  st.1 ++ st.2.map Item.foreign

/-! ## sort_semantically -/

/-- insert `x` before the first element whose key is not smaller (x precedes its equals:
it came first in the input) -/
def insertBy (key : β → Nat) (x : β) : List β → List β
  | [] => [x]
  | y :: ys => if key x ≤ key y then x :: y :: ys else y :: insertBy key x ys

/-- stable sort by a natural-number key -/
def stableSort (key : β → Nat) : List β → List β
  | [] => []
  | x :: xs => insertBy key x (stableSort key xs)

/-- `sort_semantically::visit_items` -/
def sortLevel (items : List (Item α)) : List (Item α) := stableSort Item.rank items

/-! ## pass selection and recursion -/

structure Config where
  merge : Bool
  sort : Bool
deriving DecidableEq, Repr

def Config.runs (c : Config) : Pass → Bool
  | .mergeExternBlocks => c.merge
  | .sortSemantically => c.sort

def passLevel (fields : List MergeField) : Pass → List (Item α) → List (Item α)
  | .mergeExternBlocks => mergeLevel fields
  | .sortSemantically => sortLevel

mutual
/-- apply the level operation `L` to the item list of every inline module (children first) -/
def treeItem (L : List (Item α) → List (Item α)) : Item α → Item α
  | .module h is => .module h (L (treeList L is))
  | x => x
def treeList (L : List (Item α) → List (Item α)) : List (Item α) → List (Item α)
  | [] => []
  | x :: xs => treeItem L x :: treeList L xs
end

/-- … and to the file's own item list -/
def treeFile (L : List (Item α) → List (Item α)) (items : List (Item α)) : List (Item α) :=
  L (treeList L items)

/-- `merge_extern_blocks(file)` / `sort_semantically(file)`: `visit_items` on the file's items and on
the items of every inline module (`Props/C18.lean`, `C18_visit_order`: level-first = children-first) -/
def passFile (fields : List MergeField) (p : Pass) (items : List (Item α)) : List (Item α) :=
  treeFile (passLevel fields p) items

/-- `for pass in PASSES { if (pass.should_run)(options) { (pass.run)(&mut file) } }` -/
def postprocessWith (fields : List MergeField) (passes : List Pass) (c : Config) (items : List (Item α)) :
    List (Item α) :=
  passes.foldl (fun file p => if c.runs p then passFile fields p file else file) items

/-- `postprocessing(items, options)` with the tables extracted from the source -/
def postprocess (c : Config) (items : List (Item α)) : List (Item α) :=
  postprocessWith mergeKeyFields passes c items

/-! ## observations used by the property -/

/-- a foreign item together with its block's attributes, ABI and unsafety -/
structure Tuple (α : Type) where
  attrs : α
  abi : α
  unsafety : Bool
  item : α
deriving DecidableEq, Repr

def Foreign.tuples (f : Foreign α) : List (Tuple α) := f.items.map fun i => ⟨f.attrs, f.abi, f.unsafety, i⟩

def blocksOf (items : List (Item α)) : List (Foreign α) := items.filterMap Item.asForeign

def tuplesOf (items : List (Item α)) : List (Tuple α) := (blocksOf items).flatMap Foreign.tuples

/-- region of known finding `merge_mixed_unsafety`: two blocks of one level agree on
(attrs, abi) but not on unsafety -/
def mixedUnsafetyBlocks : List (Foreign α) → Bool
  | [] => false
  | b :: bs => bs.any (fun c => b.attrs == c.attrs && b.abi == c.abi && b.unsafety != c.unsafety)
      || mixedUnsafetyBlocks bs

mutual
def mixedUnsafetyItem : Item α → Bool
  | .module _ is => mixedUnsafetyBlocks (blocksOf is) || mixedUnsafetyList is
  | _ => false
def mixedUnsafetyList : List (Item α) → Bool
  | [] => false
  | x :: xs => mixedUnsafetyItem x || mixedUnsafetyList xs
end

/-- the region predicate on a whole file -/
def mixedUnsafety (items : List (Item α)) : Bool :=
  mixedUnsafetyBlocks (blocksOf items) || mixedUnsafetyList items

end BindgenModel.Post
