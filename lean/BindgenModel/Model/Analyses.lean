import BindgenModel.Model.IR
import BindgenModel.Model.Worklist
/-!
# The fix-point analyses of `bindgen/ir/analysis/*.rs` as instances of the work-list framework

Every `constrain` is put in the normal form

  `rule s n = const n ⊔ ⨆_{t ∈ terms n} t.fn (⨆_{c ∈ t.children} s c)`

over the three-point chain `0 < 1 < 2` (`No < SelfHasVtable < BaseHasVtable`,
`ZeroSized < DependsOnTypeParam < NonZeroSized`, `Yes < Manually < No`; the boolean analyses use
`0 < 1`), with every `t.fn` a monotone table.  `compile*` build the normal form from the dumped IR
exactly as the Rust `constrain` functions read it; the edge filters (`considerEdge`, the
`DeriveTrait` tables) come from `Generated/AnalysisTables.lean`, regenerated from the source.

`used_template_params` (a power-set lattice) is not modelled here.
-/
namespace BindgenModel.Analyses
open BindgenModel.IR BindgenModel.Generated BindgenModel.Worklist

abbrev V := Fin 3

/-- join of the chain -/
def vmax (a b : V) : V := if a ≤ b then b else a

structure MonoFn where
  f : V → V
  mono : ∀ a b : V, a ≤ b → f a ≤ f b

def MonoFn.id : MonoFn := ⟨fun x => x, fun _ _ h => h⟩
/-- `x ≠ ⊥ ↦ ⊤`, `⊥ ↦ ⊥`  (e.g. "any base has a vtable ⇒ BaseHasVtable", "inner ≠ Yes ⇒ No") -/
def MonoFn.nonBotToTop : MonoFn := ⟨fun x => if x = 0 then 0 else 2, by decide⟩
/-- `x ≠ ⊥ ↦ 1` (boolean "any child is in the set") -/
def MonoFn.nonBotToOne : MonoFn := ⟨fun x => if x = 0 then 0 else 1, by decide⟩

structure Term where
  children : List Nat
  fn : MonoFn

structure NodeRule where
  const : V := 0
  terms : List Term := []
  /-- Horn clauses over boolean facts: the rule yields 1 when every atom of some clause is non-⊥
  (used by the template-parameter usage analysis) -/
  conj : List (List Nat) := []

instance : Inhabited NodeRule := ⟨{}⟩

def joinList (l : List V) : V := l.foldl vmax 0

def clauseVal (s : Nat → V) (c : List Nat) : V := if c.all (fun a => s a != 0) then 1 else 0

def NodeRule.eval (r : NodeRule) (s : Nat → V) : V :=
  vmax (vmax r.const (joinList (r.terms.map fun t => t.fn.f (joinList (t.children.map s)))))
    (joinList (r.conj.map (clauseVal s)))

def NodeRule.reads (r : NodeRule) : List Nat := r.terms.flatMap (·.children) ++ r.conj.flatMap id

/-- an analysis instance: node list, per-node rule, dependants -/
structure Instance where
  nodes : List Nat
  rules : Array NodeRule
  deps : Array (List Nat)
  /-- initial work-list, top of the stack first -/
  initWl : List Nat

def Instance.framework (I : Instance) : Framework Nat V where
  nodes := I.nodes
  bot := 0
  join := vmax
  le := fun a b => decide (a ≤ b)
  rank := fun v => v.val
  height := 2
  rule := fun s n => (I.rules.getD n {}).eval s
  deps := fun n => I.deps.getD n []
  reads := fun n => (I.rules.getD n {}).reads

def Instance.solve (I : Instance) (size : Nat) : Array V := analyzeA I.framework size I.initWl

/-- the decidable side condition of the stability theorem on a concrete graph: every node a
rule reads re-queues the reader (`reads_deps`) -/
def Instance.readsCovered (I : Instance) : Bool :=
  I.nodes.all fun n => (I.rules.getD n {}).reads.all fun c => (I.deps.getD c []).contains n

/-- nodes violating `readsCovered` (diagnostics for the correspondence report) -/
def Instance.uncovered (I : Instance) : List Nat :=
  I.nodes.filter fun n => !((I.rules.getD n {}).reads.all fun c => (I.deps.getD c []).contains n)

def Instance.depsClosed (I : Instance) : Bool :=
  I.nodes.all fun n => (I.deps.getD n []).all fun m => I.nodes.contains m

/-- the rules are Horn rules: no `terms`, constant 0 or 1; and only facts of the instance have a rule -/
def Instance.hornOnly (I : Instance) : Bool :=
  (List.range I.rules.size).all fun k =>
    let r := I.rules.getD k {}
    r.terms.isEmpty && decide (r.const ≤ 1) && (I.nodes.contains k || (r.const == 0 && r.conj.isEmpty))

/-! ## dependency construction: `generate_dependencies` -/

/-- `deps[sub].push(item)` for every allow-listed `item` (ascending) and every traced edge
`item → sub` with `sub` allow-listed and the edge kind considered -/
def optList (o : Option Nat) : List Nat := match o with | some x => [x] | none => []

def depEdges (g : IR) (item : Nat) : List (Nat × EdgeKind) :=
  let i := g.get item
  -- the bases and fields of an opaque compound type are not traced, but they re-queue it
  if i.kind == .type && i.isOpaque then
    if i.tk == .comp then
      i.edges ++ i.bases.map (fun b => (b.1, EdgeKind.baseMember)) ++
        (i.dataFields ++ i.bitfieldTys |>.map fun t => (t, EdgeKind.field))
    else if (i.tk == .alias || i.tk == .templateAlias || i.tk == .blockPointer || i.tk == .vector)
        && !(i.hasName && i.stdint) then
      -- opaque and not "traced unconditionally": `Type::trace` is called on its behalf
      i.edges ++ (optList i.inner).map fun t => (t, EdgeKind.typeReference)
    else i.edges
  else i.edges

def genDeps (g : IR) (consider : EdgeKind → Bool) (keep : Nat → Bool) : Array (List Nat) :=
  g.allowlisted.foldl (fun acc item =>
    if !keep item then acc else
    (depEdges g item).foldl (fun acc (e : Nat × EdgeKind) =>
      if (g.get e.1).allowlisted && consider e.2 && keep e.1 then
        acc.modify e.1 (· ++ [item])
      else acc) acc) (Array.replicate g.size [])

def isType (g : IR) (n : Nat) : Bool := (g.get n).kind == .type

/-- children that are nodes of the analysis (others are never in any result map: read as ⊥) -/
def live (g : IR) (cs : List Nat) : List Nat := cs.filter fun c => (g.get c).allowlisted


/-! ## has_vtable -/

def ruleHasVtable (g : IR) (n : Nat) : NodeRule :=
  let i := g.get n
  if i.kind != .type then {} else
  match i.tk with
  | .templateAlias | .alias | .resolvedTypeRef | .reference =>
    { terms := [⟨live g (optList i.inner), .id⟩] }
  | .comp =>
    { const := if i.ownVirtual then 1 else 0,
      terms := [⟨live g (i.bases.map (·.1)), .nonBotToTop⟩] }
  | .templateInstantiation => { terms := [⟨live g (optList i.tmplDef), .id⟩] }
  | _ => {}

/-! ## has_destructor, has_float, has_type_param_in_array (boolean: values 0 / 1) -/

def ruleHasDestructor (g : IR) (n : Nat) : NodeRule :=
  let i := g.get n
  if i.kind != .type then {} else
  match i.tk with
  | .templateAlias | .alias | .resolvedTypeRef => { terms := [⟨live g (optList i.inner), .nonBotToOne⟩] }
  | .comp =>
    if i.ownDtor then { const := 1 }
    else if i.isUnion then {}
    else { terms := [⟨live g (i.bases.map (·.1) ++ i.dataFields), .nonBotToOne⟩] }
  | .templateInstantiation => { terms := [⟨live g (optList i.tmplDef ++ i.tmplArgs), .nonBotToOne⟩] }
  | _ => {}

def ruleHasFloat (g : IR) (n : Nat) : NodeRule :=
  let i := g.get n
  if i.kind != .type then {} else
  match i.tk with
  | .float | .complex => { const := 1 }
  | .array | .vector | .resolvedTypeRef | .templateAlias | .alias | .blockPointer =>
    { terms := [⟨live g (optList i.inner), .nonBotToOne⟩] }
  | .comp => { terms := [⟨live g (i.bases.map (·.1) ++ i.dataFields ++ i.bitfieldTys), .nonBotToOne⟩] }
  | .templateInstantiation => { terms := [⟨live g (i.tmplArgs ++ optList i.tmplDef), .nonBotToOne⟩] }
  | _ => {}

def ruleHasTypeParamInArray (g : IR) (n : Nat) : NodeRule :=
  let i := g.get n
  if i.kind != .type then {} else
  match i.tk with
  | .array => match i.inner with
    | some t => { const := if (g.get (g.canon t)).tk == .typeParam then 1 else 0 }
    | none => {}
  | .resolvedTypeRef | .templateAlias | .alias | .blockPointer =>
    { terms := [⟨live g (optList i.inner), .nonBotToOne⟩] }
  | .comp => { terms := [⟨live g (i.bases.map (·.1) ++ i.dataFields), .nonBotToOne⟩] }
  | .templateInstantiation => { terms := [⟨live g (i.tmplArgs ++ optList i.tmplDef), .nonBotToOne⟩] }
  | _ => {}

/-! ## sizedness (nodes = allow-listed *types*) -/

def liveTy (g : IR) (cs : List Nat) : List Nat := cs.filter fun c => (g.get c).allowlisted && isType g c

/-- `hasVtablePtr n` = the has_vtable result is `SelfHasVtable` -/
def ruleSizedness (g : IR) (hasVtablePtr : Nat → Bool) (n : Nat) : NodeRule :=
  let i := g.get n
  if hasVtablePtr n then { const := 2 } else
  if i.isOpaque then
    { const := match i.layout with
      | some (sz, _) => if sz = 0 then 0 else 2
      | none => 0 }
  else
  match i.tk with
  | .void => {}
  | .typeParam => { const := 1 }
  | .int | .float | .complex | .function | .enum | .reference | .nullPtr | .objCId | .objCSel
  | .pointer | .objCInterface => { const := 2 }
  | .templateAlias | .alias | .blockPointer | .resolvedTypeRef => { terms := [⟨liveTy g (optList i.inner), .id⟩] }
  | .templateInstantiation => { terms := [⟨liveTy g (optList i.tmplDef), .id⟩] }
  | .array => { const := if i.len = 0 then 0 else 2 }
  | .vector => { const := 2 }
  | .comp =>
    if !i.fields.isEmpty then { const := 2 }
    else { terms := [⟨liveTy g (i.bases.map (·.1)), .id⟩] }
  | _ => {}

/-! ## cannot-derive (one analysis per `DeriveTrait`); values `Yes = 0 < Manually = 1 < No = 2` -/

def nbnIndex : DeriveTrait → Nat
  | .copy => 0 | .debug => 1 | .default => 2 | .hash => 3 | .partialEqOrPartialOrd => 4

def canDeriveSimple (t : DeriveTrait) (k : TyKind) : V :=
  match t, k with
  | .default, .void | .default, .nullPtr | .default, .enum | .default, .reference
  | .default, .typeParam | .default, .objCInterface | .default, .objCId | .default, .objCSel => 2
  | .hash, .float | .hash, .complex => 2
  | _, _ => 0

def canDeriveFnptr (t : DeriveTrait) (fpCanDerive : Bool) : V :=
  match t, fpCanDerive with
  | .copy, _ | .default, _ => 0
  | _, true => 0
  | .debug, false => 1
  | _, false => 2

def canDeriveVector (t : DeriveTrait) : V := if t = .partialEqOrPartialOrd then 2 else 0
def canDerivePointer (t : DeriveTrait) : V := if t = .default then 2 else 0

/-- `blocklisted_type_implements_trait` without callbacks: stdint names `Yes`, else `No` -/
def blocklistedImpl (g : IR) (n : Nat) : V :=
  let i := g.get n
  if i.hasName && i.stdint then 0 else 2

/-- `constrain_join`: join over the traced edges admitted by `pred` (allow-listed targets are
read from the state, the others have the constant `blocklisted_type_implements_trait`) -/
def joinEdges (g : IR) (n : Nat) (pred : EdgeKind → Bool) (inNodes : Nat → Bool) : NodeRule :=
  let subs := ((g.get n).edges.filter fun e => e.1 != n && pred e.2).map (·.1)
  let consts := (subs.filter fun c => !(g.get c).allowlisted && inNodes c).map fun c =>
    if isType g c then blocklistedImpl g c else 0
  { const := joinList consts, terms := [⟨subs.filter fun c => (g.get c).allowlisted, .id⟩] }

structure DeriveCtx where
  hasDestructor : Nat → Bool
  hasVtable : Nat → Bool

def ruleDeriveType (g : IR) (cx : DeriveCtx) (t : DeriveTrait) (inNodes : Nat → Bool) (n : Nat) : NodeRule :=
  let i := g.get n
  if !i.allowlisted then { const := blocklistedImpl g n } else
  if i.nbn.getD (nbnIndex t) false then { const := 2 } else
  if i.isOpaque then
    { const := if !canDeriveUnion t && ((g.get (g.canon n)).tk == .comp && (g.get (g.canon n)).isUnion) && g.opts.untaggedUnion then 2 else 0 }
  else
  match i.tk with
  | .void | .nullPtr | .int | .complex | .float | .enum | .typeParam | .unresolvedTypeRef | .reference
  | .objCInterface | .objCId | .objCSel => { const := canDeriveSimple t i.tk }
  | .pointer => match i.inner with
    | some p =>
      let c := g.get (g.canon p)
      { const := if c.tk == .function then canDeriveFnptr t c.fpCanDerive else canDerivePointer t }
    | none => { const := canDerivePointer t }
  | .function => { const := canDeriveFnptr t i.fpCanDerive }
  | .array =>
    let rest : V :=
      if i.len = 0 && !canDeriveIncompleteArray t then 2
      else if canDeriveLargeArray t then 0
      else if i.len > rustDeriveInArrayLimit then 1 else 0
    match i.inner with
    | some e =>
      if (g.get e).allowlisted then { const := rest, terms := [⟨[e], .nonBotToTop⟩] }
      else { const := vmax rest (if inNodes e && blocklistedImpl g e != 0 then 2 else 0) }
    | none => { const := rest }
  | .vector =>
    match i.inner with
    | some e =>
      if (g.get e).allowlisted then { const := canDeriveVector t, terms := [⟨[e], .nonBotToTop⟩] }
      else { const := vmax (canDeriveVector t) (if inNodes e && blocklistedImpl g e != 0 then 2 else 0) }
    | none => { const := canDeriveVector t }
  | .comp =>
    if !canDeriveCompoundForwardDecl t && i.fwd then { const := 2 }
    else if !canDeriveCompoundWithDestructor t && cx.hasDestructor n then { const := 2 }
    else if i.isUnion && canDeriveUnion t && g.opts.untaggedUnion &&
        (!i.selfTparams.isEmpty || !i.allTparams.isEmpty) then { const := 2 }
    else if i.isUnion && !canDeriveUnion t then { const := if g.opts.untaggedUnion then 2 else 0 }
    else if !canDeriveCompoundWithVtable t && cx.hasVtable n then { const := 2 }
    else if !canDeriveLargeArray t && i.tooLargeBf && !i.isOpaque then { const := 2 }
    else joinEdges g n (deriveEdgeComp t) inNodes
  | .resolvedTypeRef | .templateAlias | .alias | .blockPointer => joinEdges g n (deriveEdgeTyperef t) inNodes
  | .templateInstantiation => joinEdges g n (deriveEdgeTmplInst t) inNodes
  | _ => {}

def ruleDerive (g : IR) (cx : DeriveCtx) (t : DeriveTrait) (inNodes : Nat → Bool) (n : Nat) : NodeRule :=
  let i := g.get n
  if i.kind == .type then
    let r := ruleDeriveType g cx t inNodes n
    -- a `Yes` is downgraded to `Manually` when the type's own alignment exceeds the array limit
    let bump : Bool := !canDeriveLargeArray t &&
      (match i.layout with | some (_, al) => al > rustDeriveInArrayLimit | none => false)
    if bump then { r with const := vmax r.const 1 } else r
  else joinEdges g n (considerEdge .deriveDefault) inNodes

/-! ## instances -/

def mkRules (size : Nat) (f : Nat → NodeRule) (nodes : List Nat) : Array NodeRule :=
  nodes.foldl (fun acc n => acc.setIfInBounds n (f n)) (Array.replicate size {})

def simpleInstance (g : IR) (filter : EdgeFilter) (rule : Nat → NodeRule) : Instance :=
  let nodes := g.allowlisted
  { nodes := nodes, rules := mkRules g.size rule nodes,
    deps := genDeps g (considerEdge filter) (fun _ => true), initWl := nodes.reverse }

def hasVtableInstance (g : IR) : Instance := simpleInstance g .hasVtable (ruleHasVtable g)
def hasDestructorInstance (g : IR) : Instance := simpleInstance g .hasDestructor (ruleHasDestructor g)
def hasFloatInstance (g : IR) : Instance := simpleInstance g .hasFloat (ruleHasFloat g)
def hasTypeParamInArrayInstance (g : IR) : Instance :=
  simpleInstance g .hasTypeParamInArray (ruleHasTypeParamInArray g)

def sizednessInstance (g : IR) (hasVtablePtr : Nat → Bool) : Instance :=
  let nodes := g.allowlisted.filter (isType g)
  { nodes := nodes, rules := mkRules g.size (ruleSizedness g hasVtablePtr) nodes,
    deps := genDeps g (considerEdge .sizedness) (isType g), initWl := nodes.reverse }

/-- `CannotDerive::initial_worklist`: every allow-listed item followed by its traced successors -/
def deriveWorklist (g : IR) : List Nat :=
  g.allowlisted.flatMap fun i => i :: (g.get i).edges.map (·.1)

def deriveInstance (g : IR) (cx : DeriveCtx) (t : DeriveTrait) : Instance :=
  let wl := deriveWorklist g
  let mark : Array Bool := wl.foldl (fun acc n => acc.setIfInBounds n true) (Array.replicate g.size false)
  let nodes := (List.range g.size).filter fun n => mark.getD n false
  let inNodes := fun n => mark.getD n false
  { nodes := nodes, rules := mkRules g.size (ruleDerive g cx t inNodes) nodes,
    deps := genDeps g (considerEdge .deriveDefault) (fun _ => true), initWl := wl.reverse }

/-! ## used template parameters, as Horn clauses over the facts "item `n` uses parameter `p`"

Fact `(n, j)` (node index `n * P + j`, `P` = number of `TypeParam` items, `j` the index of the
parameter) holds iff item `n` uses the `j`-th type parameter. -/

/-- `ItemResolver` through type refs and (plain) aliases, with fuel -/
def resolveThrough (g : IR) : Nat → Nat → Nat
  | 0, n => n
  | k + 1, n =>
    let i := g.get n
    if i.kind == .type && (i.tk == .resolvedTypeRef || i.tk == .alias) then
      match i.inner with
      | some t => resolveThrough g k t
      | none => n
    else n

/-- `Type::self_template_params` -/
def selfParams (g : IR) : Nat → Nat → List Nat
  | 0, _ => []
  | k + 1, n =>
    let i := g.get n
    match i.tk with
    | .resolvedTypeRef => match i.inner with
      | some t => selfParams g k t
      | none => []
    | .comp | .templateAlias => i.selfTparams
    | _ => []

structure TemplateSetup where
  tps : List Nat
  nodes : List Nat
  inNodes : Array Bool

def templateSetup (g : IR) : TemplateSetup :=
  let wl := deriveWorklist g
  let mark : Array Bool := wl.foldl (fun acc n => acc.setIfInBounds n true) (Array.replicate g.size false)
  let nodes := (List.range g.size).filter fun n => mark.getD n false
  { tps := (List.range g.size).filter fun n => (g.get n).kind == .type && (g.get n).tk == .typeParam,
    nodes := nodes, inNodes := mark }

def templateRule (g : IR) (ts : TemplateSetup) (n j : Nat) : NodeRule :=
  let P := ts.tps.length
  let p := ts.tps.getD j 0
  let i := g.get n
  let atom := fun (m k : Nat) => m * P + k
  if i.kind == .type && i.tk == .typeParam then { const := if n == p then 1 else 0 }
  else if i.kind == .type && i.tk == .templateInstantiation then
    match i.tmplDef with
    | none => {}
    | some d =>
      if (g.get d).allowlisted then
        let params := selfParams g g.size d
        let clauses := (i.tmplArgs.zip params).filterMap fun (arg, param) =>
          let a := resolveThrough g g.size arg
          if a == n then none else
          match ts.tps.idxOf? param with
          | some pj => some [atom d pj, atom a j]
          | none => none
        { conj := clauses }
      else
        { conj := (i.tmplArgs.map (resolveThrough g g.size)).filter (· != n) |>.map fun a => [atom a j] }
  else
    { conj := (i.edges.filter fun e => e.1 != n && considerEdge .usedTemplateParams e.2).map fun e => [atom e.1 j] }

/-- the least solution of the clauses, by the same work-list engine on the pair graph -/
def templateInstance (g : IR) : Instance × TemplateSetup :=
  let ts := templateSetup g
  let P := ts.tps.length
  let pairs := ts.nodes.flatMap fun n => (List.range P).map fun j => n * P + j
  let size := g.size * P
  let rules := pairs.foldl (fun (acc : Array NodeRule) k => acc.setIfInBounds k (templateRule g ts (k / P) (k % P)))
    (Array.replicate size {})
  -- dependants: every pair read by a clause re-queues the reader
  let deps := pairs.foldl (fun (acc : Array (List Nat)) k =>
    (rules.getD k {}).reads.foldl (fun acc c => if c < size then acc.modify c (k :: ·) else acc) acc)
    (Array.replicate size [])
  ({ nodes := pairs, rules := rules, deps := deps, initWl := pairs.reverse }, ts)

/-- used sets per item: `(item, [params])` for non-empty sets -/
def templateSolve (g : IR) : List (Nat × List Nat) :=
  let (I, ts) := templateInstance g
  let P := ts.tps.length
  if P = 0 then [] else
  let sol := I.solve (g.size * P)
  ts.nodes.filterMap fun n =>
    let used := (List.range P).filterMap fun j => if sol.getD (n * P + j) 0 != 0 then ts.tps[j]? else none
    if used.isEmpty then none else some (n, used)

/-- `find_used_template_parameters` when `allowlist_recursively` is off (ir/context.rs): no
analysis runs; every allowlisted item is said to use exactly its *own* template parameters
(`id.self_template_params(ctx)`), nothing from its ancestors and nothing through its members. -/
def templateNonRecursive (g : IR) : List (Nat × List Nat) :=
  (List.range g.size).filterMap fun n =>
    let i := g.get n
    if i.allowlisted then
      let ps := if i.kind == .type then selfParams g g.size n else []
      if ps.isEmpty then none else some (n, ps)
    else none

/-- `BindgenContext::uses_any_template_parameters` over either map -/
def usesAny (used : List (Nat × List Nat)) (n : Nat) : Bool :=
  match used.find? (·.1 == n) with
  | some e => !e.2.isEmpty
  | none => false

end BindgenModel.Analyses
